(** Proofs about the handshake effect model (property C02). *)
From CM Require Import Lib.Str Lib.QualSteps Gen.Consts Handshake.Model.
From Coq Require Import Lia.
Open Scope N_scope.

Ltac inv H := inversion H; subst; clear H.
Ltac dlet H :=
  match type of H with
  | context [let '(_, _) := ?x in _] => let E := fresh "E" in destruct x eqn:E
  end.

(** * 1. The scan *)
Section Scan.
  Variable is_space : N -> bool.
  Variable n : name.

  (** [scan] plus: the name qualifies wherever an Issue / Load occurs *)
  Fixpoint scanq (st : option bool) (l : list effect) : option (option bool) :=
    match l with
    | [] => Some st
    | e :: r =>
        if is_eval e then scanq (permit_of n e) r
        else if needs_gate e then
          match st with
          | Some true => if qualifies is_space n then scanq st r else None
          | _ => None
          end
        else scanq st r
    end.

  Lemma scanq_app a b st :
    scanq st (a ++ b) = match scanq st a with Some st' => scanq st' b | None => None end.
  Proof.
    revert st; induction a as [|e a IH]; intros st; cbn [app scanq]; [reflexivity|].
    destruct (is_eval e); [apply IH|].
    destruct (needs_gate e); [|apply IH].
    destruct st as [[|]|]; try reflexivity.
    destruct (qualifies is_space n); [apply IH|reflexivity].
  Qed.

  Lemma scanq_scan l : forall st st', scanq st l = Some st' ->
    scan n st l = Some st' /\ (existsb needs_gate l = true -> qualifies is_space n = true).
  Proof.
    induction l as [|e l IH]; intros st st' H; cbn [scanq scan existsb] in *.
    - split; [assumption|discriminate].
    - destruct (is_eval e) eqn:Ee.
      + destruct (IH _ _ H) as [A B]. split; [assumption|].
        destruct (needs_gate e) eqn:En; [destruct e; discriminate|exact B].
      + destruct (needs_gate e) eqn:En.
        * destruct st as [[|]|]; try discriminate.
          destruct (qualifies is_space n) eqn:Q; [|discriminate].
          destruct (IH _ _ H) as [A B]. split; [assumption|reflexivity].
        * destruct (IH _ _ H) as [A B]. split; [assumption|exact B].
  Qed.

  Definition evalfree (l : list effect) : Prop := forallb (fun e => negb (is_eval e)) l = true.
  Definition noneed (l : list effect) : Prop := forallb (fun e => negb (needs_gate e)) l = true.

  Lemma scanq_true l : evalfree l -> qualifies is_space n = true ->
    scanq (Some true) l = Some (Some true).
  Proof.
    intros F Q; induction l as [|e l IH]; [reflexivity|].
    unfold evalfree in F; cbn [forallb] in F. apply andb_true_iff in F as [F1 F2].
    cbn [scanq]. apply negb_true_iff in F1. rewrite F1.
    destruct (needs_gate e); [rewrite Q|]; apply IH; exact F2.
  Qed.

  Lemma scanq_quiet l st : evalfree l -> noneed l -> scanq st l = Some st.
  Proof.
    intros F G; induction l as [|e l IH]; [reflexivity|].
    unfold evalfree in F; unfold noneed in G; cbn [forallb] in F, G.
    apply andb_true_iff in F as [F1 F2]. apply andb_true_iff in G as [G1 G2].
    cbn [scanq]. apply negb_true_iff in F1, G1. rewrite F1, G1. apply IH; assumption.
  Qed.

  (** what a passing scan means, position by position *)
  Lemma scan_sound l : forall st st', scan n st l = Some st' ->
    forall i e, nth_error l i = Some e -> needs_gate e = true ->
    (exists j e', (j < i)%nat /\ nth_error l j = Some e' /\ permit_of n e' = Some true /\
        forall k e'', (j < k < i)%nat -> nth_error l k = Some e'' -> is_eval e'' = false) \/
    (st = Some true /\ forall k e'', (k < i)%nat -> nth_error l k = Some e'' -> is_eval e'' = false).
  Proof.
    induction l as [|a l IH]; intros st st' H i e Hi He; [destruct i; discriminate|].
    cbn [scan] in H. destruct i as [|i].
    - cbn in Hi. inv Hi. destruct (is_eval e) eqn:Ee; [destruct e; discriminate|].
      rewrite He in H. destruct st as [[|]|]; try discriminate.
      right. split; [reflexivity|]. intros k e'' Hk; lia.
    - cbn [nth_error] in Hi.
      destruct (is_eval a) eqn:Ea.
      + destruct (IH _ _ H _ _ Hi He) as [(j & e' & Hj & Hn & Hp & Hb)|[Hs Hb]].
        * left. exists (S j), e'. split; [lia|]. split; [exact Hn|]. split; [exact Hp|].
          intros k e'' Hk Hk'. destruct k as [|k]; [lia|]. apply (Hb k e''); [lia|exact Hk'].
        * left. exists O, a. split; [lia|]. split; [reflexivity|]. split; [exact Hs|].
          intros k e'' Hk Hk'. destruct k as [|k]; [lia|]. apply (Hb k e''); [lia|exact Hk'].
      + assert (H' : scan n st l = Some st').
        { destruct (needs_gate a); [destruct st as [[|]|]; try discriminate|]; exact H. }
        destruct (IH _ _ H' _ _ Hi He) as [(j & e' & Hj & Hn & Hp & Hb)|[Hs Hb]].
        * left. exists (S j), e'. split; [lia|]. split; [exact Hn|]. split; [exact Hp|].
          intros k e'' Hk Hk'. destruct k as [|k]; [lia|]. apply (Hb k e''); [lia|exact Hk'].
        * right. split; [exact Hs|].
          intros k e'' Hk Hk'. destruct k as [|k]; [cbn in Hk'; inv Hk'; exact Ea|].
          apply (Hb k e''); [lia|exact Hk'].
  Qed.
End Scan.

(** * 2. Elementary facts about the primitive operations *)
Section Prims.
  Variable is_space : N -> bool.

  Lemma od_set_cache w c : w_od (set_cache w c) = w_od w. Proof. reflexivity. Qed.
  Lemma od_set_store w s : w_od (set_store w s) = w_od w. Proof. reflexivity. Qed.
  Lemma od_cache_add c w : w_od (cache_add c w) = w_od w.
  Proof. unfold cache_add; destruct (cache_has _ _); reflexivity. Qed.
  Lemma od_cache_remove i w : w_od (cache_remove i w) = w_od w. Proof. reflexivity. Qed.
  Lemma od_cache_replace a b w : w_od (cache_replace a b w) = w_od w.
  Proof. unfold cache_replace. rewrite od_cache_add. reflexivity. Qed.
  Lemma od_cache_update c w : w_od (cache_update c w) = w_od w. Proof. reflexivity. Qed.
  Lemma od_store_del m w : w_od (store_del m w) = w_od w. Proof. reflexivity. Qed.
  Lemma od_store_put m c w : w_od (store_put m c w) = w_od w. Proof. reflexivity. Qed.
  Lemma od_bump_fresh w : w_od (bump_fresh w) = w_od w. Proof. reflexivity. Qed.
  Lemma od_bump_evals w : w_od (bump_evals w) = w_od w. Proof. reflexivity. Qed.

  Lemma od_on_eq w w' : w_od w' = w_od w -> od_on w' = od_on w.
  Proof. unfold od_on; intros ->; reflexivity. Qed.

  (** gate *)
  Lemma gate_od w n req ge a w1 : gate is_space w n req = (ge, a, w1) -> w_od w1 = w_od w.
  Proof.
    unfold gate. destruct (req && negb (od_on w)); [intros H; inv H; reflexivity|].
    destruct (negb (qualifies is_space n)); [intros H; inv H; reflexivity|].
    destruct (w_od w) as [[f|l]|] eqn:E; intros H; inv H; cbn; auto.
  Qed.

  Lemma gate_shape w n req ge a w1 : gate is_space w n req = (ge, a, w1) ->
    ge = [] \/ ge = [EDecision n a] \/ ge = [EAllow n a].
  Proof.
    unfold gate. destruct (req && negb (od_on w)); [intros H; inv H; auto|].
    destruct (negb (qualifies is_space n)); [intros H; inv H; auto|].
    destruct (w_od w) as [[f|l]|]; intros H; inv H; auto.
  Qed.

  Lemma permit_of_self_d n a : permit_of n (EDecision n a) = Some a.
  Proof. cbn. destruct (str_eqb n n) eqn:E; [reflexivity|]. assert (n = n) by reflexivity. apply str_eqb_eq in H. congruence. Qed.
  Lemma permit_of_self_a n a : permit_of n (EAllow n a) = Some a.
  Proof. cbn. destruct (str_eqb n n) eqn:E; [reflexivity|]. assert (n = n) by reflexivity. apply str_eqb_eq in H. congruence. Qed.

  (** scanning the effects of a gate never fails; if the gate lets through while on-demand is on,
      the state afterwards is "yes" and the name qualifies *)
  Lemma gate_scan w n req ge a w1 st : gate is_space w n req = (ge, a, w1) ->
    exists st', scanq is_space n st ge = Some st' /\
      (a = true -> od_on w = true -> st' = Some true /\ qualifies is_space n = true).
  Proof.
    unfold gate. destruct (req && negb (od_on w)).
    { intros H; inv H. exists st; split; [reflexivity|discriminate]. }
    destruct (qualifies is_space n) eqn:Q; cbn [negb].
    2:{ intros H; inv H. exists st; split; [reflexivity|discriminate]. }
    unfold od_on. destruct (w_od w) as [[f|l]|]; intros H; inv H.
    - exists (Some (f (w_evals w) n)). cbn [scanq is_eval]. rewrite permit_of_self_d.
      split; [reflexivity|]. intros -> _. split; [f_equal; assumption|reflexivity].
    - exists (Some (allow_ok l n)). cbn [scanq is_eval]. rewrite permit_of_self_a.
      split; [reflexivity|]. intros -> _. split; [f_equal; assumption|reflexivity].
    - exists st. split; [reflexivity|]. intros _ D; discriminate.
  Qed.

  Lemma gate_noneed w n req ge a w1 : gate is_space w n req = (ge, a, w1) -> noneed ge.
  Proof. intros H. destruct (gate_shape _ _ _ _ _ _ H) as [->|[->| ->]]; reflexivity. Qed.

  Lemma gate_noissue w n req ge a w1 : gate is_space w n req = (ge, a, w1) ->
    existsb is_issue ge = false.
  Proof. intros H. destruct (gate_shape _ _ _ _ _ _ H) as [->|[->| ->]]; reflexivity. Qed.

  (** a gate that requires on-demand denies when it is off; an unqualified name is always denied,
      silently *)
  Lemma gate_req_off w n ge a w1 : gate is_space w n true = (ge, a, w1) -> od_on w = false ->
    ge = [] /\ a = false /\ w1 = w.
  Proof. unfold gate. intros H D. rewrite D in H. cbn in H. inv H. auto. Qed.

  (** the storage / issuer primitives make no policy evaluation *)
  Lemma obtain_cert_facts w n ok e o w1 : obtain_cert w n ok = (e, o, w1) ->
    evalfree e /\ w_od w1 = w_od w.
  Proof.
    unfold obtain_cert. destruct (store_has n w); [|destruct ok]; intros H; inv H; split; reflexivity.
  Qed.
  Lemma renew_cert_facts w n force ok e o w1 : renew_cert w n force ok = (e, o, w1) ->
    evalfree e /\ w_od w1 = w_od w.
  Proof.
    unfold renew_cert. destruct (store_find n w); [destruct (due _ || force); [destruct ok|]|];
      intros H; inv H; split; reflexivity.
  Qed.
  Lemma reload_facts w c e r w1 : reload w c = (e, r, w1) -> evalfree e /\ w_od w1 = w_od w.
  Proof.
    unfold reload. destruct (store_find _ w); intros H; inv H; split; try reflexivity.
    apply od_cache_replace.
  Qed.

  Lemma evalfree_app a b : evalfree a -> evalfree b -> evalfree (a ++ b).
  Proof. unfold evalfree. rewrite forallb_app. intros -> ->; reflexivity. Qed.
  Lemma evalfree_cons e a : is_eval e = false -> evalfree a -> evalfree (e :: a).
  Proof. unfold evalfree; cbn [forallb]. intros -> ->; reflexivity. Qed.

  Ltac ef := unfold evalfree in *; cbn [forallb app is_eval negb]; rewrite ?forallb_app;
    cbn [forallb is_eval negb andb];
    repeat match goal with H : forallb _ _ = true |- _ => rewrite H end; reflexivity.

  Lemma force_renew_facts w c ok e r w1 : force_renew w c ok = (e, r, w1) ->
    evalfree e /\ w_od w1 = w_od w.
  Proof.
    unfold force_renew. intros H. destruct (c_keycomp c).
    - destruct (obtain_cert _ _ _) as [[e0 o] w0] eqn:E0. cbv beta iota zeta in H.
      apply obtain_cert_facts in E0 as [F0 O0]. rewrite od_store_del in O0.
      destruct o.
      + destruct (reload w0 c) as [[e2 r2] w2] eqn:E2. apply reload_facts in E2 as [F2 O2].
        inv H. split; [ef|congruence].
      + inv H. split; [ef|rewrite od_cache_remove; assumption].
    - destruct (renew_cert _ _ _ _) as [[e0 o] w0] eqn:E0. cbv beta iota zeta in H.
      apply renew_cert_facts in E0 as [F0 O0]. destruct o.
      + destruct (reload w0 c) as [[e2 r2] w2] eqn:E2. apply reload_facts in E2 as [F2 O2].
        inv H. split; [ef|congruence].
      + inv H. split; [ef|rewrite od_cache_remove; assumption].
  Qed.
End Prims.

(** * 3. On-demand enabled, the hello has a name: every goroutine's effect list passes the scan *)
Section Gated.
  Variable is_space : N -> bool.
  Variable h : hello.
  Variable n : name.
  Hypothesis Hn : h_name h = Some n.

  Notation scq := (scanq is_space n).
  Definition anyst (e : list effect) : Prop := forall st, exists st', scq st e = Some st'.
  Definition okkid (g : list effect) : Prop := exists st', scq None g = Some st'.

  Lemma anyst_nil : anyst []. Proof. intros st; exists st; reflexivity. Qed.
  Lemma anyst_app a b : anyst a -> anyst b -> anyst (a ++ b).
  Proof.
    intros A B st. destruct (A st) as [s1 H1]. destruct (B s1) as [s2 H2].
    exists s2. rewrite scanq_app, H1. exact H2.
  Qed.
  Lemma anyst_quiet e : evalfree e -> noneed e -> anyst e.
  Proof. intros F G st. exists st. apply scanq_quiet; assumption. Qed.
  Lemma anyst_cons_quiet x e : is_eval x = false -> needs_gate x = false -> anyst e -> anyst (x :: e).
  Proof.
    intros A B C. change (x :: e) with ([x] ++ e). apply anyst_app; [|exact C].
    apply anyst_quiet; unfold evalfree, noneed; cbn; rewrite ?A, ?B; reflexivity.
  Qed.
  Lemma anyst_kid e : anyst e -> okkid e. Proof. intros A; exact (A None). Qed.

  (** gate, then effects that are fine once the gate said yes *)
  Lemma gate_then w req ge a w1 (rest_yes rest_no : list effect) :
    gate is_space w n req = (ge, a, w1) -> od_on w = true ->
    (qualifies is_space n = true -> scq (Some true) rest_yes = Some (Some true)) ->
    anyst rest_no ->
    anyst (ge ++ if a then rest_yes else rest_no).
  Proof.
    intros G D Y No st. destruct (gate_scan is_space _ _ _ _ _ _ st G) as (s0 & H0 & Imp).
    rewrite scanq_app, H0. destruct a.
    - destruct (Imp eq_refl D) as [-> Q]. exists (Some true). apply Y; exact Q.
    - apply No.
  Qed.

  Lemma rar_scan w c ok e r w1 : renew_and_reload is_space w n c ok = (e, r, w1) ->
    od_on w = true -> anyst e /\ w_od w1 = w_od w.
  Proof.
    unfold renew_and_reload. intros H D.
    destruct (gate is_space w n true) as [[ge a] w0] eqn:G. cbv beta iota zeta in H.
    pose proof (gate_od _ _ _ _ _ _ _ G) as O0.
    destruct a; cbn [negb] in H.
    - destruct (c_revoked c).
      + destruct (force_renew w0 c ok) as [[e1 r1] w2] eqn:E1. apply force_renew_facts in E1 as [F1 O1].
        inv H. split; [|congruence].
        apply (gate_then _ _ _ true _ e1 []) with (1 := G); [exact D| |apply anyst_nil].
        intros Q. apply scanq_true; assumption.
      + destruct (renew_cert w0 n false ok) as [[e1 o1] w2] eqn:E1. apply renew_cert_facts in E1 as [F1 O1].
        cbv beta iota zeta in H. destruct o1.
        * destruct (reload w2 c) as [[e2 r2] w3] eqn:E2. apply reload_facts in E2 as [F2 O2].
          inv H. split; [|congruence].
          apply (gate_then _ _ _ true _ (e1 ++ e2) []) with (1 := G); [exact D| |apply anyst_nil].
          intros Q. apply scanq_true; [apply evalfree_app|]; assumption.
        * inv H. split; [|congruence].
          apply (gate_then _ _ _ true _ e1 []) with (1 := G); [exact D| |apply anyst_nil].
          intros Q. apply scanq_true; assumption.
    - inv H. split; [|rewrite od_cache_remove; exact O0].
      apply (gate_then _ _ _ false _ [] [EEvict (c_id c)]) with (1 := G); [exact D|reflexivity|].
      apply anyst_quiet; reflexivity.
  Qed.

  Lemma rd_scan w c held e k r w1 : renew_dynamic is_space w h c held = (e, k, r, w1) ->
    od_on w = true -> anyst e /\ Forall okkid k /\ w_od w1 = w_od w.
  Proof.
    unfold renew_dynamic. rewrite Hn. intros H D. destruct held.
    - destruct (c_expired c || c_revoked c); inv H; (split; [|split; [constructor|reflexivity]]).
      + apply anyst_quiet; reflexivity.
      + apply anyst_nil.
    - destruct (c_expired c).
      + destruct (renew_and_reload _ _ _ _ _) as [[e1 r1] w2] eqn:E1.
        apply rar_scan in E1 as [A O]; [|exact D]. inv H. auto.
      + destruct (renew_and_reload _ _ _ _ _) as [[e1 r1] w2] eqn:E1.
        apply rar_scan in E1 as [A O]; [|exact D]. inv H.
        split; [apply anyst_nil|]. split; [|exact O]. constructor; [apply anyst_kid; exact A|constructor].
  Qed.

  Section Knot.
    Variable LAM : world -> hello -> name -> bool -> out (option mres).
    Hypothesis HL : forall w held e k r w1, LAM w h n held = (e, k, r, w1) ->
      od_on w = true -> qualifies is_space n = true ->
      (exists st', scq (Some true) e = Some st' /\ (r = None -> st' = Some true)) /\
      Forall okkid k /\ w_od w1 = w_od w.

    Lemma ood_scan w e k r w1 : obtain_on_demand LAM w h n = (e, k, r, w1) ->
      od_on w = true -> qualifies is_space n = true ->
      (exists st', scq (Some true) e = Some st') /\ Forall okkid k /\ w_od w1 = w_od w.
    Proof.
      unfold obtain_on_demand. intros H D Q.
      destruct (obtain_cert w n (h_issue_ok h)) as [[e1 o] w0] eqn:E1.
      apply obtain_cert_facts in E1 as [F1 O1]. cbv beta iota zeta in H. destruct o.
      - destruct (LAM w0 h n true) as [[[e2 k2] r2] w2] eqn:E2.
        apply HL in E2 as ((s2 & S2 & _) & K2 & O2); [| rewrite (od_on_eq _ _ O1); exact D | exact Q].
        inv H. split; [|split; [exact K2|congruence]].
        exists s2. rewrite scanq_app, (scanq_true is_space n e1 F1 Q). exact S2.
      - inv H. split; [|split; [constructor|exact O1]].
        exists (Some true). apply scanq_true; assumption.
    Qed.

    Lemma rin_scan w c held e k r w1 : renew_if_necessary is_space LAM w h c held = (e, k, r, w1) ->
      od_on w = true -> anyst e /\ Forall okkid k /\ w_od w1 = w_od w.
    Proof.
      unfold renew_if_necessary. intros H D. destruct (due c).
      2:{ inv H. split; [apply anyst_nil|split; [constructor|reflexivity]]. }
      destruct (store_has (name0 c) w).
      - destruct (renew_dynamic is_space w h c held) as [[[e1 k1] r1] w2] eqn:E1.
        apply rd_scan in E1 as (A & K & O); [|exact D]. inv H.
        split; [|auto]. apply anyst_cons_quiet; auto.
      - rewrite Hn in H.
        destruct (gate is_space w n true) as [[ge a] w0] eqn:G. cbv beta iota zeta in H.
        pose proof (gate_od _ _ _ _ _ _ _ G) as O0.
        destruct a.
        + destruct held.
          { inv H. split; [|split; [constructor|exact O0]].
            apply anyst_cons_quiet; [reflexivity|reflexivity|].
            replace ge with (ge ++ if true then [] else @nil effect) by apply app_nil_r.
            apply (gate_then _ _ _ true _ [] []) with (1 := G); [exact D|reflexivity|apply anyst_nil]. }
          destruct (obtain_on_demand LAM w0 h n) as [[[e1 k1] r1] w2] eqn:E1. inv H.
          assert (D0 : od_on w0 = true) by (rewrite (od_on_eq _ _ O0); exact D).
          split; [|].
          * apply anyst_cons_quiet; [reflexivity|reflexivity|].
            intros st. destruct (gate_scan is_space _ _ _ _ _ _ st G) as (s0 & H0 & Imp).
            destruct (Imp eq_refl D) as [-> Q].
            apply ood_scan in E1 as ((s1 & S1) & _ & _); [|exact D0|exact Q].
            exists s1. rewrite scanq_app, H0. exact S1.
          * destruct (gate_scan is_space _ _ _ _ _ _ None G) as (s0 & H0 & Imp).
            destruct (Imp eq_refl D) as [_ Q].
            apply ood_scan in E1 as (_ & K1 & O1); [|exact D0|exact Q]. split; [exact K1|congruence].
        + inv H. split; [|split; [constructor|rewrite od_cache_remove; exact O0]].
          apply anyst_cons_quiet; [reflexivity|reflexivity|].
          apply (gate_then _ _ _ false _ [] [EEvict (c_id c)]) with (1 := G); [exact D|reflexivity|].
          apply anyst_quiet; reflexivity.
    Qed.

    Lemma maint_scan w c held e k r w1 : maintenance is_space LAM w h c held = (e, k, r, w1) ->
      od_on w = true -> anyst e /\ Forall okkid k /\ w_od w1 = w_od w.
    Proof.
      unfold maintenance. intros H D.
      match type of H with (let '(ka, wa) := ?X in _) = _ => destruct X as [ka wa] eqn:EA end.
      cbv beta iota zeta in H.
      assert (A : Forall okkid ka /\ w_od wa = w_od w).
      { destruct (c_ari c) as [d|]; [|inv EA; split; [constructor|reflexivity]].
        destruct (c_expired c); [inv EA; split; [constructor|reflexivity]|].
        match type of EA with context [renew_if_necessary ?a ?b ?c ?d ?e ?f] =>
          destruct (renew_if_necessary a b c d e f) as [[[e0 k0] r0] w0] eqn:E0 end.
        inv EA.
        match type of E0 with renew_if_necessary _ _ ?W _ _ _ = _ =>
          assert (OW : w_od W = w_od w) end.
        { destruct (match store_find (name0 c) w with Some s => c_ari s | None => None end);
            [destruct (cache_find (c_id c) w)|]; reflexivity. }
        apply rin_scan in E0 as (A0 & K0 & O0); [|rewrite (od_on_eq _ _ OW); exact D].
        split; [|congruence].
        constructor; [|exact K0]. apply anyst_kid. apply anyst_cons_quiet; auto. }
      destruct A as [KA OA].
      assert (DA : od_on wa = true) by (rewrite (od_on_eq _ _ OA); exact D).
      destruct (c_managed c && negb (is_empty_names c) && c_revoked c).
      - destruct (renew_dynamic is_space wa h c held) as [[[e1 k1] r1] w2] eqn:E1.
        apply rd_scan in E1 as (A1 & K1 & O1); [|exact DA]. inv H.
        split; [exact A1|]. split; [apply Forall_app; auto|congruence].
      - destruct (renew_if_necessary is_space LAM wa h c held) as [[[e1 k1] r1] w2] eqn:E1.
        apply rin_scan in E1 as (A1 & K1 & O1); [|exact DA]. inv H.
        split; [exact A1|]. split; [apply Forall_app; auto|congruence].
    Qed.
  End Knot.

  Lemma lam_scan fuel : forall w held e k r w1,
    load_and_maintain is_space fuel w h n held = (e, k, r, w1) ->
    od_on w = true -> qualifies is_space n = true ->
    (exists st', scq (Some true) e = Some st' /\ (r = None -> st' = Some true)) /\
    Forall okkid k /\ w_od w1 = w_od w.
  Proof.
    induction fuel as [|f IH]; intros w held e k r w1 H D Q; cbn [load_and_maintain] in H.
    - inv H. split; [exists (Some true); split; reflexivity|split; [constructor|reflexivity]].
    - match type of H with (match ?X with _ => _ end) = _ => destruct X as [[le s]|] eqn:EF end.
      + assert (FL : evalfree le).
        { destruct (store_find n w); [inv EF; reflexivity|].
          destruct (store_find (wild n) w); inv EF; reflexivity. }
        cbv zeta in H.
        match type of H with context [cache_add (as_loaded s) ?W0] => set (w0 := W0) in * end.
        assert (O0 : w_od w0 = w_od w) by (unfold w0; destruct (h_vanish h && negb held); reflexivity).
        destruct (maintenance is_space (load_and_maintain is_space f) (cache_add (as_loaded s) w0) h (as_loaded s) held)
          as [[[e1 k1] r1] w2] eqn:E1.
        apply (maint_scan _ IH) in E1 as (A1 & K1 & O1);
          [|rewrite (od_on_eq _ _ (od_cache_add _ _)), (od_on_eq _ _ O0); exact D].
        inv H. destruct (A1 (Some true)) as [s1 S1].
        split; [|split; [exact K1|rewrite O1, od_cache_add; exact O0]].
        exists s1. split; [|discriminate]. rewrite scanq_app, (scanq_true is_space n le FL Q). exact S1.
      + inv H. split; [|split; [constructor|reflexivity]].
        exists (Some true). split; [|reflexivity]. apply scanq_true; [reflexivity|exact Q].
  Qed.

  Lemma after_mgr_scan fuel w load e k res w1 : after_mgr is_space fuel w h n load = (e, k, res, w1) ->
    od_on w = true -> okkid e /\ Forall okkid k.
  Proof.
    unfold after_mgr. intros H D.
    destruct (gate is_space w n false) as [[ge a] w0] eqn:G. cbv beta iota zeta in H.
    pose proof (gate_od _ _ _ _ _ _ _ G) as O0.
    assert (D0 : od_on w0 = true) by (rewrite (od_on_eq _ _ O0); exact D).
    destruct (gate_scan is_space _ _ _ _ _ _ None G) as (s0 & H0 & Imp).
    destruct a; cbn [negb] in H.
    2:{ inv H. split; [exists s0; exact H0|constructor]. }
    destruct (Imp eq_refl D) as [-> Q].
    destruct ((od_on w0 || almost_full w0) && load).
    2:{ inv H. split; [exists (Some true); exact H0|constructor]. }
    destruct (load_and_maintain is_space (S fuel) w0 h n false) as [[[e1 k1] r1] w2] eqn:E1.
    apply lam_scan in E1 as ((s1 & S1 & N1) & K1 & O1); [|exact D0|exact Q].
    destruct r1 as [m|].
    + assert (X : okkid (ge ++ e1)) by (exists s1; rewrite scanq_app, H0; exact S1).
      destruct m; inv H; split; assumption.
    + rewrite (N1 eq_refl) in S1.
      assert (D2 : od_on w2 = true) by (rewrite (od_on_eq _ _ O1); exact D0).
      rewrite D2 in H.
      destruct (obtain_on_demand _ _ _ _) as [[[e2 k2] m2] w3] eqn:E2.
      apply (ood_scan _ (lam_scan fuel)) in E2 as ((s2 & S2) & K2 & _); [|exact D2|exact Q].
      inv H. split; [|apply Forall_app; auto].
      exists s2. rewrite scanq_app, H0, scanq_app, S1. exact S2.
  Qed.

  Lemma get_cert_scan fuel w load e k res w1 : get_cert is_space fuel w h load = (e, k, res, w1) ->
    od_on w = true -> okkid e /\ Forall okkid k.
  Proof.
    unfold get_cert. intros H D.
    destruct (match h_hit h with Some id => cache_find id w | None => None end) as [c|].
    - destruct (c_managed c && od_on w && load).
      + destruct (maintenance _ _ _ _ _ _) as [[[e1 k1] r1] w2] eqn:E1.
        apply (maint_scan _ (lam_scan fuel)) in E1 as (A1 & K1 & _); [|exact D]. inv H.
        split; [apply anyst_kid; exact A1|exact K1].
      + inv H. split; [exists None; reflexivity|constructor].
    - rewrite Hn in H. destruct (mgr_view w h).
      + eapply after_mgr_scan; eauto.
      + destruct (after_mgr is_space fuel w h n load) as [[[e1 k1] r1] w2] eqn:E1. inv H.
        apply after_mgr_scan in E1 as [[st A] K]; [|exact D]. split; [|exact K].
        exists st. cbn [scanq is_eval needs_gate]. exact A.
      + inv H. split; [exists None; reflexivity|constructor].
      + inv H. split; [exists None; reflexivity|constructor].
  Qed.
End Gated.

(** * 4. The hello has no usable name (idna error): no Issue, no Load *)
Section NoName.
  Variable is_space : N -> bool.
  Variable h : hello.
  Hypothesis Hn : h_name h = None.

  Lemma rin_none LAM w c held e k r w1 :
    renew_if_necessary is_space LAM w h c held = (e, k, r, w1) -> noneed e /\ k = [].
  Proof.
    unfold renew_if_necessary, renew_dynamic. rewrite Hn. intros H.
    destruct (due c); [destruct (store_has (name0 c) w)|]; inv H; split; reflexivity.
  Qed.

  Lemma maint_none LAM w c held e k r w1 :
    maintenance is_space LAM w h c held = (e, k, r, w1) -> noneed e /\ Forall noneed k.
  Proof.
    unfold maintenance. intros H.
    match type of H with (let '(ka, wa) := ?X in _) = _ => destruct X as [ka wa] eqn:EA end.
    cbv beta iota zeta in H.
    assert (A : Forall noneed ka).
    { destruct (c_ari c) as [d|]; [|inv EA; constructor].
      destruct (c_expired c); [inv EA; constructor|].
      match type of EA with context [renew_if_necessary ?a ?b ?c ?d ?e ?f] =>
        destruct (renew_if_necessary a b c d e f) as [[[e0 k0] r0] w0] eqn:E0 end.
      inv EA. apply rin_none in E0 as [N0 ->].
      constructor; [|constructor]. unfold noneed in *; cbn [forallb needs_gate negb andb]. exact N0. }
    destruct (c_managed c && negb (is_empty_names c) && c_revoked c).
    - unfold renew_dynamic in H. rewrite Hn in H. inv H. split; [reflexivity|].
      rewrite app_nil_r. exact A.
    - destruct (renew_if_necessary is_space LAM wa h c held) as [[[e1 k1] r1] w2] eqn:E1.
      apply rin_none in E1 as [N1 ->]. inv H. split; [exact N1|]. rewrite app_nil_r. exact A.
  Qed.

  Lemma get_cert_none fuel w load e k res w1 :
    get_cert is_space fuel w h load = (e, k, res, w1) -> noneed e /\ Forall noneed k.
  Proof.
    unfold get_cert. intros H.
    destruct (match h_hit h with Some id => cache_find id w | None => None end) as [c|].
    - destruct (c_managed c && od_on w && load).
      + destruct (maintenance _ _ _ _ _ _) as [[[e1 k1] r1] w2] eqn:E1.
        apply maint_none in E1 as [N1 K1]. inv H. auto.
      + inv H. split; [reflexivity|constructor].
    - rewrite Hn in H. inv H. split; [reflexivity|constructor].
  Qed.
End NoName.

(** * 5. On-demand disabled: no Issue *)
Section OdOff.
  Variable is_space : N -> bool.
  Variable h : hello.

  Definition noissue (l : list effect) : Prop := existsb is_issue l = false.

  Lemma noissue_app a b : noissue a -> noissue b -> noissue (a ++ b).
  Proof. unfold noissue. rewrite existsb_app. intros -> ->; reflexivity. Qed.

  Lemma rar_off w n c ok e r w1 : renew_and_reload is_space w n c ok = (e, r, w1) ->
    od_on w = false -> noissue e /\ w_od w1 = w_od w.
  Proof.
    unfold renew_and_reload. intros H D.
    destruct (gate is_space w n true) as [[ge a] w0] eqn:G.
    destruct (gate_req_off _ _ _ _ _ _ G D) as (-> & -> & ->).
    cbv beta iota zeta in H. cbn [negb] in H. inv H. split; reflexivity.
  Qed.

  Lemma rd_off w c held e k r w1 : renew_dynamic is_space w h c held = (e, k, r, w1) ->
    od_on w = false -> noissue e /\ Forall noissue k /\ w_od w1 = w_od w.
  Proof.
    unfold renew_dynamic. intros H D. destruct (h_name h) as [n|].
    2:{ inv H. split; [reflexivity|split; [constructor|reflexivity]]. }
    destruct held.
    - destruct (c_expired c || c_revoked c); inv H; (split; [reflexivity|split; [constructor|reflexivity]]).
    - destruct (c_expired c).
      + destruct (renew_and_reload _ _ _ _ _) as [[e1 r1] w2] eqn:E1.
        apply rar_off in E1 as [A O]; [|exact D]. inv H. split; [exact A|split; [constructor|exact O]].
      + destruct (renew_and_reload _ _ _ _ _) as [[e1 r1] w2] eqn:E1.
        apply rar_off in E1 as [A O]; [|exact D]. inv H.
        split; [reflexivity|split; [constructor; [exact A|constructor]|exact O]].
  Qed.

  Lemma rin_off LAM w c held e k r w1 :
    renew_if_necessary is_space LAM w h c held = (e, k, r, w1) ->
    od_on w = false -> noissue e /\ Forall noissue k /\ w_od w1 = w_od w.
  Proof.
    unfold renew_if_necessary. intros H D. destruct (due c).
    2:{ inv H. split; [reflexivity|split; [constructor|reflexivity]]. }
    destruct (store_has (name0 c) w).
    - destruct (renew_dynamic is_space w h c held) as [[[e1 k1] r1] w2] eqn:E1.
      apply rd_off in E1 as (A & K & O); [|exact D]. inv H. split; [exact A|auto].
    - destruct (h_name h) as [n|].
      2:{ inv H. split; [reflexivity|split; [constructor|reflexivity]]. }
      destruct (gate is_space w n true) as [[ge a] w0] eqn:G.
      destruct (gate_req_off _ _ _ _ _ _ G D) as (-> & -> & ->).
      cbv beta iota zeta in H. inv H. split; [reflexivity|split; [constructor|reflexivity]].
  Qed.

  Lemma maint_off LAM w c held e k r w1 :
    maintenance is_space LAM w h c held = (e, k, r, w1) ->
    od_on w = false -> noissue e /\ Forall noissue k /\ w_od w1 = w_od w.
  Proof.
    unfold maintenance. intros H D.
    match type of H with (let '(ka, wa) := ?X in _) = _ => destruct X as [ka wa] eqn:EA end.
    cbv beta iota zeta in H.
    assert (A : Forall noissue ka /\ w_od wa = w_od w).
    { destruct (c_ari c) as [d|]; [|inv EA; split; [constructor|reflexivity]].
      destruct (c_expired c); [inv EA; split; [constructor|reflexivity]|].
      match type of EA with context [renew_if_necessary ?a ?b ?c ?d ?e ?f] =>
        destruct (renew_if_necessary a b c d e f) as [[[e0 k0] r0] w0] eqn:E0 end.
      inv EA.
      match type of E0 with renew_if_necessary _ _ ?W _ _ _ = _ =>
        assert (OW : w_od W = w_od w) end.
      { destruct (match store_find (name0 c) w with Some s => c_ari s | None => None end);
          [destruct (cache_find (c_id c) w)|]; reflexivity. }
      apply rin_off in E0 as (A0 & K0 & O0); [|rewrite (od_on_eq _ _ OW); exact D].
      split; [|congruence]. constructor; [exact A0|exact K0]. }
    destruct A as [KA OA].
    assert (DA : od_on wa = false) by (rewrite (od_on_eq _ _ OA); exact D).
    destruct (c_managed c && negb (is_empty_names c) && c_revoked c).
    - destruct (renew_dynamic is_space wa h c held) as [[[e1 k1] r1] w2] eqn:E1.
      apply rd_off in E1 as (A1 & K1 & O1); [|exact DA]. inv H.
      split; [exact A1|]. split; [apply Forall_app; auto|congruence].
    - destruct (renew_if_necessary is_space LAM wa h c held) as [[[e1 k1] r1] w2] eqn:E1.
      apply rin_off in E1 as (A1 & K1 & O1); [|exact DA]. inv H.
      split; [exact A1|]. split; [apply Forall_app; auto|congruence].
  Qed.

  Lemma lam_off fuel : forall w n held e k r w1,
    load_and_maintain is_space fuel w h n held = (e, k, r, w1) ->
    od_on w = false -> noissue e /\ Forall noissue k /\ w_od w1 = w_od w.
  Proof.
    induction fuel as [|f IH]; intros w n held e k r w1 H D; cbn [load_and_maintain] in H.
    - inv H. split; [reflexivity|split; [constructor|reflexivity]].
    - match type of H with (match ?X with _ => _ end) = _ => destruct X as [[le s]|] eqn:EF end.
      + assert (FL : noissue le).
        { destruct (store_find n w); [inv EF; reflexivity|].
          destruct (store_find (wild n) w); inv EF; reflexivity. }
        cbv zeta in H.
        match type of H with context [cache_add (as_loaded s) ?W0] => set (w0 := W0) in * end.
        assert (O0 : w_od w0 = w_od w) by (unfold w0; destruct (h_vanish h && negb held); reflexivity).
        destruct (maintenance is_space (load_and_maintain is_space f) (cache_add (as_loaded s) w0) h (as_loaded s) held)
          as [[[e1 k1] r1] w2] eqn:E1.
        apply maint_off in E1 as (A1 & K1 & O1);
          [|rewrite (od_on_eq _ _ (od_cache_add _ _)), (od_on_eq _ _ O0); exact D].
        inv H. split; [apply noissue_app; assumption|split; [exact K1|rewrite O1, od_cache_add; exact O0]].
      + inv H. split; [reflexivity|split; [constructor|reflexivity]].
  Qed.

  Lemma after_mgr_off fuel w n load e k res w1 : after_mgr is_space fuel w h n load = (e, k, res, w1) ->
    od_on w = false -> noissue e /\ Forall noissue k.
  Proof.
    unfold after_mgr. intros H D.
    destruct (gate is_space w n false) as [[ge a] w0] eqn:G. cbv beta iota zeta in H.
    pose proof (gate_od _ _ _ _ _ _ _ G) as O0.
    pose proof (gate_noissue _ _ _ _ _ _ _ G) as NG.
    assert (D0 : od_on w0 = false) by (rewrite (od_on_eq _ _ O0); exact D).
    destruct a; cbn [negb] in H; [|inv H; split; [exact NG|constructor]].
    destruct ((od_on w0 || almost_full w0) && load); [|inv H; split; [exact NG|constructor]].
    destruct (load_and_maintain is_space (S fuel) w0 h n false) as [[[e1 k1] r1] w2] eqn:E1.
    apply lam_off in E1 as (A1 & K1 & O1); [|exact D0].
    destruct r1 as [m|].
    + destruct m; inv H; (split; [apply noissue_app; assumption|exact K1]).
    + assert (D2 : od_on w2 = false) by (rewrite (od_on_eq _ _ O1); exact D0).
      rewrite D2 in H. inv H. split; [apply noissue_app; assumption|exact K1].
  Qed.

  Lemma get_cert_off fuel w load e k res w1 : get_cert is_space fuel w h load = (e, k, res, w1) ->
    od_on w = false -> noissue e /\ Forall noissue k.
  Proof.
    unfold get_cert. intros H D.
    destruct (match h_hit h with Some id => cache_find id w | None => None end) as [c|].
    - rewrite D, andb_false_r in H. cbn [andb] in H. inv H. split; [reflexivity|constructor].
    - destruct (h_name h) as [n|]; [|inv H; split; [reflexivity|constructor]].
      unfold mgr_view in H. rewrite D in H. eapply after_mgr_off; eauto.
  Qed.
End OdOff.

(** * 6. The theorems *)
Section Main.
  Variable is_space : N -> bool.

  Lemma okkid_scan_ok n g : okkid is_space n g -> scan_ok n g = true /\
    (existsb needs_gate g = true -> qualifies is_space n = true).
  Proof.
    intros [st' H]. destruct (scanq_scan is_space n g _ _ H) as [A B].
    unfold scan_ok. rewrite A. auto.
  Qed.

  (** the boolean monitor holds of every handshake of the model, in every world *)
  Theorem get_cert_gated_ok fuel w h load e k res w1 :
    get_cert is_space fuel w h load = (e, k, res, w1) ->
    gated_ok is_space (od_on w) (h_name h) (e :: k) = true.
  Proof.
    intros H. unfold gated_ok. destruct (od_on w) eqn:D.
    - destruct (h_name h) as [n|] eqn:Hn.
      + destruct (get_cert_scan is_space h n Hn _ _ _ _ _ _ _ H D) as [A K].
        assert (F : Forall (okkid is_space n) (e :: k)) by (constructor; assumption).
        clear A K H. apply andb_true_iff. split.
        * apply forallb_forall. intros g Hg. rewrite Forall_forall in F.
          apply (okkid_scan_ok n g (F g Hg)).
        * destruct (existsb (existsb needs_gate) (e :: k)) eqn:Ex; [|reflexivity].
          cbn [negb orb]. apply existsb_exists in Ex as (g & Hg & Eg).
          rewrite Forall_forall in F. apply (okkid_scan_ok n g (F g Hg)). exact Eg.
      + destruct (get_cert_none is_space h Hn _ _ _ _ _ _ _ H) as [A K].
        apply negb_true_iff. apply not_true_iff_false. intros Ex.
        apply existsb_exists in Ex as (g & Hg & Eg).
        assert (N : noneed g).
        { destruct Hg as [<-|Hg]; [exact A|]. rewrite Forall_forall in K. apply K; exact Hg. }
        unfold noneed in N. apply existsb_exists in Eg as (x & Hx & Ex).
        rewrite forallb_forall in N. specialize (N x Hx). rewrite Ex in N. discriminate.
    - destruct (get_cert_off is_space h _ _ _ _ _ _ _ H D) as [A K].
      apply negb_true_iff. apply not_true_iff_false. intros Ex.
      apply existsb_exists in Ex as (g & Hg & Eg).
      assert (N : noissue g).
      { destruct Hg as [<-|Hg]; [exact A|]. rewrite Forall_forall in K. apply K; exact Hg. }
      unfold noissue in N. congruence.
  Qed.

  Corollary handshake_gated_ok w h e k res w1 :
    handshake is_space w h = (e, k, res, w1) ->
    gated_ok is_space (od_on w) (h_name h) (e :: k) = true.
  Proof. apply get_cert_gated_ok. Qed.

  (** ... and of every handshake of every history *)
  Definition obs_ok (o : hs_obs) : Prop :=
    gated_ok is_space (od_on (ho_world o)) (h_name (ho_hello o)) (ho_own o :: ho_kids o) = true.

  Theorem run_gated_ok : forall ops w, Forall obs_ok (fst (run is_space w ops)).
  Proof.
    induction ops as [|o ops IH]; intros w; [constructor|].
    destruct o; cbn [run]; try apply IH.
    destruct (handshake is_space w h) as [[[e k] res] w1] eqn:E.
    specialize (IH w1). destruct (run is_space w1 ops) as [tr w2]. cbn [fst] in *.
    constructor; [|exact IH]. unfold obs_ok; cbn. eapply handshake_gated_ok; exact E.
  Qed.

  (** the statement itself, position by position *)
  Theorem gated_positions w h e k res w1 :
    handshake is_space w h = (e, k, res, w1) -> od_on w = true ->
    forall g, In g (e :: k) ->
    forall i x, nth_error g i = Some x -> needs_gate x = true ->
    exists n j y, h_name h = Some n /\ qualifies is_space n = true /\ (j < i)%nat /\
      nth_error g j = Some y /\ (y = EDecision n true \/ y = EAllow n true) /\
      forall k' z, (j < k' < i)%nat -> nth_error g k' = Some z -> is_eval z = false.
  Proof.
    intros H D g Hg i x Hi Hx.
    pose proof (handshake_gated_ok _ _ _ _ _ _ H) as G. unfold gated_ok in G. rewrite D in G.
    assert (Ex : existsb (existsb needs_gate) (e :: k) = true).
    { apply existsb_exists. exists g. split; [exact Hg|]. apply existsb_exists. exists x.
      split; [eapply nth_error_In; exact Hi|exact Hx]. }
    destruct (h_name h) as [n|].
    2:{ rewrite Ex in G. discriminate. }
    apply andb_true_iff in G as [G1 G2]. rewrite Ex in G2. cbn in G2.
    rewrite forallb_forall in G1. specialize (G1 g Hg). unfold scan_ok in G1.
    destruct (scan n None g) as [st'|] eqn:S; [|discriminate].
    destruct (scan_sound n g _ _ S i x Hi Hx) as [(j & y & Hj & Hy & Hp & Hb)|[Hs _]]; [|discriminate].
    exists n, j, y. split; [reflexivity|]. split; [exact G2|]. split; [exact Hj|]. split; [exact Hy|].
    split; [|exact Hb].
    destruct y; cbn in Hp; try discriminate;
      (destruct (str_eqb n0 n) eqn:En; [|discriminate]; apply str_eqb_eq in En; subst n0; inv Hp; auto).
  Qed.

  Theorem no_issue_without_on_demand w h e k res w1 :
    handshake is_space w h = (e, k, res, w1) -> w_od w = None ->
    forall g, In g (e :: k) -> forall s, ~ In (EIssue s) g.
  Proof.
    intros H D g Hg s Hs.
    pose proof (handshake_gated_ok _ _ _ _ _ _ H) as G. unfold gated_ok, od_on in G. rewrite D in G.
    apply negb_true_iff in G. apply not_true_iff_false in G. apply G.
    apply existsb_exists. exists g. split; [exact Hg|]. apply existsb_exists. exists (EIssue s). auto.
  Qed.

  Lemma after_mgr_lazy fuel w h n e k res w1 :
    after_mgr is_space fuel w h n false = (e, k, res, w1) ->
    noneed e /\ k = [] /\ w_cache w1 = w_cache w /\ w_store w1 = w_store w.
  Proof.
    unfold after_mgr. intros H.
    destruct (gate is_space w n false) as [[ge a] w0] eqn:G. cbv beta iota zeta in H.
    pose proof (gate_noneed _ _ _ _ _ _ _ G) as NG.
    assert (W : w_cache w0 = w_cache w /\ w_store w0 = w_store w).
    { revert G. unfold gate. destruct (false && negb (od_on w)); [intros G; inv G; auto|].
      destruct (negb (qualifies is_space n)); [intros G; inv G; auto|].
      destruct (w_od w) as [[f|l]|]; intros G; inv G; auto. }
    destruct a; cbn [negb] in H; [|inv H; tauto].
    rewrite andb_false_r in H. inv H. tauto.
  Qed.

  (** a handshake re-entering after a wait (loadOrObtainIfNecessary = false) causes no Issue / Load
      and spawns nothing, whatever the world (it may ask the external managers again) *)
  Theorem waiter_effect_free fuel w h e k res w1 :
    get_cert is_space fuel w h false = (e, k, res, w1) ->
    noneed e /\ k = [] /\ w_cache w1 = w_cache w /\ w_store w1 = w_store w.
  Proof.
    unfold get_cert. intros H.
    destruct (match h_hit h with Some id => cache_find id w | None => None end) as [c|].
    - rewrite andb_false_r in H. inv H. repeat split.
    - destruct (h_name h) as [n|]; [|inv H; repeat split].
      destruct (mgr_view w h).
      + eapply after_mgr_lazy; eauto.
      + destruct (after_mgr is_space fuel w h n false) as [[[e1 k1] r1] w2] eqn:E1. inv H.
        apply after_mgr_lazy in E1 as (A & B & C & D). repeat split; assumption.
      + inv H. repeat split.
      + inv H. repeat split.
  Qed.
End Main.

(** * 7. SubjectQualifiesForCert, characterised *)
Section QualSpec.
  Variable is_space : N -> bool.

  Lemma has_prefix_iff p s : has_prefix p s = true <-> exists r, s = p ++ r.
  Proof.
    unfold has_prefix. destruct (strip_prefix p s) as [r|] eqn:E.
    - apply strip_prefix_spec in E. split; [eauto|reflexivity].
    - split; [discriminate|]. intros [r Hr]. apply strip_prefix_spec in Hr. congruence.
  Qed.

  Lemma contains1_iff c s : contains [c] s = true <-> In c s.
  Proof.
    induction s as [|x s IH]; cbn [contains].
    - unfold has_prefix; cbn. split; [discriminate|intros []].
    - rewrite orb_true_iff, IH. unfold has_prefix; cbn [strip_prefix].
      destruct (N.eqb_spec c x) as [->|Ne]; cbn.
      + split; auto.
      + split; [intros [D|I]; [discriminate|auto]|intros [E|I]; [congruence|auto]].
  Qed.

  Lemma has_suffix1_iff c s : has_suffix [c] s = true <-> exists r, s = r ++ [c].
  Proof.
    unfold has_suffix. cbn [rev app]. rewrite has_prefix_iff. split.
    - intros [r Hr]. exists (rev r). rewrite <- (rev_involutive s), Hr. cbn. reflexivity.
    - intros [r ->]. exists (rev r). rewrite rev_app_distr. reflexivity.
  Qed.

  (** the source as translated today says exactly what the documented rule says *)
  Theorem qualifies_is_spec s : qualifies is_space s = qual_spec is_space s.
  Proof. reflexivity. Qed.

  Theorem qualifies_spec s : qualifies is_space s = true <->
    (exists c, In c s /\ is_space c = false) /\
    ~ (exists r, s = 46 :: r) /\
    ~ (exists r, s = r ++ [46]) /\
    (In 42 s -> (exists r, s = 42 :: 46 :: r) \/ s = [42]) /\
    (forall c, In c s -> ~ In c reject_chars).
  Proof.
    unfold qualifies, qualifies_with, qualify_conds. cbn [forallb eval_cond].
    rewrite !andb_true_iff, !negb_true_iff, !orb_true_iff, negb_true_iff.
    assert (A : forallb is_space s = false <-> exists c, In c s /\ is_space c = false).
    { split.
      - intros F. induction s as [|x s IH]; [discriminate|]. cbn in F.
        destruct (is_space x) eqn:Ex; [destruct (IH F) as (c & I & Ec); exists c; cbn; auto|].
        exists x; cbn; auto.
      - intros (c & I & Ec). apply not_true_iff_false. intros F. rewrite forallb_forall in F.
        rewrite (F c I) in Ec. discriminate. }
    assert (B : has_prefix [46] s = false <-> ~ (exists r, s = 46 :: r)).
    { rewrite <- not_true_iff_false, has_prefix_iff. reflexivity. }
    assert (C : has_suffix [46] s = false <-> ~ (exists r, s = r ++ [46])).
    { rewrite <- not_true_iff_false, has_suffix1_iff. reflexivity. }
    assert (Dd : (contains [42] s = false \/ has_prefix [42; 46] s = true) \/ str_eqb s [42] = true <->
                 (In 42 s -> (exists r, s = 42 :: 46 :: r) \/ s = [42])).
    { rewrite <- not_true_iff_false, contains1_iff, has_prefix_iff, str_eqb_eq. split.
      - intros [[N|P]|E] I; [contradiction|left; exact P|right; exact E].
      - intros Hh. destruct (in_dec N.eq_dec 42 s) as [I|NI]; [|auto].
        destruct (Hh I); auto. }
    assert (E : existsb (fun c => mem_c c [40; 41; 91; 93; 123; 125; 60; 62; 32; 9; 10; 34; 92; 33; 64; 35; 36; 37; 94; 38; 124; 59; 39; 43; 61]) s = false <->
                (forall c, In c s -> ~ In c reject_chars)).
    { rewrite <- not_true_iff_false. split.
      - intros Hh c I R. apply Hh. apply existsb_exists. exists c. split; [exact I|].
        unfold mem_c. apply existsb_exists. exists c. split; [exact R|apply N.eqb_refl].
      - intros Hh Ex. apply existsb_exists in Ex as (c & I & M). unfold mem_c in M.
        apply existsb_exists in M as (d & Id & Ed). apply N.eqb_eq in Ed. subst d.
        exact (Hh c I Id). }
    rewrite A, B, C, Dd, E. tauto.
  Qed.
End QualSpec.

(** * 8. The recorded answers are the policy's answers *)
Section Truthful.
  Variable is_space : N -> bool.
  Variable p : option policy.     (* the policy in force during the handshake *)
  Variable lo : nat.              (* evaluations made before the handshake *)

  Definition truthful (e : effect) : Prop :=
    match e with
    | EDecision m r => exists f k, p = Some (PDecision f) /\ (lo <= k)%nat /\ r = f k m
    | EAllow m r => exists l, p = Some (PAllow l) /\ r = allow_ok l m
    | _ => True
    end.
  Definition winv (w : world) : Prop := w_od w = p /\ (lo <= w_evals w)%nat.
  Definition same_pe (w w' : world) : Prop := w_od w' = w_od w /\ w_evals w' = w_evals w.

  Lemma winv_same w w' : same_pe w w' -> winv w -> winv w'.
  Proof. unfold same_pe, winv. intros [-> ->]; auto. Qed.
  Lemma same_refl w : same_pe w w. Proof. split; reflexivity. Qed.
  Lemma same_trans a b c : same_pe a b -> same_pe b c -> same_pe a c.
  Proof. unfold same_pe. intros [A1 A2] [B1 B2]. split; congruence. Qed.
  Lemma same_cache_add c w : same_pe w (cache_add c w).
  Proof. unfold cache_add. destruct (cache_has _ _); split; reflexivity. Qed.
  Lemma same_cache_remove i w : same_pe w (cache_remove i w). Proof. split; reflexivity. Qed.
  Lemma same_cache_replace a b w : same_pe w (cache_replace a b w).
  Proof. unfold cache_replace. eapply same_trans; [apply same_cache_remove|apply same_cache_add]. Qed.
  Lemma same_cache_update c w : same_pe w (cache_update c w). Proof. split; reflexivity. Qed.
  Lemma same_store_del m w : same_pe w (store_del m w). Proof. split; reflexivity. Qed.
  Lemma same_store_put m c w : same_pe w (store_put m c w). Proof. split; reflexivity. Qed.
  Lemma same_bump_fresh w : same_pe w (bump_fresh w). Proof. split; reflexivity. Qed.

  Definition plain (e : list effect) : Prop := Forall truthful e.

  Lemma evalfree_plain e : evalfree e -> plain e.
  Proof.
    unfold evalfree, plain. intros F. apply Forall_forall. intros x Hx.
    rewrite forallb_forall in F. specialize (F x Hx). destruct x; try exact I; discriminate.
  Qed.

  Lemma obtain_cert_same w n ok e o w1 : obtain_cert w n ok = (e, o, w1) -> same_pe w w1.
  Proof.
    unfold obtain_cert. destruct (store_has n w); [|destruct ok]; intros H; inv H;
      try apply same_refl.
    eapply same_trans; [apply same_bump_fresh|apply same_store_put].
  Qed.
  Lemma renew_cert_same w n force ok e o w1 : renew_cert w n force ok = (e, o, w1) -> same_pe w w1.
  Proof.
    unfold renew_cert. destruct (store_find n w); [destruct (due _ || force); [destruct ok|]|];
      intros H; inv H; try apply same_refl.
    eapply same_trans; [apply same_bump_fresh|apply same_store_put].
  Qed.
  Lemma reload_same w c e r w1 : reload w c = (e, r, w1) -> same_pe w w1.
  Proof.
    unfold reload. destruct (store_find _ w); intros H; inv H; [apply same_cache_replace|apply same_refl].
  Qed.
  Lemma force_renew_same w c ok e r w1 : force_renew w c ok = (e, r, w1) -> same_pe w w1.
  Proof.
    unfold force_renew. intros H. destruct (c_keycomp c).
    - destruct (obtain_cert _ _ _) as [[e0 o] w0] eqn:E0. cbv beta iota zeta in H.
      apply obtain_cert_same in E0. pose proof (same_trans _ _ _ (same_store_del _ _) E0) as S0.
      destruct o.
      + destruct (reload w0 c) as [[e2 r2] w2] eqn:E2. apply reload_same in E2. inv H.
        eapply same_trans; eassumption.
      + inv H. eapply same_trans; [exact S0|apply same_cache_remove].
    - destruct (renew_cert _ _ _ _) as [[e0 o] w0] eqn:E0. cbv beta iota zeta in H.
      apply renew_cert_same in E0. destruct o.
      + destruct (reload w0 c) as [[e2 r2] w2] eqn:E2. apply reload_same in E2. inv H.
        eapply same_trans; eassumption.
      + inv H. eapply same_trans; [exact E0|apply same_cache_remove].
  Qed.

  Lemma gate_truthful w n req ge a w1 : gate is_space w n req = (ge, a, w1) -> winv w ->
    plain ge /\ winv w1.
  Proof.
    unfold gate, winv. intros H [O L].
    destruct (req && negb (od_on w)); [inv H; split; [constructor|auto]|].
    destruct (negb (qualifies is_space n)); [inv H; split; [constructor|auto]|].
    destruct (w_od w) as [[f|l]|] eqn:E; inv H.
    - split; [|cbn; split; [congruence|lia]].
      constructor; [|constructor]. exists f, (w_evals w). auto.
    - split; [|split; [congruence|exact L]]. constructor; [|constructor]. exists l. auto.
    - split; [constructor|split; [congruence|exact L]].
  Qed.

  Lemma plain_app a b : plain a -> plain b -> plain (a ++ b).
  Proof. apply Forall_app_intro || (intros; apply Forall_app; auto). Qed.

  Lemma rar_truthful w n c ok e r w1 : renew_and_reload is_space w n c ok = (e, r, w1) ->
    winv w -> plain e /\ winv w1.
  Proof.
    unfold renew_and_reload. intros H W.
    destruct (gate is_space w n true) as [[ge a] w0] eqn:G. cbv beta iota zeta in H.
    apply gate_truthful in G as [PG W0]; [|exact W].
    destruct a; cbn [negb] in H.
    - destruct (c_revoked c).
      + destruct (force_renew w0 c ok) as [[e1 r1] w2] eqn:E1.
        pose proof (force_renew_same _ _ _ _ _ _ E1) as S1.
        apply force_renew_facts in E1 as [F1 _]. inv H.
        split; [apply plain_app; [exact PG|apply evalfree_plain; exact F1]|eapply winv_same; eassumption].
      + destruct (renew_cert w0 n false ok) as [[e1 o1] w2] eqn:E1.
        pose proof (renew_cert_same _ _ _ _ _ _ _ E1) as S1.
        apply renew_cert_facts in E1 as [F1 _]. cbv beta iota zeta in H. destruct o1.
        * destruct (reload w2 c) as [[e2 r2] w3] eqn:E2.
          pose proof (reload_same _ _ _ _ _ E2) as S2. apply reload_facts in E2 as [F2 _]. inv H.
          split; [|eapply winv_same; [exact S2|eapply winv_same; eassumption]].
          apply plain_app; [exact PG|]. apply plain_app; apply evalfree_plain; assumption.
        * inv H. split; [|eapply winv_same; eassumption].
          apply plain_app; [exact PG|apply evalfree_plain; exact F1].
    - inv H. split; [|eapply winv_same; [apply same_cache_remove|exact W0]].
      apply plain_app; [exact PG|]. constructor; [exact I|constructor].
  Qed.

  Variable h : hello.

  Lemma rd_truthful w c held e k r w1 : renew_dynamic is_space w h c held = (e, k, r, w1) ->
    winv w -> plain e /\ Forall plain k /\ winv w1.
  Proof.
    unfold renew_dynamic. intros H W. destruct (h_name h) as [n|].
    2:{ inv H. split; [constructor|split; [constructor|exact W]]. }
    destruct held.
    - destruct (c_expired c || c_revoked c); inv H; (split; [|split; [constructor|exact W]]); constructor.
    - destruct (c_expired c).
      + destruct (renew_and_reload _ _ _ _ _) as [[e1 r1] w2] eqn:E1.
        apply rar_truthful in E1 as [A W2]; [|exact W]. inv H. split; [exact A|split; [constructor|exact W2]].
      + destruct (renew_and_reload _ _ _ _ _) as [[e1 r1] w2] eqn:E1.
        apply rar_truthful in E1 as [A W2]; [|exact W]. inv H.
        split; [constructor|split; [constructor; [exact A|constructor]|exact W2]].
  Qed.

  Section Knot.
    Variable LAM : world -> hello -> name -> bool -> out (option mres).
    Hypothesis HL : forall w n held e k r w1, LAM w h n held = (e, k, r, w1) ->
      winv w -> plain e /\ Forall plain k /\ winv w1.

    Lemma ood_truthful w n e k r w1 : obtain_on_demand LAM w h n = (e, k, r, w1) ->
      winv w -> plain e /\ Forall plain k /\ winv w1.
    Proof.
      unfold obtain_on_demand. intros H W.
      destruct (obtain_cert w n (h_issue_ok h)) as [[e1 o] w0] eqn:E1.
      pose proof (obtain_cert_same _ _ _ _ _ _ E1) as S1.
      apply obtain_cert_facts in E1 as [F1 _]. cbv beta iota zeta in H.
      pose proof (winv_same _ _ S1 W) as W0. destruct o.
      - destruct (LAM w0 h n true) as [[[e2 k2] r2] w2] eqn:E2.
        apply HL in E2 as (A2 & K2 & W2); [|exact W0]. inv H.
        split; [apply plain_app; [apply evalfree_plain; exact F1|exact A2]|auto].
      - inv H. split; [apply evalfree_plain; exact F1|split; [constructor|exact W0]].
    Qed.

    Lemma rin_truthful w c held e k r w1 :
      renew_if_necessary is_space LAM w h c held = (e, k, r, w1) ->
      winv w -> plain e /\ Forall plain k /\ winv w1.
    Proof.
      unfold renew_if_necessary. intros H W. destruct (due c).
      2:{ inv H. split; [constructor|split; [constructor|exact W]]. }
      destruct (store_has (name0 c) w).
      - destruct (renew_dynamic is_space w h c held) as [[[e1 k1] r1] w2] eqn:E1.
        apply rd_truthful in E1 as (A & K & W2); [|exact W]. inv H.
        split; [constructor; [exact I|exact A]|auto].
      - destruct (h_name h) as [n|].
        2:{ inv H. split; [constructor; [exact I|constructor]|split; [constructor|exact W]]. }
        destruct (gate is_space w n true) as [[ge a] w0] eqn:G. cbv beta iota zeta in H.
        apply gate_truthful in G as [PG W0]; [|exact W]. destruct a.
        + destruct held.
          { inv H. split; [constructor; [exact I|exact PG]|split; [constructor|exact W0]]. }
          destruct (obtain_on_demand LAM w0 h n) as [[[e1 k1] r1] w2] eqn:E1.
          apply ood_truthful in E1 as (A1 & K1 & W2); [|exact W0]. inv H.
          split; [constructor; [exact I|apply plain_app; assumption]|auto].
        + inv H. split; [|split; [constructor|eapply winv_same; [apply same_cache_remove|exact W0]]].
          constructor; [exact I|]. apply plain_app; [exact PG|]. constructor; [exact I|constructor].
    Qed.

    Lemma maint_truthful w c held e k r w1 :
      maintenance is_space LAM w h c held = (e, k, r, w1) ->
      winv w -> plain e /\ Forall plain k /\ winv w1.
    Proof.
      unfold maintenance. intros H W.
      match type of H with (let '(ka, wa) := ?X in _) = _ => destruct X as [ka wa] eqn:EA end.
      cbv beta iota zeta in H.
      assert (A : Forall plain ka /\ winv wa).
      { destruct (c_ari c) as [d|]; [|inv EA; split; [constructor|exact W]].
        destruct (c_expired c); [inv EA; split; [constructor|exact W]|].
        match type of EA with context [renew_if_necessary ?a ?b ?c ?d ?e ?f] =>
          destruct (renew_if_necessary a b c d e f) as [[[e0 k0] r0] w0] eqn:E0 end.
        inv EA.
        match type of E0 with renew_if_necessary _ _ ?X _ _ _ = _ => assert (OW : winv X) end.
        { destruct (match store_find (name0 c) w with Some s => c_ari s | None => None end);
            [destruct (cache_find (c_id c) w)|]; exact W. }
        apply rin_truthful in E0 as (A0 & K0 & W0); [|exact OW].
        split; [|exact W0]. constructor; [constructor; [exact I|exact A0]|exact K0]. }
      destruct A as [KA WA].
      destruct (c_managed c && negb (is_empty_names c) && c_revoked c).
      - destruct (renew_dynamic is_space wa h c held) as [[[e1 k1] r1] w2] eqn:E1.
        apply rd_truthful in E1 as (A1 & K1 & W1); [|exact WA]. inv H.
        split; [exact A1|]. split; [apply Forall_app; auto|exact W1].
      - destruct (renew_if_necessary is_space LAM wa h c held) as [[[e1 k1] r1] w2] eqn:E1.
        apply rin_truthful in E1 as (A1 & K1 & W1); [|exact WA]. inv H.
        split; [exact A1|]. split; [apply Forall_app; auto|exact W1].
    Qed.
  End Knot.

  Lemma lam_truthful fuel : forall w n held e k r w1,
    load_and_maintain is_space fuel w h n held = (e, k, r, w1) ->
    winv w -> plain e /\ Forall plain k /\ winv w1.
  Proof.
    induction fuel as [|f IH]; intros w n held e k r w1 H W; cbn [load_and_maintain] in H.
    - inv H. split; [constructor|split; [constructor|exact W]].
    - match type of H with (match ?X with _ => _ end) = _ => destruct X as [[le s]|] eqn:EF end.
      + assert (FL : plain le).
        { apply evalfree_plain. destruct (store_find n w); [inv EF; reflexivity|].
          destruct (store_find (wild n) w); inv EF; reflexivity. }
        cbv zeta in H.
        match type of H with context [cache_add (as_loaded s) ?W0] => set (w0 := W0) in * end.
        assert (S0 : same_pe w w0) by (unfold w0; destruct (h_vanish h && negb held); [apply same_store_del|apply same_refl]).
        destruct (maintenance is_space (load_and_maintain is_space f) (cache_add (as_loaded s) w0) h (as_loaded s) held)
          as [[[e1 k1] r1] w2] eqn:E1.
        apply (maint_truthful _ IH) in E1 as (A1 & K1 & W1);
          [|eapply winv_same; [apply same_cache_add|eapply winv_same; [exact S0|exact W]]].
        inv H. split; [apply plain_app; assumption|auto].
      + inv H. split; [|split; [constructor|exact W]].
        constructor; [exact I|constructor; [exact I|constructor]].
  Qed.

  Lemma after_mgr_truthful fuel w n load e k res w1 : after_mgr is_space fuel w h n load = (e, k, res, w1) ->
    winv w -> plain e /\ Forall plain k /\ winv w1.
  Proof.
    unfold after_mgr. intros H W.
    destruct (gate is_space w n false) as [[ge a] w0] eqn:G. cbv beta iota zeta in H.
    apply gate_truthful in G as [PG W0]; [|exact W].
    destruct a; cbn [negb] in H; [|inv H; split; [exact PG|split; [constructor|exact W0]]].
    destruct ((od_on w0 || almost_full w0) && load); [|inv H; split; [exact PG|split; [constructor|exact W0]]].
    destruct (load_and_maintain is_space (S fuel) w0 h n false) as [[[e1 k1] r1] w2] eqn:E1.
    apply lam_truthful in E1 as (A1 & K1 & W2); [|exact W0].
    destruct r1 as [m|].
    + destruct m; inv H; (split; [apply plain_app; assumption|auto]).
    + destruct (od_on w2).
      * destruct (obtain_on_demand _ _ _ _) as [[[e2 k2] m2] w3] eqn:E2.
        apply (ood_truthful _ (lam_truthful fuel)) in E2 as (A2 & K2 & W3); [|exact W2]. inv H.
        split; [apply plain_app; [exact PG|apply plain_app; assumption]|].
        split; [apply Forall_app; auto|exact W3].
      * inv H. split; [apply plain_app; assumption|auto].
  Qed.

  Lemma get_cert_truthful fuel w load e k res w1 : get_cert is_space fuel w h load = (e, k, res, w1) ->
    winv w -> plain e /\ Forall plain k /\ winv w1.
  Proof.
    unfold get_cert. intros H W.
    destruct (match h_hit h with Some id => cache_find id w | None => None end) as [c|].
    - destruct (c_managed c && od_on w && load).
      + destruct (maintenance _ _ _ _ _ _) as [[[e1 k1] r1] w2] eqn:E1.
        apply (maint_truthful _ (lam_truthful fuel)) in E1 as (A1 & K1 & W1); [|exact W]. inv H. auto.
      + inv H. split; [constructor|split; [constructor|exact W]].
    - destruct (h_name h) as [n|]; [|inv H; split; [constructor|split; [constructor|exact W]]].
      destruct (mgr_view w h).
      + eapply after_mgr_truthful; eauto.
      + destruct (after_mgr is_space fuel w h n load) as [[[e1 k1] r1] w2] eqn:E1. inv H.
        apply after_mgr_truthful in E1 as (A & K & W1); [|exact W].
        split; [constructor; [exact I|exact A]|auto].
      + inv H. split; [constructor; [exact I|constructor]|split; [constructor|exact W]].
      + inv H. split; [constructor; [exact I|constructor]|split; [constructor|exact W]].
  Qed.
End Truthful.

(** * 9. The monitor used by the correspondence check holds of the model *)
Section SpecModel.
  Variable is_space : N -> bool.

  Theorem answers_truthful w h e k res w1 :
    handshake is_space w h = (e, k, res, w1) ->
    forall g, In g (e :: k) -> forall x, In x g -> truthful (w_od w) (w_evals w) x.
  Proof.
    intros H g Hg x Hx.
    destruct (get_cert_truthful is_space (w_od w) (w_evals w) h _ _ _ _ _ _ _ H) as (A & K & _).
    { split; [reflexivity|lia]. }
    assert (P : plain (w_od w) (w_evals w) g).
    { destruct Hg as [<-|Hg]; [exact A|]. rewrite Forall_forall in K. apply K; exact Hg. }
    unfold plain in P. rewrite Forall_forall in P. apply P; exact Hx.
  Qed.

  Lemma exists_filter (P : effect -> bool) gs :
    existsb (existsb P) (map (filter observable) gs) = true -> existsb (existsb P) gs = true.
  Proof.
    intros Ex. apply existsb_exists in Ex as (g' & Hg' & Eg').
    apply in_map_iff in Hg' as (g & <- & Hg).
    apply existsb_exists in Eg' as (x & Hx & Px). apply filter_In in Hx as [Hx _].
    apply existsb_exists. exists g. split; [exact Hg|]. apply existsb_exists. exists x. auto.
  Qed.

  Lemma scan_filter n g : (forall m r, ~ In (EAllow m r) g) ->
    forall st, scan n st (filter observable g) = scan n st g.
  Proof.
    induction g as [|x g IH]; intros NA st; [reflexivity|].
    assert (NA' : forall m r, ~ In (EAllow m r) g) by (intros m r I; apply (NA m r); right; exact I).
    cbn [filter]. destruct x; cbn [observable scan is_eval needs_gate]; rewrite ?IH by exact NA'; try reflexivity.
    exfalso. apply (NA n0 r). left; reflexivity.
  Qed.

  Theorem spec_hs_model w h e k res w1 :
    handshake is_space w h = (e, k, res, w1) ->
    spec_hs is_space (w_od w) (h_name h) (map (filter observable) (e :: k)) = true.
  Proof.
    intros H.
    pose proof (handshake_gated_ok is_space _ _ _ _ _ _ H) as G.
    pose proof (answers_truthful _ _ _ _ _ _ H) as T.
    unfold spec_hs. destruct (w_od w) as [[f|l]|] eqn:P.
    - (* decision function *)
      assert (NA : forall g, In g (e :: k) -> forall m r, ~ In (EAllow m r) g).
      { intros g Hg m r I. destruct (T g Hg _ I) as (l & Hl & _). discriminate. }
      unfold gated_ok, od_on in *. rewrite P in G.
      destruct (h_name h) as [n|].
      + apply andb_true_iff in G as [G1 G2]. apply andb_true_iff. split.
        * apply forallb_forall. intros g' Hg'. apply in_map_iff in Hg' as (g & <- & Hg).
          rewrite forallb_forall in G1. specialize (G1 g Hg). unfold scan_ok in *.
          rewrite scan_filter by (apply NA; exact Hg). exact G1.
        * destruct (existsb (existsb needs_gate) (map (filter observable) (e :: k))) eqn:Ex; [|reflexivity].
          apply exists_filter in Ex. rewrite Ex in G2. exact G2.
      + apply negb_true_iff in G. apply negb_true_iff. apply not_true_iff_false. intros Ex.
        apply exists_filter in Ex. congruence.
    - (* allowlist *)
      destruct (existsb (existsb needs_gate) (map (filter observable) (e :: k))) eqn:Ex; [|reflexivity].
      cbn [negb orb]. apply exists_filter in Ex.
      apply existsb_exists in Ex as (g & Hg & Eg). apply existsb_exists in Eg as (x & Hx & Nx).
      apply In_nth_error in Hx as [i Hi].
      assert (D : od_on w = true) by (unfold od_on; rewrite P; reflexivity).
      destruct (gated_positions is_space _ _ _ _ _ _ H D g Hg i x Hi Nx)
        as (n & j & y & Hn & Q & _ & Hy & Yes & _).
      rewrite Hn, Q, andb_true_r.
      apply nth_error_In in Hy. specialize (T g Hg y Hy).
      destruct Yes as [-> | ->]; cbn in T.
      + destruct T as (f & k0 & Hf & _). discriminate.
      + destruct T as (l' & Hl & E'). inv Hl. symmetry. exact E'.
    - unfold gated_ok, od_on in *. rewrite P in G.
      apply negb_true_iff in G. apply negb_true_iff. apply not_true_iff_false. intros Ex.
      apply exists_filter in Ex. congruence.
  Qed.
End SpecModel.

(** * 10. Histories, in Prop form *)
Section Histories.
  Variable is_space : N -> bool.

  Lemma run_sound : forall ops w o, In o (fst (run is_space w ops)) ->
    exists w1, handshake is_space (ho_world o) (ho_hello o) = (ho_own o, ho_kids o, ho_res o, w1).
  Proof.
    induction ops as [|op ops IH]; intros w o Ho; [destruct Ho|].
    destruct op; cbn [run] in Ho; try (eapply IH; exact Ho).
    destruct (handshake is_space w h) as [[[e k] res] w1] eqn:E.
    specialize (IH w1). destruct (run is_space w1 ops) as [tr w2]. cbn [fst] in *.
    destruct Ho as [<-|Ho]; [exists w1; exact E|apply IH; exact Ho].
  Qed.
End Histories.

(** * 10b. A handshake that runs alone never waits *)
Section NoWait.
  Variable is_space : N -> bool.
  Variable h : hello.

  Definition nowait (l : list effect) : Prop := existsb is_selfwait l = false.

  Lemma nowait_app a b : nowait a -> nowait b -> nowait (a ++ b).
  Proof. unfold nowait. rewrite existsb_app. intros -> ->; reflexivity. Qed.
  Lemma nowait_cons x a : is_selfwait x = false -> nowait a -> nowait (x :: a).
  Proof. unfold nowait; cbn [existsb]. intros -> ->; reflexivity. Qed.

  Lemma gate_nowait w n req ge a w1 : gate is_space w n req = (ge, a, w1) -> nowait ge.
  Proof. intros H. destruct (gate_shape _ _ _ _ _ _ _ H) as [->|[->| ->]]; reflexivity. Qed.
  Lemma obtain_cert_nowait w n ok e o w1 : obtain_cert w n ok = (e, o, w1) -> nowait e.
  Proof. unfold obtain_cert. destruct (store_has n w); [|destruct ok]; intros H; inv H; reflexivity. Qed.
  Lemma renew_cert_nowait w n force ok e o w1 : renew_cert w n force ok = (e, o, w1) -> nowait e.
  Proof.
    unfold renew_cert. destruct (store_find n w); [destruct (due _ || force); [destruct ok|]|];
      intros H; inv H; reflexivity.
  Qed.
  Lemma reload_nowait w c e r w1 : reload w c = (e, r, w1) -> nowait e.
  Proof. unfold reload. destruct (store_find _ w); intros H; inv H; reflexivity. Qed.

  Lemma force_renew_nowait w c ok e r w1 : force_renew w c ok = (e, r, w1) -> nowait e.
  Proof.
    unfold force_renew. intros H. destruct (c_keycomp c).
    - destruct (obtain_cert _ _ _) as [[e0 o] w0] eqn:E0. cbv beta iota zeta in H.
      apply obtain_cert_nowait in E0. destruct o.
      + destruct (reload w0 c) as [[e2 r2] w2] eqn:E2. apply reload_nowait in E2. inv H.
        apply nowait_cons; [reflexivity|]. apply nowait_app; assumption.
      + inv H. apply nowait_cons; [reflexivity|]. apply nowait_app; [assumption|reflexivity].
    - destruct (renew_cert _ _ _ _) as [[e0 o] w0] eqn:E0. cbv beta iota zeta in H.
      apply renew_cert_nowait in E0. destruct o.
      + destruct (reload w0 c) as [[e2 r2] w2] eqn:E2. apply reload_nowait in E2. inv H.
        apply nowait_app; assumption.
      + inv H. apply nowait_app; [assumption|reflexivity].
  Qed.

  Lemma rar_nowait w n c ok e r w1 : renew_and_reload is_space w n c ok = (e, r, w1) -> nowait e.
  Proof.
    unfold renew_and_reload. intros H.
    destruct (gate is_space w n true) as [[ge a] w0] eqn:G. cbv beta iota zeta in H.
    apply gate_nowait in G. destruct a; cbn [negb] in H.
    - destruct (c_revoked c).
      + destruct (force_renew w0 c ok) as [[e1 r1] w2] eqn:E1. apply force_renew_nowait in E1. inv H.
        apply nowait_app; assumption.
      + destruct (renew_cert w0 n false ok) as [[e1 o1] w2] eqn:E1. apply renew_cert_nowait in E1.
        cbv beta iota zeta in H. destruct o1.
        * destruct (reload w2 c) as [[e2 r2] w3] eqn:E2. apply reload_nowait in E2. inv H.
          apply nowait_app; [assumption|apply nowait_app; assumption].
        * inv H. apply nowait_app; assumption.
    - inv H. apply nowait_app; [assumption|reflexivity].
  Qed.

  Lemma rd_nowait w c held e k r w1 : renew_dynamic is_space w h c held = (e, k, r, w1) ->
    nowait e /\ Forall nowait k.
  Proof.
    unfold renew_dynamic. intros H. destruct (h_name h) as [n|].
    2:{ inv H. split; [reflexivity|constructor]. }
    destruct held.
    - destruct (c_expired c || c_revoked c); inv H; (split; [reflexivity|constructor]).
    - destruct (c_expired c).
      + destruct (renew_and_reload _ _ _ _ _) as [[e1 r1] w2] eqn:E1. apply rar_nowait in E1. inv H.
        split; [assumption|constructor].
      + destruct (renew_and_reload _ _ _ _ _) as [[e1 r1] w2] eqn:E1. apply rar_nowait in E1. inv H.
        split; [reflexivity|constructor; [assumption|constructor]].
  Qed.

  Section Knot.
    Variable LAM : world -> hello -> name -> bool -> out (option mres).
    Hypothesis HL : forall w n held e k r w1, LAM w h n held = (e, k, r, w1) -> nowait e /\ Forall nowait k.

    Lemma ood_nowait w n e k r w1 : obtain_on_demand LAM w h n = (e, k, r, w1) -> nowait e /\ Forall nowait k.
    Proof.
      unfold obtain_on_demand. intros H.
      destruct (obtain_cert w n (h_issue_ok h)) as [[e1 o] w0] eqn:E1. apply obtain_cert_nowait in E1.
      cbv beta iota zeta in H. destruct o.
      - destruct (LAM w0 h n true) as [[[e2 k2] r2] w2] eqn:E2. apply HL in E2 as [A K]. inv H.
        split; [apply nowait_app; assumption|assumption].
      - inv H. split; [assumption|constructor].
    Qed.

    Lemma rin_nowait w c held e k r w1 : renew_if_necessary is_space LAM w h c held = (e, k, r, w1) ->
      nowait e /\ Forall nowait k.
    Proof.
      unfold renew_if_necessary. intros H. destruct (due c).
      2:{ inv H. split; [reflexivity|constructor]. }
      destruct (store_has (name0 c) w).
      - destruct (renew_dynamic is_space w h c held) as [[[e1 k1] r1] w2] eqn:E1.
        apply rd_nowait in E1 as [A K]. inv H. split; [apply nowait_cons; [reflexivity|assumption]|assumption].
      - destruct (h_name h) as [n|].
        2:{ inv H. split; [reflexivity|constructor]. }
        destruct (gate is_space w n true) as [[ge a] w0] eqn:G. cbv beta iota zeta in H.
        apply gate_nowait in G. destruct a.
        + destruct held.
          { inv H. split; [apply nowait_cons; [reflexivity|assumption]|constructor]. }
          destruct (obtain_on_demand LAM w0 h n) as [[[e1 k1] r1] w2] eqn:E1.
          apply ood_nowait in E1 as [A K]. inv H.
          split; [apply nowait_cons; [reflexivity|apply nowait_app; assumption]|assumption].
        + inv H. split; [|constructor].
          apply nowait_cons; [reflexivity|apply nowait_app; [assumption|reflexivity]].
    Qed.

    Lemma maint_nowait w c held e k r w1 : maintenance is_space LAM w h c held = (e, k, r, w1) ->
      nowait e /\ Forall nowait k.
    Proof.
      unfold maintenance. intros H.
      match type of H with (let '(ka, wa) := ?X in _) = _ => destruct X as [ka wa] eqn:EA end.
      cbv beta iota zeta in H.
      assert (A : Forall nowait ka).
      { destruct (c_ari c) as [d|]; [|inv EA; constructor].
        destruct (c_expired c); [inv EA; constructor|].
        match type of EA with context [renew_if_necessary ?a ?b ?c ?d ?e ?f] =>
          destruct (renew_if_necessary a b c d e f) as [[[e0 k0] r0] w0] eqn:E0 end.
        inv EA. apply rin_nowait in E0 as [A0 K0].
        constructor; [apply nowait_cons; [reflexivity|assumption]|assumption]. }
      destruct (c_managed c && negb (is_empty_names c) && c_revoked c).
      - destruct (renew_dynamic is_space wa h c held) as [[[e1 k1] r1] w2] eqn:E1.
        apply rd_nowait in E1 as [A1 K1]. inv H. split; [assumption|apply Forall_app; auto].
      - destruct (renew_if_necessary is_space LAM wa h c held) as [[[e1 k1] r1] w2] eqn:E1.
        apply rin_nowait in E1 as [A1 K1]. inv H. split; [assumption|apply Forall_app; auto].
    Qed.
  End Knot.

  Lemma lam_nowait fuel : forall w n held e k r w1,
    load_and_maintain is_space fuel w h n held = (e, k, r, w1) -> nowait e /\ Forall nowait k.
  Proof.
    induction fuel as [|f IH]; intros w n held e k r w1 H; cbn [load_and_maintain] in H.
    - inv H. split; [reflexivity|constructor].
    - match type of H with (match ?X with _ => _ end) = _ => destruct X as [[le s]|] eqn:EF end.
      + assert (FL : nowait le).
        { destruct (store_find n w); [inv EF; reflexivity|].
          destruct (store_find (wild n) w); inv EF; reflexivity. }
        cbv zeta in H.
        match type of H with context [cache_add (as_loaded s) ?W0] => set (w0 := W0) in * end.
        destruct (maintenance is_space (load_and_maintain is_space f) (cache_add (as_loaded s) w0) h (as_loaded s) held)
          as [[[e1 k1] r1] w2] eqn:E1.
        apply (maint_nowait _ IH) in E1 as [A1 K1]. inv H. split; [apply nowait_app; assumption|assumption].
      + inv H. split; [reflexivity|constructor].
  Qed.

  Lemma after_mgr_nowait fuel w n load e k res w1 : after_mgr is_space fuel w h n load = (e, k, res, w1) ->
    nowait e /\ Forall nowait k.
  Proof.
    unfold after_mgr. intros H.
    destruct (gate is_space w n false) as [[ge a] w0] eqn:G. cbv beta iota zeta in H.
    apply gate_nowait in G.
    destruct a; cbn [negb] in H; [|inv H; split; [assumption|constructor]].
    destruct ((od_on w0 || almost_full w0) && load); [|inv H; split; [assumption|constructor]].
    destruct (load_and_maintain is_space (S fuel) w0 h n false) as [[[e1 k1] r1] w2] eqn:E1.
    apply lam_nowait in E1 as [A1 K1].
    destruct r1 as [m|].
    + destruct m; inv H; (split; [apply nowait_app; assumption|assumption]).
    + destruct (od_on w2).
      * destruct (obtain_on_demand _ _ _ _) as [[[e2 k2] m2] w3] eqn:E2.
        apply (ood_nowait _ (lam_nowait fuel)) in E2 as [A2 K2]. inv H.
        split; [apply nowait_app; [assumption|apply nowait_app; assumption]|apply Forall_app; auto].
      * inv H. split; [apply nowait_app; assumption|assumption].
  Qed.

  (** a handshake that runs alone never waits: no effect list of the model contains a self-wait
      (the three waiting selects are only ever entered for another goroutine's channel; the load
      and obtain channels a goroutine registered itself are recognised [fixes 29c65de, a768045]) *)
  Theorem get_cert_nowait fuel w load e k res w1 : get_cert is_space fuel w h load = (e, k, res, w1) ->
    nowait e /\ Forall nowait k.
  Proof.
    unfold get_cert. intros H.
    destruct (match h_hit h with Some id => cache_find id w | None => None end) as [c|].
    - destruct (c_managed c && od_on w && load).
      + destruct (maintenance _ _ _ _ _ _) as [[[e1 k1] r1] w2] eqn:E1.
        apply (maint_nowait _ (lam_nowait fuel)) in E1 as [A1 K1]. inv H. auto.
      + inv H. split; [reflexivity|constructor].
    - destruct (h_name h) as [n|]; [|inv H; split; [reflexivity|constructor]].
      destruct (mgr_view w h).
      + eapply after_mgr_nowait; eauto.
      + destruct (after_mgr is_space fuel w h n load) as [[[e1 k1] r1] w2] eqn:E1. inv H.
        apply after_mgr_nowait in E1 as [A K]. split; [apply nowait_cons; [reflexivity|assumption]|assumption].
      + inv H. split; [reflexivity|constructor].
      + inv H. split; [reflexivity|constructor].
  Qed.
End NoWait.

Theorem handshake_no_selfwait is_space w h e k res w1 :
  handshake is_space w h = (e, k, res, w1) -> no_selfwait (e :: k) = true.
Proof.
  intros H. destruct (get_cert_nowait is_space h _ _ _ _ _ _ _ H) as [A K].
  unfold no_selfwait. apply negb_true_iff. apply not_true_iff_false. intros Ex.
  apply existsb_exists in Ex as (g & Hg & Eg).
  assert (N : nowait g).
  { destruct Hg as [<-|Hg]; [exact A|]. rewrite Forall_forall in K. apply K; exact Hg. }
  unfold nowait in N. congruence.
Qed.

(** * 11. The literals of the source the model was written against (translator item
    c02EmitC02GateShape): the cache-miss gate is called with requireOnDemand = false, the two
    renewal-side gates (storage-missing branch of handshakeMaintenance, renewAndReload) with true, and
    no other function calls the gate; the almost-full factor is 9/10; the obtain call after a failed
    load is guarded by !errors.Is(err, errMaintainingLoadedCert).  By computation: any change of these
    in the source breaks this proof. *)
Lemma source_shape :
  hs_gate_require_args = [[false]; [true]; [true]] /\
  (hs_almost_full_num = 9 /\ hs_almost_full_den = 10)%nat /\
  hs_no_obtain_after_maintenance_error = true.
Proof. repeat split. Qed.
