(** Model of the on-demand part of a TLS handshake in certmagic (handshake.go):
    getCertDuringHandshake, loadCertFromStorage, optionalMaintenance,
    checkIfCertShouldBeObtained, obtainOnDemandCertificate, handshakeMaintenance
    (renewIfNecessary, ARI goroutine), renewDynamicCertificate (renewAndReload, foreground
    or background) and forceRenew, run by ONE handshake at a time (the concurrent
    single-flight behaviour is the subject of SingleFlight/Model.v, property C13).

    One handshake is a function from a world (certificate cache, certificate storage,
    on-demand policy) and a ClientHello to the list of externally visible effects it causes
    (decision-function calls, storage reads, issuer calls), its result and the next world.
    Executable definitions only.  Constants come from Gen.Consts. *)
From CM Require Import Lib.Str Lib.QualSteps Gen.Consts.
Open Scope N_scope.

Definition name := str.

(** ** SubjectQualifiesForCert: the conjuncts read from the source, interpreted in order *)
Section Qualifies.
  Variable is_space : N -> bool.   (* unicode.IsSpace, an oracle above U+007F *)

  Fixpoint contains (a s : str) : bool :=
    has_prefix a s || match s with [] => false | _ :: r => contains a r end.
  Definition has_suffix (p s : str) : bool := has_prefix (rev p) (rev s).
  Definition mem_c (c : N) (cs : str) : bool := existsb (N.eqb c) cs.

  Definition eval_cond (s : str) (q : qcond) : bool :=
    match q with
    | QNonBlank => negb (forallb is_space s)
    | QNotPrefix p => negb (has_prefix p s)
    | QNotSuffix p => negb (has_suffix p s)
    | QOnlyIf a b c => negb (contains a s) || has_prefix b s || str_eqb s c
    | QNoneOf cs => negb (existsb (fun c => mem_c c cs) s)
    end.
  Definition qualifies_with (conds : list qcond) (s : str) : bool := forallb (eval_cond s) conds.
  Definition qualifies (s : str) : bool := qualifies_with qualify_conds s.
End Qualifies.

(** the documented syntax rule, written out with fixed constants (the specification the
    implementation's answers are judged by; [qualifies] above is what the source says today) *)
Definition reject_chars : str :=
  [40; 41; 91; 93; 123; 125; 60; 62; 32; 9; 10; 34; 92; 33; 64; 35; 36; 37; 94; 38; 124; 59; 39; 43; 61].
Definition qual_spec (is_space : N -> bool) (s : str) : bool :=
  negb (forallb is_space s) &&
  (negb (has_prefix [46] s) &&
   (negb (has_suffix [46] s) &&
    ((negb (contains [42] s) || has_prefix [42; 46] s || str_eqb s [42]) &&
     (negb (existsb (fun c => mem_c c reject_chars) s) && true)))).

Definition tbl_space (tbl : list N) (c : N) : bool :=
  if c <? 128 then ascii_space c else existsb (N.eqb c) tbl.

(** ** Certificates, as far as the handshake logic looks at them *)
Record cert := Cert {
  c_id : N;                  (* identity (the hash) *)
  c_names : list name;       (* SANs; the first one is the storage key *)
  c_managed : bool;
  c_due : bool;              (* certNeedsRenewal *)
  c_expired : bool;          (* timeLeft <= 0 (implies due) *)
  c_revoked : bool;          (* cached OCSP status is Revoked *)
  c_keycomp : bool;          (* ... with reason keyCompromise *)
  c_ari : option bool        (* cached certificate: Some _ = its ARI needs a refresh;
                                stored bundle: Some d = the metadata holds an ARI (with a
                                Retry-After) by which renewal is due iff d *)
}.

Definition name0 (c : cert) : name := hd [] (c_names c).
Definition due (c : cert) : bool := c_due c || c_expired c.
Definition set_due (c : cert) (d : bool) : cert :=
  Cert (c_id c) (c_names c) (c_managed c) d (c_expired c) (c_revoked c) (c_keycomp c) (c_ari c).
(** what loadManagedCertificate makes of a stored bundle: managed, no OCSP status; the ARI of
    the stored metadata (Some d: renewal is due by that ARI iff d) is fresh, no refresh needed *)
Definition as_loaded (c : cert) : cert :=
  Cert (c_id c) (c_names c) true
       (c_due c || match c_ari c with Some d => d | None => false end)
       (c_expired c) false false None.
(** ** Policy and world *)
Inductive policy :=
| PDecision (f : nat -> name -> bool)   (* DecisionFunc; the nat is the number of evaluations made
                                           so far in the history: the answer may change at any moment *)
| PAllow (l : list name).               (* no DecisionFunc: hostAllowlist (enforced only if non-empty) *)

Record world := World {
  w_od : option policy;            (* cfg.OnDemand *)
  w_cap : nat;                     (* cache capacity, 0 = unlimited *)
  w_cache : list cert;
  w_store : list (name * cert);    (* bundle key -> stored certificate (first match wins) *)
  w_evals : nat;                   (* DecisionFunc evaluations so far *)
  w_fresh : N                      (* identity of the next certificate the issuer signs *)
}.

Definition set_cache (w : world) (c : list cert) : world :=
  World (w_od w) (w_cap w) c (w_store w) (w_evals w) (w_fresh w).
Definition set_store (w : world) (s : list (name * cert)) : world :=
  World (w_od w) (w_cap w) (w_cache w) s (w_evals w) (w_fresh w).
Definition bump_evals (w : world) : world :=
  World (w_od w) (w_cap w) (w_cache w) (w_store w) (S (w_evals w)) (w_fresh w).
Definition bump_fresh (w : world) : world :=
  World (w_od w) (w_cap w) (w_cache w) (w_store w) (w_evals w) (w_fresh w + 1).
Definition set_od (w : world) (p : option policy) : world :=
  World p (w_cap w) (w_cache w) (w_store w) (w_evals w) (w_fresh w).

Definition od_on (w : world) : bool := match w_od w with Some _ => true | None => false end.

Definition cache_find (id : N) (w : world) : option cert :=
  find (fun c => c_id c =? id) (w_cache w).
Definition cache_has (id : N) (w : world) : bool :=
  match cache_find id w with Some _ => true | None => false end.
(** Cache.cacheCertificate: no-op when the hash is already cached (capacity evictions are
    not modelled: the harness never fills the cache) *)
Definition cache_add (c : cert) (w : world) : world :=
  if cache_has (c_id c) w then w else set_cache w (w_cache w ++ [c]).
Definition cache_remove (id : N) (w : world) : world :=
  set_cache w (filter (fun c => negb (c_id c =? id)) (w_cache w)).
Definition cache_replace (old : cert) (new : cert) (w : world) : world :=
  cache_add new (cache_remove (c_id old) w).
Definition cache_update (c : cert) (w : world) : world :=
  set_cache w (map (fun x => if c_id x =? c_id c then c else x) (w_cache w)).

Fixpoint assoc (n : name) (l : list (name * cert)) : option cert :=
  match l with
  | [] => None
  | (k, v) :: r => if str_eqb k n then Some v else assoc n r
  end.
Definition store_find (n : name) (w : world) : option cert := assoc n (w_store w).
Definition store_has (n : name) (w : world) : bool :=
  match store_find n w with Some _ => true | None => false end.
Definition store_del (n : name) (w : world) : world :=
  set_store w (filter (fun kv => negb (str_eqb (fst kv) n)) (w_store w)).
Definition store_put (n : name) (c : cert) (w : world) : world :=
  set_store (store_del n w) (w_store (store_del n w) ++ [(n, c)]).

(** cacheAlmostFull: capacity > 0 && size >= capacity * 0.9 (the factor, as a fraction, is read
    from the source by the translator) *)
Definition almost_full (w : world) : bool :=
  (0 <? w_cap w)%nat && (hs_almost_full_num * w_cap w <=? hs_almost_full_den * length (w_cache w))%nat.

(** the wildcard variant tried by loadCertFromStorage: first label replaced by "*" *)
Definition c_star : N := 42.
Fixpoint from_first_dot (s : str) : str :=
  match s with
  | [] => []
  | c :: r => if c =? c_dot then s else from_first_dot r
  end.
Definition wild (n : name) : name := c_star :: from_first_dot n.

(** ** Effects *)
Inductive effect :=
| EDecision (n : name) (r : bool)   (* DecisionFunc(n) answered r *)
| EAllow (n : name) (r : bool)      (* hostAllowlist consulted for n (not observable from outside) *)
| EExists (n : name)                (* storageHasCertResourcesAnyIssuer(n) *)
| ELoad (n : name)                  (* certificate bundle (key, certificate) of n read from storage *)
| EMeta (n : name)                  (* metadata of the cached certificate n read for an ARI refresh *)
| EIssue (n : name)                 (* Issuer.Issue for subject n *)
| EManager (n : name)               (* cfg.OnDemand.Managers consulted for the handshake of n (no policy
                                       evaluation comes first: an external manager is neither the issuer
                                       nor storage) *)
| EEvict (id : N)                   (* certificate removed from the cache *)
| ESelfWait (n : name).             (* the handshake goroutine waits on a channel nobody will close (never
                                       produced by the model since fix a768045; the harness reports it
                                       when it sees it) *)

(** value returned by the maintenance functions: (Certificate, error) *)
Inductive mres :=
| MCert (c : cert)       (* certificate, nil *)
| MErr                   (* Certificate{}, error *)
| MCertErr (c : cert).   (* certificate, error *)

(** result of GetCertificate *)
Inductive result :=
| RCert (id : N)
| REmpty                 (* empty certificate, nil error: never produced by the model (only decoded
                            from an observation of the implementation) *)
| RErr (k : N).          (* 1 name error, 2 not allowed, 3 no certificate, 4 obtain/renew failed,
                            5 manager error *)

(** what the external certificate managers (cfg.OnDemand.Managers) answer for this handshake *)
Inductive mgr :=
| MgrNone                  (* no manager configured *)
| MgrEmpty                 (* every manager returns (nil, nil) *)
| MgrCert (id : N)         (* a manager returns a certificate *)
| MgrErr.                  (* the last manager asked returned an error and none a certificate *)

Record hello := Hello {
  h_name : option name;    (* getNameFromClientHello(hello): None = error (oracle: idna) *)
  h_hit : option N;        (* certificate selected from the cache by getCertificateFromCache (oracle) *)
  h_default : option N;    (* no match, but a certificate for DefaultServerName / FallbackServerName is
                              cached: getCertificateFromCache's "defaulted" certificate (oracle) *)
  h_mgr : mgr;             (* answer of the managers, were they asked *)
  h_issue_ok : bool;       (* outcome of Issuer.Issue calls made during this handshake *)
  h_vanish : bool          (* the bundle this handshake loads is deleted (by a storage cleaner / another
                              instance) right after it has been read *)
}.

(** What a piece of code does: the effects of the goroutine running it, in order, and the
    complete effect lists of the goroutines spawned meanwhile (ARI refresh, background renewal;
    in spawn order, a goroutine's own children right after it).  The model runs a spawned
    goroutine to completion at its spawn point (the harness enforces the same order). *)
Definition out (A : Type) := (list effect * list (list effect) * A * world)%type.

Definition is_empty_names (c : cert) : bool := match c_names c with [] => true | _ => false end.
Definition with_ari (d : bool) (x : cert) : cert :=
  Cert (c_id x) (c_names x) (c_managed x) (c_due x || d) (c_expired x) (c_revoked x) (c_keycomp x) None.
(** (a cached certificate with the hash of c is c: same subjects) *)
Definition set_names (ns : list name) (x : cert) : cert :=
  Cert (c_id x) ns (c_managed x) (c_due x) (c_expired x) (c_revoked x) (c_keycomp x) (c_ari x).
Definition fresh_cert (w : world) (n : name) : cert :=
  Cert (w_fresh w) [n] true false false false false None.

(** a handshake that runs alone has nobody to wait for: any wait is a self-wait *)
Definition is_selfwait (e : effect) : bool := match e with ESelfWait _ => true | _ => false end.
Definition no_selfwait (gs : list (list effect)) : bool := negb (existsb (existsb is_selfwait) gs).

(** effects that can be observed from outside the process (a self-wait: the harness sees the
    handshake goroutine in the waiting select with nobody left to release it) *)
Definition observable (e : effect) : bool :=
  match e with EAllow _ _ | EEvict _ => false | _ => true end.


Section WithSpace.
  Variable is_space : N -> bool.

  (** ** checkIfCertShouldBeObtained *)
  Definition allow_ok (l : list name) (n : name) : bool :=
    match l with [] => true | _ => existsb (str_eqb n) l end.

  Definition gate (w : world) (n : name) (require_od : bool) : list effect * bool * world :=
    if require_od && negb (od_on w) then ([], false, w)
    else if negb (qualifies is_space n) then ([], false, w)
    else match w_od w with
         | None => ([], true, w)
         | Some (PDecision f) => let r := f (w_evals w) n in ([EDecision n r], r, bump_evals w)
         | Some (PAllow l) => let r := allow_ok l n in ([EAllow n r], r, w)
         end.

  (** ** obtainCert (ObtainCertAsync): no-op when the bundle exists, else one Issue *)
  Definition obtain_cert (w : world) (n : name) (ok : bool) : list effect * bool * world :=
    if store_has n w then ([EExists n], true, w)
    else if ok then ([EExists n; EIssue n], true, store_put n (fresh_cert w n) (bump_fresh w))
    else ([EExists n; EIssue n], false, w).

  (** renewCert (RenewCertAsync n force): load the bundle of n, issue if it is due or forced *)
  Definition renew_cert (w : world) (n : name) (force ok : bool) : list effect * bool * world :=
    match store_find n w with
    | None => ([ELoad n], false, w)
    | Some s =>
        if due (as_loaded s) || force then
          if ok then ([ELoad n; EIssue n], true, store_put n (fresh_cert w n) (bump_fresh w))
          else ([ELoad n; EIssue n], false, w)
        else ([ELoad n], true, w)
    end.

  (** reloadManagedCertificate old: load the bundle of old.Names[0], replace old in the cache *)
  Definition reload (w : world) (old : cert) : list effect * mres * world :=
    match store_find (name0 old) w with
    | None => ([ELoad (name0 old)], MErr, w)
    | Some s => ([ELoad (name0 old)], MCert (as_loaded s), cache_replace old (as_loaded s) w)
    end.

  (** forceRenew (revoked certificate) *)
  Definition force_renew (w : world) (c : cert) (ok : bool) : list effect * mres * world :=
    let n0 := name0 c in
    let '(e1, ok1, w1) :=
      if c_keycomp c then
        (* moveCompromisedPrivateKey (reads the key, moves it away), then ObtainCertAsync *)
        let '(e, o, w') := obtain_cert (store_del n0 w) n0 ok in (ELoad n0 :: e, o, w')
      else renew_cert w n0 true ok in
    if ok1 then let '(e2, r, w2) := reload w1 c in (e1 ++ e2, r, w2)
    else (e1 ++ [EEvict (c_id c)], MCertErr c, cache_remove (c_id c) w1).

  (** renewAndReload, the worker part of renewDynamicCertificate *)
  (** the name the policy is asked about: the handshake's name, but for a revoked certificate the
      subject forceRenew is going to renew, Names[0] [fix fba364d] *)
  Definition renew_gate_name (n : name) (c : cert) : name := if c_revoked c then name0 c else n.

  Definition renew_and_reload (w : world) (n : name) (c : cert) (ok : bool) : list effect * mres * world :=
    let '(ge, allowed, w1) := gate w (renew_gate_name n c) true in
    if negb allowed then (ge ++ [EEvict (c_id c)], MErr, cache_remove (c_id c) w1)
    else if c_revoked c then
      let '(e, r, w2) := force_renew w1 c ok in (ge ++ e, r, w2)
    else
      let '(e1, ok1, w2) := renew_cert w1 n false ok in
      if ok1 then let '(e2, r, w3) := reload w2 c in (ge ++ e1 ++ e2, r, w3)
      else (ge ++ e1, MErr, w2).

  (** renewDynamicCertificate.  [held]: obtainCertWaitChans[n] is already registered by this
      goroutine itself (it is inside obtainOnDemandCertificate, maintaining the certificate it
      loaded after obtaining): it recognises its own channel and does not wait on it — the
      certificate is served if it is unexpired and unrevoked, else an error [fix a768045]. *)
  Definition renew_dynamic (w : world) (h : hello) (c : cert) (held : bool) : out mres :=
    match h_name h with
    | None => ([], [], MErr, w)
    | Some n =>
        if held then
          if c_expired c || c_revoked c then ([], [], MErr, w)
          else ([], [], MCert c, w)
        else if c_expired c then
          let '(e, r, w') := renew_and_reload w n c (h_issue_ok h) in (e, [], r, w')
        else
          (* background goroutine; the handshake returns the current certificate *)
          let '(e, _, w') := renew_and_reload w n c (h_issue_ok h) in ([], [e], MCert c, w')
    end.

  (** The functions below call each other in a cycle
        loadCertFromStorage -> handshakeMaintenance -> renewIfNecessary
          -> obtainOnDemandCertificate -> loadCertFromStorage
      which the code cuts only because a freshly obtained certificate is not due. [LAM] is
      loadCertFromStorage at the next recursion depth. *)
  Section Knot.
    Variable LAM : world -> hello -> name -> bool -> out (option mres).

    (** obtainOnDemandCertificate (as the worker) *)
    Definition obtain_on_demand (w : world) (h : hello) (n : name) : out mres :=
      let '(e1, ok, w1) := obtain_cert w n (h_issue_ok h) in
      if ok then
        let '(e2, k2, r, w2) := LAM w1 h n true in
        (e1 ++ e2, k2, match r with Some m => m | None => MErr end, w2)
      else (e1, [], MErr, w1).

    (** renewIfNecessary *)
    Definition renew_if_necessary (w : world) (h : hello) (c : cert) (held : bool) : out mres :=
      if due c then
        let n0 := name0 c in
        if store_has n0 w then
          let '(e, k, r, w') := renew_dynamic w h c held in (EExists n0 :: e, k, r, w')
        else
          match h_name h with
          | None => ([EExists n0], [], MErr, w)
          | Some n =>
              let '(ge, allowed, w1) := gate w n true in
              if allowed then
                if held then
                  (* obtainOnDemandCertificate finds the channel this goroutine registered itself:
                     "already obtaining", an error, no wait [fix a768045] *)
                  (EExists n0 :: ge, [], MErr, w1)
                else
                  let '(e, k, r, w2) := obtain_on_demand w1 h n in (EExists n0 :: ge ++ e, k, r, w2)
              else (EExists n0 :: ge ++ [EEvict (c_id c)], [], MErr, cache_remove (c_id c) w1)
          end
      else ([], [], MCert c, w).

    (** handshakeMaintenance.  The ARI goroutine runs (child first) at its spawn point:
        updateARI reads the stored metadata, takes the newer ARI, then renewIfNecessary. *)
    Definition maintenance (w : world) (h : hello) (c : cert) (held : bool) : out mres :=
      let '(ka, wa) :=
        match c_ari c with
        | Some _ =>
            if c_expired c then ([], w)
            else
              (* storageHasNewerARI: the metadata of Names[0]; nothing newer (or no bundle, and
                 no issuer that can be asked): the certificate is left as it is *)
              let newer := match store_find (name0 c) w with Some s => c_ari s | None => None end in
              let cached := cache_find (c_id c) w in
              let c' := match newer with
                        | Some d => set_names (c_names c) (with_ari d (match cached with Some x => x | None => c end))
                        | None => c
                        end in
              let w1 := match newer, cached with Some _, Some _ => cache_update c' w | _, _ => w end in
              let '(e, k, _, w2) := renew_if_necessary w1 h c' held in
              ((EMeta (name0 c) :: e) :: k, w2)
        | None => ([], w)
        end in
      let '(e, k, r, w') :=
        if c_managed c && negb (is_empty_names c) && c_revoked c
        then renew_dynamic wa h c held
        else renew_if_necessary wa h c held in
      (e, ka ++ k, r, w').
  End Knot.

  (** loadCertFromStorage: exact name, then the wildcard variant.  Result: None = nothing to load
      (an error); Some (MCert x) = certificate x, nil (a maintenance error that still yields a
      certificate is only logged); Some MErr = a certificate was loaded but its maintenance failed
      without yielding one: an error wrapping errMaintainingLoadedCert [fix 781aee7], after which
      getCertDuringHandshake does not go on to obtain [fix 5058ec2]. *)
  Fixpoint load_and_maintain (fuel : nat) (w : world) (h : hello) (n : name) (held : bool)
    : out (option mres) :=
    match fuel with
    | O => ([], [], None, w)
    | S f =>
        let found :=
          match store_find n w with
          | Some s => Some ([ELoad n], s)
          | None => match store_find (wild n) w with
                    | Some s => Some ([ELoad n; ELoad (wild n)], s)
                    | None => None
                    end
          end in
        match found with
        | None => ([ELoad n; ELoad (wild n)], [], None, w)
        | Some (le, s) =>
            let c := as_loaded s in
            let key := match le with [_] => n | _ => wild n end in
            let w0 := if h_vanish h && negb held then store_del key w else w in   (* once: not after an obtain *)
            let '(e, k, r, w') := maintenance (load_and_maintain f) (cache_add c w0) h c held in
            (le ++ e, k,
             Some (match r with MCert x => MCert x | MCertErr x => MCert x | MErr => MErr end), w')
        end
    end.

  Definition fuel0 : nat := 4.

  Definition res_of (m : mres) : result :=
    match m with MCert x => RCert (c_id x) | _ => RErr 4 end.

  (** the end of getCertDuringHandshake: the defaulted certificate if there is one, else an error *)
  Definition fallback (h : hello) : result :=
    match h_default h with Some id => RCert id | None => RErr 3 end.

  (** getCertDuringHandshake from the policy gate on (cache miss, the managers yielded nothing) *)
  Definition after_mgr (fuel : nat) (w : world) (h : hello) (n : name) (load : bool) : out result :=
    let '(ge, allowed, w1) := gate w n false in
    if negb allowed then (ge, [], RErr 2, w1)
    else if (od_on w1 || almost_full w1) && load then
      let '(e, k, r, w2) := load_and_maintain (S fuel) w1 h n false in
      match r with
      | Some (MCert x) => (ge ++ e, k, RCert (c_id x), w2)
      | Some _ =>
          (* the maintenance of the loaded certificate failed: no obtain (the bundle is in
             storage) [fix 5058ec2]; the defaulted certificate or an error *)
          (ge ++ e, k, fallback h, w2)
      | None =>
          if od_on w2 then
            let '(e2, k2, m, w3) := obtain_on_demand (load_and_maintain fuel) w2 h n in
            (ge ++ e ++ e2, k ++ k2, res_of m, w3)
          else (ge ++ e, k, fallback h, w2)
      end
    else (ge, [], fallback h, w1).

  (** getCertFromAnyCertManager is a no-op unless on-demand is on and managers are configured *)
  Definition mgr_view (w : world) (h : hello) : mgr := if od_on w then h_mgr h else MgrNone.

  (** getCertDuringHandshake as the only handshake in flight. [load] = loadOrObtainIfNecessary. *)
  Definition get_cert (fuel : nat) (w : world) (h : hello) (load : bool) : out result :=
    let hit := match h_hit h with Some id => cache_find id w | None => None end in
    match hit with
    | Some c =>
        if c_managed c && od_on w && load then
          (* optionalMaintenance *)
          let '(e, k, r, w') := maintenance (load_and_maintain fuel) w h c false in
          (e, k, match r with
                 | MCert x => RCert (c_id x)
                 | _ => if c_expired c then RErr 4 else RCert (c_id c)
                 end, w')
        else ([], [], RCert (c_id c), w)
    | None =>
        match h_name h with
        | None => ([], [], RErr 1, w)
        | Some n =>
            (* (the load single-flight section is C13's); the managers come before the gate, and
               also when loading is disabled *)
            match mgr_view w h with
            | MgrNone => after_mgr fuel w h n load
            | MgrEmpty => let '(e, k, r, w') := after_mgr fuel w h n load in (EManager n :: e, k, r, w')
            | MgrCert id => ([EManager n], [], RCert id, w)
            | MgrErr => ([EManager n], [], RErr 5, w)
            end
        end
    end.

  Definition handshake (w : world) (h : hello) : out result := get_cert fuel0 w h true.

  (** ** Histories: handshakes interleaved with changes of the environment *)
  Inductive op :=
  | OHandshake (h : hello)
  | OSetPolicy (p : option policy)        (* the operator changes cfg.OnDemand / the decision function *)
  | OStoreDel (n : name)                  (* storage cleaner / another instance deletes a bundle *)
  | OStorePut (n : name) (c : cert)       (* another instance stores a bundle *)
  | OCacheSet (c : cert)                  (* a cached certificate changes state (ages, gets revoked, ARI goes stale) *)
  | OCacheDel (id : N)                    (* eviction / removal by maintenance *)
  | OCacheAdd (c : cert).                 (* certificate cached by other means (static management, unmanaged) *)

  Definition env_step (w : world) (o : op) : world :=
    match o with
    | OHandshake h => w
    | OSetPolicy p => set_od w p
    | OStoreDel n => store_del n w
    | OStorePut n c => store_put n c w
    | OCacheSet c => cache_update c w
    | OCacheDel id => cache_remove id w
    | OCacheAdd c => cache_add c w
    end.

  (** one observed handshake of a history: the world it started in, the hello, what it did *)
  Record hs_obs := HsObs {
    ho_world : world; ho_hello : hello;
    ho_own : list effect; ho_kids : list (list effect); ho_res : result }.

  Fixpoint run (w : world) (ops : list op) : list hs_obs * world :=
    match ops with
    | [] => ([], w)
    | OHandshake h :: r =>
        let '(e, k, res, w1) := handshake w h in
        let '(tr, w2) := run w1 r in (HsObs w h e k res :: tr, w2)
    | o :: r => run (env_step w o) r
    end.

  (** ** The property, as a boolean on one handshake's effects (the runtime monitor) *)

  (** a policy evaluation: the name asked about and the answer *)
  Definition eval_of (e : effect) : option (name * bool) :=
    match e with EDecision m r | EAllow m r => Some (m, r) | _ => None end.
  Definition is_eval (e : effect) : bool :=
    match e with EDecision _ _ | EAllow _ _ => true | _ => false end.
  Definition needs_gate (e : effect) : bool :=
    match e with EIssue _ | ELoad _ => true | _ => false end.
  Definition is_issue (e : effect) : bool := match e with EIssue _ => true | _ => false end.

  (** the bundle keys a handshake may read once the policy has said yes for x: x itself, its
      wildcard variant (loadCertFromStorage's fallback), and the bundle of the certificate that
      matched the handshake in the cache ([hk] = its first subject: reloadManagedCertificate) *)
  Definition load_ok (hk : option name) (x m : name) : bool :=
    str_eqb m x || str_eqb m (wild x) || match hk with Some k => str_eqb m k | None => false end.
  (** the names the policy may be asked about: the handshake's name (its wildcard variant only for a
      wildcard bundle loaded for it) and the first subject of the matched certificate *)
  Definition cands (n : name) (hk : option name) : list name :=
    n :: wild n :: match hk with Some k => [k] | None => [] end.
  (** what a yes for x covers: an Issue for exactly x; a Load of one of x's bundle keys *)
  Definition fit1 (hk : option name) (x : name) (e : effect) : bool :=
    match e with EIssue m => str_eqb x m | ELoad m => load_ok hk x m | _ => true end.

  (** scan one goroutine's effects in order; the state is its most recent policy evaluation (name
      and answer).  None as a result: an evaluation about a foreign name, or an Issue / Load that is
      not covered by a most recent yes for that very subject / one of its bundle keys, or whose
      subject does not qualify. *)
  Fixpoint scan (n : name) (hk : option name) (st : option (name * bool)) (l : list effect)
    : option (option (name * bool)) :=
    match l with
    | [] => Some st
    | e :: r =>
        match eval_of e with
        | Some (x, a) => if existsb (str_eqb x) (cands n hk) then scan n hk (Some (x, a)) r else None
        | None =>
            if needs_gate e then
              match st with
              | Some (x, true) => if fit1 hk x e && qualifies is_space x then scan n hk st r else None
              | _ => None
              end
            else scan n hk st r
        end
    end.
  Definition scan_ok (n : name) (hk : option name) (l : list effect) : bool :=
    match scan n hk None l with Some _ => true | None => false end.

  (** on-demand enabled: every goroutine's list passes the scan; no name: no Issue/Load;
      on-demand disabled: no Issue at all. *)
  Definition gated_ok (od : bool) (hn : option name) (hk : option name) (gs : list (list effect)) : bool :=
    if od then
      match hn with
      | Some n => forallb (scan_ok n hk) gs
      | None => negb (existsb (existsb needs_gate) gs)
      end
    else negb (existsb (existsb is_issue) gs).

  (** ** the specification on the implementation's observation (DecisionFunc calls are visible,
      allowlist look-ups are not: for the allowlist the policy itself is evaluated: an Issue for m
      needs m on the list, a Load of m a listed, qualifying candidate name one of whose keys m is) *)
  Definition allow_covers (l : list name) (n : name) (hk : option name) (e : effect) : bool :=
    match e with
    | EIssue m => allow_ok l m && qualifies is_space m
    | ELoad m => existsb (fun x => allow_ok l x && qualifies is_space x && load_ok hk x m) (cands n hk)
    | _ => true
    end.
  Definition spec_hs (pol : option policy) (hn : option name) (hk : option name) (gs : list (list effect)) : bool :=
    match pol with
    | Some (PAllow l) =>
        match hn with
        | Some n => forallb (forallb (allow_covers l n hk)) gs
        | None => negb (existsb (existsb needs_gate) gs)
        end
    | Some (PDecision _) => gated_ok true hn hk gs
    | None => gated_ok false hn hk gs
    end.

  (** first subject of the certificate the cache lookup matched *)
  Definition hit_key (w : world) (h : hello) : option name :=
    match h_hit h with Some id => option_map name0 (cache_find id w) | None => None end.

  (** bundles are stored under the first subject of their certificate *)
  Definition store_wf (w : world) : Prop :=
    forall k c, store_find k w = Some c -> name0 c = k.

End WithSpace.
