(** The on-demand policy of a Config, as certmagic's configuration code builds it (config.go
    newWithCache / manageAll, certmagic.go OnDemandConfig): cfg.OnDemand is a POINTER; a Config made
    from the template with OnDemand == nil aliases Default.OnDemand (translator item
    hs_template_ondemand_aliased); Manage* on an on-demand Config records the names in the
    hostAllowlist of the OnDemandConfig it points to; checkIfCertShouldBeObtained asks the
    DecisionFunc if there is one and the (non-empty) allowlist otherwise.  Executable definitions and
    their theorems; the policy handed to Handshake.Model is [policy_of]. *)
From CM Require Import Lib.Str Lib.QualSteps Gen.Consts Handshake.Model.
From Coq Require Import Lia.
Open Scope N_scope.

Definition ref := nat.
Record odcfg := OdCfg { od_decision : option (nat -> name -> bool); od_allow : list name }.

Record tstate := TState {
  t_heap : list odcfg;            (* the OnDemandConfig values allocated so far; a reference is an index *)
  t_default : option ref;         (* Default.OnDemand *)
  t_cfgs : list (option ref)      (* cfg.OnDemand of every Config created so far *)
}.

Inductive top :=
| TSetDefault (o : option odcfg)          (* Default.OnDemand = &OnDemandConfig{...} / nil *)
| TNew (o : option odcfg)                 (* New(cache, Config{OnDemand: o}) *)
| TManage (i : nat) (names : list name).  (* cfgs[i].ManageSync / ManageAsync (names) *)

Fixpoint update_nth {A} (l : list A) (k : nat) (f : A -> A) : list A :=
  match l, k with
  | [], _ => []
  | x :: r, O => f x :: r
  | x :: r, S k' => x :: update_nth r k' f
  end.

Definition tstep (s : tstate) (o : top) : tstate :=
  match o with
  | TSetDefault None => TState (t_heap s) None (t_cfgs s)
  | TSetDefault (Some od) => TState (t_heap s ++ [od]) (Some (length (t_heap s))) (t_cfgs s)
  | TNew None => TState (t_heap s) (t_default s) (t_cfgs s ++ [t_default s])          (* alias, not a copy *)
  | TNew (Some od) => TState (t_heap s ++ [od]) (t_default s) (t_cfgs s ++ [Some (length (t_heap s))])
  | TManage i names =>
      match nth i (t_cfgs s) None with
      | Some r => TState (update_nth (t_heap s) r (fun od => OdCfg (od_decision od) (od_allow od ++ names)))
                         (t_default s) (t_cfgs s)
      | None => s       (* not an on-demand Config: certificates are managed right away (not modelled here) *)
      end
  end.
Definition trun (s : tstate) (ops : list top) : tstate := fold_left tstep ops s.

(** the policy checkIfCertShouldBeObtained enforces for an OnDemandConfig *)
Definition policy_of_od (od : odcfg) : policy :=
  match od_decision od with Some f => PDecision f | None => PAllow (od_allow od) end.
Definition policy_of (s : tstate) (i : nat) : option policy :=
  match nth i (t_cfgs s) None with
  | Some r => option_map policy_of_od (nth_error (t_heap s) r)
  | None => None
  end.

(** ** with a DecisionFunc the implicit allowlist is irrelevant *)
Theorem decision_ignores_allowlist f l1 l2 :
  policy_of_od (OdCfg (Some f) l1) = policy_of_od (OdCfg (Some f) l2).
Proof. reflexivity. Qed.

Theorem gate_ignores_allowlist_with_decision is_space w f l1 l2 n req :
  gate is_space (set_od w (Some (policy_of_od (OdCfg (Some f) l1)))) n req =
  gate is_space (set_od w (Some (policy_of_od (OdCfg (Some f) l2)))) n req.
Proof. reflexivity. Qed.

(** ** Configs made from the template share the template's allowlist *)
Lemma update_nth_length {A} (l : list A) k f : length (update_nth l k f) = length l.
Proof. revert k; induction l as [|x l IH]; intros [|k]; cbn; auto. Qed.
Lemma nth_error_update_nth {A} (l : list A) k f j :
  nth_error (update_nth l k f) j = if Nat.eqb j k then option_map f (nth_error l j) else nth_error l j.
Proof.
  revert k j; induction l as [|x l IH]; intros [|k] [|j]; cbn; try reflexivity.
  - destruct (Nat.eqb _ _); reflexivity.
  - apply IH.
Qed.

(** references stay valid, and what a reference points to only ever gains names and keeps its
    DecisionFunc *)
Definition grows (a b : odcfg) : Prop :=
  od_decision b = od_decision a /\ forall n, In n (od_allow a) -> In n (od_allow b).
Lemma grows_refl a : grows a a. Proof. split; auto. Qed.
Lemma grows_trans a b c : grows a b -> grows b c -> grows a c.
Proof. intros [A1 A2] [B1 B2]. split; [congruence|auto]. Qed.

Lemma tstep_heap s o r od : nth_error (t_heap s) r = Some od ->
  exists od', nth_error (t_heap (tstep s o)) r = Some od' /\ grows od od'.
Proof.
  intros H. destruct o as [[od0|]|[od0|]|i names]; cbn.
  - exists od. split; [|apply grows_refl]. rewrite nth_error_app1; [exact H|]. apply nth_error_Some. congruence.
  - exists od. split; [exact H|apply grows_refl].
  - exists od. split; [|apply grows_refl]. rewrite nth_error_app1; [exact H|]. apply nth_error_Some. congruence.
  - exists od. split; [exact H|apply grows_refl].
  - destruct (nth i (t_cfgs s) None) as [r0|]; [|exists od; split; [exact H|apply grows_refl]].
    cbn. rewrite nth_error_update_nth. destruct (Nat.eqb r r0).
    + rewrite H. cbn. eexists. split; [reflexivity|]. split; [reflexivity|].
      intros n Hn. cbn. apply in_or_app. left; exact Hn.
    + exists od. split; [exact H|apply grows_refl].
Qed.
Lemma tstep_cfgs s o i p : nth_error (t_cfgs s) i = Some p -> nth_error (t_cfgs (tstep s o)) i = Some p.
Proof.
  intros H. destruct o as [[od0|]|[od0|]|j names]; cbn; try exact H;
    try (rewrite nth_error_app1; [exact H|apply nth_error_Some; congruence]).
  destruct (nth j (t_cfgs s) None); exact H.
Qed.

Lemma trun_heap ops : forall s r od, nth_error (t_heap s) r = Some od ->
  exists od', nth_error (t_heap (trun s ops)) r = Some od' /\ grows od od'.
Proof.
  induction ops as [|o ops IH]; intros s r od H; cbn; [exists od; split; [exact H|apply grows_refl]|].
  destruct (tstep_heap s o r od H) as (od1 & H1 & G1).
  destruct (IH _ _ _ H1) as (od2 & H2 & G2). exists od2. split; [exact H2|eapply grows_trans; eauto].
Qed.
Lemma trun_cfgs ops : forall s i p, nth_error (t_cfgs s) i = Some p -> nth_error (t_cfgs (trun s ops)) i = Some p.
Proof. induction ops as [|o ops IH]; intros s i p H; cbn; [exact H|]. apply IH, tstep_cfgs, H. Qed.

Lemma nth_of_nth_error {A} (l : list (option A)) i p : nth_error l i = Some p -> nth i l None = p.
Proof. revert i; induction l as [|x l IH]; intros [|i] H; cbn in *; try discriminate; [congruence|auto]. Qed.

(** two Configs that point to the same OnDemandConfig (in particular: two Configs made from the
    template while Default.OnDemand was the same pointer) enforce the same policy at all times *)
Theorem aliased_configs_same_policy s i j :
  nth i (t_cfgs s) None = nth j (t_cfgs s) None -> policy_of s i = policy_of s j.
Proof. unfold policy_of. intros ->. reflexivity. Qed.

Theorem template_configs_alias_default s :
  let s' := tstep s (TNew None) in
  nth (length (t_cfgs s)) (t_cfgs s') None = t_default s.
Proof. cbn. rewrite app_nth2, Nat.sub_diag by lia. reflexivity. Qed.

(** the names managed through ONE Config made from the template are on the allowlist every OTHER
    Config that aliases the same OnDemandConfig enforces, whatever happens afterwards, and — absent a
    DecisionFunc — exactly such a list is the policy: a name that was never managed is refused as soon
    as the list is non-empty *)
Theorem managed_names_reach_every_aliased_config s i j r names ops :
  nth_error (t_cfgs s) i = Some (Some r) -> nth_error (t_cfgs s) j = Some (Some r) ->
  (r < length (t_heap s))%nat ->
  let s' := trun (tstep s (TManage i names)) ops in
  exists od, nth_error (t_heap s') r = Some od /\
    policy_of s' j = Some (policy_of_od od) /\ forall n, In n names -> In n (od_allow od).
Proof.
  intros Hi Hj Hr s'.
  destruct (nth_error (t_heap s) r) as [od0|] eqn:H0; [|apply nth_error_None in H0; lia].
  assert (H1 : nth_error (t_heap (tstep s (TManage i names))) r = Some (OdCfg (od_decision od0) (od_allow od0 ++ names))).
  { cbn. rewrite (nth_of_nth_error _ _ _ Hi). cbn. rewrite nth_error_update_nth, Nat.eqb_refl, H0. reflexivity. }
  destruct (trun_heap ops _ _ _ H1) as (od & H2 & [_ G]).
  exists od. split; [exact H2|]. split.
  - unfold policy_of. fold s'.
    assert (Hj' : nth_error (t_cfgs s') j = Some (Some r)).
    { apply trun_cfgs. apply tstep_cfgs. exact Hj. }
    rewrite (nth_of_nth_error _ _ _ Hj'). fold s' in H2. rewrite H2. reflexivity.
  - intros n Hn. apply G. cbn. apply in_or_app. right; exact Hn.
Qed.

(** non-vacuity: the documented flow — on-demand on the template without DecisionFunc, cfgA manages
    "a", cfgB (made before) and cfgC (made after) both refuse "b" and permit "a" *)
Example template_flow :
  let a := [97] in let b := [98] in
  let s := trun (TState [] None []) [TSetDefault (Some (OdCfg None [])); TNew None; TNew None; TManage 1 [a]; TNew None] in
  (policy_of s 0, policy_of s 2) = (Some (PAllow [a]), Some (PAllow [a])) /\
  allow_ok [a] a = true /\ allow_ok [a] b = false.
Proof. vm_compute. auto. Qed.
