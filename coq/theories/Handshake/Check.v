(** Correspondence for C02: cases written by the Go harness (a world, a history of operations,
    and what the real Config.GetCertificate did in each handshake) are replayed on the model and,
    independently of the model, judged by the boolean form of the theorems' statement
    ([spec_hs]) evaluated on the implementation's observed effects. *)
From CM Require Import Lib.Str Lib.Wire Lib.QualSteps Gen.Consts Handshake.Model.
Open Scope N_scope.

Definition effect_eqb (a b : effect) : bool :=
  match a, b with
  | EDecision n r, EDecision m s => str_eqb n m && Bool.eqb r s
  | EAllow n r, EAllow m s => str_eqb n m && Bool.eqb r s
  | EExists n, EExists m | ELoad n, ELoad m | EMeta n, EMeta m | EIssue n, EIssue m
  | ESelfWait n, ESelfWait m | EManager n, EManager m => str_eqb n m
  | EEvict i, EEvict j => i =? j
  | _, _ => false
  end.

(** the three Exists / the key+certificate Loads of one bundle access are one effect, and a
    re-check of the same bundle right after is not distinguished: adjacent duplicates collapse *)
Fixpoint collapse (l : list effect) : list effect :=
  match l with
  | a :: ((b :: _) as r) => if effect_eqb a b then collapse r else a :: collapse r
  | _ => l
  end.

Definition nonempty {A} (l : list A) : bool := match l with [] => false | _ => true end.

(** canonical form of what a handshake did: own goroutine first, then the spawned goroutines that
    did something observable *)
Definition canon (own : list effect) (kids : list (list effect)) : list (list effect) :=
  collapse (filter observable own) ::
  filter nonempty (map (fun k => collapse (filter observable k)) kids).

Fixpoint list_eqb {A} (eqb : A -> A -> bool) (a b : list A) : bool :=
  match a, b with
  | [], [] => true
  | x :: a', y :: b' => eqb x y && list_eqb eqb a' b'
  | _, _ => false
  end.

Definition result_eqb (a b : result) : bool :=
  match a, b with
  | RCert i, RCert j => i =? j
  | REmpty, REmpty => true
  | RErr _, RErr _ => true
  | _, _ => false
  end.

Definition subset {A} (eqb : A -> A -> bool) (a b : list A) : bool :=
  forallb (fun x => existsb (eqb x) b) a.
Definition same_set {A} (eqb : A -> A -> bool) (a b : list A) : bool :=
  subset eqb a b && subset eqb b a.
Definition pair_eqb (a b : name * N) : bool := str_eqb (fst a) (fst b) && (snd a =? snd b).

(** observation of one handshake *)
Record hs_seen := HsSeen {
  s_effects : list (list effect);   (* per goroutine, own first *)
  s_res : result;
  s_cache : list N;
  s_store : list (name * N)
}.

Inductive wop :=
| WHandshake (h : hello) (o : hs_seen)
| WEnv (o : op).

Section Run.
  Variable is_space : N -> bool.

  (** replay: returns (model agrees, spec holds) *)
  Fixpoint replay (w : world) (ops : list wop) : bool * bool :=
    match ops with
    | [] => (true, true)
    | WEnv o :: r => replay (env_step w o) r
    | WHandshake h seen :: r =>
        let '(own, kids, res, w') := handshake is_space w h in
        (* a handshake found waiting on itself is abandoned by the harness there (the time-out is
           not waited out): its result and the state it would leave are not observed *)
        let hung := existsb (existsb (fun e => match e with ESelfWait _ => true | _ => false end)) (s_effects seen) in
        let agree :=
          list_eqb (list_eqb effect_eqb) (canon own kids)
                   (match s_effects seen with
                    | o :: k => canon o k
                    | [] => canon [] []
                    end) &&
          (hung ||
           result_eqb res (s_res seen) &&
           same_set N.eqb (map c_id (w_cache w')) (s_cache seen) &&
           same_set pair_eqb (map (fun kv => (fst kv, c_id (snd kv))) (w_store w')) (s_store seen)) in
        (* ... and every handshake ends with an error or a COMPLETE certificate (non-empty chain and
           private key): never the empty certificate with a nil error *)
        let spec := spec_hs is_space (w_od w) (h_name h) (hit_key w h) (s_effects seen) && no_selfwait (s_effects seen) &&
                    match s_res seen with REmpty => false | _ => true end in
        let '(a, s) := replay w' r in
        (agree && a, spec && s)
    end.
End Run.

(** ** wire decoding *)
Definition get_cert_w : dec cert :=
  (id <- get_n ;; ns <- get_list get_str ;; m <- get_bool ;; d <- get_bool ;; x <- get_bool ;;
   rv <- get_bool ;; kc <- get_bool ;; a <- get_opt get_bool ;;
   ret (Cert id ns m d x rv kc a))%Z.

Definition mem_name (n : name) (l : list name) : bool := existsb (str_eqb n) l.

(** DecisionFunc of the harness: the k-th evaluation since the policy was set (at evaluation
    count [base]) permits the names of the k-th entry of the schedule, the last entry repeating *)
Definition sched_fun (base : nat) (sched : list (list name)) : nat -> name -> bool :=
  fun k n => mem_name n (nth (k - base) sched (last sched [])).

Definition get_policy : dec (option policy) :=
  (t <- get_n ;;
   match t with
   | 0%N => ret None
   | 1%N => b <- get_nat ;; s <- get_list (get_list get_str) ;; ret (Some (PDecision (sched_fun b s)))
   | 2%N => l <- get_list get_str ;; ret (Some (PAllow l))
   | _ => fun _ => None
   end)%Z.

Definition get_effect : dec effect :=
  (t <- get_n ;; n <- get_str ;;
   match t with
   | 0%N => r <- get_bool ;; ret (EDecision n r)
   | 2%N => ret (EExists n)
   | 3%N => ret (ELoad n)
   | 4%N => ret (EMeta n)
   | 5%N => ret (EIssue n)
   | 7%N => ret (ESelfWait n)
   | 8%N => ret (EManager n)
   | _ => fun _ => None
   end)%Z.

Definition get_result : dec result :=
  (t <- get_n ;;
   match t with
   | 0%N => i <- get_n ;; ret (RCert i)
   | 1%N => ret REmpty
   | 2%N => ret (RErr 0)
   | _ => fun _ => None
   end)%Z.

Definition get_mgr : dec mgr :=
  (t <- get_n ;;
   match t with
   | 0%N => ret MgrNone
   | 1%N => ret MgrEmpty
   | 2%N => i <- get_n ;; ret (MgrCert i)
   | 3%N => ret MgrErr
   | _ => fun _ => None
   end)%Z.

Definition get_wop : dec wop :=
  (t <- get_n ;;
   match t with
   | 0%N =>
       nm <- get_opt get_str ;; hit <- get_opt get_n ;; df <- get_opt get_n ;; mg <- get_mgr ;;
       ok <- get_bool ;; va <- get_bool ;;
       gs <- get_list (get_list get_effect) ;; res <- get_result ;;
       ca <- get_list get_n ;; st <- get_list (get_pair get_str get_n) ;;
       ret (WHandshake (Hello nm hit df mg ok va) (HsSeen gs res ca st))
   | 1%N => p <- get_policy ;; ret (WEnv (OSetPolicy p))
   | 2%N => n <- get_str ;; ret (WEnv (OStoreDel n))
   | 3%N => n <- get_str ;; c <- get_cert_w ;; ret (WEnv (OStorePut n c))
   | 4%N => c <- get_cert_w ;; ret (WEnv (OCacheSet c))
   | 5%N => i <- get_n ;; ret (WEnv (OCacheDel i))
   | _ => fun _ => None
   end)%Z.

Inductive ccase :=
| CHistory (stbl : list N) (w : world) (ops : list wop)
| CQual (stbl : list N) (s : str) (obs : bool).

Definition get_case : dec ccase :=
  (k <- get_n ;; st <- get_list get_n ;;
   match k with
   | 0%N =>
       p <- get_policy ;; cap <- get_nat ;; ca <- get_list get_cert_w ;;
       so <- get_list (get_pair get_str get_cert_w) ;; fr <- get_n ;;
       ops <- get_list get_wop ;;
       ret (CHistory st (World p cap ca so O fr) ops)
   | 1%N => s <- get_str ;; o <- get_bool ;; ret (CQual st s o)
   | _ => fun _ => None
   end)%Z.

Definition check_line (l : list Z) : Z :=
  match decode get_case l with
  | Some (CHistory st w ops) => let '(a, s) := replay (tbl_space st) w ops in code a s
  | Some (CQual st s o) =>
      (* the subject-syntax clause: the implementation's answer against the source as translated
         today (model) and against the documented rule (specification) *)
      code (Bool.eqb (qualifies (tbl_space st) s) o) (Bool.eqb (qual_spec (tbl_space st) s) o)
  | None => code_decode_error
  end.

(** diagnostics: the model's effects for each handshake of the line:
    per handshake: result tag, then per goroutine: -1, then per effect: tag and name length *)
Definition put_effect (e : effect) : list Z :=
  match e with
  | EDecision n r => [0; if r then 1 else 0]%Z ++ put_str n
  | EAllow n r => [1; if r then 1 else 0]%Z ++ put_str n
  | EExists n => 2%Z :: put_str n
  | ELoad n => 3%Z :: put_str n
  | EMeta n => 4%Z :: put_str n
  | EIssue n => 5%Z :: put_str n
  | EEvict i => [6; Z.of_N i]%Z
  | ESelfWait n => 7%Z :: put_str n
  | EManager n => 8%Z :: put_str n
  end.
Fixpoint explain_ops (is_space : N -> bool) (w : world) (ops : list wop) : list Z :=
  match ops with
  | [] => []
  | WEnv o :: r => explain_ops is_space (env_step w o) r
  | WHandshake h _ :: r =>
      let '(own, kids, res, w') := handshake is_space w h in
      ((-100)%Z :: match res with RCert i => Z.of_N i | REmpty => (-1)%Z | RErr k => (-2 - Z.of_N k)%Z end ::
       flat_map (fun g => (-10)%Z :: flat_map put_effect g) (own :: kids)) ++
      ((-20)%Z :: map (fun c => Z.of_N (c_id c)) (w_cache w')) ++
      explain_ops is_space w' r
  end.
Definition explain_line (l : list Z) : list Z :=
  match decode get_case l with
  | Some (CHistory st w ops) => explain_ops (tbl_space st) w ops
  | Some (CQual st s o) => [if qualifies (tbl_space st) s then 1 else 0]%Z
  | None => []
  end.
