(** C10 — model of certmagic.FileStorage (filestorage.go) over a small POSIX file system.
    Executable definitions only.

    Part 1 (this file): the *sequential* key semantics.  The state is the directory tree
    below FileStorage.Path, kept flat: a list of (path, entry) with paths as component
    lists.  Every operation is modelled at the level of what the system calls the Go code
    issues do on that tree (name resolution walking the components left to right with
    ENOENT / ENOTDIR, MkdirAll, rename over the destination, RemoveAll, filepath.Walk with
    SkipDir) and of how FileStorage maps errno to its results (after the ENOTDIR fix:
    ENOENT and ENOTDIR both satisfy errors.Is(err, fs.ErrNotExist)).

    Store's effect on the tree is taken atomically here (the temp file is invisible to a
    sequential observer); that this is justified for concurrent observers and crashes is the
    subject of Part 2 ([FileSys.Lts]: temp file, write, fsync, close, rename as separate
    steps).

    The independent *specification* (documented Storage semantics: an abstract key tree
    computed from the history of successful Stores / Deletes, prefixes by whole
    components) is [spec_step] / [spec_trace] at the end of this file; it does not use the
    tree, name resolution or errno. *)
From CM Require Import Lib.Str.
Open Scope N_scope.

Definition path := list str.
Definition value := list N.

Inductive entry := EFile (v : value) | EDir.

Fixpoint path_eqb (a b : path) : bool :=
  match a, b with
  | [], [] => true
  | x :: a', y :: b' => str_eqb x y && path_eqb a' b'
  | _, _ => false
  end.

(** [is_prefix p q]: [p] is a prefix of [q] by whole components (possibly [p = q]) *)
Fixpoint is_prefix (p q : path) : bool :=
  match p, q with
  | [], _ => true
  | x :: p', y :: q' => str_eqb x y && is_prefix p' q'
  | _ :: _, [] => false
  end.

Definition proper_prefix (p q : path) : bool := is_prefix p q && negb (path_eqb p q).

(** ** the tree *)
Definition fsys := list (path * entry).

Fixpoint find_entry (fs : fsys) (p : path) : option entry :=
  match fs with
  | [] => None
  | (q, e) :: r => if path_eqb q p then Some e else find_entry r p
  end.

(** the root (FileStorage.Path itself) is a directory *)
Definition lookup (fs : fsys) (p : path) : option entry :=
  match p with [] => Some EDir | _ => find_entry fs p end.

Definition put (fs : fsys) (p : path) (e : entry) : fsys :=
  (p, e) :: filter (fun qe => negb (path_eqb (fst qe) p)) fs.

(** remove [p] and everything below it (os.RemoveAll) *)
Definition remove_sub (fs : fsys) (p : path) : fsys :=
  filter (fun qe => negb (is_prefix p (fst qe))) fs.

(** ** system-call level *)
Inductive errno := ENOENT | ENOTDIR | EISDIR.

(** kernel name resolution of [pre ++ rest], [pre] already resolved to a directory or not
    yet looked at: every component before the last must be a directory *)
Fixpoint resolve_from (fs : fsys) (pre rest : path) : errno + entry :=
  match rest with
  | [] => match lookup fs pre with Some e => inr e | None => inl ENOENT end
  | c :: r =>
      match lookup fs pre with
      | None => inl ENOENT
      | Some (EFile _) => inl ENOTDIR
      | Some EDir => resolve_from fs (pre ++ [c]) r
      end
  end.
Definition resolve (fs : fsys) (p : path) : errno + entry := resolve_from fs [] p.

(** os.MkdirAll(pre/rest): make every missing directory on the way; a regular file on the
    way is ENOTDIR (and nothing has been created then, because everything above an existing
    file exists) *)
Fixpoint mkdir_all_from (fs : fsys) (pre rest : path) : errno + fsys :=
  match rest with
  | [] => inr fs
  | c :: r =>
      let p := pre ++ [c] in
      match lookup fs p with
      | Some EDir => mkdir_all_from fs p r
      | Some (EFile _) => inl ENOTDIR
      | None => mkdir_all_from (put fs p EDir) p r
      end
  end.

Definition parent (p : path) : path := removelast p.

(** ** FileStorage operations *)
Inductive rcls := ROk | RNotExist | ROther.
Definition rcls_eqb (a b : rcls) : bool :=
  match a, b with ROk, ROk | RNotExist, RNotExist | ROther, ROther => true | _, _ => false end.

(** keyNotExist + errors.Is(err, fs.ErrNotExist) *)
Definition cls_of_errno (e : errno) : rcls :=
  match e with ENOENT | ENOTDIR => RNotExist | EISDIR => ROther end.

Inductive op :=
| OpStore (k : path) (v : value)
| OpLoad (k : path)
| OpDelete (k : path)
| OpExists (k : path)
| OpStat (k : path)
| OpList (p : path) (recursive : bool).

(** one uniform observation record: result class, value (Load), flag (Exists result /
    Stat IsTerminal), keys (List), size (Stat of a file) *)
Record obs := Obs { ocls : rcls; oval : value; oflag : bool; okeys : list path; osize : N }.
Definition obs_cls (c : rcls) : obs := Obs c [] false [] 0.

(** *** ordering of List results: filepath.Walk visits names in byte order, pre-order *)
Fixpoint str_ltb (a b : str) : bool :=
  match a, b with
  | [], [] => false
  | [], _ :: _ => true
  | _ :: _, [] => false
  | x :: a', y :: b' => (x <? y) || ((x =? y) && str_ltb a' b')
  end.
Fixpoint path_ltb (a b : path) : bool :=
  match a, b with
  | [], [] => false
  | [], _ :: _ => true
  | _ :: _, [] => false
  | x :: a', y :: b' => str_ltb x y || (str_eqb x y && path_ltb a' b')
  end.
Fixpoint insert_path (x : path) (l : list path) : list path :=
  match l with
  | [] => [x]
  | y :: r => if path_ltb x y then x :: l else y :: insert_path x r
  end.
Definition sort_paths (l : list path) : list path := fold_right insert_path [] l.

Definition listed (p : path) (recursive : bool) (q : path) : bool :=
  proper_prefix p q && (recursive || (length q =? S (length p))%nat).

Definition list_keys (fs : fsys) (p : path) (recursive : bool) : list path :=
  sort_paths (map fst (filter (fun qe => listed p recursive (fst qe)) fs)).

Definition fs_store (fs : fsys) (k : path) (v : value) : fsys * obs :=
  match mkdir_all_from fs [] (parent k) with
  | inl _ => (fs, obs_cls ROther)                 (* MkdirAll: a parent is a regular file *)
  | inr fs1 =>
      match lookup fs1 k with
      | Some EDir => (fs1, obs_cls ROther)        (* rename onto a directory fails; temp removed *)
      | _ => (put fs1 k (EFile v), obs_cls ROk)   (* temp file renamed over the destination *)
      end
  end.

Definition fs_load (fs : fsys) (k : path) : obs :=
  match resolve fs k with
  | inr (EFile v) => Obs ROk v false [] 0
  | inr EDir => obs_cls (cls_of_errno EISDIR)
  | inl e => obs_cls (cls_of_errno e)
  end.

Definition fs_delete (fs : fsys) (k : path) : fsys * obs :=
  match resolve fs k with
  | inr _ => (remove_sub fs k, obs_cls ROk)
  | inl _ => (fs, obs_cls ROk)                    (* ENOENT: RemoveAll = nil; ENOTDIR: mapped to nil *)
  end.

Definition fs_exists (fs : fsys) (k : path) : obs :=
  match resolve fs k with
  | inr _ => Obs ROk [] true [] 0
  | inl e => Obs ROk [] (negb (rcls_eqb (cls_of_errno e) RNotExist)) [] 0
  end.

Definition fs_stat (fs : fsys) (k : path) : obs :=
  match resolve fs k with
  | inr (EFile v) => Obs ROk [] true [] (N.of_nat (length v))
  | inr EDir => Obs ROk [] false [] 0
  | inl e => obs_cls (cls_of_errno e)
  end.

Definition fs_list (fs : fsys) (p : path) (recursive : bool) : obs :=
  match resolve fs p with
  | inr (EFile _) => obs_cls ROk                   (* Walk visits only the root *)
  | inr EDir => Obs ROk [] false (list_keys fs p recursive) 0
  | inl e => obs_cls (cls_of_errno e)
  end.

Definition fs_step (fs : fsys) (o : op) : fsys * obs :=
  match o with
  | OpStore k v => fs_store fs k v
  | OpLoad k => (fs, fs_load fs k)
  | OpDelete k => fs_delete fs k
  | OpExists k => (fs, fs_exists fs k)
  | OpStat k => (fs, fs_stat fs k)
  | OpList p r => (fs, fs_list fs p r)
  end.

Fixpoint fs_run (fs : fsys) (ops : list op) : fsys * list obs :=
  match ops with
  | [] => (fs, [])
  | o :: r => let '(fs1, b) := fs_step fs o in
              let '(fs2, bs) := fs_run fs1 r in (fs2, b :: bs)
  end.

(** ** Specification: the documented key semantics, from the history alone

    A history is the list of (operation, observed result) so far, most recent first.
    The abstract key tree is read off it: a key is a file with the value of the latest
    successful Store to it, or a directory when a later-or-equal successful Store went
    below it, unless a successful Delete of one of its component-wise prefixes came after. *)
Definition is_ok (r : obs) : bool := rcls_eqb (ocls r) ROk.

Fixpoint hlookup (h : list (op * obs)) (k : path) : option entry :=
  match k with
  | [] => Some EDir
  | _ =>
      match h with
      | [] => None
      | (OpStore q v, r) :: h' =>
          if is_ok r then
            if path_eqb q k then Some (EFile v)
            else if proper_prefix k q then Some EDir
            else hlookup h' k
          else hlookup h' k
      | (OpDelete q, r) :: h' =>
          if is_ok r then (if is_prefix q k then None else hlookup h' k) else hlookup h' k
      | _ :: h' => hlookup h' k
      end
  end.

(** all non-empty prefixes of a path, shortest first *)
Fixpoint prefixes_from (pre rest : path) : list path :=
  match rest with
  | [] => []
  | c :: r => (pre ++ [c]) :: prefixes_from (pre ++ [c]) r
  end.
Definition prefixes (p : path) : list path := prefixes_from [] p.

(** every key that can be present: prefixes of keys of successful Stores *)
Fixpoint candidates (h : list (op * obs)) : list path :=
  match h with
  | [] => []
  | (OpStore q _, r) :: h' => if is_ok r then prefixes q ++ candidates h' else candidates h'
  | _ :: h' => candidates h'
  end.

Definition present (h : list (op * obs)) (k : path) : bool :=
  match hlookup h k with Some _ => true | None => false end.

(** a Store cannot be carried out: a proper prefix of the key is a file, or the key is a
    directory (or the key is the root) *)
Definition conflict (h : list (op * obs)) (k : path) : bool :=
  match k with [] => true | _ => false end ||
  existsb (fun q => match hlookup h q with Some (EFile _) => proper_prefix q k | _ => false end) (prefixes k) ||
  match hlookup h k with Some EDir => true | _ => false end.

Definition mem_path (q : path) (l : list path) : bool := existsb (path_eqb q) l.

Definition spec_step (h : list (op * obs)) (o : op) (r : obs) : bool :=
  match o with
  | OpStore k v => if conflict h k then negb (is_ok r) else is_ok r
  | OpLoad k =>
      match hlookup h k with
      | Some (EFile v) => is_ok r && str_eqb (oval r) v          (* the whole last value *)
      | Some EDir => negb (is_ok r)
      | None => rcls_eqb (ocls r) RNotExist                       (* missing => not-exist *)
      end
  | OpDelete k => match k with [] => true | _ => is_ok r end      (* errs only if key still exists *)
  | OpExists k => Bool.eqb (oflag r) (present h k)
  | OpStat k =>
      match hlookup h k with
      | Some (EFile v) => is_ok r && oflag r && (osize r =? N.of_nat (length v))
      | Some EDir => is_ok r && negb (oflag r)
      | None => rcls_eqb (ocls r) RNotExist
      end
  | OpList p recursive =>
      match hlookup h p with
      | None => rcls_eqb (ocls r) RNotExist
      | Some (EFile _) => is_ok r && match okeys r with [] => true | _ => false end
      | Some EDir =>
          is_ok r &&
          (* only present keys below the prefix by whole components; direct children only
             when not recursive *)
          forallb (fun q => listed p recursive q && present h q) (okeys r) &&
          (* and all of them *)
          forallb (fun q => negb (listed p recursive q && present h q) || mem_path q (okeys r))
                  (candidates h)
      end
  end.

(** walk a trace in chronological order, accumulating the history *)
Fixpoint spec_trace_from (h : list (op * obs)) (tr : list (op * obs)) : bool :=
  match tr with
  | [] => true
  | (o, r) :: rest => spec_step h o r && spec_trace_from ((o, r) :: h) rest
  end.
Definition spec_trace (tr : list (op * obs)) : bool := spec_trace_from [] tr.

(** after a Delete nothing below the key is present any more: evaluated on the history *)
Definition nothing_below (h : list (op * obs)) (k : path) : bool :=
  forallb (fun q => negb (is_prefix k q && present h q)) (candidates h).
