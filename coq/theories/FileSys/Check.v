(** Correspondence for C10: cases written by the Go harness (inputs + what the real
    FileStorage did on a real directory) are evaluated against the models ([FileSys.Model],
    [FileSys.Lts]) and, independently of the models' outputs, against the boolean form of
    the theorems' statements.

    kind 0  sequential op sequence on a fresh FileStorage: model = [fs_run]; spec = [spec_trace]
            (documented key semantics from the history) on the implementation's results.
    kind 1  system-call trace (strace) of one Store / Load / Delete of a file key: model = the solo run of the LTS with the
            observed write/read sizes; spec = the structural facts the LTS rests on (temp file
            created O_EXCL in the destination's directory, only the temp fd is written,
            fsync, close, then rename temp -> destination; Load opens once, read-only).
    kind 2  timed history of concurrent Stores / Loads on one key with tagged values:
            spec = every Load returns a whole value that some linearization allows.
    kind 3  writer process killed with SIGKILL: model = the set of values the LTS can leave
            under the name when the writer is killed at any step; spec = old or new, whole. *)
From CM Require Import Lib.Str Lib.Wire FileSys.Model FileSys.Lts.
Open Scope Z_scope.

(** ** decoding *)
Definition get_path : dec path := get_list get_str.
Definition get_op : dec op :=
  tag <- get_z ;;
  k <- get_path ;;
  if tag =? 0 then (v <- get_str ;; ret (OpStore k v))
  else if tag =? 1 then ret (OpLoad k)
  else if tag =? 2 then ret (OpDelete k)
  else if tag =? 3 then ret (OpExists k)
  else if tag =? 4 then ret (OpStat k)
  else if tag =? 5 then (r <- get_bool ;; ret (OpList k r))
  else (fun _ => None).
Definition cls_of_z (z : Z) : rcls := if z =? 0 then ROk else if z =? 1 then RNotExist else ROther.
Definition get_obs : dec obs :=
  c <- get_z ;; v <- get_str ;; f <- get_bool ;; ks <- get_list get_path ;; sz <- get_n ;;
  ret (Obs (cls_of_z c) v f ks sz).

(** ** kind 0 *)
Definition keys_eqb (a b : list path) : bool :=
  (length a =? length b)%nat && forallb (fun xy => path_eqb (fst xy) (snd xy)) (combine a b).

(** fields that are not determined for an operation are not compared (size of a
    directory, value of a failed Load, ...) *)
Definition obs_agree (o : op) (m r : obs) : bool :=
  rcls_eqb (ocls m) (ocls r) &&
  match o with
  | OpLoad _ => str_eqb (oval m) (oval r)
  | OpExists _ => Bool.eqb (oflag m) (oflag r)
  | OpStat _ => Bool.eqb (oflag m) (oflag r) && (negb (oflag m) || (osize m =? osize r)%N)
  | OpList _ _ => keys_eqb (okeys m) (okeys r)
  | _ => true
  end.

Fixpoint all_agree (ops : list op) (ms rs : list obs) : bool :=
  match ops, ms, rs with
  | [], [], [] => true
  | o :: ops', m :: ms', r :: rs' => obs_agree o m r && all_agree ops' ms' rs'
  | _, _, _ => false
  end.

Definition check_seq (ops : list op) (rs : list obs) : Z :=
  let ms := snd (fs_run [] ops) in
  code (all_agree ops ms rs) ((length ops =? length rs)%nat && spec_trace (combine ops rs)).

(** ** kind 1: system-call traces.  An observed event is (code, path class, flags):
    codes as [sysop_code], plus 10 = mkdir, 11 = fchmod on the temp fd, 12 = fstat;
    path class 1 = the destination, 2 = a new name in the destination's directory,
    3 = anything else below the root; flags: 1 = O_EXCL, 2 = O_CREAT, 4 = O_TRUNC,
    8 = open for writing; for write/read events the flags field is the byte count. *)
Record sev := Sev { scode : Z; sclass : Z; sarg : Z }.
Definition get_sev : dec sev := c <- get_z ;; p <- get_z ;; a <- get_z ;; ret (Sev c p a).

Definition core (e : sev) : bool := (1 <=? scode e) && (scode e <=? 9).
Definition codes (l : list sev) : list Z := map scode (filter core l).
Fixpoint zlist_eqb (a b : list Z) : bool :=
  match a, b with
  | [], [] => true
  | x :: a', y :: b' => (x =? y) && zlist_eqb a' b'
  | _, _ => false
  end.
Definition testbit (a m : Z) : bool := Z.odd (a / m).

Definition zeros (n : nat) : value := repeat 0%N n.

(** the LTS run for a Store of [vlen] bytes written in chunks [ws] followed by a Load read
    in chunks [rs]; returns the system-call codes and what Load returned *)
Definition lts_store_load (vlen : nat) (ws rs : list nat) : option (list Z * list Z * option nat) :=
  let v := zeros vlen in
  let ls1 := solo_store 7%nat v ws in
  let ls2 := LSpawnLoad 1%nat 7%nat :: LOpen 1%nat :: map (LRead 1%nat) rs in
  match run init_empty (ls1 ++ ls2) with
  | Some s =>
      match thr s 1%nat with
      | RDone _ (Some b) => Some (map sysop_code (sys_trace ls1), map sysop_code (sys_trace ls2), Some (length b))
      | RDone _ None => Some (map sysop_code (sys_trace ls1), map sysop_code (sys_trace ls2), None)
      | _ => None
      end
  | None => None
  end.

Definition lts_store (vlen : nat) (ws : list nat) : option (list Z) :=
  let ls1 := solo_store 7%nat (zeros vlen) ws in
  match run init_empty ls1 with
  | Some s => match thr s 0%nat, named_value s 7%nat with
              | WDone _ _, Some d => if (length d =? vlen)%nat then Some (map sysop_code (sys_trace ls1)) else None
              | _, _ => None
              end
  | None => None
  end.

Definition sum_args (c : Z) (l : list sev) : Z :=
  fold_left (fun acc e => if scode e =? c then acc + sarg e else acc) l 0.

(** structural requirements on the observed Store trace *)
Definition store_trace_ok (vlen : Z) (l : list sev) : bool :=
  let c := filter core l in
  match c with
  | cr :: rest =>
      (scode cr =? 1) && (sclass cr =? 2) && testbit (sarg cr) 1 && testbit (sarg cr) 2 &&
      (* only the temp fd is written; all bytes arrive *)
      forallb (fun e => negb (scode e =? 2) || (sclass e =? 2)) rest &&
      (sum_args 2 rest =? vlen) &&
      (* nothing is opened for writing except that one create; the destination is never opened *)
      forallb (fun e => negb ((scode e =? 1) || (scode e =? 7))) rest &&
      (* after the writes: fsync(temp), close(temp), rename(temp -> dest), nothing else *)
      match filter (fun e => negb (scode e =? 2)) rest with
      | [f; cl; rn] =>
          (scode f =? 3) && (sclass f =? 2) && (scode cl =? 4) && (sclass cl =? 2) &&
          (scode rn =? 5) && (sclass rn =? 1)
      | _ => false
      end
  | [] => false
  end.

(** Load: one read-only open of the destination, reads up to and including the empty one *)
Definition load_trace_ok (vlen : Z) (l : list sev) : bool :=
  let c := filter core l in
  match c with
  | o :: rest =>
      (scode o =? 7) && (sclass o =? 1) && negb (testbit (sarg o) 8) && negb (testbit (sarg o) 4) &&
      forallb (fun e => (scode e =? 8) || (scode e =? 4)) rest &&
      (sum_args 8 rest =? vlen) &&
      existsb (fun e => (scode e =? 8) && (sarg e =? 0)) rest
  | [] => false
  end.

Definition nat_args (c : Z) (l : list sev) : list nat :=
  map (fun e => Z.to_nat (sarg e)) (filter (fun e => scode e =? c) l).

(** Delete of a file key: exactly one unlink, of the destination; nothing created, written,
    renamed *)
Definition delete_trace_ok (l : list sev) : bool :=
  match filter core l with
  | [u] => (scode u =? 9) && (sclass u =? 1)
  | _ => false
  end.
Definition lts_delete : option (list Z) :=
  let pre := solo_store 7%nat (zeros 3) [3%nat] in
  let ls := [LSpawnDelete 1%nat 7%nat; LUnlink 1%nat] in
  match run init_empty (pre ++ ls) with
  | Some s => match thr s 1%nat, named_value s 7%nat with
              | DDone _, None => Some (map sysop_code (sys_trace ls))
              | _, _ => None
              end
  | None => None
  end.

(** what the traced operation returned: class 0 = nil error (the LTS's solo runs all succeed: the
    key exists, nothing interferes), and a Load returned exactly the stored number of bytes *)
Definition result_ok (which vlen rcls rbytes : Z) : bool :=
  (rcls =? 0) && (negb (which =? 1) || (rbytes =? vlen)).

Definition check_sys_trace (which : Z) (vlen : Z) (l : list sev) : Z :=
  let n := Z.to_nat vlen in
  if which =? 2 then
    match lts_delete with
    | Some c1 => code (zlist_eqb c1 (codes l)) (delete_trace_ok l)
    | None => code false (delete_trace_ok l)
    end
  else if which =? 0 then
    let ws := nat_args 2 l in
    match lts_store n ws with
    | Some c1 => code (zlist_eqb c1 (codes l)) (store_trace_ok vlen l)
    | None => code false (store_trace_ok vlen l)
    end
  else
    (* read sizes: what each read(2) returned; a read that returned 0 is the EOF probe *)
    let rs := map (fun k => Nat.max k 1) (nat_args 8 l) in
    match lts_store_load n (if (n =? 0)%nat then [] else [n]) rs with
    | Some (_, c2, Some got) =>
        code (zlist_eqb c2 (codes (filter (fun e => negb (scode e =? 4)) l)) && (got =? n)%nat)
             (load_trace_ok vlen l)
    | _ => code false (load_trace_ok vlen l)
    end.

(** trace and result together: the model (LTS solo run) says the operation succeeds, and the
    specification demands it *)
Definition check_sys (which vlen rcls rbytes : Z) (l : list sev) : Z :=
  let c := check_sys_trace which vlen l in
  let r := result_ok which vlen rcls rbytes in
  code (((c =? 0) || (c =? 2)) && r) (((c =? 0) || (c =? 1)) && r).

(** ** kind 2: timed history on one key.  Values carry unique ids (id of the Store that
    wrote them; the initial value is the Store with the smallest interval); a Load reports
    the id it read, 0 for not-exist, -1 for anything that is not a whole value (also an
    unexpected error), -3 with the [hempty] flag for an empty value; a Store that
    returned an error has id -2 (no Store may fail: the key's directory exists and nothing
    is deleted in these runs). *)
Record hev := Hev { is_load : bool; t0 : Z; t1 : Z; vid : Z; hempty : bool }.
Definition get_hev : dec hev :=
  b <- get_bool ;; a <- get_z ;; c <- get_z ;; v <- get_z ;; e <- get_bool ;; ret (Hev b a c v e).

Definition find_store (h : list hev) (id : Z) : option hev :=
  find (fun e => negb (is_load e) && (vid e =? id)) h.

(** a Load [l] may return the value of Store [w] iff [w] began before [l] ended and no
    other Store lies entirely between the end of [w] and the beginning of [l] *)
Definition load_ok (stores : list hev) (lw : hev * option hev) : bool :=
  match lw with
  | (_, None) => false                             (* torn, empty or unknown value *)
  | (l, Some w) =>
      (t0 w <? t1 l) &&
      forallb (fun w' => negb ((t1 w <? t0 w') && (t1 w' <? t0 l))) stores
  end.
(** two Loads ordered in real time must not see two Stores in the opposite order *)
Definition no_inversion (a b : hev * option hev) : bool :=
  match a, b with
  | (l1, Some w1), (l2, Some w2) => negb (t1 l1 <? t0 l2) || negb (t1 w2 <? t0 w1)
  | _, _ => true
  end.
(** empty values all look alike: a Load that returned an empty value ([hempty], id -3) is
    explained by ANY Store of an empty value that the rule above allows *)
Definition empty_load_ok (stores : list hev) (l : hev) : bool :=
  existsb (fun w => hempty w && load_ok stores (l, Some w)) stores.
Definition hist_ok (h : list hev) : bool :=
  (* every Store completed (a Store reported as failed has id -2) *)
  forallb (fun e => is_load e || (0 <? vid e) || (vid e =? -4)) h &&
  (* a Store that failed because of an injected write fault (id -4) has no effect: it explains no Load *)
  let stores := filter (fun e => negb (is_load e) && (0 <? vid e)) h in
  let loads := map (fun l => (l, find_store stores (vid l))) (filter (fun l => is_load l && negb (hempty l)) h) in
  forallb (load_ok stores) loads &&
  forallb (empty_load_ok stores) (filter (fun l => is_load l && hempty l) h) &&
  forallb (fun a => forallb (no_inversion a) loads) loads.

(** ** kind 3: SIGKILL of a writer.  The LTS leaves under the name, for a kill after any
    number of the writer's steps, one of these values (0 = old, 1 = new, 2 = other) *)
Definition crash_outcomes : list Z :=
  let old := [1%N; 1%N; 1%N] in
  let new := [2%N; 2%N; 2%N; 2%N] in
  let pre := solo_store 7%nat old [3%nat] in
  let w := [LSpawnStore 1 7 new; LCreate 1 1; LWrite 1 2; LWrite 1 2; LSync 1; LClose 1; LRename 1]%nat in
  map (fun j =>
         match run init_empty (pre ++ firstn j w ++ (if (j =? 0)%nat then [] else if (j <? 7)%nat then [LKill 1%nat] else [])) with
         | Some s => match named_value s 7%nat with
                     | Some v => if str_eqb v old then 0 else if str_eqb v new then 1 else 2
                     | None => 2
                     end
         | None => 3
         end) (seq 0 8).

Definition check_crash (acked started loaded : Z) : Z :=
  let impl := if loaded =? acked then 0 else if loaded =? started then 1 else 2 in
  code (existsb (Z.eqb impl) crash_outcomes)
       (((loaded =? acked) || (loaded =? started)) && ((started =? acked) || (started =? acked + 1))).

(** ** kind 4: a write fault in the middle of Store (RLIMIT_FSIZE in a child process: the temp
    file cannot grow beyond the limit, write(2) fails with EFBIG part-way).
    Model: the LTS run in which the writer's calls are followed by [LFail] - over an existing
    value and onto a fresh key.  It predicts: both Stores return an error, the existing key
    still holds the old value whole, the fresh key does not exist, no temp file is left.
    Spec: the same, demanded of the implementation's observation. *)
Definition fault_model : option (bool * bool * bool * bool) :=   (* old kept, fresh absent, no temps, both err *)
  let old := [1%N; 1%N; 1%N] in
  let new := [2%N; 2%N; 2%N; 2%N; 2%N; 2%N] in
  let ls := solo_store 7%nat old [3%nat] ++
            [LSpawnStore 1 7 new; LCreate 1 1; LWrite 1 2; LFail 1;
             LSpawnStore 2 8 new; LCreate 2 2; LWrite 2 2; LFail 2]%nat in
  match run init_empty ls with
  | Some s =>
      Some (match named_value s 7%nat with Some v => str_eqb v old | None => false end,
            match named_value s 8%nat with None => true | Some _ => false end,
            match dir s (NTemp 1%nat), dir s (NTemp 2%nat) with None, None => true | _, _ => false end,
            match thr s 1%nat, thr s 2%nat with WErr _ _, WErr _ _ => true | _, _ => false end)
  | None => None
  end.
Definition check_fault (r_old r_fresh loaded expected fresh_exists stat_fresh dirents : Z) : Z :=
  let impl := (loaded =? expected, negb (fresh_exists =? 1) && (stat_fresh =? 1), dirents =? 1,
               negb (r_old =? 0) && negb (r_fresh =? 0)) in
  let ok := (loaded =? expected) && negb (fresh_exists =? 1) && (stat_fresh =? 1) && (dirents =? 1) &&
            negb (r_old =? 0) && negb (r_fresh =? 0) in
  match fault_model with
  | Some (a, b, c, d) =>
      let '(a', b', c', d') := impl in
      code (Bool.eqb a a' && Bool.eqb b b' && Bool.eqb c c' && Bool.eqb d d') ok
  | None => code false ok
  end.

(** ** List after a crash / during in-flight Stores: every key whose Store completed is listed,
    from the directory and from its ancestors, recursively or not, whatever temp files a killed or
    running writer has in the directory (the model: [fs_list] returns every present key below the
    prefix - C10_prefix_by_component - and a temp file is never a key).  [missing] counts the
    committed keys absent from the implementation's listings: model and specification say 0. *)
Definition check_crash_list (acked started loaded missing : Z) : Z :=
  let c := check_crash acked started loaded in
  code (((c =? 0) || (c =? 2)) && (missing =? 0)) (((c =? 0) || (c =? 1)) && (missing =? 0)).
Definition check_list_race (lists missing : Z) : Z :=
  code (missing =? 0) ((missing =? 0) && (0 <=? lists)).

(** ** kind 6: Store with a context that ends during the Store.  Store is all or nothing (the
    LTS: it either renames the complete value - C10_sealed_invariant, C10_load_after_stores - or
    fails without effect - C10_failed_store_no_effect): per trial (result class of Store, Load
    afterwards: 1 the complete new value, 0 the old value / not-exist, -1 anything else), nil goes
    with the new value and an error with the old one.  Whether a Store notices the end of its
    context at all is left open (the model admits both). *)
Definition ctx_trial_ok (t : Z * Z) : bool :=
  let '(r, l) := t in ((r =? 0) && (l =? 1)) || (negb (r =? 0) && (l =? 0)).
Definition check_ctx_store (ts : list (Z * Z)) : Z := code (forallb ctx_trial_ok ts) (forallb ctx_trial_ok ts).

(** ** dispatch *)
Definition check_line (l : list Z) : Z :=
  match l with
  | 0 :: r =>
      match decode (ops <- get_list get_op ;; rs <- get_list get_obs ;; ret (ops, rs)) r with
      | Some (ops, rs) => check_seq ops rs
      | None => code_decode_error
      end
  | 1 :: r =>
      match decode (w <- get_z ;; n <- get_z ;; rc <- get_z ;; rb <- get_z ;; l <- get_list get_sev ;; ret (w, n, rc, rb, l)) r with
      | Some (w, n, rc, rb, l) => check_sys w n rc rb l
      | None => code_decode_error
      end
  | 2 :: r =>
      match decode (get_list get_hev) r with
      | Some h => code (hist_ok h) (hist_ok h)
      | None => code_decode_error
      end
  | 3 :: r =>
      match decode (a <- get_z ;; s <- get_z ;; x <- get_z ;; m <- get_z ;; ret (a, s, x, m)) r with
      | Some (a, s, x, m) => check_crash_list a s x m
      | None => code_decode_error
      end
  | 6 :: r =>
      match decode (get_list (a <- get_z ;; b <- get_z ;; ret (a, b))) r with
      | Some ts => check_ctx_store ts
      | None => code_decode_error
      end
  | 5 :: r =>
      match decode (n <- get_z ;; m <- get_z ;; ret (n, m)) r with
      | Some (n, m) => check_list_race n m
      | None => code_decode_error
      end
  | 4 :: r =>
      match decode (get_list get_z) r with
      | Some [r_old; r_fresh; loaded; expected; fresh_exists; stat_fresh; dirents] =>
          check_fault r_old r_fresh loaded expected fresh_exists stat_fresh dirents
      | _ => code_decode_error
      end
  | _ => code_decode_error
  end.

(** diagnostics: for kind 0 the model's result classes and flags, one pair per op; for
    kind 1 the model's system-call codes *)
Definition z_of_cls (c : rcls) : Z := match c with ROk => 0 | RNotExist => 1 | ROther => 2 end.
Definition explain_line (l : list Z) : list Z :=
  match l with
  | 0 :: r =>
      match decode (ops <- get_list get_op ;; rs <- get_list get_obs ;; ret (ops, rs)) r with
      | Some (ops, rs) =>
          flat_map (fun m => [z_of_cls (ocls m); (if oflag m then 1 else 0); Z.of_nat (length (okeys m)); Z.of_nat (length (oval m))])
                   (snd (fs_run [] ops))
      | None => []
      end
  | 1 :: r =>
      match decode (w <- get_z ;; n <- get_z ;; rc <- get_z ;; rb <- get_z ;; l <- get_list get_sev ;; ret (w, n, l)) r with
      | Some (w, n, l) =>
          if w =? 0 then match lts_store (Z.to_nat n) (nat_args 2 l) with Some c => c | None => [-1] end
          else match lts_store_load (Z.to_nat n) (if (Z.to_nat n =? 0)%nat then [] else [Z.to_nat n])
                                    (map (fun k => Nat.max k 1) (nat_args 8 l)) with
               | Some (_, c2, _) => c2
               | None => [-1]
               end
      | None => []
      end
  | 3 :: _ => crash_outcomes
  | _ => []
  end.
