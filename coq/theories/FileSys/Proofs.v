(** Proofs about Part 1 of the FileSys model: for every sequence of operations the model's
    results satisfy the documented key semantics ([spec_trace]), and the four clauses of the
    property as statements about every reachable tree. *)
From CM Require Import Lib.Str FileSys.Model.
Open Scope N_scope.

(** * paths *)
Lemma path_eqb_eq a b : path_eqb a b = true <-> a = b.
Proof.
  revert b; induction a as [|x a IH]; intros [|y b]; cbn; try (split; congruence).
  rewrite andb_true_iff, str_eqb_eq, IH. split; [intros [-> ->]; reflexivity | intros H; injection H; auto].
Qed.
Lemma path_eqb_refl a : path_eqb a a = true.
Proof. apply path_eqb_eq; reflexivity. Qed.
Lemma path_eqb_neq a b : path_eqb a b = false <-> a <> b.
Proof.
  split; [intros H E; apply path_eqb_eq in E; congruence|].
  intros H; destruct (path_eqb a b) eqn:E; [apply path_eqb_eq in E; contradiction | reflexivity].
Qed.
Lemma path_eqb_sym a b : path_eqb a b = path_eqb b a.
Proof.
  destruct (path_eqb a b) eqn:E.
  - apply path_eqb_eq in E; subst; symmetry; apply path_eqb_refl.
  - symmetry; apply path_eqb_neq; apply path_eqb_neq in E; congruence.
Qed.

Lemma is_prefix_spec p q : is_prefix p q = true <-> exists r, q = p ++ r.
Proof.
  revert q; induction p as [|x p IH]; intros q; cbn.
  - split; eauto.
  - destruct q as [|y q]; [split; [discriminate | intros [r Hr]; discriminate]|].
    rewrite andb_true_iff, str_eqb_eq, IH. split.
    + intros [-> [r ->]]; eauto.
    + intros [r Hr]; injection Hr; intros -> ->; eauto.
Qed.
Lemma is_prefix_refl p : is_prefix p p = true.
Proof. apply is_prefix_spec; exists []; rewrite app_nil_r; reflexivity. Qed.
Lemma is_prefix_app p r : is_prefix p (p ++ r) = true.
Proof. apply is_prefix_spec; eauto. Qed.
Lemma is_prefix_trans p q r : is_prefix p q = true -> is_prefix q r = true -> is_prefix p r = true.
Proof.
  rewrite !is_prefix_spec. intros [a ->] [b ->]. exists (a ++ b). rewrite app_assoc; reflexivity.
Qed.
Lemma is_prefix_nil_r p : is_prefix p [] = true -> p = [].
Proof. destruct p; cbn; [reflexivity | discriminate]. Qed.
Lemma is_prefix_antisym p q : is_prefix p q = true -> is_prefix q p = true -> p = q.
Proof.
  rewrite !is_prefix_spec. intros [a ->] [b Hb].
  rewrite <- app_assoc in Hb. rewrite <- (app_nil_r p) in Hb at 1.
  apply app_inv_head in Hb. symmetry in Hb. apply app_eq_nil in Hb. destruct Hb as [-> _].
  rewrite app_nil_r; reflexivity.
Qed.

Lemma proper_prefix_spec p q : proper_prefix p q = true <-> exists c r, q = p ++ c :: r.
Proof.
  unfold proper_prefix. rewrite andb_true_iff, negb_true_iff, is_prefix_spec, path_eqb_neq. split.
  - intros [[r ->] Hne]. destruct r as [|c r]; [rewrite app_nil_r in Hne; contradiction | eauto].
  - intros (c & r & ->). split; [eauto|]. intros E. rewrite <- (app_nil_r p) in E at 1.
    apply app_inv_head in E. discriminate.
Qed.
Lemma proper_prefix_is_prefix p q : proper_prefix p q = true -> is_prefix p q = true.
Proof. unfold proper_prefix; rewrite andb_true_iff; tauto. Qed.
Lemma proper_prefix_irrefl p : proper_prefix p p = false.
Proof. unfold proper_prefix; rewrite path_eqb_refl, andb_false_r; reflexivity. Qed.
Lemma proper_prefix_length p q : proper_prefix p q = true -> (length p < length q)%nat.
Proof. rewrite proper_prefix_spec; intros (c & r & ->). rewrite app_length; cbn; lia. Qed.
Lemma proper_prefix_nonnil p q : proper_prefix p q = true -> q <> [].
Proof. intros H E; subst; apply proper_prefix_length in H; cbn in H; lia. Qed.
Lemma proper_is_prefix_trans p q r :
  proper_prefix p q = true -> is_prefix q r = true -> proper_prefix p r = true.
Proof.
  rewrite !proper_prefix_spec, is_prefix_spec. intros (c & a & ->) [b ->].
  exists c, (a ++ b). rewrite <- app_assoc; reflexivity.
Qed.
Lemma is_proper_prefix_trans p q r :
  is_prefix p q = true -> proper_prefix q r = true -> proper_prefix p r = true.
Proof.
  rewrite !proper_prefix_spec, is_prefix_spec. intros [a ->] (c & b & ->).
  destruct a as [|x a].
  - exists c, b. rewrite app_nil_r; reflexivity.
  - exists x, (a ++ c :: b). rewrite <- !app_assoc; reflexivity.
Qed.
Lemma proper_prefix_snoc p c : proper_prefix p (p ++ [c]) = true.
Proof. apply proper_prefix_spec; eauto. Qed.
(** a prefix of [p ++ [c]] is [p ++ [c]] itself or a prefix of [p] *)
Lemma is_prefix_snoc q p c : is_prefix q (p ++ [c]) = true -> q = p ++ [c] \/ is_prefix q p = true.
Proof.
  rewrite !is_prefix_spec. intros [r Hr].
  destruct r as [|x r].
  - left. rewrite app_nil_r in Hr; auto.
  - right. destruct (@exists_last _ (x :: r)) as (r' & z & E); [discriminate|].
    rewrite E, app_assoc in Hr. apply app_inj_tail in Hr. destruct Hr as [-> _]. eauto.
Qed.

Lemma parent_snoc p c : parent (p ++ [c]) = p.
Proof. unfold parent. apply removelast_last. Qed.
Lemma parent_last k : k <> [] -> exists c, k = parent k ++ [c].
Proof. intros H. exists (last k []). unfold parent. apply app_removelast_last; assumption. Qed.

(** * the tree through [lookup] *)
Lemma find_entry_put fs p e q :
  find_entry (put fs p e) q = if path_eqb p q then Some e else find_entry fs q.
Proof.
  unfold put. cbn [find_entry]. destruct (path_eqb p q) eqn:E; [reflexivity|].
  induction fs as [|[a x] fs IH]; cbn; [reflexivity|].
  destruct (path_eqb a p) eqn:Eap; cbn.
  - apply path_eqb_eq in Eap; subst a. rewrite E. exact IH.
  - destruct (path_eqb a q); [reflexivity | exact IH].
Qed.
Lemma lookup_put fs p e q : p <> [] ->
  lookup (put fs p e) q = if path_eqb p q then Some e else lookup fs q.
Proof.
  intros Hp. destruct q as [|c q].
  - cbn [lookup]. destruct (path_eqb p []) eqn:E; [apply path_eqb_eq in E; contradiction | reflexivity].
  - cbn [lookup]. apply find_entry_put.
Qed.
Lemma find_entry_remove_sub fs p q :
  find_entry (remove_sub fs p) q = if is_prefix p q then None else find_entry fs q.
Proof.
  unfold remove_sub. induction fs as [|[a x] fs IH]; cbn; [destruct (is_prefix p q); reflexivity|].
  destruct (is_prefix p a) eqn:Epa; cbn.
  - rewrite IH. destruct (is_prefix p q) eqn:Epq; [reflexivity|].
    destruct (path_eqb a q) eqn:Eaq; [apply path_eqb_eq in Eaq; congruence | reflexivity].
  - destruct (path_eqb a q) eqn:Eaq.
    + apply path_eqb_eq in Eaq; subst a. rewrite Epa; reflexivity.
    + exact IH.
Qed.
Lemma lookup_remove_sub fs p q : p <> [] ->
  lookup (remove_sub fs p) q = if is_prefix p q then None else lookup fs q.
Proof.
  intros Hp. destruct q as [|c q].
  - cbn [lookup]. destruct (is_prefix p []) eqn:E; [apply is_prefix_nil_r in E; contradiction | reflexivity].
  - cbn [lookup]. apply find_entry_remove_sub.
Qed.
Lemma find_entry_in fs q : find_entry fs q <> None <-> In q (map fst fs).
Proof.
  induction fs as [|[a x] fs IH]; cbn; [tauto|].
  destruct (path_eqb a q) eqn:E.
  - apply path_eqb_eq in E. split; [auto | discriminate].
  - apply path_eqb_neq in E. rewrite IH. tauto.
Qed.

(** every proper prefix of a present path is a directory *)
Definition closed (fs : fsys) : Prop :=
  forall p q, lookup fs p <> None -> proper_prefix q p = true -> lookup fs q = Some EDir.

Lemma closed_nil : closed [].
Proof.
  intros p q H Hq. destruct p; [apply proper_prefix_nonnil in Hq; contradiction | cbn in H; contradiction].
Qed.

(** * name resolution agrees with [lookup] on closed trees *)
Lemma resolve_from_inr fs rest : forall pre e,
  resolve_from fs pre rest = inr e -> lookup fs (pre ++ rest) = Some e.
Proof.
  induction rest as [|c r IH]; intros pre e; cbn [resolve_from].
  - rewrite app_nil_r. destruct (lookup fs pre); congruence.
  - destruct (lookup fs pre) as [[v|]|]; try discriminate.
    intros H. apply IH in H. rewrite <- app_assoc in H. exact H.
Qed.
Lemma resolve_from_complete fs (Hc : closed fs) rest : forall pre e,
  lookup fs (pre ++ rest) = Some e -> resolve_from fs pre rest = inr e.
Proof.
  induction rest as [|c r IH]; intros pre e; cbn [resolve_from].
  - rewrite app_nil_r. intros ->; reflexivity.
  - intros H. rewrite (Hc (pre ++ c :: r) pre).
    + apply IH. rewrite <- app_assoc. exact H.
    + congruence.
    + apply proper_prefix_spec; eauto.
Qed.
Lemma resolve_inr fs (Hc : closed fs) p e : resolve fs p = inr e <-> lookup fs p = Some e.
Proof.
  unfold resolve. split.
  - apply (resolve_from_inr fs p []).
  - apply (resolve_from_complete fs Hc p []).
Qed.
Lemma resolve_inl fs (Hc : closed fs) p : (exists e, resolve fs p = inl e) <-> lookup fs p = None.
Proof.
  split.
  - intros [e He]. destruct (lookup fs p) eqn:E; [|reflexivity].
    apply (resolve_inr fs Hc) in E. congruence.
  - intros H. destruct (resolve fs p) eqn:E; [eauto|].
    apply (resolve_inr fs Hc) in E. congruence.
Qed.
(** the only errno of a resolution are ENOENT and ENOTDIR *)
Lemma resolve_from_errno fs rest : forall pre e, resolve_from fs pre rest = inl e -> e = ENOENT \/ e = ENOTDIR.
Proof.
  induction rest as [|c r IH]; intros pre e; cbn [resolve_from].
  - destruct (lookup fs pre); [discriminate | intros H; injection H; auto].
  - destruct (lookup fs pre) as [[v|]|]; [intros H; injection H; auto | apply IH | intros H; injection H; auto].
Qed.
Lemma resolve_errno_cls fs p e : resolve fs p = inl e -> cls_of_errno e = RNotExist.
Proof. intros H. apply resolve_from_errno in H. destruct H; subst; reflexivity. Qed.

(** * MkdirAll *)
Lemma mkdir_all_from_ok fs (Hc : closed fs) rest : forall pre fs',
  lookup fs pre = Some EDir ->
  mkdir_all_from fs pre rest = inr fs' ->
  closed fs' /\
  forall q, lookup fs' q =
            if is_prefix q (pre ++ rest) && proper_prefix pre q then Some EDir else lookup fs q.
Proof.
  revert fs Hc. induction rest as [|c r IH]; intros fs Hc pre fs' Hpre; cbn [mkdir_all_from].
  - intros H; injection H; intros <-. split; [assumption|]. intros q. rewrite app_nil_r.
    destruct (is_prefix q pre) eqn:E1; [|reflexivity]. destruct (proper_prefix pre q) eqn:E2; [|reflexivity].
    exfalso. apply proper_prefix_is_prefix in E2 as E3. pose proof (is_prefix_antisym _ _ E1 E3); subst.
    rewrite proper_prefix_irrefl in E2; discriminate.
  - assert (Hne : pre ++ [c] <> []) by (destruct pre; discriminate).
    assert (Hsplit : forall q, is_prefix q (pre ++ c :: r) && proper_prefix pre q =
                               path_eqb (pre ++ [c]) q || (is_prefix q ((pre ++ [c]) ++ r) && proper_prefix (pre ++ [c]) q)).
    { intros q. rewrite <- app_assoc. cbn [app].
      destruct (path_eqb (pre ++ [c]) q) eqn:E.
      - apply path_eqb_eq in E; subst q. cbn [orb].
        rewrite proper_prefix_snoc, andb_true_r. apply is_prefix_spec. exists r. rewrite <- app_assoc; reflexivity.
      - cbn [orb]. destruct (is_prefix q (pre ++ c :: r)) eqn:E1; [|reflexivity]. cbn [andb].
        apply path_eqb_neq in E.
        destruct (proper_prefix pre q) eqn:E2.
        + symmetry. apply proper_prefix_spec in E2. destruct E2 as (x & a & ->).
          apply is_prefix_spec in E1. destruct E1 as [b Hb]. rewrite <- app_assoc in Hb.
          apply app_inv_head in Hb. cbn in Hb. injection Hb; intros Hb' <-.
          destruct a as [|y a]; [contradiction E; reflexivity|].
          apply proper_prefix_spec. exists y, a. rewrite <- app_assoc; reflexivity.
        + symmetry. destruct (proper_prefix (pre ++ [c]) q) eqn:E3; [|reflexivity].
          rewrite (is_proper_prefix_trans pre (pre ++ [c]) q) in E2; [discriminate | apply is_prefix_app | assumption]. }
    destruct (lookup fs (pre ++ [c])) as [[v|]|] eqn:El; [discriminate| |].
    + intros H. destruct (IH fs Hc (pre ++ [c]) fs' El H) as [Hc' Hl]. split; [assumption|].
      intros q. rewrite Hl, Hsplit.
      destruct (path_eqb (pre ++ [c]) q) eqn:E; [|reflexivity].
      apply path_eqb_eq in E; subst q. cbn [orb].
      destruct (is_prefix (pre ++ [c]) ((pre ++ [c]) ++ r) && proper_prefix (pre ++ [c]) (pre ++ [c])); [reflexivity | assumption].
    + intros H.
      assert (Hc1 : closed (put fs (pre ++ [c]) EDir)).
      { intros p q Hp Hq. rewrite lookup_put in Hp |- * by assumption.
        destruct (path_eqb (pre ++ [c]) q) eqn:Eq; [reflexivity|].
        destruct (path_eqb (pre ++ [c]) p) eqn:Ep.
        - apply path_eqb_eq in Ep; subst p.
          (* q is a proper prefix of pre ++ [c], hence a prefix of pre *)
          apply proper_prefix_is_prefix in Hq as Hq'. apply is_prefix_snoc in Hq'.
          destruct Hq' as [->|Hq']; [rewrite proper_prefix_irrefl in Hq; discriminate|].
          destruct (path_eqb q pre) eqn:Eqp; [apply path_eqb_eq in Eqp; subst; assumption|].
          apply (Hc pre q); [congruence|]. unfold proper_prefix. rewrite Hq', Eqp; reflexivity.
        - apply (Hc p q); assumption. }
      assert (Hl1 : lookup (put fs (pre ++ [c]) EDir) (pre ++ [c]) = Some EDir)
        by (rewrite lookup_put by assumption; rewrite path_eqb_refl; reflexivity).
      destruct (IH _ Hc1 (pre ++ [c]) fs' Hl1 H) as [Hc' Hl]. split; [assumption|].
      intros q. rewrite Hl, Hsplit, lookup_put by assumption.
      destruct (path_eqb (pre ++ [c]) q) eqn:E; cbn [orb].
      * destruct (is_prefix q ((pre ++ [c]) ++ r) && proper_prefix (pre ++ [c]) q); reflexivity.
      * reflexivity.
Qed.

Lemma mkdir_all_from_err fs rest : forall pre e,
  mkdir_all_from fs pre rest = inl e ->
  exists q v, is_prefix q (pre ++ rest) = true /\ proper_prefix pre q = true /\ lookup fs q = Some (EFile v).
Proof.
  revert fs. induction rest as [|c r IH]; intros fs pre e; cbn [mkdir_all_from]; [discriminate|].
  assert (Hne : pre ++ [c] <> []) by (destruct pre; discriminate).
  destruct (lookup fs (pre ++ [c])) as [[v|]|] eqn:El.
  - intros _. exists (pre ++ [c]), v. split; [|split; [apply proper_prefix_snoc | assumption]].
    apply is_prefix_spec. exists r. rewrite <- app_assoc; reflexivity.
  - intros H. destruct (IH fs _ _ H) as (q & v & H1 & H2 & H3). exists q, v.
    rewrite <- app_assoc in H1. split; [assumption|]. split; [|assumption].
    apply (is_proper_prefix_trans pre (pre ++ [c]) q); [apply is_prefix_app | assumption].
  - intros H. destruct (IH _ _ _ H) as (q & v & H1 & H2 & H3). exists q, v.
    rewrite <- app_assoc in H1. split; [assumption|].
    split; [apply (is_proper_prefix_trans pre (pre ++ [c]) q); [apply is_prefix_app | assumption]|].
    rewrite lookup_put in H3 by assumption.
    destruct (path_eqb (pre ++ [c]) q); [discriminate | assumption].
Qed.


Lemma prefix_split pre c r q :
  is_prefix q (pre ++ c :: r) && proper_prefix pre q =
  path_eqb (pre ++ [c]) q || (is_prefix q ((pre ++ [c]) ++ r) && proper_prefix (pre ++ [c]) q).
Proof.
  rewrite <- app_assoc. cbn [app].
  destruct (path_eqb (pre ++ [c]) q) eqn:E.
  - apply path_eqb_eq in E; subst q. cbn [orb].
    rewrite proper_prefix_snoc, andb_true_r. apply is_prefix_spec. exists r. rewrite <- app_assoc; reflexivity.
  - cbn [orb]. destruct (is_prefix q (pre ++ c :: r)) eqn:E1; [|reflexivity]. cbn [andb].
    apply path_eqb_neq in E.
    destruct (proper_prefix pre q) eqn:E2.
    + symmetry. apply proper_prefix_spec in E2. destruct E2 as (x & a & ->).
      apply is_prefix_spec in E1. destruct E1 as [b Hb]. rewrite <- app_assoc in Hb.
      apply app_inv_head in Hb. cbn in Hb. injection Hb; intros Hb' <-.
      destruct a as [|y a]; [contradiction E; reflexivity|].
      apply proper_prefix_spec. exists y, a. rewrite <- app_assoc; reflexivity.
    + symmetry. destruct (proper_prefix (pre ++ [c]) q) eqn:E3; [|reflexivity].
      rewrite (is_proper_prefix_trans pre (pre ++ [c]) q) in E2; [discriminate | apply is_prefix_app | assumption].
Qed.

Lemma mkdir_all_from_nofile rest : forall fs pre fs',
  mkdir_all_from fs pre rest = inr fs' ->
  forall q v, is_prefix q (pre ++ rest) && proper_prefix pre q = true -> lookup fs q <> Some (EFile v).
Proof.
  induction rest as [|c r IH]; intros fs pre fs'; cbn [mkdir_all_from].
  - intros _ q v. rewrite app_nil_r, andb_true_iff. intros [E1 E2].
    apply proper_prefix_is_prefix in E2 as E3. pose proof (is_prefix_antisym _ _ E1 E3); subst.
    rewrite proper_prefix_irrefl in E2; discriminate.
  - assert (Hne : pre ++ [c] <> []) by (destruct pre; discriminate).
    destruct (lookup fs (pre ++ [c])) as [[w|]|] eqn:El; [discriminate| |]; intros H q v; rewrite prefix_split;
      destruct (path_eqb (pre ++ [c]) q) eqn:E; cbn [orb].
    + apply path_eqb_eq in E; subst q. intros _. congruence.
    + apply (IH _ _ _ H).
    + apply path_eqb_eq in E; subst q. intros _. congruence.
    + intros Hq. pose proof (IH _ _ _ H q v Hq) as Hn. rewrite lookup_put, E in Hn by assumption. exact Hn.
Qed.

(** * effect of the operations, through [lookup] *)

(** non-empty proper prefixes of [k] = non-empty prefixes of its parent *)
Lemma prefix_of_parent k q : k <> [] ->
  is_prefix q (parent k) && proper_prefix [] q = proper_prefix q k && negb (path_eqb q []).
Proof.
  intros Hk. destruct (parent_last k Hk) as [c Hkc].
  destruct q as [|x q].
  - rewrite proper_prefix_irrefl, path_eqb_refl, !andb_false_r. reflexivity.
  - replace (proper_prefix [] (x :: q)) with true by reflexivity.
    replace (path_eqb (x :: q) []) with false by reflexivity. rewrite !andb_true_r.
    destruct (is_prefix (x :: q) (parent k)) eqn:E.
    + symmetry. rewrite Hkc. apply (is_proper_prefix_trans _ (parent k)); [assumption | apply proper_prefix_snoc].
    + symmetry. destruct (proper_prefix (x :: q) k) eqn:E2; [|reflexivity].
      rewrite Hkc in E2. apply proper_prefix_is_prefix in E2 as E3. apply is_prefix_snoc in E3.
      destruct E3 as [E3|E3]; [rewrite E3, proper_prefix_irrefl in E2; discriminate | congruence].
Qed.

Definition store_effect (fs fs' : fsys) (k : path) (v : value) : Prop :=
  forall q, lookup fs' q = if path_eqb k q then Some (EFile v)
                           else if proper_prefix q k then Some EDir else lookup fs q.

Lemma store_spec fs (Hc : closed fs) k v :
  closed (fst (fs_store fs k v)) /\
  (is_ok (snd (fs_store fs k v)) = true ->
     k <> [] /\ (forall q w, proper_prefix q k = true -> lookup fs q <> Some (EFile w)) /\
     lookup fs k <> Some EDir /\ store_effect fs (fst (fs_store fs k v)) k v) /\
  (is_ok (snd (fs_store fs k v)) = false ->
     (k = [] \/ (exists q w, proper_prefix q k = true /\ lookup fs q = Some (EFile w)) \/ lookup fs k = Some EDir) /\
     forall q, lookup (fst (fs_store fs k v)) q = lookup fs q).
Proof.
  unfold fs_store.
  destruct (mkdir_all_from fs [] (parent k)) as [e|fs1] eqn:Em; cbn [fst snd].
  { split; [assumption|]. split; [discriminate|]. intros _. split; [|reflexivity].
    destruct k as [|c0 k0]; [left; reflexivity|]. right; left.
    destruct (mkdir_all_from_err _ _ _ _ Em) as (q & w & H1 & H2 & H3). cbn [app] in H1.
    exists q, w. split; [|assumption].
    assert (E : is_prefix q (parent (c0 :: k0)) && proper_prefix [] q = true) by (rewrite H1, H2; reflexivity).
    rewrite prefix_of_parent in E by discriminate. apply andb_true_iff in E. tauto. }
  destruct (mkdir_all_from_ok fs Hc (parent k) [] fs1 eq_refl Em) as [Hc1 Hl1]. cbn [app] in Hl1.
  pose proof (mkdir_all_from_nofile _ _ _ _ Em) as Hnf. cbn [app] in Hnf.
  destruct k as [|c0 k0].
  { (* the root *) cbn [lookup]. cbn [fst snd]. split; [assumption|]. split; [discriminate|].
    intros _. split; [left; reflexivity|]. intros q. rewrite Hl1. cbn [parent removelast].
    destruct q; reflexivity. }
  set (k := c0 :: k0) in *. assert (Hk : k <> []) by discriminate.
  assert (Hk1 : lookup fs1 k = lookup fs k).
  { rewrite Hl1, prefix_of_parent, proper_prefix_irrefl by assumption. reflexivity. }
  assert (Hpre : forall q, proper_prefix q k = true -> lookup fs1 q = Some EDir).
  { intros q Hq. rewrite Hl1, prefix_of_parent, Hq by assumption. destruct q; reflexivity. }
  assert (Hnf' : forall q w, proper_prefix q k = true -> lookup fs q <> Some (EFile w)).
  { intros q w Hq. destruct q as [|x q]; [discriminate|]. apply Hnf.
    rewrite prefix_of_parent, Hq by assumption. reflexivity. }
  destruct (lookup fs1 k) as [[w|]|] eqn:El; cbn [fst snd is_ok ocls obs_cls rcls_eqb].
  2: { (* rename onto a directory *)
    split; [assumption|]. split; [discriminate|]. intros _. split; [right; right; congruence|].
    intros q. rewrite Hl1. rewrite prefix_of_parent by assumption.
    destruct (proper_prefix q k) eqn:Eq; [|reflexivity].
    destruct q as [|x q]; [reflexivity|]. cbn [path_eqb negb andb]. symmetry.
    apply (Hc k (x :: q)); [rewrite <- Hk1; discriminate | assumption]. }
  all: assert (Heff : store_effect fs (put fs1 k (EFile v)) k v)
    by (intros q; rewrite lookup_put by assumption; destruct (path_eqb k q) eqn:E; [reflexivity|];
        destruct (proper_prefix q k) eqn:Eq; [apply Hpre; assumption|];
        rewrite Hl1, prefix_of_parent, Eq by assumption; reflexivity).
  all: split; [| split; [intros _; split; [assumption | split; [assumption | split; [rewrite <- Hk1; discriminate | assumption]]] | discriminate]].
  all: intros p q Hp Hq; rewrite lookup_put in Hp |- * by assumption;
       destruct (path_eqb k q) eqn:Eq;
       [ apply path_eqb_eq in Eq; subst q;
         destruct (path_eqb k p) eqn:Ep; [apply path_eqb_eq in Ep; subst p; rewrite proper_prefix_irrefl in Hq; discriminate|];
         rewrite (Hc1 p k Hp Hq) in El; discriminate
       | destruct (path_eqb k p) eqn:Ep;
         [ apply path_eqb_eq in Ep; subst p; apply Hpre; assumption
         | apply (Hc1 p q); assumption ] ].
Qed.

Lemma delete_spec fs (Hc : closed fs) k :
  closed (fst (fs_delete fs k)) /\ is_ok (snd (fs_delete fs k)) = true /\
  forall q, q <> [] -> lookup (fst (fs_delete fs k)) q = if is_prefix k q then None else lookup fs q.
Proof.
  unfold fs_delete. destruct (resolve fs k) as [e|e] eqn:Er; cbn [fst snd].
  - split; [assumption|]. split; [reflexivity|]. intros q Hq.
    destruct (is_prefix k q) eqn:E; [|reflexivity].
    assert (Hk : lookup fs k = None) by (apply (resolve_inl fs Hc); eauto).
    destruct (lookup fs q) eqn:El; [|reflexivity]. exfalso.
    destruct (path_eqb k q) eqn:Ekq; [apply path_eqb_eq in Ekq; congruence|].
    rewrite (Hc q k) in Hk; [discriminate | congruence | unfold proper_prefix; rewrite E, Ekq; reflexivity].
  - assert (Hl : forall q, q <> [] -> lookup (remove_sub fs k) q = if is_prefix k q then None else lookup fs q).
    { intros [|c q] Hq; [contradiction|]. cbn [lookup]. apply find_entry_remove_sub. }
    split; [|split; [reflexivity | assumption]].
    intros p q Hp Hq. assert (Hpn := proper_prefix_nonnil _ _ Hq).
    rewrite Hl in Hp by assumption.
    destruct (is_prefix k p) eqn:Ekp; [contradiction|].
    destruct q as [|x q]; [reflexivity|]. rewrite Hl by discriminate.
    destruct (is_prefix k (x :: q)) eqn:Ekq.
    + rewrite (is_prefix_trans k (x :: q) p) in Ekp; [discriminate | assumption | apply proper_prefix_is_prefix; assumption].
    + apply (Hc p); assumption.
Qed.

(** * sorting keeps the elements *)
Lemma in_insert_path x y l : In y (insert_path x l) <-> y = x \/ In y l.
Proof.
  induction l as [|z l IH]; cbn; [intuition|].
  destruct (path_ltb x z); cbn; [intuition|]. rewrite IH. intuition.
Qed.
Lemma in_sort_paths y l : In y (sort_paths l) <-> In y l.
Proof.
  induction l as [|x l IH]; cbn; [tauto|]. rewrite in_insert_path, IH. intuition.
Qed.
Lemma list_keys_in fs p rec q :
  In q (list_keys fs p rec) <-> listed p rec q = true /\ In q (map fst fs).
Proof.
  unfold list_keys. rewrite in_sort_paths, in_map_iff. split.
  - intros ([a e] & <- & Hin). apply filter_In in Hin. destruct Hin as [Hin Hf]. cbn in *.
    split; [assumption|]. apply in_map_iff. exists (a, e); auto.
  - intros [Hl Hin]. apply in_map_iff in Hin. destruct Hin as ([a e] & <- & Hin).
    exists (a, e). split; [reflexivity|]. apply filter_In. auto.
Qed.
Lemma listed_nonnil p rec q : listed p rec q = true -> q <> [].
Proof. unfold listed. rewrite andb_true_iff. intros [H _]. exact (proper_prefix_nonnil _ _ H). Qed.
Lemma mem_path_in q l : mem_path q l = true <-> In q l.
Proof.
  unfold mem_path. rewrite existsb_exists. split.
  - intros (x & Hx & E). apply path_eqb_eq in E; subst; assumption.
  - intros H. exists q. split; [assumption | apply path_eqb_refl].
Qed.

(** * the history-based specification *)
Lemma hlookup_root h : hlookup h [] = Some EDir.
Proof. destruct h; reflexivity. Qed.

Lemma prefixes_from_in rest : forall pre q,
  In q (prefixes_from pre rest) <-> is_prefix q (pre ++ rest) && proper_prefix pre q = true.
Proof.
  induction rest as [|c r IH]; intros pre q; cbn [prefixes_from].
  - rewrite app_nil_r. split; [contradiction|]. rewrite andb_true_iff. intros [E1 E2].
    apply proper_prefix_is_prefix in E2 as E3. pose proof (is_prefix_antisym _ _ E1 E3); subst.
    rewrite proper_prefix_irrefl in E2; discriminate.
  - rewrite prefix_split. cbn [In]. rewrite IH, orb_true_iff, path_eqb_eq. tauto.
Qed.
Lemma prefixes_in k q : In q (prefixes k) <-> is_prefix q k = true /\ q <> [].
Proof.
  unfold prefixes. rewrite prefixes_from_in. cbn [app]. rewrite andb_true_iff.
  destruct q as [|x q]; [rewrite proper_prefix_irrefl; intuition discriminate|].
  replace (proper_prefix [] (x :: q)) with true by reflexivity. intuition discriminate.
Qed.

(** the simulation between the tree and the history *)
Definition Sim (fs : fsys) (h : list (op * obs)) : Prop :=
  closed fs /\ (forall q, lookup fs q = hlookup h q) /\
  (forall q, q <> [] -> lookup fs q <> None -> In q (candidates h)).

Lemma Sim_init : Sim [] [].
Proof.
  split; [apply closed_nil|]. split.
  - intros [|c q]; reflexivity.
  - intros [|c q] Hq H; [contradiction | cbn in H; contradiction].
Qed.

Lemma present_lookup fs h q : Sim fs h -> present h q = true <-> lookup fs q <> None.
Proof.
  intros (_ & Hl & _). unfold present. rewrite Hl. destruct (hlookup h q); split; congruence.
Qed.

Lemma read_only_sim fs h o r : Sim fs h ->
  match o with OpStore _ _ | OpDelete _ => False | _ => True end -> Sim fs ((o, r) :: h).
Proof.
  intros (Hc & Hl & Hcand) Ho. split; [assumption|]. split.
  - intros q. rewrite Hl. destruct q as [|c q]; [rewrite hlookup_root; reflexivity|].
    destruct o; try contradiction; reflexivity.
  - intros q Hq Hp. specialize (Hcand q Hq Hp). destruct o; try contradiction; exact Hcand.
Qed.

Lemma step_sim fs h o : Sim fs h ->
  spec_step h o (snd (fs_step fs o)) = true /\ Sim (fst (fs_step fs o)) ((o, snd (fs_step fs o)) :: h).
Proof.
  intros HS. pose proof HS as (Hc & Hl & Hcand).
  destruct o as [k v|k|k|k|k|p rec]; cbn [fs_step fst snd].
  - (* Store *)
    destruct (store_spec fs Hc k v) as (Hc' & Hok & Hfail).
    destruct (is_ok (snd (fs_store fs k v))) eqn:Eok.
    + destruct (Hok eq_refl) as (Hk & Hnf & Hnd & Heff). split.
      * cbn [spec_step]. replace (conflict h k) with false; [assumption|]. symmetry.
        unfold conflict. rewrite !orb_false_iff. split; [split|].
        -- destruct k; [contradiction | reflexivity].
        -- apply not_true_is_false. rewrite existsb_exists. intros (q & Hq & Hf).
           destruct (hlookup h q) as [[w|]|] eqn:E; try discriminate.
           rewrite <- Hl in E. exact (Hnf q w Hf E).
        -- rewrite <- Hl. destruct (lookup fs k) as [[w|]|]; try reflexivity. contradiction.
      * split; [assumption|]. split.
        -- intros q. rewrite Heff. destruct q as [|c q]; [rewrite hlookup_root; destruct (path_eqb k []) eqn:E; [apply path_eqb_eq in E; contradiction|]; rewrite proper_prefix_irrefl || idtac; destruct (proper_prefix [] k); reflexivity|].
           cbn [hlookup]. rewrite Eok, (path_eqb_sym k (c :: q)), Hl.
           destruct (path_eqb (c :: q) k); [reflexivity|]. destruct (proper_prefix (c :: q) k); reflexivity.
        -- intros q Hq Hp. cbn [candidates]. rewrite Eok. apply in_or_app. rewrite Heff in Hp.
           destruct (path_eqb k q) eqn:E1.
           ++ apply path_eqb_eq in E1; subst q. left. apply prefixes_in. split; [apply is_prefix_refl | assumption].
           ++ destruct (proper_prefix q k) eqn:E2.
              ** left. apply prefixes_in. split; [apply proper_prefix_is_prefix; assumption | assumption].
              ** right. apply Hcand; assumption.
    + destruct (Hfail eq_refl) as (Hwhy & Hsame). split.
      * cbn [spec_step]. replace (conflict h k) with true; [rewrite Eok; reflexivity|]. symmetry.
        unfold conflict. destruct Hwhy as [->|[(q & w & Hq & Hf)|Hd]].
        -- reflexivity.
        -- apply orb_true_iff; left. apply orb_true_iff; right. apply existsb_exists. exists q. split.
           ++ apply prefixes_in. split; [apply proper_prefix_is_prefix; assumption|]. intros ->. cbn in Hf. discriminate.
           ++ rewrite <- Hl, Hf. assumption.
        -- apply orb_true_iff; right. rewrite <- Hl, Hd. reflexivity.
      * split; [assumption|]. split.
        -- intros q. rewrite Hsame, Hl. destruct q as [|c q]; [rewrite hlookup_root; reflexivity|].
           cbn [hlookup]. rewrite Eok. reflexivity.
        -- intros q Hq Hp. rewrite Hsame in Hp. cbn [candidates]. rewrite Eok. apply Hcand; assumption.
  - (* Load *)
    split; [|apply read_only_sim; [assumption | exact I]].
    cbn [spec_step]. rewrite <- Hl. unfold fs_load.
    destruct (lookup fs k) as [[w|]|] eqn:E.
    + apply (resolve_inr fs Hc) in E. rewrite E. cbn. apply str_eqb_eq; reflexivity.
    + apply (resolve_inr fs Hc) in E. rewrite E. reflexivity.
    + apply (resolve_inl fs Hc) in E. destruct E as [e E]. rewrite E.
      cbn [obs_cls ocls]. rewrite (resolve_errno_cls _ _ _ E). reflexivity.
  - (* Delete *)
    destruct (delete_spec fs Hc k) as (Hc' & Hok & Heff). split.
    + cbn [spec_step]. destruct k; [reflexivity | assumption].
    + split; [assumption|]. split.
      * intros q. destruct q as [|c q]; [rewrite hlookup_root; reflexivity|].
        rewrite Heff by discriminate. cbn [hlookup]. rewrite Hok, Hl. reflexivity.
      * intros q Hq Hp. rewrite Heff in Hp by assumption. cbn [candidates].
        destruct (is_prefix k q); [contradiction | apply Hcand; assumption].
  - (* Exists *)
    split; [|apply read_only_sim; [assumption | exact I]].
    cbn [spec_step]. unfold present. rewrite <- Hl. unfold fs_exists.
    destruct (lookup fs k) as [e|] eqn:E.
    + apply (resolve_inr fs Hc) in E. rewrite E. reflexivity.
    + apply (resolve_inl fs Hc) in E. destruct E as [e E]. rewrite E.
      cbn [oflag]. rewrite (resolve_errno_cls _ _ _ E). reflexivity.
  - (* Stat *)
    split; [|apply read_only_sim; [assumption | exact I]].
    cbn [spec_step]. rewrite <- Hl. unfold fs_stat.
    destruct (lookup fs k) as [[w|]|] eqn:E.
    + apply (resolve_inr fs Hc) in E. rewrite E. cbn. apply N.eqb_refl.
    + apply (resolve_inr fs Hc) in E. rewrite E. reflexivity.
    + apply (resolve_inl fs Hc) in E. destruct E as [e E]. rewrite E.
      cbn [obs_cls ocls]. rewrite (resolve_errno_cls _ _ _ E). reflexivity.
  - (* List *)
    split; [|apply read_only_sim; [assumption | exact I]].
    cbn [spec_step]. rewrite <- Hl. unfold fs_list.
    destruct (lookup fs p) as [[w|]|] eqn:E.
    + apply (resolve_inr fs Hc) in E. rewrite E. reflexivity.
    + apply (resolve_inr fs Hc) in E. rewrite E. cbn [is_ok ocls okeys rcls_eqb andb].
      apply andb_true_iff. split.
      * apply forallb_forall. intros q Hq. apply list_keys_in in Hq. destruct Hq as [Hq1 Hq2].
        rewrite Hq1. cbn [andb]. apply (present_lookup fs h q HS).
        pose proof (listed_nonnil _ _ _ Hq1) as Hn. destruct q as [|c q]; [contradiction|].
        cbn [lookup]. apply find_entry_in. assumption.
      * apply forallb_forall. intros q _.
        destruct (listed p rec q && present h q) eqn:Elp; [|reflexivity]. cbn [negb orb].
        apply andb_true_iff in Elp. destruct Elp as [Hq1 Hq2].
        apply mem_path_in, list_keys_in. split; [assumption|].
        apply (present_lookup fs h q HS) in Hq2.
        pose proof (listed_nonnil _ _ _ Hq1) as Hn. destruct q as [|c q]; [contradiction|].
        cbn [lookup] in Hq2. apply find_entry_in. assumption.
    + apply (resolve_inl fs Hc) in E. destruct E as [e E]. rewrite E.
      cbn [obs_cls ocls]. rewrite (resolve_errno_cls _ _ _ E). reflexivity.
Qed.

Lemma run_sim ops : forall fs h, Sim fs h ->
  spec_trace_from h (combine ops (snd (fs_run fs ops))) = true /\
  exists h', Sim (fst (fs_run fs ops)) h'.
Proof.
  induction ops as [|o ops IH]; intros fs h HS; cbn [fs_run].
  - split; [reflexivity | eauto].
  - destruct (step_sim fs h o HS) as [Hstep HS'].
    destruct (fs_step fs o) as [fs1 b] eqn:E1. cbn [fst snd] in *.
    destruct (IH fs1 _ HS') as [Htr Hex].
    destruct (fs_run fs1 ops) as [fs2 bs] eqn:E2. cbn [fst snd combine spec_trace_from] in *.
    rewrite Hstep, Htr. split; [reflexivity | assumption].
Qed.

(** for every operation sequence the model's results satisfy the documented semantics *)
Theorem model_meets_spec ops : spec_trace (combine ops (snd (fs_run [] ops))) = true.
Proof. apply (run_sim ops [] [] Sim_init). Qed.

(** the trees that can arise *)
Definition reachable_fs (fs : fsys) : Prop := exists ops, fs = fst (fs_run [] ops).
Lemma reachable_closed fs : reachable_fs fs -> closed fs.
Proof. intros [ops ->]. destruct (run_sim ops [] [] Sim_init) as [_ [h' (Hc & _)]]. exact Hc. Qed.

(** * the clauses of the property, on every reachable tree *)
Definition present_fs (fs : fsys) (q : path) : Prop := lookup fs q <> None.

Lemma listed_rec p q : listed p true q = true <-> exists c r, q = p ++ c :: r.
Proof. unfold listed. rewrite orb_true_l, andb_true_r. apply proper_prefix_spec. Qed.
Lemma listed_nonrec p q : listed p false q = true <-> exists c, q = p ++ [c].
Proof.
  unfold listed. cbn [orb]. rewrite andb_true_iff, proper_prefix_spec, Nat.eqb_eq. split.
  - intros [(c & r & ->) Hlen]. rewrite app_length in Hlen. cbn in Hlen.
    destruct r; [eauto | cbn in Hlen; lia].
  - intros [c ->]. split; [eauto|]. rewrite app_length; cbn; lia.
Qed.

Lemma fs_list_keys fs (Hc : closed fs) p rec q :
  In q (okeys (fs_list fs p rec)) <->
  lookup fs p = Some EDir /\ listed p rec q = true /\ present_fs fs q.
Proof.
  unfold fs_list, present_fs. destruct (lookup fs p) as [[w|]|] eqn:E.
  - apply (resolve_inr fs Hc) in E. rewrite E. cbn. intuition discriminate.
  - apply (resolve_inr fs Hc) in E. rewrite E. cbn [okeys]. rewrite list_keys_in. split.
    + intros [H1 H2]. split; [reflexivity|]. split; [assumption|].
      pose proof (listed_nonnil _ _ _ H1). destruct q; [contradiction|]. cbn [lookup]. apply find_entry_in; assumption.
    + intros (_ & H1 & H2). split; [assumption|].
      pose proof (listed_nonnil _ _ _ H1). destruct q; [contradiction|]. cbn [lookup] in H2. apply find_entry_in; assumption.
  - apply (resolve_inl fs Hc) in E. destruct E as [e E]. rewrite E. cbn. intuition discriminate.
Qed.

(** prefixes are matched by whole path components: a recursive List of [p] returns exactly
    the present keys that extend [p] by at least one whole component *)
Lemma prefix_by_component fs p q : reachable_fs fs ->
  In q (okeys (fs_list fs p true)) <->
  lookup fs p = Some EDir /\ (exists c r, q = p ++ c :: r) /\ present_fs fs q.
Proof. intros Hr. rewrite (fs_list_keys fs (reachable_closed fs Hr)), listed_rec. tauto. Qed.

(** a non-recursive List returns exactly the direct children *)
Lemma list_nonrecursive_direct_children fs p q : reachable_fs fs ->
  In q (okeys (fs_list fs p false)) <->
  lookup fs p = Some EDir /\ (exists c, q = p ++ [c]) /\ present_fs fs q.
Proof. intros Hr. rewrite (fs_list_keys fs (reachable_closed fs Hr)), listed_nonrec. tauto. Qed.

(** a missing key reports not-exist from every operation *)
Lemma missing_not_exist_closed fs k : closed fs -> lookup fs k = None ->
  ocls (fs_load fs k) = RNotExist /\ ocls (fs_stat fs k) = RNotExist /\
  (forall rec, ocls (fs_list fs k rec) = RNotExist) /\
  oflag (fs_exists fs k) = false /\ fs_delete fs k = (fs, obs_cls ROk).
Proof.
  intros Hc E. apply (resolve_inl fs Hc) in E. destruct E as [e E].
  pose proof (resolve_errno_cls _ _ _ E) as Hcls.
  unfold fs_load, fs_stat, fs_list, fs_exists, fs_delete. rewrite E. cbn [ocls obs_cls oflag].
  rewrite Hcls. repeat split; reflexivity.
Qed.
Lemma missing_not_exist fs k : reachable_fs fs -> lookup fs k = None ->
  ocls (fs_load fs k) = RNotExist /\ ocls (fs_stat fs k) = RNotExist /\
  (forall rec, ocls (fs_list fs k rec) = RNotExist) /\
  oflag (fs_exists fs k) = false /\ fs_delete fs k = (fs, obs_cls ROk).
Proof. intros Hr. apply missing_not_exist_closed, reachable_closed, Hr. Qed.

(** deleting a prefix removes everything under it (and nothing else) *)
Lemma delete_prefix_removes_all fs k : reachable_fs fs -> k <> [] ->
  let fs' := fst (fs_delete fs k) in
  ocls (snd (fs_delete fs k)) = ROk /\
  (forall q, is_prefix k q = true ->
     lookup fs' q = None /\ oflag (fs_exists fs' q) = false /\ ocls (fs_load fs' q) = RNotExist /\
     ocls (fs_stat fs' q) = RNotExist /\ forall rec, ocls (fs_list fs' q rec) = RNotExist) /\
  (forall q, is_prefix k q = false -> lookup fs' q = lookup fs q).
Proof.
  intros Hr Hk fs'. destruct (delete_spec fs (reachable_closed fs Hr) k) as (Hc' & Hok & Heff).
  split; [unfold is_ok in Hok; destruct (ocls (snd (fs_delete fs k))); try discriminate; reflexivity|]. split.
  - intros q Hq.
    assert (Hn : lookup fs' q = None).
    { unfold fs'. rewrite Heff, Hq; [reflexivity|]. intros ->. apply is_prefix_nil_r in Hq. contradiction. }
    destruct (missing_not_exist_closed fs' q Hc' Hn) as (H1 & H2 & H3 & H4 & _). auto.
  - intros q Hq. destruct q as [|c q]; [reflexivity|]. unfold fs'. rewrite Heff, Hq by discriminate. reflexivity.
Qed.

(** Load returns the whole value of the Store before it; a Store leaves every key that is
    not a prefix of its key alone *)
Lemma store_then_load fs k v : reachable_fs fs -> ocls (snd (fs_store fs k v)) = ROk ->
  let fs' := fst (fs_store fs k v) in
  fs_load fs' k = Obs ROk v false [] 0 /\
  (forall q, q <> k -> proper_prefix q k = false -> lookup fs' q = lookup fs q) /\
  (forall q, proper_prefix q k = true -> lookup fs' q = Some EDir).
Proof.
  intros Hr Hok fs'. destruct (store_spec fs (reachable_closed fs Hr) k v) as (Hc' & H & _).
  destruct H as (Hk & _ & _ & Heff); [unfold is_ok; rewrite Hok; reflexivity|].
  split; [|split].
  - unfold fs_load. assert (E : lookup fs' k = Some (EFile v)) by (unfold fs'; rewrite Heff, path_eqb_refl; reflexivity).
    apply (resolve_inr fs' Hc') in E. rewrite E. reflexivity.
  - intros q Hq Hp. unfold fs'. rewrite Heff, Hp.
    destruct (path_eqb k q) eqn:E; [apply path_eqb_eq in E; congruence | reflexivity].
  - intros q Hp. unfold fs'. rewrite Heff, Hp.
    destruct (path_eqb k q) eqn:E; [apply path_eqb_eq in E; subst; rewrite proper_prefix_irrefl in Hp; discriminate | reflexivity].
Qed.
