(** C10 — further theorems over the two models (added last; the existing files keep their shape):
    empty values are values; a failed Store is invisible to every operation; an unfinished
    Store's temp file is never reachable under a key; what the history monitor's [true] means. *)
From Coq Require Import List Arith Bool Lia ZArith.
From CM Require Import Lib.Str Lib.Wire FileSys.Model FileSys.Proofs FileSys.Lts FileSys.LtsProofs FileSys.Check.
Import ListNotations.

(** * sequential model *)

(** a Store that reports an error changes no key: every lookup, and therefore every Load,
    Exists, Stat and List (recursive or not, of any prefix), answers as before *)
Theorem failed_store_invisible fs k v : reachable_fs fs -> is_ok (snd (fs_store fs k v)) = false ->
  let fs' := fst (fs_store fs k v) in
  (forall q, lookup fs' q = lookup fs q) /\
  (forall q, fs_load fs' q = fs_load fs q) /\
  (forall q, fs_exists fs' q = fs_exists fs q) /\
  (forall q, fs_stat fs' q = fs_stat fs q) /\
  (forall p rec q, In q (okeys (fs_list fs' p rec)) <-> In q (okeys (fs_list fs p rec))).
Proof.
  intros Hr Hf fs'. pose proof (reachable_closed fs Hr) as Hc.
  destruct (store_spec fs Hc k v) as (Hc' & _ & H). destruct (H Hf) as (_ & Hl). fold fs' in Hc', Hl.
  assert (Hres : forall q, resolve fs' q = resolve fs q).
  { intros q. destruct (lookup fs q) as [e|] eqn:E.
    - pose proof E as E'. rewrite <- Hl in E'. apply (resolve_inr fs Hc) in E. apply (resolve_inr fs' Hc') in E'. congruence.
    - pose proof E as E'. rewrite <- Hl in E'.
      apply (resolve_inl fs Hc) in E. apply (resolve_inl fs' Hc') in E'. destruct E as [e E], E' as [e' E'].
      (* both fail; the errno may differ only between ENOENT and ENOTDIR - decided by the same lookups *)
      revert E E'. unfold resolve. generalize (@nil str) as pre. induction q as [|c r IH]; intros pre; cbn [resolve_from].
      + rewrite Hl. destruct (lookup fs pre); congruence.
      + rewrite Hl. destruct (lookup fs pre) as [[w|]|]; try congruence. apply IH. }
  split; [exact Hl|]. split; [|split; [|split]].
  - intros q. unfold fs_load. rewrite Hres. reflexivity.
  - intros q. unfold fs_exists. rewrite Hres. reflexivity.
  - intros q. unfold fs_stat. rewrite Hres. reflexivity.
  - intros p rec q. rewrite (fs_list_keys fs' Hc'), (fs_list_keys fs Hc). unfold present_fs. rewrite !Hl. tauto.
Qed.

(** an empty value is a value: after a successful Store of [] the key exists, Load returns the
    empty value with a nil error (not not-exist), Stat says a terminal key of size 0 *)
Theorem empty_value_is_a_value fs k : reachable_fs fs -> ocls (snd (fs_store fs k [])) = ROk ->
  let fs' := fst (fs_store fs k []) in
  fs_load fs' k = Obs ROk [] false [] 0 /\ oflag (fs_exists fs' k) = true /\
  fs_stat fs' k = Obs ROk [] true [] 0.
Proof.
  intros Hr Hok fs'. pose proof (reachable_closed fs Hr) as Hc.
  destruct (store_spec fs Hc k []) as (Hc' & H & _).
  destruct H as (Hk & _ & _ & Heff); [unfold is_ok; rewrite Hok; reflexivity|].
  assert (E : lookup fs' k = Some (EFile [])) by (unfold fs'; rewrite Heff, path_eqb_refl; reflexivity).
  apply (resolve_inr fs' Hc') in E. unfold fs_load, fs_exists, fs_stat. rewrite E. auto.
Qed.

(** * concurrent model *)

(** ... also for concurrent readers: a Load whose open bound an inode holding the empty value
    returns [Some []] at its first read, never not-exist *)
Theorem load_of_empty_value s t k i (n : nat) : thr s t = ROpen k i [] -> data s i = [] -> (1 <= n)%nat ->
  exists s', step s (LRead t n) = Some s' /\ thr s' t = RDone k (Some []).
Proof.
  intros Ht Hd Hn. cbn [step]. rewrite Ht. apply Nat.leb_le in Hn. rewrite Hn, Hd. cbn [length skipn]. rewrite firstn_nil.
  eexists. split; [reflexivity|]. cbn. unfold upd_nat. rewrite Nat.eqb_refl. reflexivity.
Qed.

(** the temp file of a Store that has not renamed yet (being written, synced or closed) is
    reachable under its temp name only: no key names its inode, in any reachable state *)
Theorem unfinished_store_invisible s0 s t k v tmp i off : reachable s0 s ->
  wtemp (thr s t) = Some (k, v, tmp, i, off) ->
  dir s (NTemp tmp) = Some i /\ forall k', dir s (NDest k') <> Some i.
Proof.
  intros Hr Hw. destruct (I_w _ _ (reachable_Inv s0 s Hr) t k v tmp i off Hw) as (H1 & H2 & _).
  split; [exact H1|]. intros k' H. specialize (H2 _ H). discriminate.
Qed.

(** ... and when the Store fails ([LFail]: write error part-way, sync, close or rename error) that
    inode is unreachable for good: no key has it, the temp name is gone *)
Theorem failed_store_leaves_nothing s0 s t k v tmp i off s' : reachable s0 s ->
  wtemp (thr s t) = Some (k, v, tmp, i, off) -> step s (LFail t) = Some s' ->
  dir s' (NTemp tmp) = None /\ (forall k', dir s' (NDest k') <> Some i) /\
  (forall k', named_value s' k' = named_value s k').
Proof.
  intros Hr Hw Hs. destruct (unfinished_store_invisible s0 s t k v tmp i off Hr Hw) as [_ Hn].
  destruct (failed_store_no_effect s t s' Hs) as (Hnv & _ & _ & _ & _).
  cbn [step] in Hs. unfold wtemp in Hw.
  destruct (thr s t) eqn:E; try discriminate; injection Hw; intros; subst; injection Hs as <-; cbn [dir];
    (split; [unfold upd_name; cbn [name_eqb]; rewrite Nat.eqb_refl; reflexivity|]);
    (split; [intros k'; unfold upd_name; cbn [name_eqb]; apply Hn | exact Hnv]).
Qed.

(** * what the monitors' [true] means *)

(** the history monitor: every Load of a non-empty value in an accepted history returned the id
    of a Store of that history that began before the Load ended and was not overwritten by a
    Store lying entirely between it and the Load; no Store reported a failure other than an
    injected fault *)
Theorem hist_ok_sound h : hist_ok h = true ->
  (forall e, In e h -> is_load e = false -> (0 < vid e)%Z \/ vid e = (-4)%Z) /\
  (forall l, In l h -> is_load l = true -> hempty l = false ->
     exists w, In w h /\ is_load w = false /\ vid w = vid l /\ (0 < vid w)%Z /\ (t0 w < t1 l)%Z /\
       forall w', In w' h -> is_load w' = false -> (0 < vid w')%Z -> ~ ((t1 w < t0 w')%Z /\ (t1 w' < t0 l)%Z)).
Proof.
  unfold hist_ok. cbv zeta. rewrite !andb_true_iff. intros (H0 & ((H1 & _) & _)).
  rewrite forallb_forall in H0, H1. split.
  - intros e He Hl. specialize (H0 e He). rewrite Hl in H0. cbn [orb] in H0.
    apply orb_true_iff in H0. destruct H0 as [H0|H0]; [left; apply Z.ltb_lt; exact H0 | right; apply Z.eqb_eq; exact H0].
  - intros l Hl Hil Hne.
    set (stores := filter (fun e => negb (is_load e) && (0 <? vid e)%Z) h) in *.
    assert (Hin : In (l, find_store stores (vid l))
                     (map (fun l => (l, find_store stores (vid l))) (filter (fun l => is_load l && negb (hempty l)) h))).
    { apply (in_map (fun l => (l, find_store stores (vid l)))). apply filter_In. split; [exact Hl|]. rewrite Hil, Hne. reflexivity. }
    specialize (H1 _ Hin). unfold load_ok in H1.
    destruct (find_store stores (vid l)) as [w|] eqn:Ef; [|discriminate].
    unfold find_store in Ef. apply find_some in Ef. destruct Ef as [Hw Hv].
    apply filter_In in Hw. destruct Hw as [Hwh Hwp]. apply andb_true_iff in Hwp. destruct Hwp as [Hwl Hwv].
    apply andb_true_iff in Hv. destruct Hv as [_ Hv]. apply Z.eqb_eq in Hv. apply Z.ltb_lt in Hwv.
    apply andb_true_iff in H1. destruct H1 as [Ht Hall]. apply Z.ltb_lt in Ht. rewrite forallb_forall in Hall.
    exists w. split; [exact Hwh|]. split; [apply negb_true_iff; exact Hwl|]. split; [exact Hv|]. split; [exact Hwv|]. split; [exact Ht|].
    intros w' Hw' Hl' Hv' [A B].
    assert (Hs : In w' stores) by (apply filter_In; split; [exact Hw'|]; rewrite Hl'; cbn; apply Z.ltb_lt; exact Hv').
    specialize (Hall w' Hs). apply negb_true_iff, andb_false_iff in Hall.
    destruct Hall as [Hx|Hx]; apply Z.ltb_ge in Hx; lia.
Qed.

(** the write-fault monitor accepts exactly the outcome the LTS predicts for a Store followed by
    [LFail]: errors returned, old value whole, fresh key absent, no temp file *)
Theorem fault_model_value : fault_model = Some (true, true, true, true).
Proof. vm_compute. reflexivity. Qed.
Theorem check_fault_sound r_old r_fresh loaded expected fresh_exists stat_fresh dirents :
  check_fault r_old r_fresh loaded expected fresh_exists stat_fresh dirents = 0%Z ->
  loaded = expected /\ fresh_exists <> 1%Z /\ stat_fresh = 1%Z /\ dirents = 1%Z /\ r_old <> 0%Z /\ r_fresh <> 0%Z.
Proof.
  unfold check_fault. rewrite fault_model_value. cbv zeta. unfold code.
  match goal with |- (if ?m then 0 else 1)%Z + (if ?ok then 0 else 2)%Z = 0%Z -> _ => destruct ok eqn:E; [|destruct m; intros H; lia] end.
  intros _. rewrite !andb_true_iff, !negb_true_iff in E. destruct E as (((((A & B) & C) & D) & E1) & F).
  apply Z.eqb_eq in A, C, D. apply Z.eqb_neq in B, E1, F. repeat split; assumption.
Qed.

(** the crash monitor accepts the old or the new value only, and the LTS can leave nothing else
    under the name, at whichever of its steps the writer is killed *)
Theorem crash_outcomes_old_or_new : forallb (fun z => (z =? 0)%Z || (z =? 1)%Z) crash_outcomes = true.
Proof. vm_compute. reflexivity. Qed.
Theorem check_crash_sound acked started loaded : check_crash acked started loaded = 0%Z ->
  (loaded = acked \/ loaded = started) /\ (started = acked \/ started = (acked + 1)%Z).
Proof.
  unfold check_crash, code.
  match goal with |- (if ?m then 0 else 1)%Z + (if ?ok then 0 else 2)%Z = 0%Z -> _ => destruct ok eqn:E; [|destruct m; intros H; lia] end.
  intros _. rewrite andb_true_iff, !orb_true_iff, !Z.eqb_eq in E. exact E.
Qed.

(** * the system-call monitor accepts the model's own Store *)

(** the observation the harness would record for the LTS's solo Store of a value of [vlen] bytes
    written in chunks [ws]: create O_CREAT|O_EXCL of a new name in the destination's directory,
    the writes on that descriptor, fsync, close, rename onto the destination *)
Definition sev_of_store (ws : list nat) : list sev :=
  Sev 1 2 (1 + 2 + 8) :: map (fun n => Sev 2 2 (Z.of_nat n)) ws ++ [Sev 3 2 0; Sev 4 2 0; Sev 5 1 0].

Lemma filter_core_writes ws : filter core (map (fun n => Sev 2 2 (Z.of_nat n)) ws) = map (fun n => Sev 2 2 (Z.of_nat n)) ws.
Proof. induction ws as [|n ws IH]; cbn; [reflexivity | rewrite IH; reflexivity]. Qed.
Lemma sum_args_writes ws acc tail (Ht : forall e, In e tail -> scode e <> 2%Z) :
  fold_left (fun a e => if (scode e =? 2)%Z then (a + sarg e)%Z else a) (map (fun n => Sev 2 2 (Z.of_nat n)) ws ++ tail) acc
  = (acc + Z.of_nat (fold_right Nat.add 0%nat ws))%Z.
Proof.
  revert acc. induction ws as [|n ws IH]; intros acc; cbn [map app fold_left fold_right].
  - rewrite Z.add_0_r. induction tail as [|e tail IHt] in acc, Ht |- *; [reflexivity|]. cbn [fold_left].
    assert (E : (scode e =? 2)%Z = false) by (apply Z.eqb_neq; apply Ht; left; reflexivity). rewrite E.
    apply IHt. intros e' He'. apply Ht. right. exact He'.
  - change (scode (Sev 2 2 (Z.of_nat n)) =? 2)%Z with true. cbn iota. cbn [sarg]. rewrite IH, Nat2Z.inj_add. lia.
Qed.

(** [spec_ok x (model x) = true] for the Store trace: whatever the value's length and however
    the writes are split, the model's own Store passes the structural monitor *)
Theorem store_trace_ok_of_model ws :
  store_trace_ok (Z.of_nat (fold_right Nat.add 0%nat ws)) (sev_of_store ws) = true.
Proof.
  unfold store_trace_ok, sev_of_store. cbn [filter core scode andb Z.leb Z.compare].
  change (filter core (map (fun n => Sev 2 2 (Z.of_nat n)) ws ++ [Sev 3 2 0; Sev 4 2 0; Sev 5 1 0]))
    with (filter core (map (fun n => Sev 2 2 (Z.of_nat n)) ws ++ [Sev 3 2 0; Sev 4 2 0; Sev 5 1 0])).
  rewrite filter_app, filter_core_writes. cbn [filter core scode andb].
  set (W := map (fun n => Sev 2 2 (Z.of_nat n)) ws).
  assert (Hw : forall e, In e W -> scode e = 2%Z /\ sclass e = 2%Z).
  { intros e He. unfold W in He. apply in_map_iff in He. destruct He as (n & <- & _). auto. }
  repeat (apply andb_true_iff; split); try reflexivity.
  - apply forallb_forall. intros e He. apply in_app_or in He. destruct He as [He|He].
    + destruct (Hw e He) as [A B]. rewrite A, B. reflexivity.
    + cbn in He. destruct He as [<-|[<-|[<-|[]]]]; reflexivity.
  - unfold sum_args, W. rewrite sum_args_writes; [cbn [Z.add]; apply Z.eqb_refl|].
    intros e He. cbn in He. destruct He as [<-|[<-|[<-|[]]]]; discriminate.
  - apply forallb_forall. intros e He. apply in_app_or in He. destruct He as [He|He].
    + destruct (Hw e He) as [A _]. rewrite A. reflexivity.
    + cbn in He. destruct He as [<-|[<-|[<-|[]]]]; reflexivity.
  - rewrite filter_app.
    assert (E : filter (fun e => negb (scode e =? 2)%Z) W = []).
    { clear - Hw. induction W as [|e W IH]; [reflexivity|]. cbn [filter].
      destruct (Hw e (or_introl eq_refl)) as [A _]. rewrite A. cbn. apply IH. intros e' He'. apply Hw. right. exact He'. }
    rewrite E. reflexivity.
Qed.

(** ... and its own Load (reads of any sizes, then the EOF probe, close) and Delete of a file key *)
Definition sev_of_load (rs : list nat) : list sev :=
  Sev 7 1 0 :: map (fun n => Sev 8 1 (Z.of_nat n)) rs ++ [Sev 8 1 0; Sev 4 1 0].
Lemma sum_args_reads rs acc tail (Ht : forall e, In e tail -> scode e <> 8%Z \/ sarg e = 0%Z) :
  fold_left (fun a e => if (scode e =? 8)%Z then (a + sarg e)%Z else a) (map (fun n => Sev 8 1 (Z.of_nat n)) rs ++ tail) acc
  = (acc + Z.of_nat (fold_right Nat.add 0%nat rs))%Z.
Proof.
  revert acc. induction rs as [|n rs IH]; intros acc; cbn [map app fold_left fold_right].
  - rewrite Z.add_0_r. induction tail as [|e tail IHt] in acc, Ht |- *; [reflexivity|]. cbn [fold_left].
    destruct (Ht e (or_introl eq_refl)) as [E|E].
    + apply Z.eqb_neq in E. rewrite E. apply IHt. intros e' He'. apply Ht. right. exact He'.
    + rewrite E, Z.add_0_r. destruct (scode e =? 8)%Z; apply IHt; intros e' He'; apply Ht; right; exact He'.
  - change (scode (Sev 8 1 (Z.of_nat n)) =? 8)%Z with true. cbn iota. cbn [sarg]. rewrite IH, Nat2Z.inj_add. lia.
Qed.
Theorem load_trace_ok_of_model rs :
  load_trace_ok (Z.of_nat (fold_right Nat.add 0%nat rs)) (sev_of_load rs) = true.
Proof.
  unfold load_trace_ok, sev_of_load. cbn [filter core scode andb Z.leb Z.compare].
  assert (Hf : filter core (map (fun n => Sev 8 1 (Z.of_nat n)) rs ++ [Sev 8 1 0; Sev 4 1 0]) =
               map (fun n => Sev 8 1 (Z.of_nat n)) rs ++ [Sev 8 1 0; Sev 4 1 0]).
  { rewrite filter_app. cbn [filter core scode andb Z.leb Z.compare]. f_equal.
    induction rs as [|n rs IH]; cbn; [reflexivity | rewrite IH; reflexivity]. }
  rewrite Hf. repeat (apply andb_true_iff; split); try reflexivity.
  - apply forallb_forall. intros e He. apply in_app_or in He. destruct He as [He|He].
    + apply in_map_iff in He. destruct He as (n & <- & _). reflexivity.
    + cbn in He. destruct He as [<-|[<-|[]]]; reflexivity.
  - unfold sum_args. rewrite sum_args_reads; [cbn [Z.add]; apply Z.eqb_refl|].
    intros e He. cbn in He. destruct He as [<-|[<-|[]]]; [right; reflexivity | left; discriminate].
  - apply existsb_exists. exists (Sev 8 1 0). split; [apply in_or_app; right; left; reflexivity | reflexivity].
Qed.
Theorem delete_trace_ok_of_model : delete_trace_ok [Sev 9 1 0] = true /\ lts_delete = Some [9%Z].
Proof. split; vm_compute; reflexivity. Qed.

(** the List-after-crash / List-during-Stores monitors accept only listings that contain every
    committed key; the model side: every present key below a directory prefix is listed
    (C10_prefix_by_component, C10_list_nonrecursive_direct_children) and a temp inode is never
    named by a key (unfinished_store_invisible) *)
Theorem check_crash_list_sound acked started loaded missing : check_crash_list acked started loaded missing = 0%Z ->
  missing = 0%Z /\ (loaded = acked \/ loaded = started) /\ (started = acked \/ started = (acked + 1)%Z).
Proof.
  unfold check_crash_list, code. intros H.
  destruct (missing =? 0)%Z eqn:M; [|rewrite !andb_false_r in H; cbn in H; discriminate].
  apply Z.eqb_eq in M. split; [exact M|]. apply check_crash_sound.
  rewrite !andb_true_r in H.
  destruct (check_crash acked started loaded =? 0)%Z eqn:C0; [apply Z.eqb_eq; exact C0|].
  destruct (check_crash acked started loaded =? 2)%Z eqn:C2, (check_crash acked started loaded =? 1)%Z eqn:C1; cbn in H; try discriminate.
  apply Z.eqb_eq in C2, C1. congruence.
Qed.
Theorem check_list_race_sound lists missing : check_list_race lists missing = 0%Z -> missing = 0%Z.
Proof.
  unfold check_list_race, code. destruct (missing =? 0)%Z eqn:M; [intros _; apply Z.eqb_eq; exact M | cbn; discriminate].
Qed.

(** Store with a context that ends during it: an accepted case has, per trial, nil with the complete
    new value or an error with the old value / absence - never a prefix under a nil error *)
Theorem check_ctx_store_sound ts : check_ctx_store ts = 0%Z ->
  forall r l, In (r, l) ts -> (r = 0%Z /\ l = 1%Z) \/ (r <> 0%Z /\ l = 0%Z).
Proof.
  unfold check_ctx_store, code. destruct (forallb ctx_trial_ok ts) eqn:E; [|cbn; discriminate].
  intros _ r l Hin. rewrite forallb_forall in E. specialize (E _ Hin). cbn in E.
  apply orb_true_iff in E. destruct E as [E|E]; apply andb_true_iff in E; destruct E as [A B].
  - left. split; apply Z.eqb_eq; assumption.
  - right. apply negb_true_iff, Z.eqb_neq in A. apply Z.eqb_eq in B. auto.
Qed.
