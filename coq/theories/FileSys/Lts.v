(** C10, Part 2 — the concurrent view: FileStorage.Store through internal/atomicfile
    (os.CreateTemp in the destination's directory, Write, Sync, Close, Rename; on error
    remove the temp file), FileStorage.Load (os.ReadFile: open, then read(2) until EOF),
    FileStorage.Delete of a file (unlink), and SIGKILL of a thread / process at any step,
    as a labelled transition system over a POSIX-like name space.
    Executable definitions only.

    Names are either destination names (a key; directories are abstracted away here, they
    are Part 1's subject) or temp names.  A directory entry binds a name to an inode; file
    contents live in the inode; open(2) binds the inode once, rename(2) and unlink(2) act on
    names and are atomic steps (the kernel's guarantee, assumed).  Any number of threads,
    spawned at any time, each running one operation; every label is one system call.

    The state carries a ghost [log] of the externally visible events (calls, the rename /
    unlink / open instants, returns).  No step reads the log. *)
From CM Require Import Lib.Str.
From CM Require Import FileSys.Model.
Open Scope nat_scope.

Definition tid := nat.
Definition ino := nat.
Definition key := nat.

Inductive name := NDest (k : key) | NTemp (n : nat).
Definition name_eqb (a b : name) : bool :=
  match a, b with
  | NDest x, NDest y => Nat.eqb x y
  | NTemp x, NTemp y => Nat.eqb x y
  | _, _ => false
  end.

Inductive tstate :=
| TIdle
| WStart (k : key) (v : value)                                (* Store called *)
| WOpen (k : key) (v : value) (tmp : nat) (i : ino) (off : nat) (* temp created, fd open, off bytes written *)
| WSynced (k : key) (v : value) (tmp : nat) (i : ino)
| WClosed (k : key) (v : value) (tmp : nat) (i : ino)
| WDone (k : key) (v : value)                                 (* Store returned nil *)
| WErr (k : key) (v : value)                                  (* Store returned an error *)
| RStart (k : key)                                            (* Load called *)
| ROpen (k : key) (i : ino) (buf : value)                     (* fd open on inode i, buf read so far *)
| RDone (k : key) (r : option value)                          (* Load returned (None = not exist) *)
| DStart (k : key)
| DDone (k : key)
| TDead.

Inductive event :=
| EvStore (t : tid) (k : key) (v : value)      (* Store(k, v) called *)
| EvRename (t : tid) (k : key) (v : value)     (* t's rename onto k happened; v = the value t was asked to store *)
| EvUnlink (t : tid) (k : key)
| EvOpen (t : tid) (k : key)                   (* Load's open(2) happened *)
| EvRet (t : tid) (k : key) (r : option value) (* Load returned r *)
| EvKill (t : tid).

Record state := State {
  dir : name -> option ino;
  data : ino -> value;
  next : ino;
  thr : tid -> tstate;
  log : list event          (* ghost; newest first *)
}.

Definition upd_name (f : name -> option ino) (n : name) (x : option ino) : name -> option ino :=
  fun m => if name_eqb m n then x else f m.
Definition upd_nat {A} (f : nat -> A) (n : nat) (x : A) : nat -> A :=
  fun m => if Nat.eqb m n then x else f m.

(** pwrite: put [chunk] at offset [off] *)
Definition write_at (d : value) (off : nat) (chunk : value) : value :=
  firstn off d ++ chunk ++ skipn (off + length chunk) d.

Inductive label :=
| LSpawnStore (t : tid) (k : key) (v : value)
| LSpawnLoad (t : tid) (k : key)
| LSpawnDelete (t : tid) (k : key)
| LCreate (t : tid) (tmp : nat)   (* openat(dir, tmp, O_RDWR|O_CREAT|O_EXCL): the random name is a choice *)
| LWrite (t : tid) (n : nat)      (* one write(2) that accepts n bytes (0 for an empty value) *)
| LSync (t : tid)
| LClose (t : tid)
| LRename (t : tid)
| LFail (t : tid)                 (* write/sync/close/rename reported an error: temp unlinked, Store errs *)
| LOpen (t : tid)
| LRead (t : tid) (n : nat)       (* one read(2) with room for n >= 1 bytes *)
| LUnlink (t : tid)
| LKill (t : tid).                (* SIGKILL: the thread disappears together with its descriptors *)

Definition set_thr (s : state) (t : tid) (x : tstate) : state :=
  State (dir s) (data s) (next s) (upd_nat (thr s) t x) (log s).
Definition add_log (s : state) (e : event) : state :=
  State (dir s) (data s) (next s) (thr s) (e :: log s).

Definition step (s : state) (l : label) : option state :=
  match l with
  | LSpawnStore t k v =>
      match thr s t with
      | TIdle => Some (add_log (set_thr s t (WStart k v)) (EvStore t k v))
      | _ => None
      end
  | LSpawnLoad t k =>
      match thr s t with TIdle => Some (set_thr s t (RStart k)) | _ => None end
  | LSpawnDelete t k =>
      match thr s t with TIdle => Some (set_thr s t (DStart k)) | _ => None end
  | LCreate t tmp =>
      match thr s t, dir s (NTemp tmp) with
      | WStart k v, None =>
          let i := next s in
          Some (State (upd_name (dir s) (NTemp tmp) (Some i)) (upd_nat (data s) i []) (S i)
                      (upd_nat (thr s) t (WOpen k v tmp i 0)) (log s))
      | _, _ => None
      end
  | LWrite t n =>
      match thr s t with
      | WOpen k v tmp i off =>
          if off + n <=? length v then
            let chunk := firstn n (skipn off v) in
            Some (State (dir s) (upd_nat (data s) i (write_at (data s i) off chunk)) (next s)
                        (upd_nat (thr s) t (WOpen k v tmp i (off + n))) (log s))
          else None
      | _ => None
      end
  | LSync t =>
      match thr s t with
      | WOpen k v tmp i off =>
          if off =? length v then Some (set_thr s t (WSynced k v tmp i)) else None
      | _ => None
      end
  | LClose t =>
      match thr s t with
      | WSynced k v tmp i => Some (set_thr s t (WClosed k v tmp i))
      | _ => None
      end
  | LRename t =>
      match thr s t with
      | WClosed k v tmp i =>
          match dir s (NTemp tmp) with          (* rename(2) acts on the NAME *)
          | Some j =>
              Some (State (upd_name (upd_name (dir s) (NDest k) (Some j)) (NTemp tmp) None)
                          (data s) (next s) (upd_nat (thr s) t (WDone k v))
                          (EvRename t k v :: log s))
          | None => None
          end
      | _ => None
      end
  | LFail t =>
      match thr s t with
      | WOpen k v tmp _ _ | WSynced k v tmp _ | WClosed k v tmp _ =>
          Some (State (upd_name (dir s) (NTemp tmp) None) (data s) (next s)
                      (upd_nat (thr s) t (WErr k v)) (log s))
      | _ => None
      end
  | LOpen t =>
      match thr s t with
      | RStart k =>
          match dir s (NDest k) with
          | Some i => Some (add_log (set_thr s t (ROpen k i [])) (EvOpen t k))
          | None => Some (add_log (add_log (set_thr s t (RDone k None)) (EvOpen t k)) (EvRet t k None))
          end
      | _ => None
      end
  | LRead t n =>
      match thr s t with
      | ROpen k i buf =>
          if 1 <=? n then
            match firstn n (skipn (length buf) (data s i)) with
            | [] => Some (add_log (set_thr s t (RDone k (Some buf))) (EvRet t k (Some buf)))   (* EOF *)
            | chunk => Some (set_thr s t (ROpen k i (buf ++ chunk)))
            end
          else None
      | _ => None
      end
  | LUnlink t =>
      match thr s t with
      | DStart k =>
          Some (State (upd_name (dir s) (NDest k) None) (data s) (next s)
                      (upd_nat (thr s) t (DDone k)) (EvUnlink t k :: log s))
      | _ => None
      end
  | LKill t =>
      match thr s t with
      | TIdle | TDead => None
      | _ => Some (add_log (set_thr s t TDead) (EvKill t))
      end
  end.

Fixpoint run (s : state) (ls : list label) : option state :=
  match ls with
  | [] => Some s
  | l :: r => match step s l with Some s' => run s' r | None => None end
  end.

(** ** reading the history *)

(** value bound to key [k] after the events of [lg] (newest first), starting from [v0] *)
Fixpoint installed (v0 : key -> option value) (lg : list event) (k : key) : option value :=
  match lg with
  | [] => v0 k
  | EvRename _ k' v :: r => if Nat.eqb k' k then Some v else installed v0 r k
  | EvUnlink _ k' :: r => if Nat.eqb k' k then None else installed v0 r k
  | _ :: r => installed v0 r k
  end.

(** the key thread [t] opened and the value bound to it at the instant of that open(2) *)
Fixpoint value_at_open (v0 : key -> option value) (lg : list event) (t : tid) : option (key * option value) :=
  match lg with
  | [] => None
  | EvOpen t' k :: r => if Nat.eqb t' t then Some (k, installed v0 r k) else value_at_open v0 r t
  | _ :: r => value_at_open v0 r t
  end.

(** what a name currently holds *)
Definition named_value (s : state) (k : key) : option value :=
  match dir s (NDest k) with Some i => Some (data s i) | None => None end.

(** does thread state [x] hold a descriptor open for writing on inode [i]? *)
Definition writes_to (x : tstate) (i : ino) : bool :=
  match x with
  | WOpen _ _ _ j _ | WSynced _ _ _ j => Nat.eqb j i
  | _ => false
  end.

(** ** executable instances used by the correspondence *)
Definition init_empty : state :=
  State (fun _ => None) (fun _ => []) 0 (fun _ => TIdle) [].

(** system-call kinds of the labels, for the comparison with strace *)
Inductive sysop := SCreateExcl | SWrite | SFsync | SClose | SRename | SUnlinkTemp | SOpenRead | SRead | SUnlink.
Definition sysop_code (o : sysop) : Z :=
  match o with
  | SCreateExcl => 1 | SWrite => 2 | SFsync => 3 | SClose => 4 | SRename => 5
  | SUnlinkTemp => 6 | SOpenRead => 7 | SRead => 8 | SUnlink => 9
  end%Z.
Definition sys_of_label (l : label) : option sysop :=
  match l with
  | LCreate _ _ => Some SCreateExcl
  | LWrite _ _ => Some SWrite
  | LSync _ => Some SFsync
  | LClose _ => Some SClose
  | LRename _ => Some SRename
  | LFail _ => Some SUnlinkTemp
  | LOpen _ => Some SOpenRead
  | LRead _ _ => Some SRead
  | LUnlink _ => Some SUnlink
  | _ => None
  end.

(** solo schedules: one thread, the write(2)/read(2) sizes as observed *)
Definition solo_store (k : key) (v : value) (chunks : list nat) : list label :=
  LSpawnStore 0 k v :: LCreate 0 0 :: map (LWrite 0) chunks ++ [LSync 0; LClose 0; LRename 0].
Definition solo_load (k : key) (chunks : list nat) : list label :=
  LSpawnLoad 0 k :: LOpen 0 :: map (LRead 0) chunks.

Fixpoint sys_trace (ls : list label) : list sysop :=
  match ls with
  | [] => []
  | l :: r => match sys_of_label l with Some o => o :: sys_trace r | None => sys_trace r end
  end.
