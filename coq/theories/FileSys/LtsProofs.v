(** Proofs about Part 2 (the atomic-file LTS): for every schedule of any number of writer,
    reader and deleter threads, with kills at any step,
    - an inode reachable through a destination name is never written ([sealed_invariant],
      [sealed_forever]);
    - every completed Load returns exactly the value that was bound to the key at the
      instant of its open(2), and that value is the initial one or the complete value of a
      Store whose rename precedes the open ([load_linearizable], [installed_cases]);
    - whatever was killed, a name holds the initial value or a complete stored value
      ([crash_old_or_new]). *)
From CM Require Import Lib.Str FileSys.Model FileSys.Lts.
Open Scope nat_scope.

Lemma name_eqb_eq a b : name_eqb a b = true <-> a = b.
Proof.
  destruct a, b; cbn; rewrite ?Nat.eqb_eq; split; try congruence; try discriminate.
Qed.
Lemma name_eqb_refl a : name_eqb a a = true.
Proof. apply name_eqb_eq; reflexivity. Qed.
Lemma upd_name_eq f n x : upd_name f n x n = x.
Proof. unfold upd_name. rewrite name_eqb_refl. reflexivity. Qed.
Lemma upd_name_neq f n x m : m <> n -> upd_name f n x m = f m.
Proof.
  intros H. unfold upd_name. destruct (name_eqb m n) eqn:E; [apply name_eqb_eq in E; contradiction | reflexivity].
Qed.
Lemma upd_nat_eq {A} (f : nat -> A) n x : upd_nat f n x n = x.
Proof. unfold upd_nat. rewrite Nat.eqb_refl. reflexivity. Qed.
Lemma upd_nat_neq {A} (f : nat -> A) n x m : m <> n -> upd_nat f n x m = f m.
Proof. intros H. unfold upd_nat. destruct (Nat.eqb_spec m n); [contradiction | reflexivity]. Qed.

(** pwrite of the next chunk of [v] extends the written prefix of [v] *)
Lemma firstn_add {A} a b (l : list A) : firstn (a + b) l = firstn a l ++ firstn b (skipn a l).
Proof.
  revert l; induction a as [|a IH]; intros l; [reflexivity|].
  destruct l as [|x l]; [cbn; rewrite firstn_nil; reflexivity|]. cbn. rewrite IH. reflexivity.
Qed.
Lemma write_at_prefix (v : value) off n : off + n <= length v ->
  write_at (firstn off v) off (firstn n (skipn off v)) = firstn (off + n) v.
Proof.
  intros H. unfold write_at.
  rewrite firstn_firstn, Nat.min_id.
  rewrite (skipn_all2 (firstn off v)) by (rewrite firstn_length; lia).
  rewrite app_nil_r, firstn_add. reflexivity.
Qed.

(** the temp file a writer thread holds: key, value, temp name, inode, bytes written *)
Definition wtemp (x : tstate) : option (key * value * nat * ino * nat) :=
  match x with
  | WOpen k v tmp i off => Some (k, v, tmp, i, off)
  | WSynced k v tmp i | WClosed k v tmp i => Some (k, v, tmp, i, length v)
  | _ => None
  end.
Definition wcall (x : tstate) : option (key * value) :=
  match x with
  | WStart k v | WOpen k v _ _ _ | WSynced k v _ _ | WClosed k v _ _ => Some (k, v)
  | _ => None
  end.

Lemma writes_to_wtemp x i : writes_to x i = true -> exists k v tmp off, wtemp x = Some (k, v, tmp, i, off).
Proof.
  destruct x; cbn; try discriminate; intros H; apply Nat.eqb_eq in H; subst; eauto.
Qed.

(** every Load return in the log carries the value bound at that thread's open *)
Fixpoint log_ok (v0 : key -> option value) (lg : list event) : Prop :=
  match lg with
  | [] => True
  | EvRet t k r :: pre => value_at_open v0 pre t = Some (k, r) /\ log_ok v0 pre
  | EvRename t k v :: pre => In (EvStore t k v) pre /\ log_ok v0 pre
  | _ :: pre => log_ok v0 pre
  end.

Record Inv (v0 : key -> option value) (s : state) : Prop := {
  I_lt : forall nm i, dir s nm = Some i -> i < next s;
  I_w : forall t k v tmp i off, wtemp (thr s t) = Some (k, v, tmp, i, off) ->
        dir s (NTemp tmp) = Some i /\ (forall nm, dir s nm = Some i -> nm = NTemp tmp) /\
        data s i = firstn off v /\ off <= length v;
  I_wd : forall t1 t2 k1 v1 tmp i1 o1 k2 v2 i2 o2,
        wtemp (thr s t1) = Some (k1, v1, tmp, i1, o1) ->
        wtemp (thr s t2) = Some (k2, v2, tmp, i2, o2) -> t1 = t2;
  I_ws : forall t k v, wcall (thr s t) = Some (k, v) -> In (EvStore t k v) (log s);
  I_r : forall t k i buf, thr s t = ROpen k i buf ->
        i < next s /\ (forall t', writes_to (thr s t') i = false) /\
        buf = firstn (length buf) (data s i) /\
        value_at_open v0 (log s) t = Some (k, Some (data s i));
  I_named : forall k, named_value s k = installed v0 (log s) k;
  I_log : log_ok v0 (log s)
}.

Definition init_ok (s : state) : Prop :=
  (forall t, thr s t = TIdle) /\ log s = [] /\ (forall nm i, dir s nm = Some i -> i < next s).

Lemma Inv_init s : init_ok s -> Inv (named_value s) s.
Proof.
  intros (Ht & Hl & Hd). constructor.
  - exact Hd.
  - intros t k v tmp i off H. rewrite Ht in H. discriminate.
  - intros t1 t2 k1 v1 tmp i1 o1 k2 v2 i2 o2 H. rewrite Ht in H. discriminate.
  - intros t k v H. rewrite Ht in H. discriminate.
  - intros t k i buf H. rewrite Ht in H. discriminate.
  - intros k. rewrite Hl. reflexivity.
  - rewrite Hl. exact I.
Qed.

(** two distinct writer threads hold distinct inodes *)
Lemma writers_distinct v0 s (HI : Inv v0 s) t1 t2 k1 v1 tmp1 i o1 k2 v2 tmp2 o2 :
  wtemp (thr s t1) = Some (k1, v1, tmp1, i, o1) -> wtemp (thr s t2) = Some (k2, v2, tmp2, i, o2) -> t1 = t2.
Proof.
  intros H1 H2. destruct (I_w v0 s HI _ _ _ _ _ _ H1) as (_ & Hn1 & _).
  destruct (I_w v0 s HI _ _ _ _ _ _ H2) as (Hd2 & _). apply Hn1 in Hd2. injection Hd2; intros ->.
  exact (I_wd v0 s HI _ _ _ _ _ _ _ _ _ _ _ H1 H2).
Qed.
(** a named destination inode is not a writer's inode *)
Lemma named_not_writer v0 s (HI : Inv v0 s) k i t : dir s (NDest k) = Some i -> writes_to (thr s t) i = false.
Proof.
  intros Hd. destruct (writes_to (thr s t) i) eqn:E; [|reflexivity].
  apply writes_to_wtemp in E. destruct E as (k' & v' & tmp & off & E).
  destruct (I_w v0 s HI _ _ _ _ _ _ E) as (_ & Hn & _). apply Hn in Hd. discriminate.
Qed.

Ltac inv_step H :=
  match type of H with
  | step ?s ?l = Some ?s' =>
      destruct l; cbn [step] in H;
      repeat match type of H with
             | context [match thr ?s ?t with _ => _ end] => destruct (thr s t) eqn:?Et
             | context [match dir ?s ?n with _ => _ end] => destruct (dir s n) eqn:?Ed
             | context [match firstn ?n ?l with _ => _ end] => destruct (firstn n l) eqn:?Ef
             | context [if ?b then _ else _] => destruct b eqn:?Eb
             end; try discriminate; injection H as <-
  end.

Ltac thr_cases_as t0 t H Hne :=
  destruct (Nat.eq_dec t0 t) as [->|Hne]; [rewrite upd_nat_eq in H | rewrite upd_nat_neq in H by exact Hne].
Ltac thr_cases t0 t H := let Hne := fresh "Hne" in thr_cases_as t0 t H Hne.

Section Preservation.
Variable v0 : key -> option value.
Variables (s s' : state) (l : label).
Hypothesis HI : Inv v0 s.
Hypothesis Hstep : step s l = Some s'.

Lemma step_next_mono : next s <= next s'.
Proof. inv_step Hstep; cbn; lia. Qed.

Lemma pres_lt : forall nm j, dir s' nm = Some j -> j < next s'.
Proof.
  pose proof (I_lt v0 s HI) as Hlt.
  inv_step Hstep; cbn [dir next set_thr add_log]; intros nm j; try apply Hlt.
  - (* create *) unfold upd_name. destruct (name_eqb nm (NTemp tmp)); [intros H; injection H; lia|].
    intros H. apply Hlt in H. lia.
  - (* rename *) unfold upd_name. destruct (name_eqb nm (NTemp tmp)); [discriminate|].
    destruct (name_eqb nm (NDest k)); [intros H; injection H; intros <-; eapply Hlt; eassumption | apply Hlt].
  - unfold upd_name. destruct (name_eqb nm (NTemp tmp)); [discriminate | apply Hlt].
  - unfold upd_name. destruct (name_eqb nm (NTemp tmp)); [discriminate | apply Hlt].
  - unfold upd_name. destruct (name_eqb nm (NTemp tmp)); [discriminate | apply Hlt].
  - unfold upd_name. destruct (name_eqb nm (NDest k)); [discriminate | apply Hlt].
Qed.

Lemma pres_w : forall t0 k0 w0 tmp0 j off0, wtemp (thr s' t0) = Some (k0, w0, tmp0, j, off0) ->
  dir s' (NTemp tmp0) = Some j /\ (forall nm, dir s' nm = Some j -> nm = NTemp tmp0) /\
  data s' j = firstn off0 w0 /\ off0 <= length w0.
Proof.
  pose proof (I_w v0 s HI) as Hw. pose proof (I_lt v0 s HI) as Hlt.
  pose proof (writers_distinct v0 s HI) as Hwd.
  inv_step Hstep; cbn [dir data thr set_thr add_log]; intros t0 k0 w0 tmp0 j off0 H0.
  all: try (thr_cases t0 t H0; [cbn [wtemp] in H0; try discriminate | exact (Hw _ _ _ _ _ _ H0)]).
  - (* create *)
    thr_cases t0 t H0.
    + cbn [wtemp] in H0. injection H0; intros <- <- <- <- <-.
      rewrite upd_name_eq. split; [reflexivity|]. split.
      * intros nm. unfold upd_name. destruct (name_eqb nm (NTemp tmp)) eqn:E; [apply name_eqb_eq in E; auto|].
        intros Hx. apply Hlt in Hx. lia.
      * rewrite upd_nat_eq. cbn. split; [reflexivity | lia].
    + destruct (Hw _ _ _ _ _ _ H0) as (H1 & H2 & H3 & H4).
      assert (Htmp : tmp0 <> tmp) by (intros ->; congruence).
      rewrite upd_name_neq by congruence. split; [assumption|]. split.
      * intros nm. unfold upd_name. destruct (name_eqb nm (NTemp tmp)) eqn:E; [|apply H2].
        intros Hx. injection Hx; intros <-. apply Hlt in H1. lia.
      * split; [|assumption]. rewrite <- H3. apply Hlt in H1. apply upd_nat_neq. lia.
  - (* write *)
    apply Nat.leb_le in Eb.
    destruct (Hw t _ _ _ _ _ ltac:(rewrite Et; reflexivity)) as (H1 & H2 & H3 & H4).
    thr_cases t0 t H0.
    + cbn [wtemp] in H0. injection H0; intros <- <- <- <- <-.
      split; [assumption|]. split; [assumption|]. rewrite upd_nat_eq. split; [|assumption].
      rewrite H3. apply write_at_prefix. assumption.
    + destruct (Hw _ _ _ _ _ _ H0) as (G1 & G2 & G3 & G4).
      split; [assumption|]. split; [assumption|]. split; [|assumption].
      rewrite upd_nat_neq; [assumption|]. intros ->. apply Hne.
      eapply Hwd; [eassumption | rewrite Et; reflexivity].
  - (* sync *)
    apply Nat.eqb_eq in Eb. subst off.
    destruct (Hw t _ _ _ _ _ ltac:(rewrite Et; reflexivity)) as (H1 & H2 & H3 & H4).
    injection H0; intros <- <- <- <- <-. auto.
  - (* close *)
    destruct (Hw t _ _ _ _ _ ltac:(rewrite Et; reflexivity)) as (H1 & H2 & H3 & H4).
    injection H0; intros <- <- <- <- <-. auto.
  - (* rename *)
    destruct (Hw t _ _ _ _ _ ltac:(rewrite Et; reflexivity)) as (H1 & H2 & H3 & H4).
    rewrite H1 in Ed. injection Ed; intros <-.
    thr_cases t0 t H0; [cbn [wtemp] in H0; discriminate|].
    destruct (Hw _ _ _ _ _ _ H0) as (G1 & G2 & G3 & G4).
    assert (Hj : j <> i) by (intros ->; apply Hne; eapply Hwd; [eassumption | rewrite Et; reflexivity]).
    assert (Htmp : tmp0 <> tmp) by (intros ->; congruence).
    rewrite upd_name_neq by congruence. rewrite upd_name_neq by discriminate.
    split; [assumption|]. split; [|auto].
    intros nm. unfold upd_name. destruct (name_eqb nm (NTemp tmp)); [discriminate|].
    destruct (name_eqb nm (NDest k)); [intros Hx; injection Hx; congruence | apply G2].
  - (* fail, from WOpen *)
    thr_cases t0 t H0; [cbn [wtemp] in H0; discriminate|].
    destruct (Hw _ _ _ _ _ _ H0) as (G1 & G2 & G3 & G4).
    destruct (Hw t _ _ _ _ _ ltac:(rewrite Et; reflexivity)) as (H1 & _).
    assert (Htmp : tmp0 <> tmp).
    { intros ->. apply Hne. eapply (I_wd v0 s HI); [eassumption | rewrite Et; reflexivity]. }
    rewrite upd_name_neq by congruence. split; [assumption|]. split; [|auto].
    intros nm. unfold upd_name. destruct (name_eqb nm (NTemp tmp)); [discriminate | apply G2].
  - thr_cases t0 t H0; [cbn [wtemp] in H0; discriminate|].
    destruct (Hw _ _ _ _ _ _ H0) as (G1 & G2 & G3 & G4).
    assert (Htmp : tmp0 <> tmp).
    { intros ->. apply Hne. eapply (I_wd v0 s HI); [eassumption | rewrite Et; reflexivity]. }
    rewrite upd_name_neq by congruence. split; [assumption|]. split; [|auto].
    intros nm. unfold upd_name. destruct (name_eqb nm (NTemp tmp)); [discriminate | apply G2].
  - thr_cases t0 t H0; [cbn [wtemp] in H0; discriminate|].
    destruct (Hw _ _ _ _ _ _ H0) as (G1 & G2 & G3 & G4).
    assert (Htmp : tmp0 <> tmp).
    { intros ->. apply Hne. eapply (I_wd v0 s HI); [eassumption | rewrite Et; reflexivity]. }
    rewrite upd_name_neq by congruence. split; [assumption|]. split; [|auto].
    intros nm. unfold upd_name. destruct (name_eqb nm (NTemp tmp)); [discriminate | apply G2].
  - (* unlink *)
    thr_cases t0 t H0; [cbn [wtemp] in H0; discriminate|].
    destruct (Hw _ _ _ _ _ _ H0) as (G1 & G2 & G3 & G4).
    rewrite upd_name_neq by discriminate. split; [assumption|]. split; [|auto].
    intros nm. unfold upd_name. destruct (name_eqb nm (NDest k)); [discriminate | apply G2].
Qed.

Lemma pres_wd : forall t1 t2 k1 w1 tmp0 j1 o1 k2 w2 j2 o2,
  wtemp (thr s' t1) = Some (k1, w1, tmp0, j1, o1) ->
  wtemp (thr s' t2) = Some (k2, w2, tmp0, j2, o2) -> t1 = t2.
Proof.
  pose proof (I_wd v0 s HI) as Hwd. pose proof (I_w v0 s HI) as Hw.
  inv_step Hstep; cbn [thr set_thr add_log]; intros t1 t2 k1 w1 tmp0 j1 o1 k2 w2 j2 o2 H1 H2;
    try (eapply Hwd; eassumption).
  all: thr_cases_as t1 t H1 Hne1; thr_cases_as t2 t H2 Hne2; try reflexivity; cbn [wtemp] in H1, H2;
    try discriminate; try (eapply Hwd; eassumption).
  all: try (injection H1; intros; subst; first
              [ eapply Hwd; [rewrite Et; reflexivity | eassumption]
              | exfalso; destruct (Hw _ _ _ _ _ _ H2) as (Hx & _); congruence ]).
  all: try (injection H2; intros; subst; first
              [ eapply Hwd; [eassumption | rewrite Et; reflexivity]
              | exfalso; destruct (Hw _ _ _ _ _ _ H1) as (Hx & _); congruence ]).
Qed.

Lemma pres_ws : forall t0 k0 w0, wcall (thr s' t0) = Some (k0, w0) -> In (EvStore t0 k0 w0) (log s').
Proof.
  pose proof (I_ws v0 s HI) as Hws.
  inv_step Hstep; cbn [thr log set_thr add_log]; intros t0 k0 w0 H0.
  all: thr_cases t0 t H0; cbn [wcall] in H0; try discriminate.
  all: try (injection H0; intros <- <-).
  all: repeat match goal with |- In _ (_ :: _) => first [left; reflexivity | right] end.
  all: first [ exact (Hws _ _ _ H0) | apply Hws; rewrite Et; reflexivity ].
Qed.

Lemma pres_named : forall k0, named_value s' k0 = installed v0 (log s') k0.
Proof.
  pose proof (I_named v0 s HI) as Hn. pose proof (I_lt v0 s HI) as Hlt. pose proof (I_w v0 s HI) as Hw.
  inv_step Hstep; intros k0; unfold named_value in *; cbn [dir data log set_thr add_log installed];
    try exact (Hn k0).
  - (* create *)
    rewrite upd_name_neq by discriminate. rewrite <- Hn.
    destruct (dir s (NDest k0)) as [j|] eqn:Ej; [|reflexivity].
    apply Hlt in Ej. rewrite upd_nat_neq by lia. reflexivity.
  - (* write *)
    rewrite <- Hn. destruct (dir s (NDest k0)) as [j|] eqn:Ej; [|reflexivity].
    pose proof (named_not_writer v0 s HI k0 j t Ej) as Hnw. rewrite Et in Hnw. cbn in Hnw.
    apply Nat.eqb_neq in Hnw. rewrite upd_nat_neq by congruence. reflexivity.
  - (* rename *)
    destruct (Hw t _ _ _ _ _ ltac:(rewrite Et; reflexivity)) as (H1 & H2 & H3 & H4).
    rewrite H1 in Ed. injection Ed; intros <-.
    rewrite upd_name_neq by discriminate.
    destruct (Nat.eqb_spec k k0) as [->|Hk].
    + rewrite upd_name_eq, H3, firstn_all. reflexivity.
    + rewrite upd_name_neq by congruence. apply Hn.
  - (* unlink *)
    destruct (Nat.eqb_spec k k0) as [->|Hk].
    + rewrite upd_name_eq. reflexivity.
    + rewrite upd_name_neq by congruence. apply Hn.
Qed.

(** a step creates a writable descriptor only on a brand-new inode *)
Lemma step_writers t' j : writes_to (thr s' t') j = true -> writes_to (thr s t') j = true \/ j = next s.
Proof.
  inv_step Hstep; cbn [thr set_thr add_log]; intros H0; auto.
  all: thr_cases t' t H0; auto; cbn [writes_to] in H0; try discriminate.
  all: try (left; rewrite Et; exact H0).
  right. apply Nat.eqb_eq in H0. auto.
Qed.

(** only an inode with a writable descriptor changes *)
Lemma step_data_stable j : j < next s -> (forall t', writes_to (thr s t') j = false) -> data s' j = data s j.
Proof.
  intros Hj Hnw. inv_step Hstep; cbn [data set_thr add_log]; try reflexivity.
  - apply upd_nat_neq. lia.
  - apply upd_nat_neq. specialize (Hnw t). rewrite Et in Hnw. cbn in Hnw. apply Nat.eqb_neq in Hnw. congruence.
Qed.

Lemma firstn_length_firstn {A} m (d : list A) : firstn (length (firstn m d)) d = firstn m d.
Proof.
  rewrite firstn_length. destruct (le_lt_dec m (length d)).
  - rewrite Nat.min_l by lia. reflexivity.
  - rewrite Nat.min_r by lia. rewrite firstn_all, firstn_all2 by lia. reflexivity.
Qed.

Lemma pres_r : forall t0 k0 j buf0, thr s' t0 = ROpen k0 j buf0 ->
  j < next s' /\ (forall t', writes_to (thr s' t') j = false) /\
  buf0 = firstn (length buf0) (data s' j) /\
  value_at_open v0 (log s') t0 = Some (k0, Some (data s' j)).
Proof.
  pose proof (I_r v0 s HI) as Hr. pose proof step_next_mono as Hmono.
  assert (Hkeep : forall t0 k0 j buf0, thr s t0 = ROpen k0 j buf0 ->
            j < next s' /\ (forall t', writes_to (thr s' t') j = false) /\
            buf0 = firstn (length buf0) (data s' j) /\ value_at_open v0 (log s) t0 = Some (k0, Some (data s' j))).
  { intros t0 k0 j buf0 H0. destruct (Hr _ _ _ _ H0) as (H1 & H2 & H3 & H4).
    rewrite (step_data_stable j H1 H2). split; [lia|]. split; [|auto].
    intros t'. destruct (writes_to (thr s' t') j) eqn:E; [|reflexivity].
    apply step_writers in E. destruct E as [E|E]; [rewrite H2 in E; discriminate | lia]. }
  revert Hkeep Hmono. pose proof (I_named v0 s HI) as Hn. pose proof (I_lt v0 s HI) as Hlt.
  pose proof (named_not_writer v0 s HI) as Hnw.
  inv_step Hstep; cbn [thr log next data set_thr add_log]; intros Hkeep Hmono t0 k0 j buf0 H0.
  all: try (thr_cases t0 t H0; [try discriminate | destruct (Hkeep _ _ _ _ H0) as (G1 & G2 & G3 & G4);
            cbn [value_at_open]; try (replace (t =? t0) with false by (symmetry; apply Nat.eqb_neq; congruence)); auto]).
  - (* open, file present *)
    injection H0; intros <- <- <-. split; [eapply Hlt; eassumption|]. split; [|split; [reflexivity|]].
    + intros t'. unfold upd_nat. destruct (t' =? t); [reflexivity | eapply Hnw; eassumption].
    + cbn [value_at_open]. rewrite Nat.eqb_refl, <- Hn. unfold named_value. rewrite Ed. reflexivity.
  - (* read, more data *)
    injection H0; intros <- <- <-. destruct (Hr _ _ _ _ Et) as (H1 & H2 & H3 & H4).
    split; [assumption|]. split; [|split; [|assumption]].
    + intros t'. unfold upd_nat. destruct (t' =? t); [reflexivity | apply H2].
    + rewrite <- Ef.
      assert (E : buf ++ firstn n (skipn (length buf) (data s i)) = firstn (length buf + n) (data s i))
        by (rewrite firstn_add, <- H3; reflexivity).
      rewrite E. symmetry. apply firstn_length_firstn.
Qed.

Lemma pres_log : log_ok v0 (log s').
Proof.
  pose proof (I_log v0 s HI) as Hl. pose proof (I_ws v0 s HI) as Hws. pose proof (I_r v0 s HI) as Hr.
  pose proof (I_named v0 s HI) as Hn.
  inv_step Hstep; cbn [log set_thr add_log log_ok]; try exact Hl.
  - (* rename *) split; [apply Hws; rewrite Et; reflexivity | exact Hl].
  - (* open, not exist *)
    split; [|exact Hl]. cbn [value_at_open]. rewrite Nat.eqb_refl, <- Hn. unfold named_value. rewrite Ed. reflexivity.
  - (* read, EOF *)
    split; [|exact Hl]. destruct (Hr _ _ _ _ Et) as (H1 & H2 & H3 & H4). rewrite H4. do 3 f_equal.
    assert (Hs : skipn (length buf) (data s i) = []).
    { destruct (skipn (length buf) (data s i)) as [|x r]; [reflexivity|].
      destruct n; [discriminate | cbn in Ef; discriminate]. }
    rewrite <- (firstn_skipn (length buf) (data s i)) at 1. rewrite Hs, app_nil_r. symmetry. exact H3.
Qed.

Lemma Inv_step : Inv v0 s'.
Proof.
  constructor.
  - exact pres_lt.
  - exact pres_w.
  - exact pres_wd.
  - exact pres_ws.
  - exact pres_r.
  - exact pres_named.
  - exact pres_log.
Qed.
End Preservation.

(** * reachability *)
Lemma Inv_run v0 ls : forall s s', Inv v0 s -> run s ls = Some s' -> Inv v0 s'.
Proof.
  induction ls as [|l ls IH]; intros s s' HI; cbn [run].
  - intros H; injection H; intros <-; assumption.
  - destruct (step s l) as [s1|] eqn:E; [|discriminate]. apply IH. exact (Inv_step v0 s s1 l HI E).
Qed.

Definition reachable (s0 s : state) : Prop := init_ok s0 /\ exists ls, run s0 ls = Some s.

Lemma reachable_Inv s0 s : reachable s0 s -> Inv (named_value s0) s.
Proof. intros [H0 [ls Hr]]. exact (Inv_run _ ls s0 s (Inv_init s0 H0) Hr). Qed.

(** * the theorems *)

(** an inode reachable through a destination name has no descriptor open for writing *)
Lemma sealed_invariant s0 s k i t : reachable s0 s -> dir s (NDest k) = Some i -> writes_to (thr s t) i = false.
Proof. intros Hr. exact (named_not_writer _ s (reachable_Inv s0 s Hr) k i t). Qed.

(** ... and is never written again, whatever happens afterwards (even once unlinked or replaced) *)
Lemma unwritable_forever v0 ls : forall s s' i, Inv v0 s -> i < next s -> (forall t, writes_to (thr s t) i = false) ->
  run s ls = Some s' -> data s' i = data s i /\ (forall t, writes_to (thr s' t) i = false).
Proof.
  induction ls as [|l ls IH]; intros s s' i HI Hi Hnw; cbn [run].
  - intros H; injection H; intros <-. auto.
  - destruct (step s l) as [s1|] eqn:E; [|discriminate]. intros Hrun.
    assert (Hnw1 : forall t, writes_to (thr s1 t) i = false).
    { intros t. destruct (writes_to (thr s1 t) i) eqn:Ew; [|reflexivity].
      apply (step_writers s s1 l E) in Ew. destruct Ew as [Ew|Ew]; [rewrite Hnw in Ew; discriminate | lia]. }
    pose proof (step_data_stable s s1 l E i Hi Hnw) as Hd.
    pose proof (step_next_mono s s1 l E) as Hm.
    destruct (IH s1 s' i (Inv_step v0 s s1 l HI E) ltac:(lia) Hnw1 Hrun) as [H1 H2].
    split; [congruence | assumption].
Qed.
Lemma sealed_forever s0 s k i ls s' : reachable s0 s -> dir s (NDest k) = Some i -> run s ls = Some s' ->
  data s' i = data s i /\ (forall t, writes_to (thr s' t) i = false).
Proof.
  intros Hr Hd. pose proof (reachable_Inv s0 s Hr) as HI.
  apply (unwritable_forever _ ls s s' i HI); [exact (I_lt _ s HI _ _ Hd)|].
  intros t. exact (named_not_writer _ s HI k i t Hd).
Qed.

Lemma log_ok_app v0 post : forall lg, log_ok v0 (post ++ lg) -> log_ok v0 lg.
Proof.
  induction post as [|e post IH]; intros lg H; [exact H|].
  apply IH. destruct e; cbn [app log_ok] in H; tauto.
Qed.

(** what [value_at_open] says in terms of positions in the history *)
Lemma value_at_open_spec v0 lg t k r : value_at_open v0 lg t = Some (k, r) ->
  exists mid pre, lg = mid ++ EvOpen t k :: pre /\ r = installed v0 pre k /\
                  (forall k', ~ In (EvOpen t k') mid).
Proof.
  induction lg as [|e lg IH]; cbn [value_at_open]; [discriminate|].
  assert (Hskip : (forall k', e <> EvOpen t k') -> value_at_open v0 lg t = Some (k, r) ->
                  exists mid pre, e :: lg = mid ++ EvOpen t k :: pre /\ r = installed v0 pre k /\
                                  (forall k', ~ In (EvOpen t k') mid)).
  { intros Hne H. destruct (IH H) as (mid & pre & -> & Hr & Hno). exists (e :: mid), pre.
    split; [reflexivity|]. split; [assumption|]. intros k' [E|E]; [exact (Hne k' E) | exact (Hno k' E)]. }
  destruct e; try (apply Hskip; intros k' E; discriminate).
  destruct (Nat.eqb_spec t0 t) as [->|Hne].
  - intros H; injection H; intros <- <-. exists [], lg. split; [reflexivity|]. split; [reflexivity|]. intros k' [].
  - apply Hskip. intros k' E. injection E; intros _ E'. contradiction.
Qed.

(** Every completed Load returned exactly the value that was bound to its key at the instant
    of its open(2): in the history, the return is preceded by that thread's open of the
    same key, and the result is the binding established by the events before the open. *)
Theorem load_linearizable s0 s post t k r pre : reachable s0 s ->
  log s = post ++ EvRet t k r :: pre ->
  exists mid before, pre = mid ++ EvOpen t k :: before /\ r = installed (named_value s0) before k.
Proof.
  intros Hr Hlog. pose proof (I_log _ s (reachable_Inv s0 s Hr)) as Hl. rewrite Hlog in Hl.
  apply log_ok_app in Hl. cbn [log_ok] in Hl. destruct Hl as [Hv _].
  destruct (value_at_open_spec _ _ _ _ _ Hv) as (mid & before & -> & -> & _). eauto.
Qed.

(** a binding is the initial one, or absent after an unlink, or the value of a rename event *)
Lemma installed_cases v0 lg k :
  installed v0 lg k = v0 k \/
  (installed v0 lg k = None /\ exists t, In (EvUnlink t k) lg) \/
  (exists t v, installed v0 lg k = Some v /\ In (EvRename t k v) lg).
Proof.
  induction lg as [|e lg IH]; cbn [installed]; [auto|].
  assert (Hw : installed v0 lg k = v0 k \/
          (installed v0 lg k = None /\ exists t, In (EvUnlink t k) (e :: lg)) \/
          (exists t v, installed v0 lg k = Some v /\ In (EvRename t k v) (e :: lg))).
  { destruct IH as [H|[[H [t Ht]]|(t & v & H & Ht)]]; [auto | right; left; split; [assumption | exists t; right; assumption] |].
    right; right. exists t, v. split; [assumption | right; assumption]. }
  destruct e; try exact Hw.
  - destruct (Nat.eqb_spec k0 k) as [->|Hne]; [|exact Hw]. right; right. exists t, v. split; [reflexivity | left; reflexivity].
  - destruct (Nat.eqb_spec k0 k) as [->|Hne]; [|exact Hw]. right; left. split; [reflexivity | exists t; left; reflexivity].
Qed.

(** the latest rename onto the key wins *)
Lemma installed_last_rename v0 post t k v pre :
  (forall t' v', ~ In (EvRename t' k v') post) -> (forall t', ~ In (EvUnlink t' k) post) ->
  installed v0 (post ++ EvRename t k v :: pre) k = Some v.
Proof.
  induction post as [|e post IH]; intros H1 H2; cbn [app installed]; [rewrite Nat.eqb_refl; reflexivity|].
  assert (IH' : installed v0 (post ++ EvRename t k v :: pre) k = Some v).
  { apply IH; [intros t' v' E; apply (H1 t' v'); right; assumption | intros t' E; apply (H2 t'); right; assumption]. }
  destruct e; try exact IH'.
  - destruct (Nat.eqb_spec k0 k) as [->|Hne]; [|exact IH']. exfalso. apply (H1 t0 v1). left; reflexivity.
  - destruct (Nat.eqb_spec k0 k) as [->|Hne]; [|exact IH']. exfalso. apply (H2 t0). left; reflexivity.
Qed.

(** every rename in the history is the rename of a Store call with that complete value *)
Lemma log_ok_rename v0 lg t k v : log_ok v0 lg -> In (EvRename t k v) lg -> In (EvStore t k v) lg.
Proof.
  induction lg as [|e lg IH]; intros Hl Hin; [destruct Hin|].
  destruct Hin as [->|Hin].
  - cbn [log_ok] in Hl. right. tauto.
  - right. apply IH; [|assumption]. destruct e; cbn [log_ok] in Hl; tauto.
Qed.

(** Whatever was killed and whenever: a key's name holds the initial value, or nothing
    after a Delete, or the complete value of a Store call whose rename happened.  Never a
    partial value. *)
Theorem crash_old_or_new s0 s k : reachable s0 s ->
  named_value s k = named_value s0 k \/
  (named_value s k = None /\ exists t, In (EvUnlink t k) (log s)) \/
  (exists t v, named_value s k = Some v /\ In (EvRename t k v) (log s) /\ In (EvStore t k v) (log s)).
Proof.
  intros Hr. pose proof (reachable_Inv s0 s Hr) as HI. rewrite (I_named _ s HI k).
  destruct (installed_cases (named_value s0) (log s) k) as [H|[H|(t & v & H & Hin)]]; [auto | auto |].
  right; right. exists t, v. split; [assumption|]. split; [assumption|].
  exact (log_ok_rename _ _ _ _ _ (I_log _ s HI) Hin).
Qed.

(** the same for what a Load returns *)
Corollary load_returns_whole_value s0 s post t k r pre : reachable s0 s ->
  log s = post ++ EvRet t k r :: pre ->
  r = named_value s0 k \/ r = None \/
  exists w v, r = Some v /\ In (EvStore w k v) pre /\
              exists mid before, pre = mid ++ EvOpen t k :: before /\ In (EvRename w k v) before.
Proof.
  intros Hr Hlog. destruct (load_linearizable s0 s post t k r pre Hr Hlog) as (mid & before & Hpre & Hv).
  destruct (installed_cases (named_value s0) before k) as [H|[[H _]|(w & v & H & Hin)]].
  - left. congruence.
  - right; left. congruence.
  - right; right. exists w, v. split; [congruence|].
    pose proof (I_log _ s (reachable_Inv s0 s Hr)) as Hl. rewrite Hlog, Hpre in Hl.
    apply log_ok_app in Hl. cbn [log_ok] in Hl. destruct Hl as [_ Hl].
    apply log_ok_app in Hl. cbn [log_ok] in Hl.
    split.
    + rewrite Hpre. apply in_or_app. right. right. exact (log_ok_rename _ _ _ _ _ Hl Hin).
    + exists mid, before. auto.
Qed.

(** once the Stores have completed, a Load returns the value of the last rename *)
Corollary load_after_stores s0 s post t k r mid p2 w v p1 : reachable s0 s ->
  log s = post ++ EvRet t k r :: mid ++ EvOpen t k :: p2 ++ EvRename w k v :: p1 ->
  (forall k', ~ In (EvOpen t k') mid) ->
  (forall t' v', ~ In (EvRename t' k v') p2) -> (forall t', ~ In (EvUnlink t' k) p2) ->
  r = Some v.
Proof.
  intros Hr Hlog Hmid H1 H2.
  pose proof (I_log _ s (reachable_Inv s0 s Hr)) as Hl. rewrite Hlog in Hl.
  apply log_ok_app in Hl. cbn [log_ok] in Hl. destruct Hl as [Hv _].
  assert (E : value_at_open (named_value s0) (mid ++ EvOpen t k :: p2 ++ EvRename w k v :: p1) t =
              Some (k, installed (named_value s0) (p2 ++ EvRename w k v :: p1) k)).
  { clear Hv Hlog. induction mid as [|e mid IH]; cbn [app value_at_open]; [rewrite Nat.eqb_refl; reflexivity|].
    assert (IH' := IH (fun k' E => Hmid k' (or_intror E))).
    destruct e; try exact IH'. destruct (Nat.eqb_spec t0 t) as [->|Hne]; [|exact IH'].
    exfalso. apply (Hmid k0). left; reflexivity. }
  rewrite E in Hv. injection Hv; intros <-. apply installed_last_rename; assumption.
Qed.

(** a Store whose write / sync / close / rename reports an error has no effect on any key: every
    name holds what it held, the temp file is gone, the call returns an error - in any state,
    whatever the other threads do *)
Theorem failed_store_no_effect s t s' : step s (LFail t) = Some s' ->
  (forall k, named_value s' k = named_value s k) /\
  (exists k v, thr s' t = WErr k v) /\
  (forall tmp, (exists k v i off, thr s t = WOpen k v tmp i off) \/ (exists k v i, thr s t = WSynced k v tmp i) \/
               (exists k v i, thr s t = WClosed k v tmp i) -> dir s' (NTemp tmp) = None) /\
  data s' = data s /\ log s' = log s.
Proof.
  cbn [step]. intros H.
  destruct (thr s t) eqn:E; try discriminate; injection H as <-; cbn [dir thr data log];
    (split; [intros k0; unfold named_value; cbn [dir data]; unfold upd_name; cbn [name_eqb]; reflexivity|]);
    (split; [do 2 eexists; unfold upd_nat; rewrite Nat.eqb_refl; reflexivity|]);
    (split; [|split; reflexivity]);
    intros tmp0 [(k0 & v0 & i0 & o0 & H)|[(k0 & v0 & i0 & H)|(k0 & v0 & i0 & H)]]; try discriminate;
    injection H; intros; subst; unfold upd_name; cbn [name_eqb]; rewrite Nat.eqb_refl; reflexivity.
Qed.
