(** Correspondence for C11: cases written by the Go harness (inputs + what the real code
    returned) are evaluated against the model ([model_out]) and, independently of the model,
    against the boolean form of the theorems' statements ([spec_ok]). *)
From CM Require Import Lib.Str Lib.Wire Lib.SafeSteps Gen.Consts Safe.Model.
Open Scope N_scope.

Record case := Case {
  kind : N;            (* which function, see [model_out] *)
  args : list str;
  obs : str;           (* what the implementation returned *)
  aux : str            (* kind 0: Safe(obs); kinds 1-5: CertsPrefix(issuer); kinds 9-12: Safe(issuer key); else unused *)
}.

Section Run.
  Variable ltbl : list (N * N).   (* non-ASCII code point -> unicode.ToLower, as observed *)
  Variable stbl : list N.         (* non-ASCII code points with unicode.IsSpace *)
  Let lower := tbl_lower ltbl.
  Let is_space := tbl_space stbl.
  Let sf := safe lower is_space.

  Definition arg (c : case) (i : nat) : str := nth i (args c) [].
  Definition opt_arg (c : case) (i : nat) : option str :=
    match nth_error (args c) i with Some (0 :: r) => None | Some (_ :: r) => Some r | _ => None end.

  Definition model_out (c : case) : str :=
    match kind c with
    | 0 => sf (arg c 0)
    | 1 => site_cert lower is_space (arg c 0) (arg c 1)
    | 2 => site_key lower is_space (arg c 0) (arg c 1)
    | 3 => site_meta lower is_space (arg c 0) (arg c 1)
    | 4 => certs_prefix lower is_space (arg c 0)
    | 5 => certs_site_prefix lower is_space (arg c 0) (arg c 1)
    | 6 => ocsp_staple lower is_space (opt_arg c 0) (arg c 1)
    | 7 => filename (arg c 0) (arg c 1)
    | 8 => lock_filename lower is_space (arg c 0) (arg c 1)
    | 9 => user_key lower is_space (arg c 0) (arg c 1) reg_default_name ext_json
    | 10 => user_key lower is_space (arg c 0) (arg c 1) key_default_name ext_key
    | 11 => challenge_tokens_key lower is_space (arg c 0) (arg c 1)
    | 12 => user_prefix lower is_space (arg c 0) (arg c 1)
    | _ => []
    end.

  Definition mem (x : N) (s : str) : bool := existsb (N.eqb x) s.
  Definition component_ok (o : str) : bool :=
    negb (mem c_slash o) && negb (mem c_bslash o) && negb (mem c_nul o) &&
    negb (has_pair c_dot c_dot o).

  (** the statement of the theorems, evaluated on the implementation's observation *)
  Definition spec_ok (c : case) : bool :=
    let o := obs c in
    match kind c with
    | 0 => component_ok o && str_eqb (aux c) o
    | 1 | 2 | 3 | 5 =>
        good_str o && list_prefixb [prefix_certs] (kc o) && list_prefixb (kc (aux c)) (kc o)
    | 4 => good_str o && list_prefixb [prefix_certs] (kc o) && (length (kc o) <=? 2)%nat
    | 6 => good_str o && list_prefixb [prefix_ocsp] (kc o) && (length (kc o) =? 2)%nat
    | 7 => (* only demanded for keys without dot-dot components (keys from the builders) *)
        negb (good_str (arg c 0) && good_str (arg c 1)) ||
        (good_str o && list_prefixb (kc (arg c 0)) (kc o))
    | 8 => negb (good_str (arg c 0)) ||
        (good_str o && list_prefixb (kc (arg c 0) ++ [lock_dir_name]) (kc o) &&
         (length (kc o) =? length (kc (arg c 0)) + 2)%nat)
    (* aux = the implementation's Safe(issuer key): acme/<safe issuer>/users/... by whole components *)
    | 9 | 10 | 12 => good_str o && list_prefixb (prefix_acme :: kc (aux c) ++ [users_dir_name]) (kc o)
    | 11 => good_str o && list_prefixb (prefix_acme :: kc (aux c) ++ [challenge_tokens_dir_name]) (kc o) &&
            (length (kc o) =? length (kc (aux c)) + 3)%nat
    | _ => false
    end.

End Run.

(** wire: ltbl stbl kind args obs aux *)
Definition get_case : dec (list (N * N) * list N * case) :=
  (lt <- get_list (get_pair get_n get_n) ;; st <- get_list get_n ;;
   k <- get_n ;; a <- get_list get_str ;; o <- get_str ;; x <- get_str ;;
   ret (lt, st, Case k a o x))%Z.

Definition check_line (l : list Z) : Z :=
  match decode get_case l with
  | Some (lt, st, c) => code (str_eqb (model_out lt st c) (obs c)) (spec_ok c)
  | None => code_decode_error
  end.
(** diagnostics: the model's output for the line *)
Definition explain_line (l : list Z) : list Z :=
  match decode get_case l with
  | Some (lt, st, c) => put_str (model_out lt st c)
  | None => []
  end.
