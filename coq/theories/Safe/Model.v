(** Model of KeyBuilder.Safe, the key builders (storage.go), FileStorage.Filename /
    lockFilename (filestorage.go) and the account / challenge-token key helpers.
    Executable definitions only.  Constants come from Gen.Consts (regenerated from
    /repo on every run). *)
From CM Require Import Lib.Str Lib.SafeSteps Gen.Consts.

Section WithUnicode.
  (** unicode.ToLower and unicode.IsSpace are oracles (validated by the harness over all
      0x110000 code points on every run). *)
  Variable lower : N -> N.
  Variable is_space : N -> bool.

  Definition trim (s : str) : str :=
    rev (dropwhile is_space (rev (dropwhile is_space s))).

  (** strings.NewReplacer generic algorithm for non-empty keys: scan left to right, at
      each position take the first-listed pair whose key is a prefix of the remaining
      input, emit its replacement and skip the key; otherwise copy one code point. *)
  Fixpoint first_match (pairs : list (str * str)) (s : str) : option (str * nat) :=
    match pairs with
    | [] => None
    | (old, new) :: ps =>
        if has_prefix old s then Some (new, length old) else first_match ps s
    end.

  Fixpoint repl_aux (pairs : list (str * str)) (skip : nat) (s : str) : str :=
    match s with
    | [] => []
    | c :: r =>
        match skip with
        | S k => repl_aux pairs k r
        | O =>
            match first_match pairs s with
            | Some (new, n) => new ++ repl_aux pairs (pred n) r
            | None => c :: repl_aux pairs O r
            end
        end
    end.
  (** safeKeyRE = [^...] : a code point is kept iff it lies in one of the ranges *)
  Definition okc (keep : list (N * N)) (c : N) : bool :=
    existsb (fun lh => (fst lh <=? c) && (c <=? snd lh)) keep.

  Definition run_step (st : safe_step) (s : str) : str :=
    match st with
    | SLower => map lower s
    | STrim => trim s
    | SReplacer pairs => repl_aux pairs O s
    | SRegexStrip keep => filter (okc keep) s
    | SReplaceAll old new => repl_aux [(old, new)] O s
    end.

  (** Safe = the statement sequence read from the source, interpreted in order *)
  Definition run_steps (steps : list safe_step) (s : str) : str :=
    fold_left (fun acc st => run_step st acc) steps s.
  Definition safe (s : str) : str := run_steps safe_steps s.
End WithUnicode.

(** ASCII-only instance used for executable cases whose inputs are ASCII, and a
    table-driven instance for inputs containing the non-ASCII code points the
    harness reports (lower/space tables are emitted next to the cases). *)
Definition tbl_lower (tbl : list (N * N)) (c : N) : N :=
  if c <? 128 then ascii_lower c else
  match find (fun p => fst p =? c) tbl with Some p => snd p | None => c end.
Definition tbl_space (tbl : list N) (c : N) : bool :=
  if c <? 128 then ascii_space c else existsb (N.eqb c) tbl.

(** ---- path.Join / path.Clean at component level ---- *)
Definition is_empty (s : str) : bool := match s with [] => true | _ => false end.
Definition s_dot : str := [c_dot].
Definition s_dotdot : str := [c_dot; c_dot].

Definition clean_step (rooted : bool) (st : list str) (c : str) : list str :=
  if is_empty c || str_eqb c s_dot then st
  else if str_eqb c s_dotdot then
    match st with
    | top :: r => if str_eqb top s_dotdot then c :: st else r
    | [] => if rooted then [] else [c]
    end
  else c :: st.

(** stack is kept reversed *)
Definition clean_comps (rooted : bool) (cs : list str) : list str :=
  rev (fold_left (clean_step rooted) cs []).

Definition is_rooted (s : str) : bool :=
  match s with c :: _ => c =? c_slash | [] => false end.

Definition join_comps (elems : list str) : bool * list str :=
  let nz := filter (fun e => negb (is_empty e)) elems in
  let rooted := match nz with e :: _ => is_rooted e | [] => false end in
  (rooted, clean_comps rooted (flat_map (split_on c_slash) nz)).

Definition render (rooted : bool) (cs : list str) : str :=
  if rooted then c_slash :: join_with c_slash cs
  else match cs with [] => s_dot | _ => join_with c_slash cs end.

(** path.Join: "" when every element is empty *)
Definition path_join (elems : list str) : str :=
  match filter (fun e => negb (is_empty e)) elems with
  | [] => []
  | _ => let rc := join_comps elems in render (fst rc) (snd rc)
  end.

Section Keys.
  Variable lower : N -> N.
  Variable is_space : N -> bool.
  Let sf := safe lower is_space.

  Definition certs_prefix (issuer : str) : str := path_join [prefix_certs; sf issuer].
  Definition certs_site_prefix (issuer domain : str) : str :=
    path_join [certs_prefix issuer; sf domain].
  Definition site_asset (ext : str) (issuer domain : str) : str :=
    path_join [certs_site_prefix issuer domain; sf domain ++ ext].
  Definition ext_crt : str := [46; 99; 114; 116].
  Definition ext_key : str := [46; 107; 101; 121].
  Definition ext_json : str := [46; 106; 115; 111; 110].
  Definition site_cert := site_asset ext_crt.
  Definition site_key := site_asset ext_key.
  Definition site_meta := site_asset ext_json.
  (** OCSPStaple: names[0] sanitized ++ "-" ++ hash (hash is hex: harness passes it) *)
  Definition ocsp_staple (first_name : option str) (hash : str) : str :=
    path_join [prefix_ocsp;
               match first_name with Some n => sf n ++ [45] | None => [] end ++ hash].
  (** FileStorage.Filename / lockFilename (Linux: filepath = path) *)
  Definition filename (root key : str) : str := path_join [root; key].
  Definition lock_filename (root name : str) : str :=
    path_join [path_join [root; lock_dir_name]; sf name ++ lock_suffix].
  (** account.go: storageKeyUserPrefix / storageSafeUserKey; [ik] is the issuer key string
      (am.issuerKey(ca), computed by url.Parse in the code: an oracle, passed in) *)
  Definition ca_prefix (ik : str) : str := path_join [prefix_acme; sf ik].
  Definition users_prefix (ik : str) : str := path_join [ca_prefix ik; users_dir_name].
  Definition or_default_email (email : str) : str :=
    if is_empty email then empty_email else email.
  Definition user_prefix (ik email : str) : str :=
    path_join [users_prefix ik; sf (or_default_email email)].
  Fixpoint before_at (s : str) : option str :=   (* Some prefix before first '@' *)
    match s with
    | [] => None
    | c :: r => if c =? 64 then Some [] else option_map (cons c) (before_at r)
    end.
  Definition email_username (email : str) : str :=
    match email with
    | c :: r => if c =? 64 then r else
                  match before_at email with Some u => u | None => email end
    | [] => []
    end.
  Definition user_key (ik email default_filename ext : str) : str :=
    let email := map lower (or_default_email email) in
    let fnm := email_username email in
    let fnm := if is_empty fnm then default_filename else fnm in
    path_join [user_prefix ik email; sf fnm ++ ext].
  (** solvers.go: distributedSolver.challengeTokensKey *)
  Definition challenge_tokens_key (ik domain : str) : str :=
    path_join [path_join [ca_prefix ik; challenge_tokens_dir_name]; sf domain ++ ext_json].
End Keys.

(** ---- vocabulary of the key-namespace statements (used by the theorems and by spec_ok) ---- *)
Definition keepc (c : str) : bool := negb (is_empty c || str_eqb c s_dot).
(** canonical components of a path string *)
Definition kc (s : str) : list str := filter keepc (split_on c_slash s).
Definition notdd (c : str) : bool := negb (str_eqb c s_dotdot).
Definition good_str (s : str) : bool := forallb notdd (split_on c_slash s).
Definition noslash (s : str) : Prop := ~ In c_slash s.
Definition has_nondot (s : str) : bool := existsb (fun c => negb (c =? c_dot)) s.
