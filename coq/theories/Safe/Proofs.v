(** Proofs about the Safe model.  The statement sequence [safe_steps] and all constants
    are whatever the translator read from /repo; the obligations below marked
    "re-checked on the regenerated constants" fail to compile when the source no
    longer has the shape / values the proofs need. *)
From CM Require Import Lib.Str Lib.SafeSteps Gen.Consts Safe.Model.

(** * Shape of the regenerated statement sequence *)
Definition pairs_of (steps : list safe_step) : list (str * str) :=
  match steps with [_; _; SReplacer p; _; _] => p | _ => [] end.
Definition keep_of (steps : list safe_step) : list (N * N) :=
  match steps with [_; _; _; SRegexStrip k; _] => k | _ => [] end.
Definition PAIRS := pairs_of safe_steps.
Definition KEEP := keep_of safe_steps.

(* re-checked on the regenerated constants *)
Lemma safe_steps_shape :
  safe_steps = [SLower; STrim; SReplacer PAIRS; SRegexStrip KEEP; SReplaceAll s_dotdot []].
Proof. reflexivity. Qed.

Definition outc (c : N) : bool := okc KEEP c && negb (is_upper_ascii c).

Definition pair_ok (p : str * str) : bool :=
  negb (is_empty (fst p)) &&
  (str_eqb (fst p) s_dotdot || existsb (fun c => negb (outc c)) (fst p)) &&
  forallb (fun c => negb (is_upper_ascii c)) (snd p).

Fixpoint upto (n : nat) : list N :=
  match n with O => [] | S k => upto k ++ [N.of_nat k] end.

Lemma upto_in n c : (c < N.of_nat n) -> In c (upto n).
Proof.
  induction n as [|n IH]; intros H; [lia|].
  cbn [upto]. apply in_or_app.
  destruct (N.eq_dec c (N.of_nat n)) as [->|Hne]; [right; left; reflexivity|].
  left; apply IH; lia.
Qed.

(* re-checked on the regenerated constants *)
Lemma consts_ok :
  okc KEEP c_slash = false /\ okc KEEP c_bslash = false /\ okc KEEP c_nul = false /\
  forallb (fun lh => snd lh <? 128) KEEP = true /\
  forallb (fun c => negb (okc KEEP c && ascii_space c)) (upto 128) = true /\
  forallb pair_ok PAIRS = true.
Proof. vm_compute. repeat split; reflexivity. Qed.

Lemma okc_ascii c : okc KEEP c = true -> c < 128.
Proof.
  destruct consts_ok as (_ & _ & _ & Hr & _).
  unfold okc. rewrite existsb_exists. intros [lh [Hin Hc]].
  rewrite forallb_forall in Hr. specialize (Hr _ Hin).
  apply N.ltb_lt in Hr. apply andb_true_iff in Hc. destruct Hc as [_ Hc]. apply N.leb_le in Hc. lia.
Qed.

Lemma okc_not_space c : okc KEEP c = true -> ascii_space c = false.
Proof.
  intros H. destruct consts_ok as (_ & _ & _ & _ & Hs & _).
  rewrite forallb_forall in Hs.
  specialize (Hs c (upto_in 128 c ltac:(apply okc_ascii in H; cbn; lia))).
  rewrite H in Hs. destruct (ascii_space c); [discriminate|reflexivity].
Qed.

(** * Removing dot-dot *)
Definition DD : list (str * str) := [(s_dotdot, [])].
Definition dedot (s : str) : str := repl_aux DD O s.

Lemma dedot_nondot c r : c <> c_dot -> dedot (c :: r) = c :: dedot r.
Proof.
  intros Hc. unfold dedot, DD. cbn [repl_aux first_match]. unfold has_prefix, s_dotdot.
  cbn [strip_prefix length].
  destruct (N.eqb_spec c_dot c) as [E|_]; [congruence|]. reflexivity.
Qed.

Lemma dedot_dotdot r : dedot (c_dot :: c_dot :: r) = dedot r.
Proof. reflexivity. Qed.

Lemma dedot_dot_nondot c r : c <> c_dot -> dedot (c_dot :: c :: r) = c_dot :: c :: dedot r.
Proof.
  intros Hc. unfold dedot, DD.
  cbn [repl_aux first_match]. unfold has_prefix, s_dotdot. cbn [strip_prefix length].
  rewrite N.eqb_refl. destruct (N.eqb_spec c_dot c) as [E|_]; [congruence|].
  reflexivity.
Qed.

Lemma dedot_single : dedot [c_dot] = [c_dot].
Proof. reflexivity. Qed.

Lemma has_pair_cons_nondot c s : c <> c_dot -> has_pair c_dot c_dot (c :: s) = has_pair c_dot c_dot s.
Proof.
  intros Hc. destruct s as [|y r]; [reflexivity|].
  cbn [has_pair]. destruct (N.eqb_spec c c_dot); [congruence|]. reflexivity.
Qed.

Lemma dedot_facts n : forall s, (length s <= n)%nat ->
  has_pair c_dot c_dot (dedot s) = false /\ (forall c, In c (dedot s) -> In c s).
Proof.
  induction n as [|n IH]; intros s Hl.
  - destruct s; [|cbn in Hl; lia]. split; [reflexivity|intros c []].
  - destruct s as [|a r]; [split; [reflexivity|intros c []]|].
    destruct (N.eq_dec a c_dot) as [->|Ha].
    + destruct r as [|b r'].
      * split; [reflexivity|]. intros c H; exact H.
      * destruct (N.eq_dec b c_dot) as [->|Hb].
        -- rewrite dedot_dotdot. destruct (IH r' ltac:(cbn in Hl; lia)) as [H1 H2].
           split; [exact H1|]. intros c Hc. right; right; auto.
        -- rewrite dedot_dot_nondot by assumption.
           destruct (IH r' ltac:(cbn in Hl; lia)) as [H1 H2]. split.
           ++ change (has_pair c_dot c_dot (c_dot :: b :: dedot r'))
                with ((N.eqb c_dot c_dot && N.eqb b c_dot) || has_pair c_dot c_dot (b :: dedot r')).
              destruct (N.eqb_spec b c_dot); [congruence|].
              rewrite andb_false_r. cbn [orb]. rewrite has_pair_cons_nondot; assumption.
           ++ intros c [<-|[<-|Hc]]; [left; reflexivity|right; left; reflexivity|right; right; auto].
    + rewrite dedot_nondot by assumption.
      destruct (IH r ltac:(cbn in Hl; lia)) as [H1 H2]. split.
      * rewrite has_pair_cons_nondot; assumption.
      * intros c [<-|Hc]; [left; reflexivity|right; auto].
Qed.

Lemma dedot_no_dotdot s : has_pair c_dot c_dot (dedot s) = false.
Proof. exact (proj1 (dedot_facts (length s) s (le_n _))). Qed.
Lemma dedot_subset s c : In c (dedot s) -> In c s.
Proof. exact (proj2 (dedot_facts (length s) s (le_n _)) c). Qed.

(** * Where output code points come from *)
Lemma first_match_in pairs s new n :
  first_match pairs s = Some (new, n) -> exists old, In (old, new) pairs /\ n = length old /\ has_prefix old s = true.
Proof.
  induction pairs as [|[o nw] ps IH]; cbn; [discriminate|].
  destruct (has_prefix o s) eqn:E.
  - intros H; injection H; intros <- <-. exists o; auto.
  - intros H. destruct (IH H) as [old [Hin Hr]]. exists old; auto.
Qed.

Lemma repl_aux_from pairs : forall s k c, In c (repl_aux pairs k s) ->
  In c s \/ exists p, In p pairs /\ In c (snd p).
Proof.
  induction s as [|a r IH]; intros k c; cbn [repl_aux]; [intros []|].
  destruct k as [|k].
  - destruct (first_match pairs (a :: r)) as [[new n]|] eqn:E.
    + intros H. apply in_app_or in H. destruct H as [H|H].
      * right. apply first_match_in in E. destruct E as [old [Hin _]].
        exists (old, new); auto.
      * destruct (IH _ _ H) as [H'|H']; [left; right; exact H'|right; exact H'].
    + intros [<-|H]; [left; left; reflexivity|].
      destruct (IH _ _ H) as [H'|H']; [left; right; exact H'|right; exact H'].
  - intros H. destruct (IH _ _ H) as [H'|H']; [left; right; exact H'|right; exact H'].
Qed.

(** * A clean string is a fixed point of every step *)
Lemma has_prefix_all old s : has_prefix old s = true -> forall c, In c old -> In c s.
Proof.
  unfold has_prefix. destruct (strip_prefix old s) as [r|] eqn:E; [|discriminate].
  apply strip_prefix_spec in E. subst s. intros _ c Hc. apply in_or_app; auto.
Qed.

Lemma has_prefix_dotdot s : has_prefix s_dotdot s = true -> has_pair c_dot c_dot s = true.
Proof.
  unfold has_prefix. destruct (strip_prefix s_dotdot s) as [r|] eqn:E; [|discriminate].
  apply strip_prefix_spec in E. subst s. intros _. cbn. reflexivity.
Qed.

Lemma has_pair_tail a b c s : has_pair a b (c :: s) = false -> has_pair a b s = false.
Proof.
  destruct s as [|y r]; [reflexivity|]. cbn [has_pair]. intros H.
  apply orb_false_iff in H. exact (proj2 H).
Qed.

Lemma repl_aux_id pairs : forallb pair_ok pairs = true ->
  forall s, Forall (fun c => outc c = true) s -> has_pair c_dot c_dot s = false ->
  repl_aux pairs O s = s.
Proof.
  intros Hp. induction s as [|a r IH]; intros Hall Hdd; [reflexivity|].
  cbn [repl_aux].
  destruct (first_match pairs (a :: r)) as [[new n]|] eqn:E.
  - exfalso. apply first_match_in in E. destruct E as [old [Hin [_ Hpre]]].
    rewrite forallb_forall in Hp. specialize (Hp _ Hin). unfold pair_ok in Hp. cbn [fst snd] in Hp.
    apply andb_true_iff in Hp. destruct Hp as [Hp _].
    apply andb_true_iff in Hp. destruct Hp as [_ Hp].
    apply orb_true_iff in Hp. destruct Hp as [Hp|Hp].
    + apply str_eqb_eq in Hp. subst old. apply has_prefix_dotdot in Hpre. congruence.
    + apply existsb_exists in Hp. destruct Hp as [c [Hc Hbad]].
      pose proof (has_prefix_all _ _ Hpre c Hc) as Hin'.
      rewrite Forall_forall in Hall. specialize (Hall _ Hin'). rewrite Hall in Hbad. discriminate.
  - f_equal. apply IH; [inversion Hall; assumption|eapply has_pair_tail; eassumption].
Qed.

Lemma filter_id {A} (p : A -> bool) l : Forall (fun x => p x = true) l -> filter p l = l.
Proof. induction 1 as [|x l Hx _ IH]; cbn; [reflexivity|]. rewrite Hx, IH. reflexivity. Qed.

Lemma dropwhile_none {A} (p : A -> bool) l : Forall (fun x => p x = false) l -> dropwhile p l = l.
Proof. destruct 1 as [|x l Hx _]; cbn; [reflexivity|]. rewrite Hx. reflexivity. Qed.

Section WithUnicode.
  Variable lower : N -> N.
  Variable is_space : N -> bool.
  (** Oracle hypotheses, validated by the harness over all 0x110000 code points on every run. *)
  Hypothesis H1 : forall c, c < 128 -> lower c = ascii_lower c.
  Hypothesis H2 : forall c, is_upper_ascii (lower c) = false.
  Hypothesis Hs : forall c, c < 128 -> is_space c = ascii_space c.

  Notation safe := (safe lower is_space).

  Lemma safe_unfold s :
    safe s = dedot (filter (okc KEEP) (repl_aux PAIRS O (trim is_space (map lower s)))).
  Proof. unfold safe, run_steps. rewrite safe_steps_shape. reflexivity. Qed.

  Lemma trim_subset s c : In c (trim is_space s) -> In c s.
  Proof.
    assert (Hd : forall l : str, forall x, In x (dropwhile is_space l) -> In x l).
    { induction l as [|y l IH]; cbn; [auto|]. destruct (is_space y); [intros x Hx; right; auto|auto]. }
    unfold trim. intros H. apply in_rev in H. apply Hd in H. apply in_rev in H. apply Hd in H. exact H.
  Qed.

  Theorem safe_alphabet s : Forall (fun c => outc c = true) (safe s).
  Proof.
    rewrite safe_unfold. apply Forall_forall. intros c Hc.
    apply dedot_subset in Hc. apply filter_In in Hc. destruct Hc as [Hc Hok].
    unfold outc. rewrite Hok. cbn [andb].
    apply repl_aux_from in Hc. destruct Hc as [Hc|[p [Hp Hc]]].
    - apply trim_subset in Hc. apply in_map_iff in Hc. destruct Hc as [x [<- _]].
      rewrite H2. reflexivity.
    - destruct consts_ok as (_ & _ & _ & _ & _ & Hpairs).
      rewrite forallb_forall in Hpairs. specialize (Hpairs _ Hp).
      unfold pair_ok in Hpairs. apply andb_true_iff in Hpairs. destruct Hpairs as [_ Hn].
      rewrite forallb_forall in Hn. exact (Hn _ Hc).
  Qed.

  Theorem safe_no_dotdot s : has_pair c_dot c_dot (safe s) = false.
  Proof. rewrite safe_unfold. apply dedot_no_dotdot. Qed.

  Lemma outc_okc c : outc c = true -> okc KEEP c = true.
  Proof. unfold outc. intros H. apply andb_true_iff in H. tauto. Qed.

  Theorem safe_no_separator s :
    ~ In c_slash (safe s) /\ ~ In c_bslash (safe s) /\ ~ In c_nul (safe s).
  Proof.
    pose proof (safe_alphabet s) as Ha. rewrite Forall_forall in Ha.
    destruct consts_ok as (K1 & K2 & K3 & _).
    repeat split; intros Hin; apply Ha, outc_okc in Hin; congruence.
  Qed.

  (** every clean string is a fixed point *)
  Theorem safe_fixed_on_clean o :
    Forall (fun c => outc c = true) o -> has_pair c_dot c_dot o = false -> safe o = o.
  Proof.
    intros Ha Hdd. rewrite safe_unfold.
    assert (Hl : map lower o = o).
    { clear Hdd. induction Ha as [|c l Hc _ IH]; cbn; [reflexivity|]. rewrite IH. f_equal.
      rewrite H1 by (apply okc_ascii, outc_okc; exact Hc).
      unfold ascii_lower. unfold outc in Hc. apply andb_true_iff in Hc.
      destruct (is_upper_ascii c); [destruct Hc; discriminate|reflexivity]. }
    assert (Hns : Forall (fun c => is_space c = false) o).
    { eapply Forall_impl; [|exact Ha]. intros c Hc. cbn beta.
      rewrite Hs by (apply okc_ascii, outc_okc; exact Hc). apply okc_not_space, outc_okc; exact Hc. }
    assert (Ht : trim is_space o = o).
    { unfold trim. rewrite (dropwhile_none _ o Hns).
      rewrite dropwhile_none by (apply Forall_rev; exact Hns). apply rev_involutive. }
    rewrite Hl, Ht.
    destruct consts_ok as (_ & _ & _ & _ & _ & Hpairs).
    rewrite (repl_aux_id PAIRS Hpairs o Ha Hdd).
    rewrite filter_id by (eapply Forall_impl; [|exact Ha]; intros c; apply outc_okc).
    unfold dedot. apply repl_aux_id; [|assumption|assumption].
    (* DD satisfies pair_ok *) reflexivity.
  Qed.

  Theorem safe_idempotent s : safe (safe s) = safe s.
  Proof. apply safe_fixed_on_clean; [apply safe_alphabet|apply safe_no_dotdot]. Qed.
End WithUnicode.
