(** path.Join at component level and the key builders: every key stays in its namespace. *)
From CM Require Import Lib.Str Lib.SafeSteps Gen.Consts Safe.Model Safe.Proofs.


Lemma fold_clean_nodd rooted : forall cs st, forallb notdd cs = true ->
  fold_left (clean_step rooted) cs st = rev (filter keepc cs) ++ st.
Proof.
  induction cs as [|c cs IH]; intros st H; [reflexivity|].
  cbn [forallb] in H. apply andb_true_iff in H. destruct H as [Hc H].
  cbn [fold_left filter]. rewrite IH by assumption.
  unfold clean_step, keepc. destruct (is_empty c || str_eqb c s_dot) eqn:E; cbn [negb].
  - reflexivity.
  - unfold notdd in Hc. destruct (str_eqb c s_dotdot); [discriminate|].
    cbn [rev]. rewrite <- app_assoc. reflexivity.
Qed.

Lemma clean_comps_nodd rooted cs : forallb notdd cs = true -> clean_comps rooted cs = filter keepc cs.
Proof.
  intros H. unfold clean_comps. rewrite fold_clean_nodd by assumption.
  rewrite app_nil_r. apply rev_involutive.
Qed.

Lemma filter_flat_map {A B} (p : B -> bool) (f : A -> list B) l :
  filter p (flat_map f l) = flat_map (fun x => filter p (f x)) l.
Proof. induction l as [|x l IH]; cbn; [reflexivity|]. rewrite filter_app, IH. reflexivity. Qed.

Lemma forallb_flat_map {A B} (p : B -> bool) (f : A -> list B) l :
  forallb p (flat_map f l) = forallb (fun x => forallb p (f x)) l.
Proof. induction l as [|x l IH]; cbn; [reflexivity|]. rewrite forallb_app, IH. reflexivity. Qed.

Lemma split_on_nonnil sep s : split_on sep s <> [].
Proof. induction s as [|c r IH]; cbn; [discriminate|]. destruct (N.eqb c sep); [discriminate|].
  destruct (split_on sep r); [congruence|discriminate]. Qed.

Lemma split_noslash s : noslash s -> split_on c_slash s = [s].
Proof.
  unfold noslash. induction s as [|c r IH]; intros H; [reflexivity|].
  cbn [split_on]. destruct (N.eqb_spec c c_slash) as [->|_]; [exfalso; apply H; left; reflexivity|].
  rewrite IH by (intros Hr; apply H; right; exact Hr). reflexivity.
Qed.

Lemma split_comps_noslash s : Forall noslash (split_on c_slash s).
Proof.
  induction s as [|c r IH]; cbn [split_on]; [constructor; [intros []|constructor]|].
  destruct (N.eqb_spec c c_slash) as [->|Hne].
  - constructor; [intros []|exact IH].
  - destruct (split_on c_slash r) as [|f fs] eqn:E; [exfalso; eapply split_on_nonnil; eassumption|].
    inversion IH as [|? ? Hf Hfs]; subst. constructor; [|exact Hfs].
    intros [H|H]; [congruence|exact (Hf H)].
Qed.

Lemma split_app_slash a b : noslash a ->
  split_on c_slash (a ++ c_slash :: b) = a :: split_on c_slash b.
Proof.
  unfold noslash. induction a as [|c r IH]; intros H; cbn [app split_on].
  - rewrite N.eqb_refl. reflexivity.
  - destruct (N.eqb_spec c c_slash) as [->|_]; [exfalso; apply H; left; reflexivity|].
    rewrite IH by (intros Hr; apply H; right; exact Hr). reflexivity.
Qed.

Lemma split_join cs : cs <> [] -> Forall noslash cs -> split_on c_slash (join_with c_slash cs) = cs.
Proof.
  induction cs as [|c cs IH]; intros Hne Hall; [congruence|].
  inversion Hall as [|? ? Hc Hcs]; subst.
  destruct cs as [|d cs'].
  - cbn [join_with]. apply split_noslash; exact Hc.
  - change (join_with c_slash (c :: d :: cs')) with (c ++ c_slash :: join_with c_slash (d :: cs')).
    rewrite split_app_slash by exact Hc. rewrite IH; [reflexivity|discriminate|exact Hcs].
Qed.

Lemma split_render rooted cs : Forall noslash cs ->
  exists pre, split_on c_slash (render rooted cs) = pre ++ cs /\
              forallb (fun c => is_empty c || str_eqb c s_dot) pre = true.
Proof.
  intros Hall. unfold render. destruct rooted.
  - cbn [split_on]. rewrite N.eqb_refl. destruct cs as [|c cs'].
    + exists [[]; []]. split; reflexivity.
    + exists [[]]. rewrite split_join by (discriminate || assumption). split; reflexivity.
  - destruct cs as [|c cs'].
    + exists [s_dot]. split; reflexivity.
    + exists []. rewrite split_join by (discriminate || assumption). split; reflexivity.
Qed.

Lemma filter_filter_same {A} (p : A -> bool) l : filter p (filter p l) = filter p l.
Proof. induction l as [|x l IH]; cbn; [reflexivity|]. destruct (p x) eqn:E; cbn; [rewrite E, IH|]; auto. Qed.

Lemma filter_none {A} (p : A -> bool) l : forallb (fun x => negb (p x)) l = true -> filter p l = [].
Proof. induction l as [|x l IH]; cbn; [reflexivity|]. intros H. apply andb_true_iff in H.
  destruct H as [Hx H]. destruct (p x); [discriminate|auto]. Qed.

Lemma kc_empty_elems elems :
  filter (fun e => negb (is_empty e)) elems = [] -> flat_map kc elems = [].
Proof.
  induction elems as [|e es IH]; cbn; [reflexivity|].
  destruct e; cbn; [exact IH|discriminate].
Qed.

Lemma flat_map_kc_filter elems :
  flat_map kc (filter (fun e => negb (is_empty e)) elems) = flat_map kc elems.
Proof.
  induction elems as [|e es IH]; cbn; [reflexivity|].
  destruct e; cbn; [exact IH|]. rewrite IH. reflexivity.
Qed.

Lemma forallb_filter_good elems :
  forallb good_str elems = true -> forallb good_str (filter (fun e => negb (is_empty e)) elems) = true.
Proof.
  induction elems as [|e es IH]; cbn; [reflexivity|]. intros H. apply andb_true_iff in H.
  destruct H as [He H]. destruct (negb (is_empty e)); cbn; [rewrite He|]; auto.
Qed.

(** path.Join is a homomorphism on canonical components as long as no element has a
    dot-dot component; and its result has none either. *)
Theorem kc_path_join elems : forallb good_str elems = true ->
  kc (path_join elems) = flat_map kc elems /\ good_str (path_join elems) = true.
Proof.
  intros Hgood. unfold path_join.
  destruct (filter (fun e => negb (is_empty e)) elems) as [|e0 nz'] eqn:Enz.
  - rewrite kc_empty_elems by assumption. split; reflexivity.
  - unfold join_comps. rewrite Enz. cbn [fst snd].
    set (nz := e0 :: nz') in *.
    assert (Hnz : forallb good_str nz = true) by (rewrite <- Enz; apply forallb_filter_good; exact Hgood).
    assert (Hdd : forallb notdd (flat_map (split_on c_slash) nz) = true).
    { rewrite forallb_flat_map. exact Hnz. }
    rewrite clean_comps_nodd by exact Hdd.
    set (cs := filter keepc (flat_map (split_on c_slash) nz)).
    assert (Hns : Forall noslash cs).
    { apply Forall_forall. intros c Hc. apply filter_In in Hc. destruct Hc as [Hc _].
      apply in_flat_map in Hc. destruct Hc as [x [_ Hc]].
      pose proof (split_comps_noslash x) as Hx. rewrite Forall_forall in Hx. exact (Hx _ Hc). }
    match goal with |- context [render ?b cs] => destruct (split_render b cs Hns) as [pre [Hsp Hpre]] end.
    split.
    + unfold kc. rewrite Hsp, filter_app.
      rewrite (filter_none keepc pre).
      2:{ unfold keepc. rewrite forallb_forall in Hpre |- *. intros x Hx. rewrite negb_involutive. exact (Hpre _ Hx). }
      cbn [app]. unfold cs. rewrite filter_filter_same. 
      rewrite filter_flat_map. rewrite <- Enz. apply flat_map_kc_filter.
    + unfold good_str. rewrite Hsp, forallb_app. apply andb_true_iff. split.
      * rewrite forallb_forall in Hpre |- *. intros x Hx. specialize (Hpre _ Hx).
        unfold notdd. destruct (str_eqb x s_dotdot) eqn:E; [|reflexivity].
        apply str_eqb_eq in E. subst x. discriminate.
      * unfold cs. rewrite forallb_forall in Hdd |- *. intros x Hx. apply filter_In in Hx. apply Hdd. tauto.
Qed.

(** * Key builders *)

Lemma nondot_not_special s : has_nondot s = true ->
  is_empty s = false /\ str_eqb s s_dot = false /\ str_eqb s s_dotdot = false.
Proof.
  intros H. unfold has_nondot in H. apply existsb_exists in H. destruct H as [c [Hin Hc]].
  assert (Hne : c <> c_dot) by (intros ->; discriminate).
  repeat split.
  - destruct s; [destruct Hin|reflexivity].
  - destruct (str_eqb s s_dot) eqn:E; [|reflexivity]. apply str_eqb_eq in E. subst s.
    destruct Hin as [<-|[]]. congruence.
  - destruct (str_eqb s s_dotdot) eqn:E; [|reflexivity]. apply str_eqb_eq in E. subst s.
    destruct Hin as [<-|[<-|[]]]; congruence.
Qed.

Lemma has_nondot_app_r a b : has_nondot b = true -> has_nondot (a ++ b) = true.
Proof. unfold has_nondot. rewrite existsb_app. intros ->. apply orb_true_r. Qed.

Lemma noslash_app a b : noslash a -> noslash b -> noslash (a ++ b).
Proof. unfold noslash. intros Ha Hb H. apply in_app_or in H. tauto. Qed.

(** a single component that is not dot-dot *)
Lemma single_good s : noslash s -> str_eqb s s_dotdot = false -> good_str s = true.
Proof. intros Hn Hd. unfold good_str. rewrite split_noslash by assumption. cbn. unfold notdd. rewrite Hd. reflexivity. Qed.

Lemma single_kc_nondot s : noslash s -> has_nondot s = true -> kc s = [s] /\ good_str s = true.
Proof.
  intros Hn Hd. destruct (nondot_not_special s Hd) as (He & Hdot & Hdd). split.
  - unfold kc. rewrite split_noslash by assumption. cbn. unfold keepc. rewrite He, Hdot. reflexivity.
  - apply single_good; assumption.
Qed.

Lemma single_kc s : noslash s -> kc s = [s] \/ kc s = [].
Proof. intros Hn. unfold kc. rewrite split_noslash by assumption. cbn. destruct (keepc s); auto. Qed.

(* re-checked on the regenerated constants *)
Lemma name_consts_ok :
  forallb (fun s => negb (existsb (N.eqb c_slash) s) && has_nondot s)
    [prefix_certs; prefix_ocsp; prefix_acme; lock_dir_name; lock_suffix; users_dir_name;
     challenge_tokens_dir_name; ext_crt; ext_key; ext_json] = true.
Proof. vm_compute. reflexivity. Qed.

Lemma const_facts s :
  In s [prefix_certs; prefix_ocsp; prefix_acme; lock_dir_name; lock_suffix; users_dir_name;
        challenge_tokens_dir_name; ext_crt; ext_key; ext_json] ->
  noslash s /\ has_nondot s = true.
Proof.
  intros Hin. pose proof name_consts_ok as H. rewrite forallb_forall in H. specialize (H _ Hin).
  apply andb_true_iff in H. destruct H as [H1 H2]. split; [|exact H2].
  intros Hs. apply negb_true_iff in H1. assert (existsb (N.eqb c_slash) s = true); [|congruence].
  apply existsb_exists. exists c_slash. split; [exact Hs|apply N.eqb_refl].
Qed.

Ltac cfact s := let H := fresh in
  assert (H : noslash s /\ has_nondot s = true) by (apply const_facts; cbn; tauto);
  destruct H.

Section WithUnicode.
  Variable lower : N -> N.
  Variable is_space : N -> bool.
  Hypothesis H1 : forall c, c < 128 -> lower c = ascii_lower c.
  Hypothesis H2 : forall c, is_upper_ascii (lower c) = false.
  Hypothesis Hs : forall c, c < 128 -> is_space c = ascii_space c.
  Notation sf := (safe lower is_space).

  Lemma sf_noslash x : noslash (sf x).
  Proof. exact (proj1 (safe_no_separator lower is_space H2 x)). Qed.

  Lemma sf_not_dotdot x : str_eqb (sf x) s_dotdot = false.
  Proof.
    destruct (str_eqb (sf x) s_dotdot) eqn:E; [|reflexivity]. apply str_eqb_eq in E.
    pose proof (safe_no_dotdot lower is_space x) as Hd. rewrite E in Hd. discriminate.
  Qed.

  Lemma sf_good x : good_str (sf x) = true.
  Proof. apply single_good; [apply sf_noslash|apply sf_not_dotdot]. Qed.

  Lemma sf_ext x e : noslash e -> has_nondot e = true ->
    kc (sf x ++ e) = [sf x ++ e] /\ good_str (sf x ++ e) = true.
  Proof. intros. apply single_kc_nondot; [apply noslash_app; [apply sf_noslash|assumption]|apply has_nondot_app_r; assumption]. Qed.

  (** certificates/<issuer>/<domain>/<domain>.<ext> *)
  Theorem certs_prefix_ns i :
    kc (certs_prefix lower is_space i) = prefix_certs :: kc (sf i) /\
    good_str (certs_prefix lower is_space i) = true.
  Proof.
    cfact prefix_certs. unfold certs_prefix.
    destruct (single_kc_nondot prefix_certs) as [Hk Hg]; [assumption..|].
    destruct (kc_path_join [prefix_certs; sf i]) as [Hkc Hgood].
    { cbn [forallb]. rewrite Hg, sf_good. reflexivity. }
    split; [|exact Hgood]. rewrite Hkc. cbn [flat_map]. rewrite Hk, app_nil_r. reflexivity.
  Qed.

  Theorem site_asset_ns ext i d : noslash ext -> has_nondot ext = true ->
    kc (site_asset lower is_space ext i d) =
      kc (certs_prefix lower is_space i) ++ kc (sf d) ++ [sf d ++ ext] /\
    good_str (site_asset lower is_space ext i d) = true.
  Proof.
    intros He Hd. destruct (certs_prefix_ns i) as [Hp Hpg].
    destruct (kc_path_join [certs_prefix lower is_space i; sf d]) as [Hk1 Hg1].
    { cbn [forallb]. rewrite Hpg, sf_good. reflexivity. }
    destruct (sf_ext d ext He Hd) as [Hk2 Hg2].
    destruct (kc_path_join [certs_site_prefix lower is_space i d; sf d ++ ext]) as [Hk Hg].
    { cbn [forallb]. unfold certs_site_prefix. rewrite Hg1, Hg2. reflexivity. }
    unfold site_asset. split; [|exact Hg]. rewrite Hk. cbn [flat_map].
    unfold certs_site_prefix at 1. rewrite Hk1. cbn [flat_map]. rewrite Hk2, !app_nil_r, <- app_assoc.
    reflexivity.
  Qed.

  (** every certificate asset key lies under certificates/<safe issuer>/ by whole components *)
  Corollary site_keys_in_namespace i d :
    forall k, In k [site_cert lower is_space i d; site_key lower is_space i d; site_meta lower is_space i d] ->
    exists rest, kc k = prefix_certs :: kc (sf i) ++ rest /\ good_str k = true.
  Proof.
    intros k Hk. cfact ext_crt. cfact ext_key. cfact ext_json.
    assert (Hgen : forall ext, noslash ext -> has_nondot ext = true ->
      exists rest, kc (site_asset lower is_space ext i d) = prefix_certs :: kc (sf i) ++ rest /\
                   good_str (site_asset lower is_space ext i d) = true).
    { intros ext He Hd. destruct (site_asset_ns ext i d He Hd) as [Hk' Hg].
      destruct (certs_prefix_ns i) as [Hp _]. rewrite Hp in Hk'.
      eexists. split; [rewrite Hk'; cbn [app]; reflexivity|exact Hg]. }
    destruct Hk as [<-|[<-|[<-|[]]]]; apply Hgen; assumption.
  Qed.

  (** ocsp/<first name>-<hash> *)
  Theorem ocsp_staple_ns first hash : noslash hash -> has_nondot hash = true ->
    exists f, kc (ocsp_staple lower is_space first hash) = [prefix_ocsp; f] /\
              good_str (ocsp_staple lower is_space first hash) = true.
  Proof.
    intros Hh Hd. cfact prefix_ocsp.
    destruct (single_kc_nondot prefix_ocsp) as [Hk Hg]; [assumption..|].
    set (f := match first with Some n => sf n ++ [45] | None => [] end ++ hash).
    assert (Hf : kc f = [f] /\ good_str f = true).
    { apply single_kc_nondot.
      - unfold f. destruct first; [|assumption]. repeat apply noslash_app; try assumption; [apply sf_noslash|].
        intros [Hx|[]]. discriminate.
      - unfold f. apply has_nondot_app_r. assumption. }
    destruct Hf as [Hkf Hgf].
    destruct (kc_path_join [prefix_ocsp; f]) as [Hkc Hgood].
    { cbn [forallb]. rewrite Hg, Hgf. reflexivity. }
    exists f. unfold ocsp_staple. fold f. split; [|exact Hgood].
    rewrite Hkc. cbn [flat_map]. rewrite Hk, Hkf. reflexivity.
  Qed.

  (** FileStorage.Filename: a key without dot-dot components stays under the root *)
  Theorem filename_under_root root key : good_str root = true -> good_str key = true ->
    kc (filename root key) = kc root ++ kc key /\ good_str (filename root key) = true.
  Proof.
    intros Hr Hk. destruct (kc_path_join [root; key]) as [Hkc Hg].
    { cbn [forallb]. rewrite Hr, Hk. reflexivity. }
    unfold filename. split; [|exact Hg]. rewrite Hkc. cbn [flat_map]. rewrite app_nil_r. reflexivity.
  Qed.

  (** lock files: <root>/locks/<safe name>.lock *)
  Theorem lockfile_in_locks_dir root name : good_str root = true ->
    kc (lock_filename lower is_space root name) = kc root ++ [lock_dir_name; sf name ++ lock_suffix] /\
    good_str (lock_filename lower is_space root name) = true.
  Proof.
    intros Hr. cfact lock_dir_name. cfact lock_suffix.
    destruct (single_kc_nondot lock_dir_name) as [Hk Hg]; [assumption..|].
    destruct (kc_path_join [root; lock_dir_name]) as [Hk1 Hg1].
    { cbn [forallb]. rewrite Hr, Hg. reflexivity. }
    destruct (sf_ext name lock_suffix) as [Hk2 Hg2]; [assumption..|].
    destruct (kc_path_join [path_join [root; lock_dir_name]; sf name ++ lock_suffix]) as [Hkc Hgood].
    { cbn [forallb]. rewrite Hg1, Hg2. reflexivity. }
    unfold lock_filename. split; [|exact Hgood]. rewrite Hkc. cbn [flat_map].
    rewrite Hk1. cbn [flat_map]. rewrite Hk, Hk2, !app_nil_r, <- app_assoc. reflexivity.
  Qed.

  (** acme/<issuer>/users/<email>/<user>.<ext> *)
  Theorem user_key_ns ik email dflt ext : noslash ext -> has_nondot ext = true ->
    exists rest, kc (user_key lower is_space ik email dflt ext) =
                   prefix_acme :: kc (sf ik) ++ users_dir_name :: rest /\
                 good_str (user_key lower is_space ik email dflt ext) = true.
  Proof.
    intros He Hd. cfact prefix_acme. cfact users_dir_name.
    destruct (single_kc_nondot prefix_acme) as [Hka Hga]; [assumption..|].
    destruct (single_kc_nondot users_dir_name) as [Hku Hgu]; [assumption..|].
    destruct (kc_path_join [prefix_acme; sf ik]) as [Hk0 Hg0].
    { cbn [forallb]. rewrite Hga, sf_good. reflexivity. }
    destruct (kc_path_join [ca_prefix lower is_space ik; users_dir_name]) as [Hk1 Hg1].
    { cbn [forallb]. unfold ca_prefix. rewrite Hg0, Hgu. reflexivity. }
    unfold user_key.
    set (em := map lower (or_default_email email)).
    set (fnm := if is_empty (email_username em) then dflt else email_username em).
    destruct (kc_path_join [users_prefix lower is_space ik; sf (or_default_email em)]) as [Hk2 Hg2].
    { cbn [forallb]. unfold users_prefix. rewrite Hg1, sf_good. reflexivity. }
    destruct (sf_ext fnm ext He Hd) as [Hk3 Hg3].
    destruct (kc_path_join [user_prefix lower is_space ik em; sf fnm ++ ext]) as [Hk Hg].
    { cbn [forallb]. unfold user_prefix. rewrite Hg2, Hg3. reflexivity. }
    eexists. split; [|exact Hg]. rewrite Hk. cbn [flat_map]. unfold user_prefix at 1.
    rewrite Hk2. cbn [flat_map]. unfold users_prefix at 1. rewrite Hk1. cbn [flat_map].
    unfold ca_prefix at 1. rewrite Hk0. cbn [flat_map]. rewrite Hka, Hku, !app_nil_r.
    cbn [app]. rewrite <- !app_assoc. cbn [app]. reflexivity.
  Qed.

  (** acme/<issuer>/challenge_tokens/<domain>.json *)
  Theorem challenge_tokens_key_ns ik d :
    kc (challenge_tokens_key lower is_space ik d) =
      prefix_acme :: kc (sf ik) ++ [challenge_tokens_dir_name; sf d ++ ext_json] /\
    good_str (challenge_tokens_key lower is_space ik d) = true.
  Proof.
    cfact prefix_acme. cfact challenge_tokens_dir_name. cfact ext_json.
    destruct (single_kc_nondot prefix_acme) as [Hka Hga]; [assumption..|].
    destruct (single_kc_nondot challenge_tokens_dir_name) as [Hkc Hgc]; [assumption..|].
    destruct (kc_path_join [prefix_acme; sf ik]) as [Hk0 Hg0].
    { cbn [forallb]. rewrite Hga, sf_good. reflexivity. }
    destruct (kc_path_join [ca_prefix lower is_space ik; challenge_tokens_dir_name]) as [Hk1 Hg1].
    { cbn [forallb]. unfold ca_prefix. rewrite Hg0, Hgc. reflexivity. }
    destruct (sf_ext d ext_json) as [Hk2 Hg2]; [assumption..|].
    destruct (kc_path_join [path_join [ca_prefix lower is_space ik; challenge_tokens_dir_name]; sf d ++ ext_json]) as [Hk Hg].
    { cbn [forallb]. rewrite Hg1, Hg2. reflexivity. }
    unfold challenge_tokens_key. split; [|exact Hg]. rewrite Hk. cbn [flat_map].
    rewrite Hk1. cbn [flat_map]. unfold ca_prefix at 1. rewrite Hk0. cbn [flat_map].
    rewrite Hka, Hkc, Hk2, !app_nil_r. cbn [app]. rewrite <- !app_assoc. reflexivity.
  Qed.
End WithUnicode.
