(** Syntax of the comparison operators that the translator (harness/cmd/consts/c18.go) reads
    from CleanStorage / deleteOldOCSPStaples / deleteExpiredCerts in /repo/maintain.go. *)
From Coq Require Import ZArith Bool.
Local Open Scope Z_scope.

Inductive cmp_op := CmpLt | CmpLe | CmpGt | CmpGe | CmpEq | CmpNe.

(** [cmp_holds op a b] = the Go expression [a op b] on integers *)
Definition cmp_holds (c : cmp_op) (a b : Z) : bool :=
  match c with
  | CmpLt => a <? b
  | CmpLe => a <=? b
  | CmpGt => b <? a
  | CmpGe => b <=? a
  | CmpEq => a =? b
  | CmpNe => negb (a =? b)
  end.
