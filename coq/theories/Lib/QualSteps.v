(** Syntax of the conjuncts of SubjectQualifiesForCert (certificates.go), as emitted by the
    translator (harness/cmd/consts/c02.go) from /repo on every run. *)
From CM Require Import Lib.Str.

Inductive qcond :=
| QNonBlank                      (* strings.TrimSpace(subj) != "" *)
| QNotPrefix (p : str)           (* !strings.HasPrefix(subj, p) *)
| QNotSuffix (p : str)           (* !strings.HasSuffix(subj, p) *)
| QOnlyIf (a b c : str)          (* !strings.Contains(subj, a) || strings.HasPrefix(subj, b) || subj == c *)
| QNoneOf (chars : str).         (* !strings.ContainsAny(subj, chars) *)
