(** Wire format between the Go harness and the models: every case is one line of integers.
    Decoders are written here, in Gallina, so that the only untrusted glue outside Coq is
    "read a line of integers" (ocaml/modelrun.ml) and the same [check_line] can be evaluated
    both by the extracted code and by vm_compute on the very same integers. *)
From CM Require Import Lib.Str.
Open Scope Z_scope.

Definition dec (A : Type) := list Z -> option (A * list Z).

Definition ret {A} (a : A) : dec A := fun l => Some (a, l).
Definition bind {A B} (d : dec A) (f : A -> dec B) : dec B :=
  fun l => match d l with Some (a, r) => f a r | None => None end.
Notation "x <- d ;; e" := (bind d (fun x => e)) (at level 61, d at next level, right associativity).

Definition get_z : dec Z := fun l => match l with x :: r => Some (x, r) | [] => None end.
Definition get_n : dec N := x <- get_z ;; if x <? 0 then (fun _ => None) else ret (Z.to_N x).
Definition get_nat : dec nat := x <- get_n ;; ret (N.to_nat x).
Definition get_bool : dec bool := x <- get_z ;; ret (negb (x =? 0)).

Fixpoint get_items {A} (d : dec A) (n : nat) : dec (list A) :=
  match n with
  | O => ret []
  | S k => x <- d ;; xs <- get_items d k ;; ret (x :: xs)
  end.
(** length-prefixed list *)
Definition get_list {A} (d : dec A) : dec (list A) := n <- get_nat ;; get_items d n.
Definition get_str : dec str := get_list get_n.
Definition get_opt {A} (d : dec A) : dec (option A) :=
  b <- get_bool ;; if b then (x <- d ;; ret (Some x)) else ret None.
Definition get_pair {A B} (da : dec A) (db : dec B) : dec (A * B) :=
  a <- da ;; b <- db ;; ret (a, b).

(** run a decoder on a whole line; trailing integers are an error *)
Definition decode {A} (d : dec A) (l : list Z) : option A :=
  match d l with Some (a, []) => Some a | _ => None end.

(** result codes of check_line *)
Definition code (model_agrees spec_holds : bool) : Z :=
  (if model_agrees then 0 else 1) + (if spec_holds then 0 else 2).
Definition code_decode_error : Z := 4.

(** encoders, for [explain_line] *)
Definition put_str (s : str) : list Z := Z.of_nat (length s) :: map Z.of_N s.
