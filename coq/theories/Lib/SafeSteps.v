(** Syntax of the statement sequence of KeyBuilder.Safe, as emitted by the translator
    (harness/cmd/consts) from /repo/storage.go on every run. *)
From CM Require Import Lib.Str.

Inductive safe_step :=
| SLower                                 (* str = strings.ToLower(str) *)
| STrim                                  (* str = strings.TrimSpace(str) *)
| SReplacer (pairs : list (str * str))   (* strings.NewReplacer(pairs...).Replace(str) *)
| SRegexStrip (keep : list (N * N))      (* safeKeyRE.ReplaceAllLiteralString(str, ""), RE = [^keep] *)
| SReplaceAll (old new : str).           (* strings.ReplaceAll(str, old, new) *)
