(** Strings as lists of code points (list N), the way Go's [range] yields them.
    Executable helpers shared by all models; no proofs about the code here. *)
From Coq Require Export List NArith ZArith Bool Lia.
Export ListNotations.
Open Scope N_scope.

Definition str := list N.

Fixpoint dropwhile {A} (p : A -> bool) (l : list A) : list A :=
  match l with
  | [] => []
  | x :: r => if p x then dropwhile p r else l
  end.

Definition str_eqb (a b : str) : bool :=
  if list_eq_dec N.eq_dec a b then true else false.

Lemma str_eqb_eq a b : str_eqb a b = true <-> a = b.
Proof. unfold str_eqb; destruct (list_eq_dec N.eq_dec a b); split; congruence. Qed.

(** [strip_prefix p s] = [Some rest] when [s = p ++ rest]. *)
Fixpoint strip_prefix (p s : str) : option str :=
  match p, s with
  | [], _ => Some s
  | _ :: _, [] => None
  | a :: p', b :: s' => if N.eqb a b then strip_prefix p' s' else None
  end.

Lemma strip_prefix_spec p s r : strip_prefix p s = Some r <-> s = p ++ r.
Proof.
  revert s r; induction p as [|a p IH]; intros s r; cbn.
  - split; congruence.
  - destruct s as [|b s]; [split; discriminate|].
    destruct (N.eqb_spec a b) as [->|Hne].
    + rewrite IH; split; [intros ->; reflexivity | intros H; injection H; auto].
    + split; [discriminate | intros H; injection H; congruence].
Qed.

Definition has_prefix (p s : str) : bool :=
  match strip_prefix p s with Some _ => true | None => false end.

(** does [s] contain the two-element factor [a;b]? *)
Fixpoint has_pair (a b : N) (s : str) : bool :=
  match s with
  | x :: ((y :: _) as r) => (N.eqb x a && N.eqb y b) || has_pair a b r
  | _ => false
  end.

(** split on a separator code point (like strings.Split: n separators give n+1 fields) *)
Fixpoint split_on (sep : N) (s : str) : list str :=
  match s with
  | [] => [[]]
  | c :: r =>
      if N.eqb c sep then [] :: split_on sep r
      else match split_on sep r with
           | [] => [[c]]   (* unreachable *)
           | f :: fs => (c :: f) :: fs
           end
  end.

Fixpoint join_with (sep : N) (l : list str) : str :=
  match l with
  | [] => []
  | [x] => x
  | x :: r => x ++ sep :: join_with sep r
  end.

Fixpoint list_prefixb (p l : list str) : bool :=
  match p, l with
  | [], _ => true
  | _ :: _, [] => false
  | a :: p', b :: l' => str_eqb a b && list_prefixb p' l'
  end.

Lemma list_prefixb_spec p l : list_prefixb p l = true <-> exists r, l = p ++ r.
Proof.
  revert l; induction p as [|a p IH]; intros l; cbn.
  - split; eauto.
  - destruct l as [|b l]; [split; [discriminate|intros [r Hr]; discriminate]|].
    rewrite andb_true_iff, str_eqb_eq, IH. split.
    + intros [-> [r ->]]; eauto.
    + intros [r Hr]; injection Hr; intros -> ->; eauto.
Qed.

(* ASCII helpers *)
Definition c_dot : N := 46.
Definition c_slash : N := 47.
Definition c_bslash : N := 92.
Definition c_nul : N := 0.
Definition c_space : N := 32.
Definition is_upper_ascii (c : N) : bool := (65 <=? c) && (c <=? 90).
Definition ascii_lower (c : N) : N := if is_upper_ascii c then c + 32 else c.
(* unicode.IsSpace restricted to ASCII: \t \n \v \f \r and space *)
Definition ascii_space (c : N) : bool := ((9 <=? c) && (c <=? 13)) || (c =? 32).
