(** Correspondence for C04: one case = inputs + the three float64 windows computed by Go + the
    clock readings bracketing the call + what the real code answered.  [check_line] compares
    (a) the model with the implementation and (b) evaluates [spec_ok] (the property in exact
    rational arithmetic, Model.v) on the implementation's answer. *)
From Coq Require Import ZArith List Bool.
From CM Require Import Lib.Str Lib.Wire Gen.Consts Renewal.Model Renewal.F64.
Import ListNotations.
Open Scope Z_scope.

Record case := Case {
  kind : Z;           (* 0 certNeedsRenewal, 1 Certificate.NeedsRenewal, 2 managedCertNeedsRenewal *)
  present : bool;     (* kinds 0/1: leaf non-nil; kind 2: PEM bundle parses *)
  inp : inputs;
  w_cfg : Z; w_ari : Z; w_imm : Z;   (* Go: time.Duration(float64(lifetime)*ratio) for the three ratios *)
  t0 : Z; t1 : Z;     (* clock readings before / after the call *)
  obs : Z;            (* 0 false, 1 true, 2 panic *)
  go_class : Z        (* harness' own classification: 0 compared, 1 clock boundary, 2 rnd-dependent *)
}.

Definition verdict_of (z : Z) : verdict := if z =? 1 then Renew else if z =? 0 then Wait else Panic.
Definition verdict_code (v : verdict) : Z := match v with Wait => 0 | Renew => 1 | Panic => 2 end.

(** the model proper runs on the exact float64 model [scale_f64] (for which [scale_spec] is
    proved, F64Proofs.v); [oracle_ok] checks that Go computed the same three windows *)
Definition model_at (c : case) (now : Z) : option verdict :=
  let sc := scale_f64 in
  if kind c =? 2 then
    (if present c then decide_all_rnd sc (managed_inputs (inp c)) now else Some Renew)
  else if present c then decide_all_rnd sc (inp c) now else Some Wait.

(** 0: verdict independent of the clock position in [t0,t1] and of rnd; 1: straddles a
    threshold; 2: depends on the random draw *)
Definition classify (c : case) : Z * verdict :=
  match model_at c (t0 c), model_at c (t1 c) with
  | Some a, Some b => if verdict_eqb a b then (0, a) else (1, a)
  | _, _ => (2, Wait)
  end.

(** the hypotheses on [scale] used by the theorems, and the exact float64 model, against Go *)
Definition oracle_ok (c : case) : bool :=
  let i := inp c in
  let L := expires_at (not_after i) - not_before i in
  let chk (w : Z) (r : ratio) :=
    (w =? scale_f64 L r) &&
    (negb ((0 <=? L) && (0 <? fst r) && (fst r <=? snd r)) || scale_okb w L (fst r) (snd r)) in
  chk (w_cfg c) (eff_ratio (cfg_ratio i)) && chk (w_ari c) (eff_ratio ari_emergency_ratio)
  && chk (w_imm c) (eff_ratio imminent_ratio).

Definition model_agrees (c : case) : bool :=
  let '(cl, v) := classify c in
  oracle_ok c && (cl =? go_class c) && (negb (cl =? 0) || verdict_eqb v (verdict_of (obs c))).

(** the specification is demanded of real certificates handed to the decision function *)
Definition spec_holds (c : case) : bool :=
  let o := verdict_of (obs c) in
  if present c then spec_ok (inp c) (t0 c) (t1 c) o
  else verdict_eqb o (if kind c =? 2 then Renew else Wait).

Definition get_optz : dec (option Z) := get_opt get_z.
Definition get_case : dec case :=
  k <- get_z ;; p <- get_bool ;;
  nb <- get_z ;; na <- get_z ;; iv <- get_z ;; rn <- get_z ;; rd <- get_z ;; dis <- get_bool ;;
  s <- get_optz ;; ws <- get_optz ;; we <- get_optz ;;
  wc <- get_z ;; wa <- get_z ;; wi <- get_z ;;
  a <- get_z ;; b <- get_z ;; o <- get_z ;; g <- get_z ;;
  ret (Case k p (Inputs nb na iv (rn, rd) dis (Ari s ws we)) wc wa wi a b o g).

(** ari-refresh cases: the renewal info of [inp c] is what the real [Config.updateARI] left on the
    returned certificate / the cache entry / in the stored metadata, after the issuer answered
    [fresh] for a certificate carrying [old]; [obs c] is the real decision on that copy.
    (a) the info equals the model's [refresh_ari old fresh] and the decision equals the model's
    decision for THAT info; (b) the info satisfies [refresh_ok] (the CA's window, selected time unset
    or inside it) and the decision satisfies [spec_ok] for the info it was taken on. *)
Definition xcase := (case * option (ari_info * ari_info))%type.

Definition with_case_ari (c : case) (a : ari_info) : case :=
  Case (kind c) (present c) (with_ari (inp c) a) (w_cfg c) (w_ari c) (w_imm c) (t0 c) (t1 c) (obs c) (go_class c).

Definition x_model_agrees (x : xcase) : bool :=
  match snd x with
  | None => model_agrees (fst x)
  | Some (old, fresh) =>
      let expected := refresh_ari old fresh in
      ari_eqb (ari (inp (fst x))) expected && model_agrees (with_case_ari (fst x) expected)
  end.

Definition x_spec_holds (x : xcase) : bool :=
  match snd x with
  | None => spec_holds (fst x)
  | Some (old, fresh) => refresh_ok old fresh (ari (inp (fst x))) && spec_holds (fst x)
  end.

Definition get_ari : dec ari_info := s <- get_optz ;; ws <- get_optz ;; we <- get_optz ;; ret (Ari s ws we).
Definition get_xcase : dec xcase :=
  c <- get_case ;; r <- get_opt (get_pair get_ari get_ari) ;; ret (c, r).

Definition check_line (l : list Z) : Z :=
  match decode get_xcase l with
  | Some x => code (x_model_agrees x) (x_spec_holds x)
  | None => code_decode_error
  end.

Definition b2z (b : bool) : Z := if b then 1 else 0.
(** diagnostics: class, model verdict at t0 / t1 (-1 = rnd-dependent), oracle_ok, exact float64
    windows, must_renew t0, must_wait t1; for ari-refresh cases five more (see below) *)
Definition explain_line (l : list Z) : list Z :=
  match decode get_xcase l with
  | Some (c, rf) =>
      let i := inp c in
      let L := expires_at (not_after i) - not_before i in
      let ov (o : option verdict) := match o with Some v => verdict_code v | None => -1 end in
      [fst (classify c); ov (model_at c (t0 c)); ov (model_at c (t1 c)); b2z (oracle_ok c);
       scale_f64 L (eff_ratio (cfg_ratio i)); scale_f64 L (eff_ratio ari_emergency_ratio);
       scale_f64 L (eff_ratio imminent_ratio); b2z (must_renew i (t0 c)); b2z (must_wait i (t1 c))]
      ++ match rf with
         | None => []
         | Some (old, fresh) =>
             (* refresh: info = expected, refresh_ok, well-formed, expected selected time (-1 unset),
                model verdict at t0 for the expected info *)
             let e := refresh_ari old fresh in
             [b2z (ari_eqb (ari i) e); b2z (refresh_ok old fresh (ari i)); b2z (ari_wfb (ari i));
              match sel e with Some s => s | None => -1 end;
              ov (model_at (with_case_ari c e) (t0 c))]
         end
  | None => []
  end.
