(** Exact integer model of the float64 expression in [currentlyInRenewalWindow]:

      time.Duration(float64(lifetime) * ratio)

    where [ratio] is the double nearest to the rational n/d (Go evaluates the constant
    [1.0/20.0] exactly and rounds once; [float64(n)/float64(d)] for integers below 2^53 is the
    correctly rounded quotient as well).  IEEE-754 binary64, round-to-nearest-even, no
    subnormals or overflow in the range used (|lifetime| < 2^63, 2^-60 < ratio).
    A positive double is represented as [(m, e)] meaning m * 2^e with 0 < m <= 2^53.
    Definitions only; compared with the Go result on every case of every run. *)
From Coq Require Import ZArith Bool.
Open Scope Z_scope.

(** round the positive real x (+ a non-zero fraction below one unit if [sticky]) to 53
    significant bits, nearest-even: result (m, sh) stands for m * 2^sh *)
Definition round53 (x : Z) (sticky : bool) : Z * Z :=
  let b := Z.log2 x + 1 in
  if b <=? 53 then (x, 0)
  else
    let sh := b - 53 in
    let q := x / 2 ^ sh in
    let r := x mod 2 ^ sh in
    let half := 2 ^ (sh - 1) in
    let up := (r >? half) || ((r =? half) && (sticky || Z.odd q)) in
    (if up then q + 1 else q, sh).

(** the double nearest to n/d (n, d > 0) as (m, e) *)
Definition f64_of_ratio (n d : Z) : Z * Z :=
  let k := 56 + Z.log2 d in
  let x := (n * 2 ^ k) / d in
  let sticky := negb ((n * 2 ^ k) mod d =? 0) in
  let '(m, sh) := round53 x sticky in
  (m, sh - k).

(** truncation toward zero of m * 2^e (m >= 0) *)
Definition trunc_pow (m e : Z) : Z := if 0 <=? e then m * 2 ^ e else m / 2 ^ (- e).

Definition scale_abs (L n d : Z) : Z :=
  let '(ml, el) := round53 L false in            (* float64(L) *)
  let '(mr, er) := f64_of_ratio n d in           (* the ratio as a double *)
  let '(mp, sp) := round53 (ml * mr) false in    (* the rounded product *)
  trunc_pow mp (sp + el + er).

Definition scale_f64 (L : Z) (r : Z * Z) : Z :=
  let '(n, d) := r in
  if (n <=? 0) || (d <=? 0) then 0
  else if L <? 0 then - scale_abs (- L) n d else scale_abs L n d.
