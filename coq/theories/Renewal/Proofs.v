(** Proofs about the renewal decision model (C04). *)
From Coq Require Import ZArith List Bool Lia ZifyBool.
From CM Require Import Gen.Consts Renewal.Model.
Import ListNotations.
Open Scope Z_scope.

(** * What is assumed of the float64 product *)
Definition scale_spec (scale : Z -> ratio -> Z) : Prop :=
  forall L n d, 0 <= L -> 0 < n <= d ->
    0 <= scale L (n, d) /\ Z.abs (d * scale L (n, d) - n * L) <= d * eps L.

Definition wf (i : inputs) : Prop := wfb i = true.

(** * The code's literals are the ones the property names (re-checked against the regenerated
      Gen/Consts.v on every run) *)
Lemma constants_as_specified :
  ari_emergency_ratio = (1, 20) /\ imminent_ratio = (1, 50) /\ imminent_interval_factor = 5 /\
  expiry_truncate = second /\ expiry_add = second /\
  0 < fst default_renewal_ratio <= snd default_renewal_ratio.
Proof. repeat split; try reflexivity; vm_compute; congruence. Qed.

Lemma expires_at_spec : forall na, expires_at na = spec_expiry na.
Proof. reflexivity. Qed.

Lemma spec_expiry_bounds : forall na, na < spec_expiry na <= na + second.
Proof. intros na. unfold spec_expiry, second. Z.div_mod_to_equations. lia. Qed.

Lemma eps_pos : forall L, 0 <= L -> 2 <= eps L.
Proof. intros L H. unfold eps. assert (0 <= L / 2 ^ 50) by (apply Z.div_pos; lia). lia. Qed.

Lemma eff_ratio_ari : eff_ratio ari_emergency_ratio = (1, 20).
Proof. reflexivity. Qed.
Lemma eff_ratio_imm : eff_ratio imminent_ratio = (1, 50).
Proof. reflexivity. Qed.

Lemma eff_ratio_valid : forall r, ratio_okb r = true ->
  0 < fst (eff_ratio r) <= snd (eff_ratio r).
Proof.
  intros [n d] H. unfold ratio_okb in H. cbn [fst snd] in H. unfold eff_ratio. cbn [fst snd].
  destruct (n =? 0) eqn:E.
  - exact (proj2 (proj2 (proj2 (proj2 (proj2 constants_as_specified))))).
  - cbn [fst snd]. lia.
Qed.

(** * The random draw *)

Lemma improv_range_pos : forall ws we, let '(start, e) := improv_range ws we in 0 < e - start.
Proof. intros ws we. unfold improv_range. destruct (we / second <=? ws / second + 1) eqn:E; lia. Qed.

(** the argument of rand.Int63n is positive: no panic *)
Lemma improv_n_positive : forall a n, improv_n a = Some n -> 0 < n.
Proof.
  intros [s ws we] n. unfold improv_n. cbn [sel wstart wend].
  destruct s; [discriminate|]. destruct ws as [ws|]; [|discriminate]. destruct we as [we|]; [|discriminate].
  pose proof (improv_range_pos ws we) as P. destruct (improv_range ws we) as [st e].
  intros H. inversion H. lia.
Qed.

Lemma select_no_panic : forall a rnd, select a rnd <> SelPanic.
Proof.
  intros [s ws we] rnd. unfold select. cbn [sel wstart wend].
  destruct s; [discriminate|]. destruct ws as [ws|]; [|discriminate]. destruct we as [we|]; [|discriminate].
  pose proof (improv_range_pos ws we) as P. destruct (improv_range ws we) as [st e].
  destruct (e - st <=? 0) eqn:E; [lia|discriminate].
Qed.

Lemma rnd_bound_pos : forall i, 0 < rnd_bound i.
Proof.
  intros i. unfold rnd_bound. destruct (disable_ari i); [lia|].
  destruct (improv_n (ari i)) eqn:E; [|lia]. eapply improv_n_positive; eauto.
Qed.

(** where the selected time can lie *)
Lemma select_bounds : forall i rnd, disable_ari i = false -> admissible i rnd ->
  match sel_bounds i with
  | Some (lo, hi) => exists s, select (ari i) rnd = Sel s /\ lo <= s <= hi
  | None => select (ari i) rnd = NoSel
  end.
Proof.
  intros i rnd Hd Ha. unfold admissible, rnd_bound in Ha. unfold sel_bounds. rewrite Hd in *.
  unfold improv_n, select in *. destruct (ari i) as [s ws we]. cbn [sel wstart wend] in *.
  destruct s as [s|]. { exists s. split; [reflexivity|lia]. }
  destruct ws as [ws|]; [|reflexivity]. destruct we as [we|]; [|reflexivity].
  unfold improv_range in *.
  destruct (we / second <=? ws / second + 1) eqn:E.
  - replace (ws / second + 1 + 1 - (ws / second + 1) <=? 0) with false by lia.
    eexists. split; [reflexivity|]. unfold second in *. nia.
  - replace (we / second - (ws / second + 1) <=? 0) with false by lia.
    eexists. split; [reflexivity|]. unfold second in *. nia.
Qed.

(** an improvised time is a whole second strictly after the window's start and, unless the
    window is a second or less (then it is the first whole second after the start), at least
    a second before its end *)
Theorem improvised_in_window : forall i rnd ws we, admissible i rnd -> disable_ari i = false ->
  sel (ari i) = None -> wstart (ari i) = Some ws -> wend (ari i) = Some we ->
  exists s, select (ari i) rnd = Sel s /\ s mod second = 0 /\ ws < s /\
    (s + second <= we \/ (we / second <= ws / second + 1 /\ s = (ws / second + 1) * second)).
Proof.
  intros i rnd ws we Ha Hd Hs Hws Hwe. unfold admissible, rnd_bound, improv_n in Ha. unfold select.
  rewrite Hd, Hs, Hws, Hwe in *. unfold improv_range in *.
  destruct (we / second <=? ws / second + 1) eqn:E.
  - replace (ws / second + 1 + 1 - (ws / second + 1) <=? 0) with false by lia.
    eexists. split; [reflexivity|]. assert (rnd = 0) by lia. subst rnd.
    rewrite Z.mod_mul by (unfold second; lia). split; [reflexivity|].
    split; [|right; split; [lia|reflexivity]].
    unfold second in *. Z.div_mod_to_equations. lia.
  - replace (we / second - (ws / second + 1) <=? 0) with false by lia.
    eexists. split; [reflexivity|].
    rewrite Z.mod_mul by (unfold second; lia). split; [reflexivity|].
    unfold second in *. split; [|left]; Z.div_mod_to_equations; nia.
Qed.

(** * Refreshed renewal info ([Config.updateARI], [refresh_ari]) *)

Lemma optz_eqb_eq : forall a b, optz_eqb a b = true <-> a = b.
Proof.
  intros [x|] [y|]; cbn [optz_eqb]; split; intros H; try discriminate; try reflexivity.
  - apply Z.eqb_eq in H. congruence.
  - inversion H. apply Z.eqb_refl.
Qed.

Lemma same_window_eq : forall a b, same_window a b = true <-> wstart a = wstart b /\ wend a = wend b.
Proof. intros a b. unfold same_window. rewrite andb_true_iff, !optz_eqb_eq. tauto. Qed.

(** the refreshed info always carries the window the CA answered with *)
Lemma refresh_window : forall old fresh,
  wstart (refresh_ari old fresh) = wstart fresh /\ wend (refresh_ari old fresh) = wend fresh.
Proof. intros old fresh. unfold refresh_ari. destruct (same_window fresh old && has_sel old); split; reflexivity. Qed.

(** the old selected time survives exactly when the window is unchanged (and there was one) *)
Lemma refresh_sel : forall old fresh,
  sel (refresh_ari old fresh) = if same_window fresh old && has_sel old then sel old else sel fresh.
Proof. intros old fresh. unfold refresh_ari. destruct (same_window fresh old && has_sel old); reflexivity. Qed.

(** well-formedness is preserved: a selected time is only ever kept together with its own window *)
Theorem refresh_wf : forall old fresh, ari_wfb old = true -> ari_wfb fresh = true ->
  ari_wfb (refresh_ari old fresh) = true.
Proof.
  intros old fresh Ho Hf. unfold refresh_ari.
  destruct (same_window fresh old && has_sel old) eqn:E; [|exact Hf].
  apply andb_true_iff in E. destruct E as [Hw _]. apply same_window_eq in Hw. destruct Hw as [Hs He].
  unfold ari_wfb in *. cbn [sel wstart wend]. rewrite Hs, He. exact Ho.
Qed.

Theorem refresh_ok_of_model : forall old fresh, refresh_ok old fresh (refresh_ari old fresh) = true.
Proof.
  intros old fresh. unfold refresh_ok. apply andb_true_iff. split.
  - apply same_window_eq. apply refresh_window.
  - destruct (ari_wfb old) eqn:Ho; [|reflexivity]. destruct (ari_wfb fresh) eqn:Hf; [|reflexivity].
    cbn [andb negb orb]. apply refresh_wf; assumption.
Qed.

Section WithScale.
  Variable scale : Z -> ratio -> Z.

  Notation decide := (decide scale).
  Notation expiry_due := (expiry_due scale).
  Notation ari_due := (ari_due scale).
  Notation in_window := (in_window scale).

  (** * Structure of the decision (no assumption on [scale]) *)

  Theorem no_panic : forall i rnd now, decide i rnd now <> Panic.
  Proof.
    intros i rnd now. unfold Model.decide. destruct (disable_ari i).
    - destruct (expiry_due i now); discriminate.
    - pose proof (select_no_panic (ari i) rnd) as P. destruct (select (ari i) rnd); try congruence.
      + destruct (expiry_due i now); discriminate.
      + destruct (ari_due i s now || expiry_due i now); discriminate.
  Qed.

  Lemma of_bool_renew : forall b, of_bool b = Renew <-> b = true.
  Proof. destruct b; cbn; split; congruence. Qed.
  Lemma of_bool_wait : forall b, of_bool b = Wait <-> b = false.
  Proof. destruct b; cbn; split; congruence. Qed.

  (** exact characterisation of the verdict *)
  Theorem decide_renew_iff : forall i rnd now,
    decide i rnd now = Renew <->
    (expiry_due i now = true \/
     (disable_ari i = false /\ exists s, select (ari i) rnd = Sel s /\ ari_due i s now = true)).
  Proof.
    intros i rnd now. unfold Model.decide. destruct (disable_ari i).
    - rewrite of_bool_renew. split; [auto|]. intros [H|[H _]]; [exact H|discriminate].
    - pose proof (select_no_panic (ari i) rnd) as P. destruct (select (ari i) rnd) as [|s|]; try congruence.
      + rewrite of_bool_renew. split; [auto|]. intros [H|[_ [s [H _]]]]; [exact H|discriminate].
      + rewrite of_bool_renew, orb_true_iff. split.
        * intros [H|H]; [right; split; [reflexivity|]; exists s; auto|left; exact H].
        * intros [H|[_ [s' [E H]]]]; [right; exact H|]. inversion E. subst. left. exact H.
  Qed.

  Lemma decide_wait_or_renew : forall i rnd now, decide i rnd now = Wait \/ decide i rnd now = Renew.
  Proof. intros i rnd now. pose proof (no_panic i rnd now). destruct (decide i rnd now); auto. congruence. Qed.

  Lemma expiry_due_renew : forall i rnd now, expiry_due i now = true -> decide i rnd now = Renew.
  Proof. intros. apply decide_renew_iff. auto. Qed.

  Lemma in_window_mono : forall now now' nb exp r, now <= now' ->
    in_window now nb exp r = true -> in_window now' nb exp r = true.
  Proof. unfold Model.in_window. intros. lia. Qed.

  Lemma expiry_due_mono : forall i now now', now <= now' ->
    expiry_due i now = true -> expiry_due i now' = true.
  Proof.
    unfold Model.expiry_due. intros i now now' Hle H.
    rewrite !orb_true_iff in *. destruct H as [[H|H]|H].
    - left. left. eapply in_window_mono; eauto.
    - left. right. eapply in_window_mono; eauto.
    - right. lia.
  Qed.

  Lemma ari_due_mono : forall i s now now', now <= now' ->
    ari_due i s now = true -> ari_due i s now' = true.
  Proof.
    unfold Model.ari_due. intros i s now now' Hle H. rewrite !orb_true_iff in *. destruct H as [H|H].
    - left. lia.
    - right. eapply in_window_mono; eauto.
  Qed.

  (** for fixed inputs and a fixed draw the verdict never goes back from renew to wait *)
  Theorem monotone_in_now : forall i rnd now now', now <= now' ->
    decide i rnd now = Renew -> decide i rnd now' = Renew.
  Proof.
    intros i rnd now now' Hle H. apply decide_renew_iff in H. apply decide_renew_iff.
    destruct H as [H|[Hd [s [Hs H]]]].
    - left. eapply expiry_due_mono; eauto.
    - right. split; [exact Hd|]. exists s. split; [exact Hs|]. eapply ari_due_mono; eauto.
  Qed.

  (** when no time is improvised the draw is irrelevant *)
  Lemma decide_rnd_irrelevant : forall i rnd rnd' now, improvises i = false ->
    decide i rnd now = decide i rnd' now.
  Proof.
    intros i rnd rnd' now H. unfold Model.decide, improvises, improv_n, select in *.
    destruct (disable_ari i); [reflexivity|]. cbn [negb andb] in H.
    destruct (sel (ari i)); [reflexivity|]. destruct (wstart (ari i)); [|reflexivity].
    destruct (wend (ari i)); [|reflexivity]. destruct (improv_range z z0). discriminate.
  Qed.

  Theorem monotone_in_now_any_draw : forall i rnd rnd' now now', improvises i = false -> now <= now' ->
    decide i rnd now = Renew -> decide i rnd' now' = Renew.
  Proof.
    intros i rnd rnd' now now' Hi Hle H. rewrite (decide_rnd_irrelevant i rnd' rnd now' Hi).
    eapply monotone_in_now; eauto.
  Qed.

  (** a later draw can only delay *)
  Lemma decide_antitone_rnd : forall i rnd rnd' now, rnd <= rnd' ->
    decide i rnd' now = Renew -> decide i rnd now = Renew.
  Proof.
    intros i rnd rnd' now Hle H. apply decide_renew_iff in H. apply decide_renew_iff.
    destruct H as [H|[Hd [s [Hs H]]]]; [left; exact H|]. right. split; [exact Hd|].
    unfold select in *. destruct (sel (ari i)) as [s0|]. { exists s. auto. }
    destruct (wstart (ari i)) as [ws|]; [|discriminate]. destruct (wend (ari i)) as [we|]; [|discriminate].
    destruct (improv_range ws we) as [st e]. destruct (e - st <=? 0); [discriminate|].
    inversion Hs. subst s. eexists. split; [reflexivity|].
    unfold Model.ari_due in *. rewrite !orb_true_iff in *. destruct H as [H|H]; [left|right; exact H].
    unfold second in *. lia.
  Qed.

  Theorem decide_all_rnd_sound : forall i now v, decide_all_rnd scale i now = Some v ->
    forall rnd, admissible i rnd -> decide i rnd now = v.
  Proof.
    intros i now v H rnd [Hlo Hhi]. unfold decide_all_rnd in H.
    destruct (verdict_eqb (decide i 0 now) (decide i (rnd_bound i - 1) now)) eqn:E; [|discriminate].
    inversion H. subst v. clear H.
    destruct (decide_wait_or_renew i 0 now) as [H0|H0]; rewrite H0 in *.
    - destruct (decide_wait_or_renew i rnd now) as [Hr|Hr]; [exact Hr|].
      apply (decide_antitone_rnd i 0 rnd now Hlo) in Hr. congruence.
    - destruct (decide i (rnd_bound i - 1) now) eqn:E1; try discriminate.
      apply (decide_antitone_rnd i rnd (rnd_bound i - 1) now); [lia|exact E1].
  Qed.

  Theorem decide_all_rnd_complete : forall i now, decide_all_rnd scale i now = None ->
    exists rnd rnd', admissible i rnd /\ admissible i rnd' /\ decide i rnd now <> decide i rnd' now.
  Proof.
    intros i now H. unfold decide_all_rnd in H. pose proof (rnd_bound_pos i) as P.
    exists 0, (rnd_bound i - 1). unfold admissible. repeat split; try lia.
    intros E. rewrite E in H. destruct (decide i (rnd_bound i - 1) now); discriminate.
  Qed.

  (** renewal information never postpones what the validity period alone demands *)
  Theorem ari_never_postpones : forall i a dis rnd rnd' now,
    decide (Inputs (not_before i) (not_after i) (interval i) (cfg_ratio i) true a) rnd' now = Renew ->
    decide (Inputs (not_before i) (not_after i) (interval i) (cfg_ratio i) dis (ari i)) rnd now = Renew.
  Proof.
    intros i a dis rnd rnd' now H. apply decide_renew_iff in H. apply decide_renew_iff.
    destruct H as [H|[H _]]; [|discriminate]. left. exact H.
  Qed.

  (** the stored-certificate variant decides like certNeedsRenewal (the ARI it drops when ARI is
      disabled is ignored by certNeedsRenewal anyway); an unparsable bundle is always renewed *)
  Theorem managed_decide_eq : forall i rnd now,
    managed_decide scale true i rnd now = decide i rnd now /\
    managed_decide scale false i rnd now = Renew.
  Proof.
    intros i rnd now. split; [|reflexivity]. unfold managed_decide, managed_inputs, Model.decide.
    cbn [disable_ari ari]. destruct (disable_ari i); reflexivity.
  Qed.

  (** * The property in exact rational arithmetic, under the hypothesis on the float product *)
  Hypothesis Hscale : scale_spec scale.

  Lemma window_inside : forall now nb exp r, 0 <= exp - nb ->
    0 < fst (eff_ratio r) <= snd (eff_ratio r) ->
    snd (eff_ratio r) * (exp - now) < fst (eff_ratio r) * (exp - nb) - snd (eff_ratio r) * eps (exp - nb) ->
    in_window now nb exp r = true.
  Proof.
    intros now nb exp r HL Hr H. unfold Model.in_window, window.
    destruct (eff_ratio r) as [n d]. cbn [fst snd] in *.
    destruct (Hscale (exp - nb) n d HL Hr) as [_ Hc].
    apply Z.gtb_lt. apply Z.abs_le in Hc. nia.
  Qed.

  Lemma window_outside : forall now nb exp r, 0 <= exp - nb ->
    0 < fst (eff_ratio r) <= snd (eff_ratio r) ->
    snd (eff_ratio r) * (exp - now) >= fst (eff_ratio r) * (exp - nb) + snd (eff_ratio r) * eps (exp - nb) ->
    in_window now nb exp r = false.
  Proof.
    intros now nb exp r HL Hr H. unfold Model.in_window, window.
    destruct (eff_ratio r) as [n d]. cbn [fst snd] in *.
    destruct (Hscale (exp - nb) n d HL Hr) as [_ Hc].
    apply Z.abs_le in Hc. destruct (now >? exp - scale (exp - nb) (n, d)) eqn:E; [|reflexivity]. nia.
  Qed.

  Lemma wf_facts : forall i, wf i ->
    0 < interval i /\ 0 <= lifetime i /\ 0 < fst (eff_ratio (cfg_ratio i)) <= snd (eff_ratio (cfg_ratio i)).
  Proof.
    intros i H. unfold wf, wfb in H. apply andb_true_iff in H. destruct H as [H Hr].
    apply andb_true_iff in H. destruct H as [Hi Hn].
    pose proof (spec_expiry_bounds (not_after i)). unfold lifetime.
    split; [lia|]. split; [lia|]. apply eff_ratio_valid. exact Hr.
  Qed.

  (** ** renew whenever due *)

  (** in the configured final fraction of the lifetime *)
  Theorem renew_in_configured_fraction : forall i rnd now, wf i ->
    snd (eff_ratio (cfg_ratio i)) * remaining i now <
      fst (eff_ratio (cfg_ratio i)) * lifetime i - snd (eff_ratio (cfg_ratio i)) * eps (lifetime i) ->
    decide i rnd now = Renew.
  Proof.
    intros i rnd now Hwf H. destruct (wf_facts i Hwf) as (Hi & HL & Hr).
    apply expiry_due_renew. unfold Model.expiry_due. rewrite expires_at_spec.
    rewrite (window_inside now (not_before i) (spec_expiry (not_after i)) (cfg_ratio i) HL Hr H). reflexivity.
  Qed.

  (** within the emergency margin before expiry: final 1/50 of the lifetime ... *)
  Theorem renew_in_final_fiftieth : forall i rnd now, wf i ->
    50 * remaining i now < lifetime i - 50 * eps (lifetime i) ->
    decide i rnd now = Renew.
  Proof.
    intros i rnd now Hwf H. destruct (wf_facts i Hwf) as (Hi & HL & Hr).
    apply expiry_due_renew. unfold Model.expiry_due. rewrite expires_at_spec.
    rewrite (window_inside now (not_before i) (spec_expiry (not_after i)) imminent_ratio HL).
    - rewrite orb_true_r. reflexivity.
    - rewrite eff_ratio_imm. cbn. lia.
    - rewrite eff_ratio_imm. cbn [fst snd]. unfold remaining, lifetime in H. lia.
  Qed.

  (** ... or less than five maintenance intervals left *)
  Theorem renew_within_five_intervals : forall i rnd now,
    remaining i now < 5 * interval i -> decide i rnd now = Renew.
  Proof.
    intros i rnd now H. apply expiry_due_renew. unfold Model.expiry_due. rewrite expires_at_spec.
    unfold remaining in H. replace imminent_interval_factor with 5 by reflexivity.
    replace (spec_expiry (not_after i) - now <? interval i * 5) with true by lia. apply orb_true_r.
  Qed.

  (** after expiry (from the instant of expiry on) *)
  Theorem renew_when_expired : forall i rnd now, 0 < interval i ->
    spec_expiry (not_after i) <= now -> decide i rnd now = Renew.
  Proof. intros i rnd now Hi H. apply renew_within_five_intervals. unfold remaining. lia. Qed.

  (** after the ARI-selected time less one maintenance interval *)
  Theorem renew_after_selected_time : forall i rnd now s, disable_ari i = false ->
    select (ari i) rnd = Sel s -> s - interval i < now -> decide i rnd now = Renew.
  Proof.
    intros i rnd now s Hd Hs H. apply decide_renew_iff. right. split; [exact Hd|]. exists s.
    split; [exact Hs|]. unfold Model.ari_due. replace (now >? s - interval i) with true by lia. reflexivity.
  Qed.

  (** ARI cannot postpone renewal once the final 1/20 of the lifetime has begun *)
  Theorem ari_cannot_postpone_past_one_twentieth : forall i rnd now s, wf i ->
    disable_ari i = false -> select (ari i) rnd = Sel s ->
    20 * remaining i now < lifetime i - 20 * eps (lifetime i) ->
    decide i rnd now = Renew.
  Proof.
    intros i rnd now s Hwf Hd Hs H. destruct (wf_facts i Hwf) as (Hi & HL & Hr).
    apply decide_renew_iff. right. split; [exact Hd|]. exists s. split; [exact Hs|].
    unfold Model.ari_due. rewrite expires_at_spec.
    rewrite (window_inside now (not_before i) (spec_expiry (not_after i)) ari_emergency_ratio HL).
    - apply orb_true_r.
    - rewrite eff_ratio_ari. cbn. lia.
    - rewrite eff_ratio_ari. cbn [fst snd]. unfold remaining, lifetime in H. lia.
  Qed.

  (** ** wait when nothing is due *)
  Theorem wait_when_nothing_due : forall i rnd now, wf i ->
    snd (eff_ratio (cfg_ratio i)) * remaining i now >=
      fst (eff_ratio (cfg_ratio i)) * lifetime i + snd (eff_ratio (cfg_ratio i)) * eps (lifetime i) ->
    50 * remaining i now >= lifetime i + 50 * eps (lifetime i) ->
    remaining i now >= 5 * interval i ->
    (forall s, disable_ari i = false -> select (ari i) rnd = Sel s ->
       now <= s - interval i /\ 20 * remaining i now >= lifetime i + 20 * eps (lifetime i)) ->
    decide i rnd now = Wait.
  Proof.
    intros i rnd now Hwf Hc H50 H5 Hari. destruct (wf_facts i Hwf) as (Hi & HL & Hr).
    destruct (decide_wait_or_renew i rnd now) as [W|R]; [exact W|]. exfalso.
    apply decide_renew_iff in R.
    assert (E : expiry_due i now = false).
    { unfold Model.expiry_due. rewrite expires_at_spec.
      rewrite (window_outside now (not_before i) (spec_expiry (not_after i)) (cfg_ratio i) HL Hr Hc).
      rewrite (window_outside now (not_before i) (spec_expiry (not_after i)) imminent_ratio HL).
      - replace imminent_interval_factor with 5 by reflexivity. unfold remaining in H5. cbn [orb]. lia.
      - rewrite eff_ratio_imm. cbn. lia.
      - rewrite eff_ratio_imm. cbn [fst snd]. unfold remaining, lifetime in H50. lia. }
    destruct R as [R|[Hd [s [Hs R]]]]; [congruence|].
    destruct (Hari s Hd Hs) as [Hcut H20]. unfold Model.ari_due in R. rewrite expires_at_spec in R.
    rewrite (window_outside now (not_before i) (spec_expiry (not_after i)) ari_emergency_ratio HL) in R.
    - replace (now >? s - interval i) with false in R by lia. discriminate.
    - rewrite eff_ratio_ari. cbn. lia.
    - rewrite eff_ratio_ari. cbn [fst snd]. unfold remaining, lifetime in H20. lia.
  Qed.

  (** renewal information whose window lies in the future never triggers an immediate renewal:
      whatever time is drawn from a window that starts at least one interval from now *)
  Theorem future_window_never_immediate : forall i rnd now ws we, wf i -> admissible i rnd ->
    sel (ari i) = None -> wstart (ari i) = Some ws -> wend (ari i) = Some we ->
    now + interval i <= ws ->
    snd (eff_ratio (cfg_ratio i)) * remaining i now >=
      fst (eff_ratio (cfg_ratio i)) * lifetime i + snd (eff_ratio (cfg_ratio i)) * eps (lifetime i) ->
    20 * remaining i now >= lifetime i + 20 * eps (lifetime i) ->
    remaining i now >= 5 * interval i ->
    decide i rnd now = Wait.
  Proof.
    intros i rnd now ws we Hwf Ha Hs Hws Hwe Hfut Hc H20 H5.
    destruct (wf_facts i Hwf) as (Hi & HL & Hr).
    apply wait_when_nothing_due; try assumption.
    - pose proof (eps_pos (lifetime i) HL). lia.
    - intros s Hd Hsel. split; [|exact H20].
      destruct (improvised_in_window i rnd ws we Ha Hd Hs Hws Hwe) as (s' & E & _ & B & _).
      rewrite E in Hsel. inversion Hsel. subst. lia.
  Qed.

  (** the same for any WELL-FORMED renewal info (selected time unset, or inside the window it comes
      with): a window that starts at least one interval from now never triggers an immediate
      renewal, unless a validity-based rule fires *)
  Theorem wf_future_window_never_immediate : forall i rnd now ws we, wf i -> admissible i rnd ->
    ari_wfb (ari i) = true -> wstart (ari i) = Some ws -> wend (ari i) = Some we ->
    now + interval i <= ws ->
    snd (eff_ratio (cfg_ratio i)) * remaining i now >=
      fst (eff_ratio (cfg_ratio i)) * lifetime i + snd (eff_ratio (cfg_ratio i)) * eps (lifetime i) ->
    20 * remaining i now >= lifetime i + 20 * eps (lifetime i) ->
    remaining i now >= 5 * interval i ->
    decide i rnd now = Wait.
  Proof.
    intros i rnd now ws we Hwf Ha Hwfa Hws Hwe Hfut Hc H20 H5.
    destruct (sel (ari i)) as [s0|] eqn:Hs.
    - destruct (wf_facts i Hwf) as (Hi & HL & Hr).
      apply wait_when_nothing_due; try assumption.
      + pose proof (eps_pos (lifetime i) HL). lia.
      + intros s Hd Hsel. split; [|exact H20].
        unfold select in Hsel. rewrite Hs in Hsel. inversion Hsel. subst s0.
        unfold ari_wfb in Hwfa. rewrite Hs, Hws, Hwe in Hwfa. lia.
    - eapply future_window_never_immediate; eassumption.
  Qed.

  (** ... hence for the info [updateARI] leaves behind: old info and the CA's answer well-formed, the
      CA's window starts at least one interval from now => wait, whatever the old selected time was *)
  Theorem refreshed_future_window_never_immediate : forall i old fresh rnd now ws we, wf i ->
    ari_wfb old = true -> ari_wfb fresh = true -> wstart fresh = Some ws -> wend fresh = Some we ->
    admissible (with_ari i (refresh_ari old fresh)) rnd ->
    now + interval i <= ws ->
    snd (eff_ratio (cfg_ratio i)) * remaining i now >=
      fst (eff_ratio (cfg_ratio i)) * lifetime i + snd (eff_ratio (cfg_ratio i)) * eps (lifetime i) ->
    20 * remaining i now >= lifetime i + 20 * eps (lifetime i) ->
    remaining i now >= 5 * interval i ->
    decide (with_ari i (refresh_ari old fresh)) rnd now = Wait.
  Proof.
    intros i old fresh rnd now ws we Hwf Ho Hf Hws Hwe Ha Hfut Hc H20 H5.
    destruct (refresh_window old fresh) as [Es Ee].
    apply (wf_future_window_never_immediate (with_ari i (refresh_ari old fresh)) rnd now ws we);
      try assumption.
    - cbn [with_ari ari]. apply refresh_wf; assumption.
    - cbn [with_ari ari]. congruence.
    - cbn [with_ari ari]. congruence.
  Qed.

  (** * The boolean specification holds of the model *)

  Lemma must_renew_sound : forall i rnd now, wf i -> admissible i rnd ->
    must_renew i now = true -> decide i rnd now = Renew.
  Proof.
    intros i rnd now Hwf Ha H. unfold must_renew, insideb in H.
    rewrite !orb_true_iff in H. destruct H as [[[H|H]|H]|H].
    - apply renew_in_configured_fraction; [exact Hwf|lia].
    - apply renew_in_final_fiftieth; [exact Hwf|lia].
    - apply renew_within_five_intervals. lia.
    - destruct (sel_bounds i) as [[lo hi]|] eqn:E; [|discriminate].
      assert (Hd : disable_ari i = false).
      { unfold sel_bounds in E. destruct (disable_ari i); [discriminate|reflexivity]. }
      pose proof (select_bounds i rnd Hd Ha) as P. rewrite E in P. destruct P as [s [Hs B]].
      apply orb_true_iff in H. destruct H as [H|H].
      + apply (renew_after_selected_time i rnd now s Hd Hs). lia.
      + apply (ari_cannot_postpone_past_one_twentieth i rnd now s Hwf Hd Hs). lia.
  Qed.

  Lemma must_wait_sound : forall i rnd now, wf i -> admissible i rnd ->
    must_wait i now = true -> decide i rnd now = Wait.
  Proof.
    intros i rnd now Hwf Ha H. unfold must_wait, outsideb in H.
    rewrite !andb_true_iff in H. destruct H as [[[Hc H50] H5] Hs].
    apply wait_when_nothing_due; try assumption; try lia.
    intros s Hd Hsel. pose proof (select_bounds i rnd Hd Ha) as P.
    destruct (sel_bounds i) as [[lo hi]|]; [|congruence].
    destruct P as [s' [E B]]. rewrite E in Hsel. inversion Hsel. subst s'. lia.
  Qed.

  (** the implementation is called once between two clock readings t0 <= t1; the model, at
      any instant in between and for any admissible draw, satisfies the specification *)
  Theorem spec_sound : forall i rnd t0 now t1, admissible i rnd -> t0 <= now <= t1 ->
    spec_ok i t0 t1 (decide i rnd now) = true.
  Proof.
    intros i rnd t0 now t1 Ha [H0 H1]. unfold spec_ok.
    pose proof (no_panic i rnd now) as NP.
    apply andb_true_iff. split. { destruct (decide i rnd now); try reflexivity. congruence. }
    destruct (wfb i) eqn:Hwf; [|reflexivity]. cbn [negb orb].
    apply andb_true_iff. split.
    - destruct (must_renew i t0) eqn:M; [|reflexivity]. cbn [negb orb].
      rewrite (monotone_in_now i rnd t0 now H0 (must_renew_sound i rnd t0 Hwf Ha M)). reflexivity.
    - destruct (must_wait i t1) eqn:M; [|reflexivity]. cbn [negb orb].
      pose proof (must_wait_sound i rnd t1 Hwf Ha M) as W.
      destruct (decide_wait_or_renew i rnd now) as [E|E]; rewrite E; [reflexivity|].
      rewrite (monotone_in_now i rnd now t1 H1 E) in W. discriminate.
  Qed.
End WithScale.

(** * The hypothesis on [scale] is satisfiable: exact rational arithmetic rounded down *)
Definition scale_floor (L : Z) (r : ratio) : Z := fst r * L / snd r.

Lemma scale_floor_ok : scale_spec scale_floor.
Proof.
  intros L n d HL Hr. unfold scale_floor. cbn [fst snd].
  pose proof (eps_pos L HL). split.
  - apply Z.div_pos; nia.
  - apply Z.abs_le. assert (0 <= n * L) by nia. Z.div_mod_to_equations. nia.
Qed.

(** * Without a selected time the verdict can go back from renew to wait (the draw is repeated
      on every call): why the property's last clause is restricted *)
Definition flip_inputs : inputs :=
  Inputs 0 (90 * 86400 * second) (600 * second) (1, 3) false
         (Ari None (Some (30 * 86400 * second)) (Some (32 * 86400 * second))).

Lemma monotone_fails_across_draws :
  exists rnd rnd' now now', admissible flip_inputs rnd /\ admissible flip_inputs rnd' /\ now <= now' /\
    decide scale_floor flip_inputs rnd now = Renew /\ decide scale_floor flip_inputs rnd' now' = Wait.
Proof.
  exists 0, 100000, (30 * 86400 * second), (30 * 86400 * second + second).
  vm_compute. repeat split; congruence.
Qed.

(** * The well-formedness hypothesis is needed: a stale selected time that precedes a window the CA
      moved later makes a certificate 10 days into a 90-day lifetime due 20 days before its window *)
Definition stale_inputs : inputs :=
  Inputs 0 (90 * 86400 * second) (600 * second) (1, 3) false
         (Ari (Some (8 * 86400 * second)) (Some (30 * 86400 * second)) (Some (32 * 86400 * second))).

Lemma stale_selected_time_renews :
  ari_wfb (ari stale_inputs) = false /\ wf stale_inputs /\ admissible stale_inputs 0 /\
  decide scale_floor stale_inputs 0 (10 * 86400 * second) = Renew /\
  decide scale_floor (with_ari stale_inputs
      (refresh_ari (Ari (Some (8 * 86400 * second)) (Some (7 * 86400 * second)) (Some (9 * 86400 * second)))
                   (Ari None (Some (30 * 86400 * second)) (Some (32 * 86400 * second))))) 0 (10 * 86400 * second) = Wait.
Proof. vm_compute. repeat split; congruence. Qed.
