(** Renewal decision (C04): executable model of [Config.certNeedsRenewal],
    [currentlyInRenewalWindow] and [expiresAt] (certificates.go) and of the wrapper
    [Config.managedCertNeedsRenewal] (config.go), as the code is NOW (after the two fix: commits:
    the cut-off uses the improvised selected time; a window of a second or less is widened to
    one second before [rand.Int63n] is called).

    Instants are [Z] Unix nanoseconds, durations [Z] nanoseconds.  A [time.Time] that [IsZero]
    is [None].  Two things the code gets from outside are inputs of the model:
    - [scale L r] = [time.Duration(float64(L) * r)], the float64 product (a [Section] variable:
      the theorems hold for every [scale] within a stated tolerance; the instance the check runs
      is the exact integer model of the float64 arithmetic [Renewal.F64.scale_f64], proved to be
      within the tolerance in F64Proofs.v and compared with Go's result on every case);
    - [rnd] = the value returned by [rand.Int63n] when a renewal time is improvised.

    Numeric literals of the code ([ari_emergency_ratio], [imminent_ratio],
    [imminent_interval_factor], [default_renewal_ratio], [expiry_truncate], [expiry_add]) come
    from [Gen.Consts], regenerated from the source on every run.  Definitions only. *)
From Coq Require Import ZArith List Bool.
From CM Require Import Gen.Consts.
Import ListNotations.
Open Scope Z_scope.

Inductive verdict := Wait | Renew | Panic.
Definition verdict_eqb (a b : verdict) : bool :=
  match a, b with Wait, Wait | Renew, Renew | Panic, Panic => true | _, _ => false end.
Definition of_bool (b : bool) : verdict := if b then Renew else Wait.

(** a ratio is an exact rational (numerator, denominator); the code's float64 is the nearest
    double, the difference is part of what [scale] abstracts *)
Definition ratio := (Z * Z)%type.
Definition second : Z := 1000000000.

(** acme.RenewalInfo: _selectedTime, suggestedWindow.start/end ([None] = zero time) *)
Record ari_info := Ari { sel : option Z; wstart : option Z; wend : option Z }.
Definition no_ari : ari_info := Ari None None None.

Record inputs := Inputs {
  not_before : Z;        (* leaf.NotBefore *)
  not_after : Z;         (* leaf.NotAfter *)
  interval : Z;          (* cfg.certCache.options.RenewCheckInterval *)
  cfg_ratio : ratio;     (* cfg.RenewalWindowRatio; numerator 0 = unset *)
  disable_ari : bool;    (* cfg.DisableARI *)
  ari : ari_info
}.

(** expiresAt: NotAfter.Truncate(time.Second).Add(1 * time.Second) *)
Definition expires_at (na : Z) : Z := (na / expiry_truncate) * expiry_truncate + expiry_add.

(** currentlyInRenewalWindow: [if renewalWindowRatio == 0 { renewalWindowRatio = Default… }] *)
Definition eff_ratio (r : ratio) : ratio := if fst r =? 0 then default_renewal_ratio else r.

(** the selected renewal time the ARI branch works with *)
Inductive selection := NoSel | Sel (s : Z) | SelPanic.

(** start, end := Start.Unix()+1, End.Unix(); if end <= start { end = start + 1 } *)
Definition improv_range (ws we : Z) : Z * Z :=
  let start := ws / second + 1 in
  let e0 := we / second in
  (start, if e0 <=? start then start + 1 else e0).

(** argument of rand.Int63n when a time is improvised *)
Definition improv_n (a : ari_info) : option Z :=
  match sel a, wstart a, wend a with
  | None, Some ws, Some we => let '(start, e) := improv_range ws we in Some (e - start)
  | _, _, _ => None
  end.

Definition select (a : ari_info) (rnd : Z) : selection :=
  match sel a with
  | Some s => Sel s
  | None =>
      match wstart a, wend a with
      | Some ws, Some we =>
          let '(start, e) := improv_range ws we in
          if e - start <=? 0 then SelPanic               (* rand.Int63n panics if n <= 0 *)
          else Sel ((rnd + start) * second)              (* time.Unix(rand.Int63n(end-start)+start, 0) *)
      | _, _ => NoSel
      end
  end.

(** managedCertNeedsRenewal reads the stored ARI only if ARI is not disabled *)
Definition managed_inputs (i : inputs) : inputs :=
  Inputs (not_before i) (not_after i) (interval i) (cfg_ratio i) (disable_ari i)
         (if disable_ari i then no_ari else ari i).

Section Decide.
  Variable scale : Z -> ratio -> Z.

  (** currentlyInRenewalWindow(notBefore, notAfter := expiration, ratio) at clock reading [now] *)
  Definition window (nb exp : Z) (r : ratio) : Z := scale (exp - nb) (eff_ratio r).
  Definition in_window (now nb exp : Z) (r : ratio) : bool := now >? exp - window nb exp r.

  (** the part of the decision that looks only at the validity period *)
  Definition expiry_due (i : inputs) (now : Z) : bool :=
    let exp := expires_at (not_after i) in
    in_window now (not_before i) exp (cfg_ratio i)
    || in_window now (not_before i) exp imminent_ratio
    || (exp - now <? interval i * imminent_interval_factor).

  (** the ARI branch for a selected time [s] *)
  Definition ari_due (i : inputs) (s now : Z) : bool :=
    (now >? s - interval i)
    || in_window now (not_before i) (expires_at (not_after i)) ari_emergency_ratio.

  Definition decide (i : inputs) (rnd now : Z) : verdict :=
    if disable_ari i then of_bool (expiry_due i now)
    else match select (ari i) rnd with
         | SelPanic => Panic
         | NoSel => of_bool (expiry_due i now)
         | Sel s => of_bool (ari_due i s now || expiry_due i now)
         end.

  (** certNeedsRenewal including the nil-leaf guard *)
  Definition decide_leaf (has_leaf : bool) (i : inputs) (rnd now : Z) : verdict :=
    if has_leaf then decide i rnd now else Wait.

  (** managedCertNeedsRenewal: unparsable bundle => true; ARI taken only if not disabled *)
  Definition managed_decide (parsed : bool) (i : inputs) (rnd now : Z) : verdict :=
    if parsed then decide (managed_inputs i) rnd now else Renew.

  (** admissible values of [rnd]: 0 <= rnd < n where n is the argument of rand.Int63n (1 if the
      generator is not consulted) *)
  Definition rnd_bound (i : inputs) : Z :=
    if disable_ari i then 1 else match improv_n (ari i) with Some n => n | None => 1 end.
  Definition improvises (i : inputs) : bool :=
    negb (disable_ari i) && match improv_n (ari i) with Some _ => true | None => false end.

  (** the verdict if it is the same for every admissible [rnd] *)
  Definition decide_all_rnd (i : inputs) (now : Z) : option verdict :=
    let v0 := decide i 0 now in
    let v1 := decide i (rnd_bound i - 1) now in
    if verdict_eqb v0 v1 then Some v0 else None.
End Decide.

Definition admissible (i : inputs) (rnd : Z) : Prop := 0 <= rnd < rnd_bound i.

(** * Specification vocabulary: the property in exact rational arithmetic *)

(** certificate is valid through the whole second NotAfter (ASN.1 times have 1 s resolution) *)
Definition spec_expiry (na : Z) : Z := (na / second) * second + second.
Definition lifetime (i : inputs) : Z := spec_expiry (not_after i) - not_before i.
Definition remaining (i : inputs) (now : Z) : Z := spec_expiry (not_after i) - now.

(** tolerance of the float64 product, in ns: 2 + L / 2^50 (256 ns for a ten-year lifetime) *)
Definition eps (L : Z) : Z := 2 + L / 2 ^ 50.

(** [now] is in the final n/d of the lifetime / before it, beyond the tolerance *)
Definition insideb (i : inputs) (now n d : Z) : bool :=
  d * remaining i now <? n * lifetime i - d * eps (lifetime i).
Definition outsideb (i : inputs) (now n d : Z) : bool :=
  d * remaining i now >=? n * lifetime i + d * eps (lifetime i).

Definition ratio_okb (r : ratio) : bool := (0 <? snd r) && (0 <=? fst r) && (fst r <=? snd r).
Definition wfb (i : inputs) : bool :=
  (0 <? interval i) && (not_before i <=? not_after i) && ratio_okb (cfg_ratio i).

(** earliest / latest renewal time ARI can stand for (None: no ARI time at all) *)
Definition sel_bounds (i : inputs) : option (Z * Z) :=
  if disable_ari i then None else
  match sel (ari i) with
  | Some s => Some (s, s)
  | None =>
      match wstart (ari i), wend (ari i) with
      | Some ws, Some we =>
          let lo := ws / second + 1 in
          let hi := Z.max lo (we / second - 1) in
          Some (lo * second, hi * second)
      | _, _ => None
      end
  end.

(** some clause of the property demands renewal at [now] *)
Definition must_renew (i : inputs) (now : Z) : bool :=
  let r := eff_ratio (cfg_ratio i) in
  insideb i now (fst r) (snd r) || insideb i now 1 50 || (remaining i now <? 5 * interval i)
  || match sel_bounds i with
     | Some (_, hi) => (now >? hi - interval i) || insideb i now 1 20
     | None => false
     end.
(** no clause of the property allows renewal at [now] *)
Definition must_wait (i : inputs) (now : Z) : bool :=
  let r := eff_ratio (cfg_ratio i) in
  outsideb i now (fst r) (snd r) && outsideb i now 1 50 && (remaining i now >=? 5 * interval i)
  && match sel_bounds i with
     | Some (lo, _) => (now <=? lo - interval i) && outsideb i now 1 20
     | None => true
     end.

(** the property on one observation: the implementation was called between clock readings
    [t0] and [t1] and answered [obs] *)
Definition spec_ok (i : inputs) (t0 t1 : Z) (obs : verdict) : bool :=
  negb (verdict_eqb obs Panic)
  && (negb (wfb i)
      || ((negb (must_renew i t0) || verdict_eqb obs Renew)
          && (negb (must_wait i t1) || verdict_eqb obs Wait))).

(** what is assumed of the float64 product (validated on every case of every run) *)
Definition scale_okb (w L n d : Z) : bool := (0 <=? w) && (Z.abs (d * w - n * L) <=? d * eps L).

(** * How the renewal info a certificate carries is produced: [Config.updateARI] (maintain.go),
      the branch that asks the issuer ([RenewalInfoGetter]) for fresh info.

      [newARI.SameWindow(oldARI) && !oldARI.SelectedTime.IsZero()] => the old selected time is put
      back; otherwise the fresh info is taken as it is (the acme package selects a time inside the
      fresh window, or leaves it unset, and [certNeedsRenewal] then improvises one inside the NEW
      window).  The result goes into the returned certificate, the cache entry and the stored
      metadata.  [time.Time.Equal] on instants; the zero time is [None]. *)
Definition optz_eqb (a b : option Z) : bool :=
  match a, b with
  | Some x, Some y => x =? y
  | None, None => true
  | _, _ => false
  end.
Definition ari_eqb (a b : ari_info) : bool :=
  optz_eqb (sel a) (sel b) && optz_eqb (wstart a) (wstart b) && optz_eqb (wend a) (wend b).
Definition same_window (a b : ari_info) : bool :=
  optz_eqb (wstart a) (wstart b) && optz_eqb (wend a) (wend b).
Definition has_sel (a : ari_info) : bool := match sel a with Some _ => true | None => false end.

Definition refresh_ari (old fresh : ari_info) : ari_info :=
  if same_window fresh old && has_sel old then Ari (sel old) (wstart fresh) (wend fresh) else fresh.

Definition with_ari (i : inputs) (a : ari_info) : inputs :=
  Inputs (not_before i) (not_after i) (interval i) (cfg_ratio i) (disable_ari i) a.

(** well-formedness of renewal info: the selected time is zero (unset) or lies inside the window
    it comes with *)
Definition ari_wfb (a : ari_info) : bool :=
  match sel a with
  | None => true
  | Some s =>
      match wstart a, wend a with
      | Some ws, Some we => (ws <=? s) && (s <=? we)
      | _, _ => false
      end
  end.

(** the property on refreshed info [got] (what updateARI left on a certificate / in storage), given
    the info it replaced and what the CA answered: it carries the CA's window, and — when both
    ingredients were well-formed — it is well-formed *)
Definition refresh_ok (old fresh got : ari_info) : bool :=
  same_window got fresh && (negb (ari_wfb old && ari_wfb fresh) || ari_wfb got).
