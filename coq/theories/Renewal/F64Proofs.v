(** The exact float64 model [scale_f64] (F64.v) meets the hypothesis [scale_spec] under which
    the C04 theorems are proved: three roundings of relative error 2^-53 (2^-52.7 for the
    ratio) and one truncation stay within eps L = 2 + L / 2^50. *)
From Coq Require Import ZArith Bool Lia.
From CM Require Import Gen.Consts Renewal.Model Renewal.F64 Renewal.Proofs.
Open Scope Z_scope.

Lemma pow2_pos : forall e, 0 < 2 ^ e \/ e < 0.
Proof. intros e. destruct (Z_lt_le_dec e 0); [right; assumption|left; apply Z.pow_pos_nonneg; lia]. Qed.

(** round53: nonnegative result, relative error at most 2^-53 *)
Lemma round53_spec : forall x sticky, 0 <= x ->
  0 <= snd (round53 x sticky) /\ 0 <= fst (round53 x sticky) /\
  2 ^ 53 * Z.abs (fst (round53 x sticky) * 2 ^ snd (round53 x sticky) - x) <= x.
Proof.
  intros x sticky Hx. unfold round53.
  destruct (Z.log2 x + 1 <=? 53) eqn:E.
  - cbn [fst snd]. rewrite Z.pow_0_r, Z.mul_1_r, Z.sub_diag. cbn. lia.
  - assert (Hb : 53 < Z.log2 x + 1) by lia.
    assert (Hx0 : 0 < x). { destruct (Z.eq_dec x 0); [subst; cbn in Hb; lia|lia]. }
    set (sh := Z.log2 x + 1 - 53). assert (Hsh : 0 < sh) by (unfold sh; lia).
    destruct (Z.log2_spec x Hx0) as [Hlo _].
    assert (Hpow : 2 ^ Z.log2 x = 2 ^ 52 * 2 ^ sh).
    { rewrite <- Z.pow_add_r by lia. f_equal. unfold sh. lia. }
    assert (P : 0 < 2 ^ sh) by (apply Z.pow_pos_nonneg; lia).
    assert (Hhalf : 2 ^ sh = 2 * 2 ^ (sh - 1)).
    { replace sh with (1 + (sh - 1)) at 1 by lia. rewrite Z.pow_add_r by lia. reflexivity. }
    set (half := 2 ^ (sh - 1)) in *.
    pose proof (Z.div_mod x (2 ^ sh) ltac:(lia)) as DM.
    pose proof (Z.mod_pos_bound x (2 ^ sh) P) as MB.
    set (q := x / 2 ^ sh) in *. set (r := x mod 2 ^ sh) in *.
    assert (Hq : 0 <= q) by (unfold q; apply Z.div_pos; lia).
    set (up := (r >? half) || ((r =? half) && (sticky || Z.odd q))).
    cbn [fst snd]. split; [lia|]. destruct up eqn:U.
    + split; [lia|].
      assert (half <= r).
      { unfold up in U. apply orb_true_iff in U. destruct U as [U|U]; [lia|].
        apply andb_true_iff in U. lia. }
      replace ((q + 1) * 2 ^ sh - x) with (2 ^ sh - r) by lia.
      rewrite Z.abs_eq by lia. lia.
    + split; [lia|].
      assert (r <= half).
      { unfold up in U. apply orb_false_iff in U. lia. }
      replace (q * 2 ^ sh - x) with (- r) by lia.
      rewrite Z.abs_opp, Z.abs_eq by lia. lia.
Qed.

(** the ratio as a double: d * mr * 2^sr is within 5/4 * 2^-53 of n * 2^k *)
Lemma ratio_spec : forall n d, 0 < n -> 0 < d ->
  let k := 56 + Z.log2 d in
  let x := (n * 2 ^ k) / d in
  let sticky := negb ((n * 2 ^ k) mod d =? 0) in
  0 <= snd (round53 x sticky) /\ 0 <= fst (round53 x sticky) /\
  2 ^ 55 * Z.abs (d * (fst (round53 x sticky) * 2 ^ snd (round53 x sticky)) - n * 2 ^ k) <= 5 * (n * 2 ^ k).
Proof.
  intros n d Hn Hd k x sticky.
  assert (Hk : 0 <= Z.log2 d) by apply Z.log2_nonneg.
  assert (P : 0 < 2 ^ k) by (apply Z.pow_pos_nonneg; unfold k; lia).
  destruct (Z.log2_spec d Hd) as [_ Hhi].
  assert (Hbig : 2 ^ 55 * d <= n * 2 ^ k).
  { unfold k. rewrite Z.pow_add_r by lia. replace 56 with (55 + 1) by lia.
    rewrite Z.pow_add_r by lia. rewrite Z.pow_succ_r in Hhi by lia.
    assert (0 < 2 ^ 55) by (apply Z.pow_pos_nonneg; lia). nia. }
  assert (Hx : 2 ^ 55 <= x). { unfold x. apply Z.div_le_lower_bound; lia. }
  pose proof (Z.div_mod (n * 2 ^ k) d ltac:(lia)) as DM.
  pose proof (Z.mod_pos_bound (n * 2 ^ k) d Hd) as MB. fold x in DM.
  set (rem := (n * 2 ^ k) mod d) in *.
  destruct (round53_spec x sticky ltac:(lia)) as (A & B & C).
  split; [exact A|]. split; [exact B|].
  set (y := fst (round53 x sticky) * 2 ^ snd (round53 x sticky)) in *.
  replace (d * y - n * 2 ^ k) with (d * (y - x) - rem) by lia.
  assert (T : Z.abs (d * (y - x) - rem) <= d * Z.abs (y - x) + d).
  { eapply Z.le_trans; [apply Z.abs_triangle|]. rewrite Z.abs_opp, Z.abs_mul.
    rewrite (Z.abs_eq d) by lia. rewrite (Z.abs_eq rem) by lia. lia. }
  assert (0 <= Z.abs (y - x)) by apply Z.abs_nonneg.
  assert (2 ^ 53 * (d * Z.abs (y - x)) <= d * x) by nia.
  assert (0 < 2 ^ 53) by (apply Z.pow_pos_nonneg; lia).
  replace (2 ^ 55) with (4 * 2 ^ 53) in * by reflexivity.
  nia.
Qed.

Lemma trunc_pow_div : forall m s k, 0 <= m -> 0 <= s -> 0 <= k ->
  trunc_pow m (s - k) = (m * 2 ^ s) / 2 ^ k.
Proof.
  intros m s k Hm Hs Hk. unfold trunc_pow. destruct (0 <=? s - k) eqn:E.
  - replace s with ((s - k) + k) at 2 by lia. rewrite Z.pow_add_r by lia.
    rewrite Z.mul_assoc. rewrite Z.div_mul; [reflexivity|]. apply Z.pow_nonzero; lia.
  - replace k with (s + (- (s - k))) at 2 by lia. rewrite Z.pow_add_r by lia.
    rewrite (Z.mul_comm m (2 ^ s)).
    rewrite Z.div_mul_cancel_l; [reflexivity| |]; apply Z.pow_nonzero; lia.
Qed.

Lemma abs_mul_le : forall a b A B, Z.abs a <= A -> Z.abs b <= B -> Z.abs (a * b) <= A * B.
Proof.
  intros a b A B Ha Hb. rewrite Z.abs_mul.
  pose proof (Z.abs_nonneg a). pose proof (Z.abs_nonneg b). nia.
Qed.

Lemma floor50 : forall L, 0 <= L -> L < 2 ^ 50 * (L / 2 ^ 50 + 1) /\ 0 <= L / 2 ^ 50.
Proof.
  intros L HL. pose proof (Z.div_mod L (2 ^ 50) ltac:(lia)).
  pose proof (Z.mod_pos_bound L (2 ^ 50) ltac:(lia)).
  split; [lia|apply Z.div_pos; lia].
Qed.

(** the three rounding errors add up to less than 30/4 * 2^-53 of L * N *)
Lemma err_sum : forall c L N e1 e2 T, 2 <= c -> 0 <= L -> 0 < N ->
  c * Z.abs e1 <= L -> 4 * c * Z.abs e2 <= 5 * N -> c * Z.abs T <= (L + e1) * (N + e2) ->
  4 * c * Z.abs (L * e2 + e1 * N + e1 * e2 + T) <= 30 * (L * N).
Proof.
  intros c L N e1 e2 T Hc HL HN E1 E2 HT.
  assert (N1 : 0 <= Z.abs e1) by apply Z.abs_nonneg.
  assert (N2 : 0 <= Z.abs e2) by apply Z.abs_nonneg.
  assert (A1 : Z.abs e1 <= L).
  { apply Z.le_trans with (c * Z.abs e1); [|exact E1].
    rewrite <- (Z.mul_1_l (Z.abs e1)) at 1. apply Z.mul_le_mono_nonneg_r; lia. }
  assert (A2 : Z.abs e2 <= N).
  { assert (8 * Z.abs e2 <= 4 * c * Z.abs e2).
    { replace (4 * c * Z.abs e2) with ((4 * c) * Z.abs e2) by ring. apply Z.mul_le_mono_nonneg_r; lia. }
    lia. }
  assert (HA : 0 <= L + e1 <= 2 * L) by lia.
  assert (HB : 0 <= N + e2 <= 2 * N) by lia.
  assert (HAB : (L + e1) * (N + e2) <= 4 * (L * N)).
  { replace (4 * (L * N)) with ((2 * L) * (2 * N)) by ring. apply Z.mul_le_mono_nonneg; lia. }
  assert (S1 : 4 * c * Z.abs (L * e2) <= 5 * (L * N)).
  { rewrite Z.abs_mul, (Z.abs_eq L) by lia.
    replace (4 * c * (L * Z.abs e2)) with (L * (4 * c * Z.abs e2)) by ring.
    replace (5 * (L * N)) with (L * (5 * N)) by ring.
    apply Z.mul_le_mono_nonneg_l; lia. }
  assert (S2 : 4 * c * Z.abs (e1 * N) <= 4 * (L * N)).
  { rewrite Z.abs_mul, (Z.abs_eq N) by lia.
    replace (4 * c * (Z.abs e1 * N)) with ((4 * N) * (c * Z.abs e1)) by ring.
    replace (4 * (L * N)) with ((4 * N) * L) by ring.
    apply Z.mul_le_mono_nonneg_l; lia. }
  assert (S3 : 4 * c * Z.abs (e1 * e2) <= 5 * (L * N)).
  { rewrite Z.abs_mul.
    replace (4 * c * (Z.abs e1 * Z.abs e2)) with (Z.abs e1 * (4 * c * Z.abs e2)) by ring.
    apply Z.le_trans with (Z.abs e1 * (5 * N)).
    - apply Z.mul_le_mono_nonneg_l; lia.
    - replace (5 * (L * N)) with (L * (5 * N)) by ring. apply Z.mul_le_mono_nonneg_r; lia. }
  assert (S4 : 4 * c * Z.abs T <= 16 * (L * N)) by lia.
  pose proof (Z.abs_triangle (L * e2 + e1 * N + e1 * e2) T) as T1.
  pose proof (Z.abs_triangle (L * e2 + e1 * N) (e1 * e2)) as T2.
  pose proof (Z.abs_triangle (L * e2) (e1 * N)) as T3.
  set (x1 := Z.abs (L * e2)) in *. set (x2 := Z.abs (e1 * N)) in *. set (x3 := Z.abs (e1 * e2)) in *.
  set (x4 := Z.abs T) in *. set (y1 := Z.abs (L * e2 + e1 * N)) in *.
  set (y2 := Z.abs (L * e2 + e1 * N + e1 * e2)) in *.
  set (y3 := Z.abs (L * e2 + e1 * N + e1 * e2 + T)) in *.
  clearbody x1 x2 x3 x4 y1 y2 y3. clear - Hc S1 S2 S3 S4 T1 T2 T3. nia.
Qed.

Lemma final_bound : forall L N D f X, 0 <= X -> 32 * 2 ^ 50 * X <= 30 * (L * N) ->
  0 <= L < 2 ^ 50 * (f + 1) -> 0 <= f -> 0 < N <= D -> X <= D * (1 + f).
Proof.
  intros L N D f X HX S HL Hf HN.
  assert (LN : L * N <= (2 ^ 50 * (f + 1)) * D) by (apply Z.mul_le_mono_nonneg; lia).
  set (Y := D * (1 + f)).
  assert (HY : 0 <= Y) by (unfold Y; apply Z.mul_nonneg_nonneg; lia).
  replace (2 ^ 50 * (f + 1) * D) with (2 ^ 50 * Y) in LN by (unfold Y; ring).
  set (LNp := L * N) in *. clearbody LNp Y. clear - HX S LN HY.
  change (2 ^ 50) with 1125899906842624 in *. lia.
Qed.

Lemma trunc_bound : forall d pk V n L f, 0 < pk -> 0 < d -> 0 <= f ->
  Z.abs (d * V - L * (n * pk)) <= d * pk * (1 + f) ->
  Z.abs (d * (V / pk) - n * L) <= d * (2 + f).
Proof.
  intros d pk V n L f Hpk Hd Hf H.
  pose proof (Z.div_mod V pk ltac:(lia)) as DM. pose proof (Z.mod_pos_bound V pk Hpk) as MB.
  set (w := V / pk) in *. set (r := V mod pk) in *.
  assert (Hfin : pk * Z.abs (d * w - n * L) <= pk * (d * (2 + f))).
  { rewrite <- (Z.abs_eq pk) at 1 by lia. rewrite <- Z.abs_mul.
    replace (pk * (d * w - n * L)) with ((d * V - L * (n * pk)) + - (d * r)) by (rewrite DM; ring).
    eapply Z.le_trans; [apply Z.abs_triangle|]. rewrite Z.abs_opp.
    assert (0 <= d * r <= d * pk).
    { split; [apply Z.mul_nonneg_nonneg; lia|apply Z.mul_le_mono_nonneg_l; lia]. }
    rewrite (Z.abs_eq (d * r)) by lia.
    replace (pk * (d * (2 + f))) with (d * pk * (1 + f) + d * pk) by ring. lia. }
  apply Z.mul_le_mono_pos_l in Hfin; [exact Hfin|lia].
Qed.

Theorem scale_f64_ok : scale_spec scale_f64.
Proof.
  intros L n d HL Hr. unfold scale_f64.
  replace ((n <=? 0) || (d <=? 0)) with false by lia. replace (L <? 0) with false by lia.
  unfold scale_abs, f64_of_ratio.
  set (k := 56 + Z.log2 d). set (N := n * 2 ^ k).
  set (sticky := negb (N mod d =? 0)). set (x := N / d).
  destruct (round53_spec L false HL) as (Hel & Hml & E1).
  pose proof (ratio_spec n d ltac:(lia) ltac:(lia)) as R. cbv zeta in R.
  fold k in R. fold N in R. fold x in R. fold sticky in R. destruct R as (Hsr & Hmr & E2).
  destruct (round53 L false) as [ml el]. destruct (round53 x sticky) as [mr sr].
  cbn [fst snd] in *.
  assert (HP : 0 <= ml * mr) by (apply Z.mul_nonneg_nonneg; lia).
  destruct (round53_spec (ml * mr) false HP) as (Hsp & Hmp & E3).
  destruct (round53 (ml * mr) false) as [mp sp]. cbn [fst snd] in *.
  assert (Hk : 0 <= k) by (unfold k; pose proof (Z.log2_nonneg d); lia).
  replace (sp + el + (sr - k)) with ((sp + el + sr) - k) by lia.
  rewrite trunc_pow_div by lia.
  rewrite !Z.pow_add_r by lia.
  assert (Pk : 0 < 2 ^ k) by (apply Z.pow_pos_nonneg; lia).
  assert (Pel : 0 < 2 ^ el) by (apply Z.pow_pos_nonneg; lia).
  assert (Psr : 0 < 2 ^ sr) by (apply Z.pow_pos_nonneg; lia).
  assert (Psp : 0 < 2 ^ sp) by (apply Z.pow_pos_nonneg; lia).
  set (pk := 2 ^ k) in *. set (pel := 2 ^ el) in *. set (psr := 2 ^ sr) in *. set (psp := 2 ^ sp) in *.
  set (V := mp * (psp * pel * psr)).
  assert (HV : 0 <= V).
  { unfold V. repeat apply Z.mul_nonneg_nonneg; lia. }
  split. { apply Z.div_pos; lia. }
  pose proof (floor50 L HL) as Hf. unfold eps. set (f := L / 2 ^ 50) in *.
  apply trunc_bound; try lia. fold N.
  assert (HN : 0 < N) by (unfold N; apply Z.mul_pos_pos; lia).
  assert (HNd : N <= d * pk) by (unfold N; apply Z.mul_le_mono_nonneg_r; lia).
  apply (final_bound L N (d * pk) f); [apply Z.abs_nonneg| |lia|lia|lia].
  set (e1 := ml * pel - L) in *. set (e2 := d * (mr * psr) - N) in *.
  set (e3 := mp * psp - ml * mr) in *.
  set (T := d * (pel * psr) * e3).
  replace (d * V - L * N) with (L * e2 + e1 * N + e1 * e2 + T) by (unfold T, e3, e1, e2, V; ring).
  change (32 * 2 ^ 50) with (4 * 2 ^ 53). change (2 ^ 55) with (4 * 2 ^ 53) in E2.
  apply err_sum; try assumption; try lia.
  unfold T. rewrite Z.abs_mul.
  assert (Hg : 0 <= d * (pel * psr)) by (repeat apply Z.mul_nonneg_nonneg; lia).
  rewrite (Z.abs_eq _ Hg).
  replace ((L + e1) * (N + e2)) with (d * (pel * psr) * (ml * mr)) by (unfold e1, e2; ring).
  replace (2 ^ 53 * (d * (pel * psr) * Z.abs e3)) with (d * (pel * psr) * (2 ^ 53 * Z.abs e3)) by ring.
  apply Z.mul_le_mono_nonneg_l; assumption.
Qed.
