(** Issuance LTS: F4c (obtain) across the crash of a leader -- the requests that go on after an
    instance died holding the lock fail only through faults of their own. *)
From Coq Require Import List Bool Arith Lia.
From CM Require Import Issuance.Model Issuance.Proofs Issuance.Invariants Issuance.OwnFault Issuance.Refuted Issuance.Final.
Import ListNotations.

Definition I_unf_but (t : nat) (s : state) : Prop :=
  forall u th a, u <> t -> thread_at s u th -> c_prog (cfg th) = PObtain a -> unfaulted_ok th.

Lemma I_unf_but_step t s l s' e :
  all_twf s -> I_rw s -> I_unf_but t s -> step s l = Some (s', e) -> I_unf_but t s'.
Proof.
  intros HW HR HU Hs u th2 a Hne Ht2 Hp2.
  destruct (step_threads _ _ _ _ _ _ Hs Ht2) as (th & th' & Ha & Hts & [[-> ->]|[Hne2 Ho]]); eauto.
  rewrite (tstep_cfg _ _ _ _ _ _ _ _ Hts) in Hp2.
  eapply tstep_unfaulted; eauto.
Qed.

Lemma crash_preserves_all_twf s t : all_twf s -> all_twf (crash_stale s t).
Proof.
  intros HW. unfold crash_stale. destruct (nth_error (thr s) t) as [th|] eqn:Et; auto.
  intros u thu Hu. unfold thread_at in Hu; simpl in Hu. apply nth_upd in Hu.
  destruct Hu as [(-> & -> & _)|(Hne & H)]; [|apply (HW _ _ H)].
  destruct (HW _ _ Et) as (W1 & _ & _). unfold twf, dead_thread, nc_ok; simpl.
  split; [|split; exact I]. destruct (c_prog (cfg th)); simpl in *; intuition auto.
Qed.

Lemma crash_preserves_I_rw s t : I_rw s -> I_rw (crash_stale s t).
Proof.
  intros HR. unfold crash_stale. destruct (nth_error (thr s) t) as [th|] eqn:Et; auto.
  intros u thu Hu Hp. unfold thread_at in Hu; simpl in Hu. apply nth_upd in Hu.
  destruct Hu as [(-> & -> & _)|(Hne & H)]; [discriminate Hp|]. simpl. apply (HR _ _ H Hp).
Qed.

(** after an instance died at any point of any run (and the staleness rule freed its lock), along
    every continuation -- any schedule, any faults -- every OTHER request to obtain returns an
    error or panics only if a fault was injected into one of its own operations: the crash of the
    leader is never the cause of a follower's failure *)
Theorem obtain_follower_fails_only_by_own_fault_after_crash cs st s t es s' u th a r :
  reachable cs st s -> runs any_label (crash_stale s t) es s' ->
  u <> t -> thread_at s' u th -> c_prog (cfg th) = PObtain a -> tpc th = PDone r -> r <> ROk -> flt th = true.
Proof.
  intros [es0 R0] R Hne Hu Hp Hd Hr.
  assert (H0 : all_twf s /\ I_rw s /\ I_unf s).
  { eapply (runs_inv any_label (fun s => all_twf s /\ I_rw s /\ I_unf s)); eauto.
    - intros s1 l s2 e0 (HW & HR & HU) _ Hs. split; [|split].
      + eapply all_twf_step; eauto.
      + eapply I_rw_step; eauto.
      + eapply I_unf_step; eauto.
    - split; [apply all_twf_init|split; [apply I_rw_init|apply I_unf_init]]. }
  destruct H0 as (HW & HR & HU).
  assert (H1 : all_twf s' /\ I_rw s' /\ I_unf_but t s').
  { eapply (runs_inv any_label (fun s => all_twf s /\ I_rw s /\ I_unf_but t s)); eauto.
    - intros s1 l s2 e0 (HW1 & HR1 & HU1) _ Hs. split; [|split].
      + eapply all_twf_step; eauto.
      + eapply I_rw_step; eauto.
      + eapply I_unf_but_step; eauto.
    - split; [apply crash_preserves_all_twf; auto|split; [apply crash_preserves_I_rw; auto|]].
      intros v thv b Hnv Hv Hpv. unfold crash_stale in Hv. destruct (nth_error (thr s) t) as [th0|] eqn:Et.
      + unfold thread_at in Hv; simpl in Hv. rewrite nth_upd_neq in Hv; auto. eapply HU; eauto.
      + eapply HU; eauto. }
  destruct H1 as (_ & _ & HU'). specialize (HU' _ _ _ Hne Hu Hp). unfold unfaulted_ok in HU'.
  destruct (flt th); auto. destruct (HU' eq_refl) as [_ H2]. rewrite Hd in H2. congruence.
Qed.
