(** Issuance LTS: which requests are certificate programs, and when all spellings of a request denote
    storage name [n] and lock [L]. *)
From Coq Require Import List Bool Arith Lia.
From CM Require Import Issuance.Model.
Import ListNotations.

Definition cert_prog (c : tcfg) : Prop :=
  match c_prog c with PObtain _ | PRenew _ | PManage => True | _ => False end.

(** a request whose spellings all denote storage name [n] and lock [L], not forced *)
Definition on_key (n L : nat) (c : tcfg) : Prop :=
  c_pk c = n /\ c_vk c = n /\ c_lk c = L /\ force_eff c = false /\ cert_prog c.

