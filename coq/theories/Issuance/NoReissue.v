(** Issuance LTS: F2 (global part). *)
From Coq Require Import List Bool Arith Lia.
From CM Require Import Issuance.Model Issuance.Proofs Issuance.Invariants Issuance.NoReissueTL.
Import ListNotations.

Definition touches (n : nat) (c : tcfg) : Prop := c_pk c = n \/ c_vk c = n.

(** all requests that touch storage name [n] spell it canonically: same pre-check and save name,
    same lock [L]; none of them is forced *)
Definition canon (n L : nat) (s : state) : Prop :=
  forall t th, thread_at s t th -> touches n (cfg th) -> on_key n L (cfg th).

Lemma canon_step n L s l s' e : canon n L s -> step s l = Some (s', e) -> canon n L s'.
Proof. intros HC Hs t th Ht Hto. destruct (step_cfg _ _ _ _ _ _ Hs Ht) as (th0 & H0 & E). rewrite E in *. eauto. Qed.

Definition Saved (n : nat) (ce : cert) (s : state) : Prop :=
  sto (sh s) (SK n KKey) <> None /\ sto (sh s) (SK n KCrt) = Some (VCrt ce) /\ sto (sh s) (SK n KMeta) <> None /\
  c_due ce = false /\
  forall t th, thread_at s t th -> touches n (cfg th) -> quiet ce th.

Definition truthful (n : nat) (s : state) (l : label) : Prop :=
  forall th, thread_at s (l_tid l) th -> c_pk (cfg th) = n -> truthful_th th (l_fault l).

Lemma saved_step n L ce s l s' e :
  canon n L s -> all_twf s -> Saved n ce s -> truthful n s l -> step s l = Some (s', e) ->
  Saved n ce s' /\
  (forall i, e_op e = OIssS i -> forall th, thread_at s (l_tid l) th -> ~ touches n (cfg th)).
Proof.
  intros HC HW (Hk & Hc & Hm & Hd & Hq) Htr Hs.
  destruct (step_thread_same _ _ _ _ Hs) as (th & th' & Ha & Hts & Ha' & Hoth).
  assert (Hdec : touches n (cfg th) \/ (c_pk (cfg th) <> n /\ c_vk (cfg th) <> n)).
  { unfold touches. destruct (Nat.eq_dec (c_pk (cfg th)) n); auto. destruct (Nat.eq_dec (c_vk (cfg th)) n); auto. }
  pose proof (tstep_cfg _ _ _ _ _ _ _ _ Hts) as Hcfg.
  assert (Hframe : (touches n (cfg th) -> quiet ce th') /\ (forall j, sto (sh s') (SK n j) = sto (sh s) (SK n j)) /\
                   (forall i, e_op e = OIssS i -> ~ touches n (cfg th))).
  { destruct Hdec as [Hto|[Hp Hv]].
    - pose proof (HC _ _ Ha Hto) as Hon.
      destruct (tstep_quiet n L ce _ _ _ _ _ _ _ _ Hon (HW _ _ Ha) (Hq _ _ Ha Hto) Hk Hc Hm Hd (Htr _ Ha (proj1 Hon)) Hts)
        as (Q & F & N).
      split; auto. split; auto. intros i Hi. exfalso. eapply N; eauto.
    - split; [|split].
      + intros [X|X]; congruence.
      + intros j. destruct (tstep_sto_effect _ _ _ _ _ _ _ _ Hts) as [E|(k & v & E & Hkk)]; rewrite E; auto.
        rewrite sput_neq; auto. destruct Hkk as [->|[->|(j0 & -> & _)]]; try discriminate. intros X; inversion X; congruence.
      + intros i _ [X|X]; congruence. }
  destruct Hframe as (Q & F & N). split.
  - split; [rewrite F; auto|]. split; [rewrite F; auto|]. split; [rewrite F; auto|]. split; auto.
    intros t2 th2 Ht2 Hto2.
    destruct (step_threads _ _ _ _ _ _ Hs Ht2) as (th0 & th0' & Ha0 & Hts0 & [[-> ->]|[Hne Ho]]).
    + unfold thread_at in *. rewrite Ha in Ha0. inversion Ha0; subst. rewrite Hts in Hts0. inversion Hts0; subst.
      apply Q. rewrite <- Hcfg. auto.
    + eauto.
  - intros i Hi th0 Ha0. unfold thread_at in *. rewrite Ha in Ha0. inversion Ha0; subst. eauto.
Qed.

(** ** the save establishes [Saved] *)
Definition I_save (n : nat) (s : state) : Prop :=
  forall t th, thread_at s t th -> c_vk (cfg th) = n -> cert_prog (cfg th) ->
    (tpc th = PSave KCrt -> sto (sh s) (SK n KKey) <> None) /\
    (tpc th = PSave KMeta -> sto (sh s) (SK n KKey) <> None /\ exists c, nc th = Some c /\ sto (sh s) (SK n KCrt) = Some (VCrt c)).

Lemma I_save_step n L s l s' e :
  canon n L s -> all_twf s -> I_lock s -> I_save n s -> step s l = Some (s', e) -> I_save n s'.
Proof.
  intros HC HW HL HI Hs t2 th2 Ht2 Hv2 Hcp2.
  destruct (step_threads _ _ _ _ _ _ Hs Ht2) as (th & th' & Ha & Hts & [[-> ->]|[Hne Ho]]).
  - pose proof (tstep_cfg _ _ _ _ _ _ _ _ Hts) as Hcfg. rewrite Hcfg in *.
    destruct (tstep_save_shape _ _ _ _ _ _ _ _ (HW _ _ Ha) Hcp2 Hts) as (S1 & S2 & _).
    destruct (HI _ _ Ha Hv2 Hcp2) as (I1 & I2). rewrite Hv2 in *. split.
    + intros Hp. destruct (S1 Hp); auto.
    + intros Hp. destruct (S2 Hp) as (Hp0 & c & Hn & Hc & Hk). split; eauto. rewrite Hk. auto.
  - (* another thread moves: it cannot write the bundle while th2 is inside its save *)
    destruct (HI _ _ Ho Hv2 Hcp2) as (I1 & I2).
    assert (Hfr : locked (tpc th2) = true -> forall j, sto (sh s') (SK n j) = sto (sh s) (SK n j)).
    { intros Hl2 j. destruct (tstep_sto_effect _ _ _ _ _ _ _ _ Hts) as [E|(k & v & E & Hkk)]; rewrite E; auto.
      rewrite sput_neq; auto. destruct Hkk as [->|[->|(j0 & -> & Hwp)]]; try discriminate.
      intros X; inversion X as [[Hx Hj]].
      assert (Hon : on_key n L (cfg th)) by (apply (HC _ _ Ha); right; auto).
      assert (Hon2 : on_key n L (cfg th2)) by (apply (HC _ _ Ho); right; auto).
      destruct Hon as (_ & _ & HlkA & _ & HcpA). destruct Hon2 as (_ & _ & HlkB & _ & _).
      assert (Hla : locked (tpc th) = true).
      { destruct Hwp as [->|[->|Hrest]]; auto. exfalso.
        destruct (HW _ _ Ha) as (W1 & W2 & _). unfold cert_prog in HcpA.
        destruct Hrest as [[Hp _]|[Hp|[Hp _]]]; rewrite Hp in W2; simpl in W2;
          destruct (c_prog (cfg th)); simpl in *; intuition congruence. }
      pose proof (HL _ _ Ha Hla) as O1. pose proof (HL _ _ Ho Hl2) as O2. rewrite HlkA in O1. rewrite HlkB in O2. congruence. }
    split.
    + intros Hp. rewrite Hfr; auto. rewrite Hp; auto.
    + intros Hp. rewrite !Hfr by (rewrite Hp; auto). auto.
Qed.

Lemma I_save_init n cs st : I_save n (init_state cs st).
Proof.
  intros t th Ht _ _. unfold thread_at, init_state in Ht; simpl in Ht. rewrite nth_error_map in Ht.
  destruct (nth_error cs t) as [c|]; simpl in Ht; inversion Ht; subst. simpl.
  unfold entry, after_pre. destruct (c_prog c); simpl; split; intros X; try discriminate X; destruct (c_chk c); discriminate X.
Qed.

Lemma save_establishes n L s l s' t i :
  canon n L s -> all_twf s -> I_lock s -> I_save n s ->
  step s l = Some (s', Ev t (OStore (SK n KMeta)) i) -> i = 0 ->
  forall th, thread_at s t th -> cert_prog (cfg th) -> c_issdue (cfg th) = false ->
  exists ce, Saved n ce s' /\ nc th = Some ce.
Proof.
  intros HC HW HL HI Hs -> th Ht Hcp Hnd.
  destruct (step_thread_same _ _ _ _ Hs) as (th0 & th' & Ha & Hts & Ha' & Hoth).
  assert (Htid : l_tid l = t) by (apply tstep_tid in Hts; simpl in Hts; auto). subst t.
  unfold thread_at in *. rewrite Ht in Ha. inversion Ha; subst th0. clear Ha.
  destruct (tstep_save_shape _ _ _ _ _ _ _ _ (HW _ _ Ht) Hcp Hts) as (_ & _ & S3).
  destruct (S3 n eq_refl eq_refl) as (Hp & Hv & Hp' & (v & Hsto) & ce & Hnc & Hdue).
  destruct (HI _ _ Ht Hv Hcp) as (_ & I2). destruct (I2 Hp) as (Hk & c2 & Hn2 & Hc2).
  rewrite Hnc in Hn2. inversion Hn2; subst c2.
  exists ce. split; auto. unfold Saved. rewrite Hsto.
  rewrite !sput_neq by (intro X; inversion X). rewrite sput_eq.
  split; auto. split; auto. split; [discriminate|]. split; [congruence|].
  intros t2 th2 Ht2 Hto2.
  destruct (Nat.eq_dec t2 (l_tid l)) as [->|Hne].
  - unfold thread_at in *. rewrite Ha' in Ht2. inversion Ht2; subst. unfold quiet. rewrite Hp'. exact I.
  - assert (Ho : thread_at s t2 th2).
    { destruct (step_threads _ _ _ _ _ _ Hs Ht2) as (? & ? & ? & ? & [[-> _]|[_ Ho]]); auto. congruence. }
    apply unlocked_quiet. destruct (locked (tpc th2)) eqn:Hl2; auto. exfalso.
    assert (Hon : on_key n L (cfg th)) by (apply (HC _ _ Ht); right; auto).
    assert (Hon2 : on_key n L (cfg th2)) by (apply (HC _ _ Ho); auto).
    destruct Hon as (_ & _ & HlkA & _). destruct Hon2 as (_ & _ & HlkB & _).
    assert (Hla : locked (tpc th) = true) by (rewrite Hp; auto).
    pose proof (HL _ _ Ht Hla) as O1. pose proof (HL _ _ Ho Hl2) as O2. rewrite HlkA in O1. rewrite HlkB in O2. congruence.
Qed.

(** ** F2 *)
Definition canon0 (n L : nat) (cs : list tcfg) : Prop := forall c, In c cs -> touches n c -> on_key n L c.
Definition cfg_inv (cs : list tcfg) (s : state) : Prop :=
  forall t th, thread_at s t th -> nth_error cs t = Some (cfg th).

Lemma cfg_inv_step cs s l s' e : cfg_inv cs s -> step s l = Some (s', e) -> cfg_inv cs s'.
Proof. intros HC Hs t th Ht. destruct (step_cfg _ _ _ _ _ _ Hs Ht) as (th0 & H0 & ->). auto. Qed.

Lemma canon_of_cfg_inv n L cs s : canon0 n L cs -> cfg_inv cs s -> canon n L s.
Proof. intros H0 HC t th Ht Hto. apply H0; auto. eapply nth_error_In. apply HC; eauto. Qed.

Lemma saved_runs n L cs ce s es s' :
  runs (truthful n) s es s' -> canon0 n L cs -> cfg_inv cs s -> all_twf s -> Saved n ce s ->
  Saved n ce s' /\
  Forall (fun e => forall i, e_op e = OIssS i -> forall c, nth_error cs (e_tid e) = Some c -> ~ touches n c) es.
Proof.
  intros R H0. induction R as [s|s l s1 e es s2 Hok Hs R IH]; intros HC HW HS.
  - split; auto.
  - destruct (saved_step n L ce _ _ _ _ (canon_of_cfg_inv _ _ _ _ H0 HC) HW HS Hok Hs) as (HS1 & HN).
    destruct IH as (HS2 & HF); auto.
    { eapply cfg_inv_step; eauto. } { eapply all_twf_step; eauto. }
    split; auto. constructor; auto.
    intros i Hi c Hc.
    destruct (step_thread_same _ _ _ _ Hs) as (th & th' & Ha & Hts & _).
    pose proof (tstep_tid _ _ _ _ _ _ _ _ Hts) as Htid. rewrite Htid in Hc.
    rewrite (HC _ _ Ha) in Hc. inversion Hc; subst. eapply HN; eauto.
Qed.

Theorem no_reissue_after_save cs st n L s l s1 t th es s2 :
  canon0 n L cs -> reachable cs st s ->
  step s l = Some (s1, Ev t (OStore (SK n KMeta)) 0) ->
  thread_at s t th -> cert_prog (cfg th) -> c_issdue (cfg th) = false ->
  runs (truthful n) s1 es s2 ->
  exists ce, nc th = Some ce /\ c_due ce = false /\
    sto (sh s2) (SK n KCrt) = Some (VCrt ce) /\ sto (sh s2) (SK n KKey) <> None /\ sto (sh s2) (SK n KMeta) <> None /\
    Forall (fun e => forall i, e_op e = OIssS i -> forall c, nth_error cs (e_tid e) = Some c -> ~ touches n c) es.
Proof.
  intros H0 Hr Hs Ht Hcp Hnd R.
  pose proof (cfg_in_init _ _ _ Hr) as HC.
  assert (HW : all_twf s).
  { destruct Hr as [es0 R0]. eapply (runs_inv any_label all_twf); eauto. intros; eapply all_twf_step; eauto. apply all_twf_init. }
  pose proof (I_lock_reachable _ _ _ Hr) as HL.
  assert (HI : I_save n s).
  { destruct Hr as [es0 R0].
    assert (X : cfg_inv cs s /\ all_twf s /\ I_lock s /\ I_save n s).
    { eapply (runs_inv any_label (fun s => cfg_inv cs s /\ all_twf s /\ I_lock s /\ I_save n s)); eauto.
      - intros s3 l3 s4 e3 (A & B & C & D) _ Hs3. split; [eapply cfg_inv_step; eauto|]. split; [eapply all_twf_step; eauto|].
        split; [eapply I_lock_step; eauto|]. eapply I_save_step; eauto. eapply canon_of_cfg_inv; eauto.
      - split; [|split; [apply all_twf_init|split; [apply I_lock_init|apply I_save_init]]].
        intros t0 th0 Ht0. unfold thread_at, init_state in Ht0; simpl in Ht0. rewrite nth_error_map in Ht0.
        destruct (nth_error cs t0); simpl in Ht0; inversion Ht0; subst; auto. }
    tauto. }
  destruct (save_establishes n L _ _ _ _ _ (canon_of_cfg_inv _ _ _ _ H0 HC) HW HL HI Hs eq_refl _ Ht Hcp Hnd) as (ce & HS & Hnc).
  destruct (saved_runs n L cs ce _ _ _ R H0) as ((Hk & Hc & Hm & Hd & _) & HF); auto.
  { eapply cfg_inv_step; eauto. } { eapply all_twf_step; eauto. }
  exists ce. repeat (split; auto).
Qed.

(** corollary: storage that holds a complete bundle with a certificate that is not due from the
    start -- nobody who touches that name ever enters the issuer *)
Theorem no_issue_on_fresh_storage cs st n L ce es s :
  canon0 n L cs ->
  st (SK n KKey) <> None -> st (SK n KCrt) = Some (VCrt ce) -> st (SK n KMeta) <> None -> c_due ce = false ->
  runs (truthful n) (init_state cs st) es s ->
  sto (sh s) (SK n KCrt) = Some (VCrt ce) /\
  Forall (fun e => forall i, e_op e = OIssS i -> forall c, nth_error cs (e_tid e) = Some c -> ~ touches n c) es.
Proof.
  intros H0 Hk Hc Hm Hd R.
  assert (HC : cfg_inv cs (init_state cs st)).
  { intros t0 th0 Ht0. unfold thread_at, init_state in Ht0; simpl in Ht0. rewrite nth_error_map in Ht0.
    destruct (nth_error cs t0); simpl in Ht0; inversion Ht0; subst; auto. }
  assert (HS : Saved n ce (init_state cs st)).
  { unfold Saved; simpl. repeat (split; auto). intros t th Ht _. apply unlocked_quiet.
    unfold thread_at, init_state in Ht; simpl in Ht. rewrite nth_error_map in Ht.
    destruct (nth_error cs t) as [c|]; simpl in Ht; inversion Ht; subst. simpl.
    unfold entry, after_pre. destruct (c_prog c); simpl; auto; destruct (c_chk c); auto. }
  destruct (saved_runs n L cs ce _ _ _ R H0 HC (all_twf_init cs st) HS) as ((_ & Hc' & _) & HF). auto.
Qed.
