(** Issuance LTS: F4c for renewals (takeover) -- a request to renew fails only through a fault in
    one of its own operations, whatever the other requests do and however they fail, as long as no
    request's *save* of that bundle is made to fail by the storage (the excluded class is the
    known finding C01-save-fault-destroys-bundle, refuted separately).  No hypothesis on
    spellings, lock keys, forcing or the number of requests. *)
From Coq Require Import List Bool Arith Lia.
From CM Require Import Issuance.Model Issuance.Proofs Issuance.Invariants Issuance.OwnFault.
Import ListNotations.

(** the bundle under storage name [n] has its three parts *)
Definition bundle_complete (st : skey -> option value) (n : nat) : Prop := forall j, st (SK n j) <> None.

(** the label does not make a Store of the save fail (a panic inside the Store leaves storage as
    it is and is allowed) *)
Definition save_ok_th (th : thread) (f : fault) : Prop :=
  match tpc th with PSave _ | PQSv _ => f = FPanic \/ (f = FNone /\ canc th = false) | _ => True end.
Definition save_ok (n : nat) (s : state) (l : label) : Prop :=
  forall th, thread_at s (l_tid l) th -> c_vk (cfg th) = n -> save_ok_th th (l_fault l).

Definition is_roll (p : pc) : bool := match p with PRoll _ | PQRb => true | _ => false end.
Definition no_roll (th : thread) : Prop := is_roll (tpc th) = false.

Lemma tstep_bundle n t th s f b th' s' e :
  c_vk (cfg th) = n -> save_ok_th th f -> no_roll th -> bundle_complete (sto s) n ->
  tstep t th s f b = Some (th', s', e) ->
  bundle_complete (sto s') n /\ no_roll th'.
Proof.
  intros Hvk Hok Hnr Hb H. unfold bundle_complete, no_roll, save_ok_th in *.
  destruct th as [c p cu ca ? ? ? ? ? ? ?]; simpl in *. destruct p; simpl in Hnr; try discriminate Hnr.
  all: tstep_full H. all: inv_some H; simpl in *.
  all: try (split; [exact Hb|reflexivity]).
  all: try (split; [|reflexivity]; intros j0; unfold sput;
            match goal with |- (if ?x then _ else _) <> None => destruct x end; [discriminate|apply Hb]).
  all: try (exfalso; destruct Hok as [Hok|[Hok1 Hok2]]; subst; simpl in *; discriminate).
Qed.

Definition B_inv (n : nat) (s : state) : Prop :=
  bundle_complete (sto (sh s)) n /\ forall t th, thread_at s t th -> c_vk (cfg th) = n -> no_roll th.

Lemma B_inv_step n s l s' e : B_inv n s -> save_ok n s l -> step s l = Some (s', e) -> B_inv n s'.
Proof.
  intros (Hb & Hn) Hok Hs.
  destruct (step_thread_same _ _ _ _ Hs) as (th & th' & Ha & Hts & Ha' & Hoth).
  pose proof (tstep_cfg _ _ _ _ _ _ _ _ Hts) as Hcfg.
  assert (X : bundle_complete (sto (sh s')) n /\ (c_vk (cfg th) = n -> no_roll th')).
  { destruct (Nat.eq_dec (c_vk (cfg th)) n) as [Hv|Hv].
    - destruct (tstep_bundle n _ _ _ _ _ _ _ _ Hv (Hok _ Ha Hv) (Hn _ _ Ha Hv) Hb Hts); auto.
    - split; [|congruence]. intros j.
      destruct (tstep_sto_effect _ _ _ _ _ _ _ _ Hts) as [E|(k & v & E & Hkk)]; rewrite E; auto.
      rewrite sput_neq; auto. destruct Hkk as [->|[->|(j0 & -> & _)]]; try discriminate. intros X; inversion X; congruence. }
  destruct X as (Hb' & Hn'). split; auto.
  intros t2 th2 Ht2 Hv2.
  destruct (step_threads _ _ _ _ _ _ Hs Ht2) as (th0 & th0' & Ha0 & Hts0 & [[-> ->]|[Hne Ho]]).
  - unfold thread_at in *. rewrite Ha in Ha0. inversion Ha0; subst th0. rewrite Hts in Hts0. inversion Hts0; subst th0'.
    apply Hn'. rewrite <- Hcfg. auto.
  - eapply Hn; eauto.
Qed.

Lemma B_inv_init n cs st : bundle_complete st n -> B_inv n (init_state cs st).
Proof.
  intros Hb. split; auto. intros t th Ht _.
  unfold thread_at, init_state in Ht; simpl in Ht. rewrite nth_error_map in Ht.
  destruct (nth_error cs t) as [c|]; simpl in Ht; inversion Ht; subst. unfold no_roll; simpl.
  unfold entry, after_pre. destruct (c_prog c); simpl; try reflexivity; destruct (c_chk c); reflexivity.
Qed.

(** a renewal that has had no fault of its own is on its way to success *)
Definition unfaulted_ok_r (th : thread) : Prop :=
  flt th = false ->
  canc th = false /\
  match tpc th with
  | PChkD r | PUnlock r | PDone r => r = ROk
  | PEmitF _ | PRoll _ | PWait | PCLoad | PCBody | PCStore | PALoad1 | PAGet | PALoad2 | PAStore => False
  | _ => True
  end.

Lemma tstep_unfaulted_r t th s f b th' s' e a :
  c_prog (cfg th) = PRenew a -> twf th -> unfaulted_ok_r th ->
  (tpc th = PChkL -> sto s (RW t) <> None) ->
  bundle_complete (sto s) (c_vk (cfg th)) ->
  tstep t th s f b = Some (th', s', e) -> unfaulted_ok_r th'.
Proof.
  intros Hp Hwf Hu Hrw Hb H. destruct th as [c p cu ca fl ? ? ? ? ? ?]. unfold twf, unfaulted_ok_r, bundle_complete in *; simpl in *.
  rewrite Hp in Hwf. destruct Hwf as ([-> Hm] & Hpc & _). destruct p; simpl in Hm, Hpc; try discriminate.
  all: tstep_full H. all: inv_some H; simpl.
  all: try (intros Hf; apply orb_false_iff in Hf; destruct Hf as [Hf1 Hf2]; try discriminate; subst;
            specialize (Hu eq_refl); destruct Hu as [-> Hu]; simpl in *; subst; auto; try discriminate; try tauto;
            try (split; auto; congruence)).
  all: try (rewrite Hp in *; discriminate).
  all: try (exfalso; apply Hrw; auto; destruct (sto s' (RW t)); auto; discriminate).
  all: try (exfalso; eapply Hb; eassumption).
Qed.

Definition I_unf_r (n : nat) (s : state) : Prop :=
  forall t th a, thread_at s t th -> c_prog (cfg th) = PRenew a -> c_vk (cfg th) = n -> unfaulted_ok_r th.

Lemma I_unf_r_step n s l s' e :
  all_twf s -> I_rw s -> B_inv n s -> I_unf_r n s -> step s l = Some (s', e) -> I_unf_r n s'.
Proof.
  intros HW HR (HB & _) HU Hs t2 th2 a Ht2 Hp2 Hv2.
  destruct (step_threads _ _ _ _ _ _ Hs Ht2) as (th & th' & Ha & Hts & [[-> ->]|[Hne Ho]]); eauto.
  rewrite (tstep_cfg _ _ _ _ _ _ _ _ Hts) in Hp2, Hv2.
  eapply tstep_unfaulted_r; eauto. rewrite Hv2. auto.
Qed.

Lemma I_unf_r_init n cs st : I_unf_r n (init_state cs st).
Proof.
  intros t th a Ht Hp _. unfold thread_at, init_state in Ht; simpl in Ht. rewrite nth_error_map in Ht.
  destruct (nth_error cs t) as [c|]; simpl in Ht; inversion Ht; subst. simpl in *.
  unfold unfaulted_ok_r, init_thread, entry, after_pre; simpl. rewrite Hp; simpl. destruct (c_chk c); simpl; auto.
Qed.

(** F4c (renew): storage holds the bundle of [n] from the start; along every run -- any number of
    requests of any kind, any schedule, errors / cancellations / panics anywhere, including in the
    issuer, in event callbacks and in the request that holds the turn -- in which no Store of a
    save under [n] is made to fail, a request to renew [n] (sync or async, forced or not) returns an
    error or panics only if a fault was injected into one of its own operations. *)
Theorem renew_fails_only_by_own_fault cs st n es s :
  bundle_complete st n -> runs (save_ok n) (init_state cs st) es s ->
  forall t th a r, thread_at s t th -> c_prog (cfg th) = PRenew a -> c_vk (cfg th) = n ->
    tpc th = PDone r -> r <> ROk -> flt th = true.
Proof.
  intros Hb R t th a r Ht Hp Hv Hd Hr.
  assert (H : all_twf s /\ I_rw s /\ B_inv n s /\ I_unf_r n s).
  { eapply (runs_inv (save_ok n) (fun s => all_twf s /\ I_rw s /\ B_inv n s /\ I_unf_r n s)); eauto.
    - intros s0 l s1 e0 (HW & HR & HB & HU) Hok Hs. split; [|split; [|split]].
      + eapply all_twf_step; eauto.
      + eapply I_rw_step; eauto.
      + eapply B_inv_step; eauto.
      + eapply I_unf_r_step; eauto.
    - split; [apply all_twf_init|split; [apply I_rw_init|split; [apply B_inv_init; auto|apply I_unf_r_init]]]. }
  destruct H as (_ & _ & _ & HU). specialize (HU _ _ _ Ht Hp Hv). unfold unfaulted_ok_r in HU.
  destruct (flt th); auto. destruct (HU eq_refl) as [_ H2]. rewrite Hd in H2. congruence.
Qed.

(** ** executable check of [save_ok] along a run (for the Examples) *)
Definition save_ok_b (n : nat) (s : state) (l : label) : bool :=
  match nth_error (thr s) (l_tid l) with
  | Some th =>
      negb (Nat.eqb (c_vk (cfg th)) n) ||
      match tpc th with
      | PSave _ | PQSv _ => fault_eqb (l_fault l) FPanic || (fault_eqb (l_fault l) FNone && negb (canc th))
      | _ => true
      end
  | None => true
  end.
Fixpoint run_sok (n : nat) (s : state) (ls : list label) : option (state * list ev) :=
  match ls with
  | [] => Some (s, [])
  | l :: r =>
      match step s l with
      | None => None
      | Some (s1, e) =>
          if save_ok_b n s l
          then match run_sok n s1 r with Some (s2, es) => Some (s2, e :: es) | None => None end
          else None
      end
  end.

Lemma save_ok_b_sound n s l : save_ok_b n s l = true -> save_ok n s l.
Proof.
  unfold save_ok_b, save_ok, save_ok_th. intros H th Ht Hv. unfold thread_at in Ht. rewrite Ht in H.
  rewrite Hv, Nat.eqb_refl in H. simpl in H. destruct (tpc th); auto.
  all: destruct (l_fault l); simpl in *; auto; try discriminate; right; split; auto; destruct (canc th); auto; discriminate.
Qed.

Lemma run_sok_runs n s ls s' es : run_sok n s ls = Some (s', es) -> runs (save_ok n) s es s'.
Proof.
  revert s s' es; induction ls as [|l ls IH]; simpl; intros s s' es H.
  - inversion H; constructor.
  - destruct (step s l) as [[s1 e]|] eqn:E; [|discriminate].
    destruct (save_ok_b n s l) eqn:C; [|discriminate].
    destruct (run_sok n s1 ls) as [[s2 es2]|] eqn:R; [|discriminate]. inversion H; subst.
    econstructor; eauto. apply save_ok_b_sound; auto.
Qed.
