(** Issuance LTS: list / run infrastructure and the case-analysis tactics. *)
From Coq Require Import List Bool Arith Lia.
From CM Require Import Issuance.Model.
Import ListNotations.

(** * Lists *)
Lemma nth_upd_eq {A} (l : list A) n x : n < length l -> nth_error (upd l n x) n = Some x.
Proof. revert n; induction l as [|a l IH]; intros [|n] H; simpl in *; try lia; auto. apply IH; lia. Qed.
Lemma nth_upd_neq {A} (l : list A) n m x : n <> m -> nth_error (upd l n x) m = nth_error l m.
Proof. revert n m; induction l as [|a l IH]; intros [|n] [|m] H; simpl; auto; try congruence. Qed.
Lemma length_upd {A} (l : list A) n x : length (upd l n x) = length l.
Proof. revert n; induction l as [|a l IH]; intros [|n]; simpl; auto. Qed.
Lemma nth_upd {A} (l : list A) n m x y :
  nth_error (upd l n x) m = Some y -> (n = m /\ y = x /\ n < length l) \/ (n <> m /\ nth_error l m = Some y).
Proof.
  intros H. destruct (Nat.eq_dec n m) as [->|Hne].
  - left. assert (m < length l).
    { rewrite <- (length_upd l m x). apply nth_error_Some. congruence. }
    rewrite nth_upd_eq in H by auto. split; auto. split; auto. congruence.
  - right. rewrite nth_upd_neq in H; auto.
Qed.

Lemma skey_eqb_eq a b : skey_eqb a b = true <-> a = b.
Proof.
  destruct a as [n k| |], b as [m j| |]; simpl; try (split; congruence).
  - rewrite andb_true_iff, Nat.eqb_eq. destruct k, j; simpl; split; intros H; try (destruct H; congruence); try (inversion H; auto); try discriminate.
  - rewrite Nat.eqb_eq. split; congruence.
Qed.
Lemma skey_eqb_refl a : skey_eqb a a = true. Proof. apply skey_eqb_eq; auto. Qed.
Lemma sput_eq s k v : sput s k v k = v. Proof. unfold sput; rewrite skey_eqb_refl; auto. Qed.
Lemma sput_neq s k v k' : k <> k' -> sput s k v k' = s k'.
Proof. unfold sput; intros H. destruct (skey_eqb k k') eqn:E; auto. apply skey_eqb_eq in E; congruence. Qed.
Lemma lput_eq l k v : lput l k v k = v. Proof. unfold lput; rewrite Nat.eqb_refl; auto. Qed.
Lemma lput_neq l k v k' : k <> k' -> lput l k v k' = l k'.
Proof. unfold lput; intros H. destruct (Nat.eqb_spec k k'); congruence. Qed.

(** * Runs *)
Lemma step_inv s l s' e :
  step s l = Some (s', e) ->
  exists th th' sh', nth_error (thr s) (l_tid l) = Some th /\
    tstep (l_tid l) th (sh s) (l_fault l) (l_bit l) = Some (th', sh', e) /\
    s' = State (upd (thr s) (l_tid l) th') sh'.
Proof.
  unfold step. destruct (nth_error (thr s) (l_tid l)) as [th|] eqn:E; [|discriminate].
  destruct (tstep _ _ _ _ _) as [[[th' sh'] e']|] eqn:T; [|discriminate].
  intros H; inversion H; subst. eauto 10.
Qed.

(** runs all of whose steps satisfy [ok] (a restriction on schedules / fault plans) *)
Inductive runs (ok : state -> label -> Prop) : state -> list ev -> state -> Prop :=
| runs_nil s : runs ok s [] s
| runs_cons s l s1 e es s2 : ok s l -> step s l = Some (s1, e) -> runs ok s1 es s2 -> runs ok s (e :: es) s2.

Definition any_label (s : state) (l : label) : Prop := True.
Definition reachable_from (s0 s : state) : Prop := exists es, runs any_label s0 es s.
Definition reachable (cs : list tcfg) (st : skey -> option value) (s : state) : Prop :=
  reachable_from (init_state cs st) s.

Lemma runs_inv (ok : state -> label -> Prop) (I : state -> Prop) :
  (forall s l s' e, I s -> ok s l -> step s l = Some (s', e) -> I s') ->
  forall s es s', runs ok s es s' -> I s -> I s'.
Proof. intros Hs s es s' R; induction R; auto. intros; apply IHR; eauto. Qed.

Lemma runs_weaken (ok ok' : state -> label -> Prop) s es s' :
  (forall s l, ok s l -> ok' s l) -> runs ok s es s' -> runs ok' s es s'.
Proof. intros H R; induction R; econstructor; eauto. Qed.

Lemma runs_app (ok : state -> label -> Prop) s es s1 es' s2 : runs ok s es s1 -> runs ok s1 es' s2 -> runs ok s (es ++ es') s2.
Proof. intros R; induction R; simpl; auto. intros; econstructor; eauto. Qed.

Lemma run_runs s ls s' es : run s ls = Some (s', es) -> runs any_label s es s'.
Proof.
  revert s s' es; induction ls as [|l ls IH]; simpl; intros s s' es H.
  - inversion H; constructor.
  - destruct (step s l) as [[s1 e]|] eqn:E; [|discriminate].
    destruct (run s1 ls) as [[s2 es2]|] eqn:R; [|discriminate]. inversion H; subst.
    econstructor; eauto. exact I.
Qed.

(** * Thread-level case analysis *)
(* destruct an innermost scrutinee (one that contains no other match) *)
Ltac break_match_hyp H :=
  match type of H with
  | context [match ?x with _ => _ end] =>
      lazymatch x with
      | context [match _ with _ => _ end] => fail
      | _ => destruct x eqn:?
      end
  end.
Ltac inv_some H := inversion H; subst; clear H.

Ltac brk H := repeat (break_match_hyp H; simpl in H; try discriminate H).
(** unfold one thread step completely: every case of pc, fault, storage / lock look-up and of
    the continuation helpers.  Use after [destruct th; destruct (pc)]. *)
Ltac tstep_full H :=
  unfold tstep, norm_pc, mark, body_start in H; simpl in H; brk H;
  try (unfold exec, fresh_key, body_start in H; simpl in H; brk H);
  unfold panic_goto in H; simpl in H; brk H;
  unfold acct_register, acct_ca in H; simpl in H; brk H;
  unfold fin_op, after_attempt, start_renew, start_obtain, body_start, after_pre,
    set_pc, set_cur, set_lkey, set_lcrt, set_nk, set_nc, set_seen, set_recd, is_async, with_sto, with_lks in H; simpl in H;
  brk H.
Ltac tstep_start H th :=
  let c := fresh "c" in let p := fresh "p" in
  destruct th as [c p ? ? ? ? ? ? ? ? ?]; destruct p.

Lemma tstep_cfg t th s f b th' s' e :
  tstep t th s f b = Some (th', s', e) -> cfg th' = cfg th.
Proof. intros H. tstep_start H th. all: tstep_full H. all: inv_some H; reflexivity. Qed.

Lemma tstep_tid t th s f b th' s' e :
  tstep t th s f b = Some (th', s', e) -> e_tid e = t.
Proof. intros H. tstep_start H th. all: tstep_full H. all: inv_some H; reflexivity. Qed.

