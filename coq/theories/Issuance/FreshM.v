(** Issuance LTS: F3, the missing clause -- the caller's own steps. *)
From Coq Require Import List Bool Arith Lia.
From CM Require Import Issuance.Model Issuance.Proofs Issuance.Invariants Issuance.NoReissueTL Issuance.AgreeTL0 Issuance.Takeover
  Issuance.ManageTL Issuance.ManageMDefs.
From CM Require Import Issuance.FreshTL.
Import ListNotations.

(** pcs of the obtain operation up to the re-check under the lock *)
Definition in_obt (p : pc) : bool :=
  match p with PPre _ | PChkS | PChkL | PChkD _ | PLockCall | PLockWait | PRe _ => true | _ => false end.

(** the caller is obtaining because a part of the bundle was missing -- then, hence from the start *)
Definition Fobt (n : nat) (st0 : skey -> option value) (th : thread) : Prop :=
  cur th = OpObtain -> in_obt (tpc th) = true -> ~ bundle_complete st0 n.

(** [E]: the stored certificate is not due, or a saver is about to store one that is not *)
Definition Fcl (n : nat) (E : Prop) (th : thread) (st : skey -> option value) : Prop :=
  match tpc th with
  | PLd KMeta => exists v, st (SK n KCrt) = Some v /\ lcrt th = cert_of v
  | PSave KMeta | PEmit2 | PUnlock _ => nd st n
  | PMLd Ph0 _ | PMOcsp Ph0 => True
  | PMEmit Ph0 => seen th = lcrt th
  | PMLd _ KKey => E
  | PMLd _ KCrt => nd st n
  | PMLd _ KMeta | PMOcsp _ => due_of (lcrt th) = false
  | PMEmit _ => due_of (lcrt th) = false /\ seen th = lcrt th
  | PDone ROk => due_of (seen th) = false
  | _ => True
  end.

Definition Finv (n : nat) (st0 : skey -> option value) (E : Prop) (th : thread) (st : skey -> option value) : Prop :=
  flt th = false -> Fobt n st0 th /\ Fcl n E th st.

Lemma nd_due st n v : st (SK n KCrt) = Some v -> due_of (cert_of v) = false -> nd st n.
Proof. intros H D. destruct v; simpl in D; try discriminate. exists c. auto. Qed.

Lemma tstep_Finv n L st0 (E E' : Prop) t th s f b th' s' e :
  on_key n L (cfg th) -> c_prog (cfg th) = PManage -> c_issdue (cfg th) = false -> twf th ->
  Minv n th (sto s) -> Finv n st0 E th (sto s) ->
  (E -> E') -> (nd (sto s) n -> E) ->
  (forall j, st0 (SK n j) <> None -> sto s (SK n j) <> None) ->
  (bundle_complete (sto s) n -> ~ bundle_complete st0 n -> E) ->
  (locked (tpc th) = true -> tpc th <> PSave KCrt -> E -> nd (sto s) n) ->
  (in_load_window th' -> E -> nd (sto s) n) ->
  tstep t th s f b = Some (th', s', e) -> Finv n st0 E' th' (sto s').
Proof.
  intros (Hpk & Hvk & Hlk & Hfo & Hcp) Hp Hiss (Hw1 & Hw2 & Hw3) HM HF HEE HnE H0 HE HL HW H.
  destruct th as [c p cu ca fl ? ? ? ? ? ?].
  unfold Finv, Fobt, Fcl, Minv, Mpc_ok, Mpres, Mload, nc_ok, in_load_window, bundle_complete, pres in *; simpl in *.
  rewrite Hp in Hw1. subst n.
  destruct p; simpl in Hw2; try (exfalso; destruct Hw1; congruence).
  all: tstep_full H. all: inv_some H; simpl in *.
  all: intros Hf; apply orb_false_iff in Hf; destruct Hf as [Hf1 Hf2]; try discriminate; subst;
       specialize (HM eq_refl); destruct HM as (HMc & HM1 & (HMr & HM2) & HM3);
       specialize (HF eq_refl); destruct HF as (HFo & HFc); simpl in *; subst; try discriminate; try tauto.
  all: try (rewrite Hp in *; try discriminate).
  all: repeat match goal with E : Some _ = Some _ |- _ => inversion E; subst; clear E end.
  all: try (destruct Hw1 as [Hw1|Hw1]; try discriminate Hw1; fail).
  all: rewrite ?Hvk in *.
  all: split; [intros X1 X2; try discriminate X1; try discriminate X2;
                try (apply HFo; auto; fail);
                try (intros X3; match goal with E0 : sto _ (SK _ ?j) = None |- _ => apply (H0 j (X3 j) E0) end)|].
  all: try exact I.
  all: repeat match goal with k : kind |- _ => destruct k | ph : phase |- _ => destruct ph end; simpl in *; try discriminate; try exact I.
  all: repeat match goal with
              | H : _ /\ _ |- _ => destruct H
              | H : ?a = ?a -> _ |- _ => specialize (H eq_refl)
              | H : True -> _ |- _ => specialize (H I)
              | H : _ || _ = false |- _ => apply orb_false_iff in H
              end.
  (* a part was missing at the first load, all are there now: somebody saved *)
  all: try (assert (XE : E) by
              (apply HE; [intros j0; destruct j0; auto;
                          match goal with H : isSome ?x = true |- ?x <> None => destruct x; [discriminate|discriminate H] end
                         |apply HFo; reflexivity])).
  all: try (apply HEE; first [assumption | apply HnE; assumption]).
  all: try (apply HL; [reflexivity|discriminate|assumption]).
  all: try (apply HL; [discriminate|assumption]).
  all: try (destruct Hw3 as (c1 & Hn1 & Hd1 & Hk1); discriminate Hn1).
  all: try (eexists; split; [eassumption|reflexivity]).
  all: try (match goal with
            | HFc : exists v : value, _ /\ _ |- nd _ _ =>
                let v := fresh "v" in let A := fresh "A" in let B := fresh "B" in
                destruct HFc as (v & A & B); eapply nd_due; [exact A|rewrite <- B; assumption]
            end).
  all: try (match goal with HFc : nd (sto ?s) ?n |- nd (sput (sto ?s) (SK ?n KMeta) _) ?n =>
              destruct HFc as (ce & A & B); exists ce; split; [rewrite sput_neq; [exact A|intro X; inversion X]|exact B] end).
  all: try (destruct Hw3 as (c1 & Hn1 & Hd1 & Hk1); inversion Hn1; subst; try discriminate;
            eexists; split; [apply sput_eq|congruence]).
  all: try (apply HW; [exact I|assumption]).
  all: try (apply HW; assumption).
  all: try (match goal with HFc : nd _ _, E0 : sto _ (SK _ KCrt) = Some ?v |- due_of (cert_of ?v) = false =>
              destruct HFc as (ce & A & B); rewrite A in E0; inversion E0; subst; simpl; exact B end).
  all: try congruence.
Qed.
