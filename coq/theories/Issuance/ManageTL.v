(** Issuance LTS: F4c for ManageSync (partial) -- thread-level lemmas.
    A ManageSync caller fails only through a fault of its own, provided no save is made to fail
    and no unlocked load overlaps a save (the two known findings are exactly the excluded
    classes). *)
From Coq Require Import List Bool Arith Lia.
From CM Require Import Issuance.Model Issuance.Proofs Issuance.Invariants Issuance.NoReissueTL Issuance.AgreeTL0 Issuance.Takeover.
Import ListNotations.

Definition pres (st : skey -> option value) (n : nat) (j : kind) : Prop := st (SK n j) <> None.

(** the stored private key belongs to the stored certificate (what tls.X509KeyPair checks) *)
Definition stored_match (st : skey -> option value) (n : nat) : Prop :=
  forall vk vc, st (SK n KKey) = Some vk -> st (SK n KCrt) = Some vc ->
    kid_matches (Some (key_of vk)) (cert_of vc) = true.

(** no fault of any kind inside a save (error, cancellation, panic) *)
Definition strict_th (th : thread) (f : fault) : Prop :=
  match tpc th with PSave _ => f = FNone /\ canc th = false | _ => True end.

Lemma strict_save_ok th f : strict_th th f -> (forall j, tpc th <> PQSv j) -> save_ok_th th f.
Proof.
  unfold strict_th, save_ok_th. destruct (tpc th); auto. intros _ H. exfalso. eapply H; reflexivity.
Qed.

(** presence of the parts of a bundle is monotone as long as nothing is rolled back *)
Lemma tstep_present n t th s f b th' s' e :
  c_vk (cfg th) = n -> save_ok_th th f -> no_roll th ->
  tstep t th s f b = Some (th', s', e) ->
  (forall j, sto s (SK n j) <> None -> sto s' (SK n j) <> None) /\ no_roll th'.
Proof.
  intros Hvk Hok Hnr H. unfold no_roll, save_ok_th in *.
  destruct th as [c p cu ca ? ? ? ? ? ? ?]; simpl in *. destruct p; simpl in Hnr; try discriminate Hnr.
  all: tstep_full H. all: inv_some H; simpl in *.
  all: try (split; [intros j0 Hj0; exact Hj0|reflexivity]).
  all: try (split; [|reflexivity]; intros j0 Hj0; unfold sput;
            match goal with |- (if ?x then _ else _) <> None => destruct x end; [discriminate|exact Hj0]).
  all: try (exfalso; destruct Hok as [Hok|[Hok1 Hok2]]; subst; simpl in *; discriminate).
Qed.

(** what a save step does when nothing is injected into it *)
Lemma tstep_strict_save t th s f b th' s' e :
  twf th -> cert_prog (cfg th) -> strict_th th f -> tstep t th s f b = Some (th', s', e) ->
  match tpc th with
  | PSave KKey => tpc th' = PSave KCrt /\ nk th' = nk th /\
                  sto s' = sput (sto s) (SK (c_vk (cfg th)) KKey) (Some (VKey (nk th)))
  | PSave KCrt => tpc th' = PSave KMeta /\
                  exists c, c_kid c = nk th /\ c_due c = c_issdue (cfg th) /\
                            sto s' = sput (sto s) (SK (c_vk (cfg th)) KCrt) (Some (VCrt c))
  | PSave KMeta => tpc th' = PEmit2 /\ exists v, sto s' = sput (sto s) (SK (c_vk (cfg th)) KMeta) (Some v)
  | _ => True
  end.
Proof.
  intros (Hw1 & Hw2 & Hw3) Hcp Hst H.
  destruct th as [c p cu ca ? ? ? ? ? ? ?]. unfold cert_prog, nc_ok, strict_th in *; simpl in *.
  destruct p; try exact I. destruct Hst as [-> ->]. destruct j.
  all: tstep_full H. all: inv_some H; simpl in *.
  all: try (exfalso; destruct (c_prog c); simpl in *; intuition (try discriminate; try congruence); fail).
  all: try (split; [reflexivity|split; reflexivity]).
  all: try (split; [reflexivity|eexists; reflexivity]).
  all: destruct Hw3 as (c1 & Hn1 & Hd1 & Hk1); inversion Hn1; subst; try discriminate.
  all: split; [reflexivity|eexists; split; [|split; [|reflexivity]]; auto].
Qed.

(** what a saver knows: the key it stored is still there when it stores the certificate *)
Definition Sinv (n : nat) (th : thread) (st : skey -> option value) : Prop :=
  match tpc th with
  | PSave KCrt => st (SK n KKey) = Some (VKey (nk th))
  | PSave KMeta => stored_match st n
  | _ => True
  end.

Lemma stored_match_frame st st' n :
  st' (SK n KKey) = st (SK n KKey) -> st' (SK n KCrt) = st (SK n KCrt) -> stored_match st n -> stored_match st' n.
Proof. unfold stored_match. intros E1 E2 H vk vc. rewrite E1, E2. auto. Qed.

Lemma tstep_Sinv n L t th s f b th' s' e :
  on_key n L (cfg th) -> twf th -> strict_th th f -> Sinv n th (sto s) ->
  tstep t th s f b = Some (th', s', e) -> Sinv n th' (sto s').
Proof.
  intros (Hpk & Hvk & Hlk & Hfo & Hcp) Hwf Hst HS H.
  pose proof (tstep_save_shape _ _ _ _ _ _ _ _ Hwf Hcp H) as (S1 & S2 & _).
  pose proof (tstep_strict_save _ _ _ _ _ _ _ _ Hwf Hcp Hst H) as SS.
  unfold Sinv in *. destruct (tpc th') eqn:E'; try exact I. destruct j; try exact I.
  - destruct (S1 eq_refl) as (Hp & _). rewrite Hp in SS. destruct SS as (_ & Hnk & ->).
    rewrite Hvk, sput_eq, Hnk. reflexivity.
  - destruct (S2 eq_refl) as (Hp & _). rewrite Hp in SS, HS. destruct SS as (_ & c0 & Hk0 & _ & ->).
    rewrite Hvk. intros vk vc H1 H2. rewrite sput_neq in H1 by (intro X; inversion X). rewrite sput_eq in H2.
    rewrite HS in H1. inversion H1; inversion H2; subst. simpl. rewrite Hk0. apply Nat.eqb_refl.
Qed.

