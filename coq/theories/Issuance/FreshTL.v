(** Issuance LTS: F3, the missing clause -- a ManageSync caller that had no fault of its own and
    returns successfully holds a certificate that is not due (thread-level lemmas). *)
From Coq Require Import List Bool Arith Lia.
From CM Require Import Issuance.Model Issuance.Proofs Issuance.Invariants Issuance.NoReissueTL Issuance.AgreeTL0 Issuance.Takeover
  Issuance.ManageTL.
Import ListNotations.

(** the stored certificate is not due *)
Definition nd (st : skey -> option value) (n : nat) : Prop :=
  exists ce, st (SK n KCrt) = Some (VCrt ce) /\ c_due ce = false.

(** effect of one step on the stored certificate, when saves are not faulted and the issuer of the
    request does not hand out due certificates *)
Lemma tstep_crt_effect n t th s f b th' s' e :
  c_vk (cfg th) = n -> twf th -> cert_prog (cfg th) -> strict_th th f -> no_roll th ->
  tstep t th s f b = Some (th', s', e) ->
  sto s' (SK n KCrt) = sto s (SK n KCrt) \/
  (tpc th = PSave KCrt /\ tpc th' = PSave KMeta /\
   exists c, sto s' (SK n KCrt) = Some (VCrt c) /\ c_due c = c_issdue (cfg th)).
Proof.
  intros Hvk (Hw1 & Hw2 & Hw3) Hcp Hst Hnr H.
  destruct th as [c p cu ca ? ? ? ? ? ? ?]. unfold cert_prog, nc_ok, strict_th, no_roll in *; simpl in *. subst n.
  destruct p; simpl in Hnr; try discriminate Hnr.
  all: tstep_full H. all: inv_some H; simpl in *.
  all: try (left; reflexivity).
  all: try (left; unfold sput; simpl; rewrite ?Nat.eqb_refl; simpl; reflexivity).
  all: try (exfalso; destruct (c_prog c); simpl in *; intuition (try discriminate; try congruence); fail).
  all: try (destruct Hst as [Hs1 Hs2]; try discriminate Hs1; try discriminate Hs2).
  all: try (destruct Hw3 as (c1 & Hn1 & Hd1 & Hk1); inversion Hn1; subst; try discriminate).
  all: try (right; split; [reflexivity|split; [reflexivity|eexists; split; [apply sput_eq|assumption]]]).
  all: try (left; apply sput_neq; intro X; inversion X; fail).
  all: repeat match goal with E : Some _ = Some _ |- _ => inversion E; subst; clear E end.
  all: right; split; [reflexivity|split; [reflexivity|eexists; split; [apply sput_eq|assumption]]].
Qed.

