(** Issuance LTS: F4c for ManageSync (partial) -- the caller's own steps. *)
From Coq Require Import List Bool Arith Lia.
From CM Require Import Issuance.Model Issuance.Proofs Issuance.Invariants Issuance.NoReissueTL Issuance.AgreeTL0 Issuance.Takeover Issuance.ManageTL.
From CM Require Export Issuance.ManageMDefs.
Import ListNotations.

Ltac spres :=
  unfold bundle_complete, pres in *; simpl in *;
  repeat match goal with
         | |- forall j : kind, _ => let j := fresh "j" in intros j; destruct j
         | |- _ /\ _ => split
         | |- _ -> _ => intro
         | |- sput _ _ _ _ <> None => unfold sput; simpl; rewrite ?Nat.eqb_refl; simpl; try discriminate
         | H : forall j : kind, _ |- _ (SK _ ?j) <> None => apply H
         | H : isSome ?x = true |- ?x <> None => destruct x; [discriminate|discriminate H]
         end; auto; try tauto; try congruence.

Lemma tstep_Minv n L t th s f b th' s' e :
  on_key n L (cfg th) -> c_prog (cfg th) = PManage -> twf th -> Minv n th (sto s) ->
  (tpc th = PChkL -> sto s (RW t) <> None) ->
  (in_load_window th -> stored_match (sto s) n) ->
  tstep t th s f b = Some (th', s', e) -> Minv n th' (sto s').
Proof.
  intros (Hpk & Hvk & Hlk & Hfo & Hcp) Hp (Hw1 & Hw2 & Hw3) HM Hrw Hsm H.
  destruct th as [c p cu ca fl ? ? ? ? ? ?]. unfold Minv, Mpc_ok, Mpres, Mload, nc_ok, in_load_window in *; simpl in *.
  rewrite Hp in Hw1. subst n.
  destruct p; simpl in Hw2; try (exfalso; destruct Hw1; congruence).
  all: tstep_full H. all: inv_some H; simpl.
  all: intros Hf; apply orb_false_iff in Hf; destruct Hf as [Hf1 Hf2]; try discriminate; subst;
       specialize (HM eq_refl); destruct HM as (HMc & HM1 & (HMr & HM2) & HM3); simpl in *; subst; try discriminate; try tauto.
  all: try (rewrite Hp in *; try discriminate).
  all: repeat match goal with E : Some _ = Some _ |- _ => inversion E; subst; clear E end.
  all: try (exfalso; apply Hrw; auto; destruct (sto s' (RW t)); auto; discriminate).
  all: split; [reflexivity|]; split; [try exact I; try reflexivity|].
  all: idtac.
  all: try (destruct Hw1 as [Hw1|Hw1]; try discriminate Hw1; fail).
  all: rewrite ?Hvk in *.
  all: unfold bundle_complete, pres in *.
  all: repeat match goal with
              | ph : phase |- _ => destruct ph
              | k : kind |- _ => destruct k
              end; simpl in *.
  all: repeat match goal with
              | H : _ /\ _ |- _ => destruct H
              | H : ?a = ?a -> _ |- _ => specialize (H eq_refl)
              | H : OpObtain = OpRenew -> _ |- _ => clear H
              | H : True -> _ |- _ => specialize (H I)
              end.
  all: try (exfalso; match goal with H : forall j : kind, _ <> None, E : _ = None |- _ => eapply H; exact E end).
  all: try (exfalso; match goal with H : ?x <> None, E : ?x = None |- _ => apply H; exact E end).
  all: try (match goal with |- _ /\ kid_matches _ _ = true => split end).
  all: try (match goal with |- _ /\ (exists vk : value, _) => split; [|eexists; split; [eassumption|reflexivity]] end).
  all: try (match goal with
            | HM3 : exists vk : value, _ /\ _ |- kid_matches _ _ = true =>
                let vk := fresh "vk" in let A := fresh "A" in let B := fresh "B" in
                destruct HM3 as (vk & A & B); rewrite B; eapply Hsm; eassumption
            end).
  all: repeat split; try exact I; intros.
  all: repeat match goal with j : kind |- _ => destruct j end.
  all: unfold sput; simpl; rewrite ?Nat.eqb_refl; simpl.
  all: try discriminate; auto.
  all: try (match goal with H : forall j : kind, _ |- _ => apply H end).
  all: try (match goal with H : isSome ?x = true |- ?x <> None => destruct x; [discriminate|discriminate H] end).
  all: try (match goal with H : ?x = Some _ |- ?x <> None => rewrite H; discriminate end).
  all: try (match goal with H : _ = OpRenew -> forall j : kind, _ |- _ => apply H; assumption end).
Qed.

