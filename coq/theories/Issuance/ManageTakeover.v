(** Issuance LTS: F4c for ManageSync (partial) -- frame lemma and the global invariants. *)
From Coq Require Import List Bool Arith Lia.
From CM Require Import Issuance.Model Issuance.Proofs Issuance.Invariants Issuance.NoReissueTL Issuance.NoReissue Issuance.AgreeTL Issuance.Agree
  Issuance.OwnFault Issuance.Takeover Issuance.ManageTL Issuance.ManageM.
Import ListNotations.

(** frame: storage changes that keep every present part present, and leave the key alone while the
    caller is inside its load window, preserve the caller's view *)
Lemma Minv_frame n th st st' :
  (forall j, st (SK n j) <> None -> st' (SK n j) <> None) ->
  (in_load_window th -> st' (SK n KKey) = st (SK n KKey)) ->
  Minv n th st -> Minv n th st'.
Proof.
  intros Hmono Hkey HM Hf. destruct (HM Hf) as (A & B & (C1 & C2) & D). split; auto. split; auto.
  unfold Mpres, Mload, bundle_complete, pres, in_load_window in *.
  split; [split|].
  - intros X j. apply Hmono. apply C1; auto.
  - destruct (tpc th); auto;
      repeat match goal with j : kind |- _ => destruct j | p : phase |- _ => destruct p end;
      try exact I; try (intuition auto; fail).
    all: repeat split; intros; apply Hmono; intuition auto.
  - destruct (tpc th); auto. destruct j; auto. rewrite (Hkey I). auto.
Qed.

(** * Global invariants *)
Definition strict (n : nat) (s : state) (l : label) : Prop :=
  forall th, thread_at s (l_tid l) th -> c_vk (cfg th) = n -> strict_th th (l_fault l).

(** restriction under which F4c is proved for ManageSync: no fault of any kind inside a save of
    the bundle, and no unlocked load of ManageSync overlapping a save -- the two known findings *)
Definition okm (n : nat) (s : state) (l : label) : Prop :=
  strict n s l /\ no_overlap n s /\ forall s' e, step s l = Some (s', e) -> no_overlap n s'.

Definition NoRoll (n : nat) (s : state) : Prop :=
  forall t th, thread_at s t th -> c_vk (cfg th) = n -> no_roll th.
Definition Sall (n : nat) (s : state) : Prop :=
  forall t th, thread_at s t th -> touches n (cfg th) -> Sinv n th (sto (sh s)).
Definition no_saver (n : nat) (s : state) : Prop :=
  forall t th, thread_at s t th -> touches n (cfg th) -> ~ in_save_window th.
Definition Ginv (n : nat) (s : state) : Prop := no_saver n s -> stored_match (sto (sh s)) n.
Definition Mall (n : nat) (s : state) : Prop :=
  forall t th, thread_at s t th -> touches n (cfg th) -> c_prog (cfg th) = PManage -> Minv n th (sto (sh s)).

Lemma cert_prog_not_acct th : twf th -> cert_prog (cfg th) -> forall j, tpc th <> PQSv j.
Proof.
  intros (W1 & W2 & _) Hcp j E. rewrite E in W2; simpl in W2. unfold cert_prog in Hcp.
  destruct (c_prog (cfg th)); simpl in *; intuition congruence.
Qed.

Lemma frame_other n t th s f b th' s' e :
  c_vk (cfg th) <> n -> tstep t th s f b = Some (th', s', e) -> forall j, sto s' (SK n j) = sto s (SK n j).
Proof.
  intros Hv Hts j. destruct (tstep_sto_effect _ _ _ _ _ _ _ _ Hts) as [E|(k & v & E & Hkk)]; rewrite E; auto.
  rewrite sput_neq; auto. destruct Hkk as [->|[->|(j0 & -> & _)]]; try discriminate. intros X; inversion X; congruence.
Qed.

(** what one step can do to the bundle of [n] *)
Lemma step_write_cases n L s l th th' sh' e :
  canon n L s -> all_twf s -> NoRoll n s -> strict n s l ->
  thread_at s (l_tid l) th -> tstep (l_tid l) th (sh s) (l_fault l) (l_bit l) = Some (th', sh', e) ->
  (forall j, sto (sh s) (SK n j) <> None -> sto sh' (SK n j) <> None) /\
  (c_vk (cfg th) = n -> no_roll th') /\
  ((forall j, sto sh' (SK n j) = sto (sh s) (SK n j)) \/
   (touches n (cfg th) /\ locked (tpc th) = true /\
    (in_save_window th \/ (tpc th = PSave KKey /\ tpc th' = PSave KCrt)))).
Proof.
  intros HC HW HN Hst Ha Hts.
  destruct (Nat.eq_dec (c_vk (cfg th)) n) as [Hv|Hv].
  - assert (Hto : touches n (cfg th)) by (right; auto).
    destruct (HC _ _ Ha Hto) as (_ & _ & _ & _ & Hcp).
    assert (Hsok : save_ok_th th (l_fault l)).
    { apply strict_save_ok; [apply Hst; auto|]. apply cert_prog_not_acct; [exact (HW _ _ Ha)|exact Hcp]. }
    destruct (tstep_present n _ _ _ _ _ _ _ _ Hv Hsok (HN _ _ Ha Hv) Hts) as (P1 & P2).
    split; auto. split; auto.
    destruct (tstep_write_shape _ _ _ _ _ _ _ _ (HW _ _ Ha) Hcp Hts) as [F|(Hl & Hw)].
    + left. rewrite Hv in F. auto.
    + right. auto.
  - pose proof (frame_other n _ _ _ _ _ _ _ _ Hv Hts) as F.
    split; [intros j; rewrite F; auto|]. split; [congruence|]. left; auto.
Qed.

Lemma Sinv_frame n th st st' : (forall j, st' (SK n j) = st (SK n j)) -> Sinv n th st -> Sinv n th st'.
Proof.
  intros F. unfold Sinv. destruct (tpc th); auto. destruct j; auto.
  - rewrite F; auto.
  - apply stored_match_frame; auto.
Qed.

Lemma window_locked th : in_save_window th -> locked (tpc th) = true.
Proof. unfold in_save_window. destruct (tpc th); simpl; try tauto; auto. Qed.

Lemma Sall_step n L s l s' e :
  canon n L s -> all_twf s -> I_lock s -> NoRoll n s -> Sall n s -> strict n s l ->
  step s l = Some (s', e) -> Sall n s'.
Proof.
  intros HC HW HL HN HS Hst Hs t2 th2 Ht2 Hto2.
  destruct (step_thread_same _ _ _ _ Hs) as (th & th' & Ha & Hts & Ha' & Hoth).
  pose proof (tstep_cfg _ _ _ _ _ _ _ _ Hts) as Hcfg.
  destruct (step_threads _ _ _ _ _ _ Hs Ht2) as (th0 & th0' & Ha0 & Hts0 & [[-> ->]|[Hne Ho]]).
  - unfold thread_at in *. rewrite Ha in Ha0. inversion Ha0; subst th0. rewrite Hts in Hts0. inversion Hts0; subst th0'.
    rewrite Hcfg in Hto2. pose proof (HC _ _ Ha Hto2) as Hon.
    eapply tstep_Sinv; eauto. apply Hst; auto. destruct Hon as (_ & Hv & _); auto.
  - pose proof (HS _ _ Ho Hto2) as S2.
    destruct (step_write_cases n L s l th th' (sh s') e HC HW HN Hst Ha Hts) as (_ & _ & [F|(Hto & Hl & _)]).
    + eapply Sinv_frame; eauto.
    + (* the mover holds the lock: th2 is not inside a save *)
      unfold Sinv. destruct (tpc th2) eqn:E2; auto.
      assert (Hl2 : locked (tpc th2) = true) by (rewrite E2; reflexivity).
      exfalso. destruct (HC _ _ Ha Hto) as (_ & _ & HlkA & _). destruct (HC _ _ Ho Hto2) as (_ & _ & HlkB & _).
      pose proof (HL _ _ Ha Hl) as O1. pose proof (HL _ _ Ho Hl2) as O2. rewrite HlkA in O1. rewrite HlkB in O2. congruence.
Qed.

Lemma Ginv_step n L s l s' e :
  canon n L s -> all_twf s -> NoRoll n s -> Sall n s -> Ginv n s -> strict n s l ->
  step s l = Some (s', e) -> Ginv n s'.
Proof.
  intros HC HW HN HS HG Hst Hs Hno'.
  destruct (step_thread_same _ _ _ _ Hs) as (th & th' & Ha & Hts & Ha' & Hoth).
  pose proof (tstep_cfg _ _ _ _ _ _ _ _ Hts) as Hcfg.
  assert (Hothers : forall t2 th2, t2 <> l_tid l -> thread_at s t2 th2 -> touches n (cfg th2) -> ~ in_save_window th2).
  { intros t2 th2 Hne H2 Hto2. apply (Hno' t2 th2); auto. }
  destruct (step_write_cases n L s l th th' (sh s') e HC HW HN Hst Ha Hts) as (_ & _ & Hcases).
  assert (Hdec : touches n (cfg th) \/ ~ touches n (cfg th)).
  { unfold touches. destruct (Nat.eq_dec (c_pk (cfg th)) n); auto. destruct (Nat.eq_dec (c_vk (cfg th)) n); auto. right; tauto. }
  destruct Hdec as [Hto|Hnto].
  - pose proof (HC _ _ Ha Hto) as Hon. destruct Hon as (Hpk & Hvk & Hlk & Hfo & Hcp).
    assert (Hto' : touches n (cfg th')) by (rewrite Hcfg; auto).
    assert (Hnw' : ~ in_save_window th') by (apply (Hno' _ _ Ha' Hto')).
    assert (Hwin : in_save_window th \/ ~ in_save_window th).
    { unfold in_save_window. destruct (tpc th); auto; try (destruct j; auto). }
    destruct Hwin as [Hw|Hnw].
    + (* the mover leaves its save: by the Store of the metadata *)
      pose proof (tstep_strict_save _ _ _ _ _ _ _ _ (HW _ _ Ha) Hcp (Hst _ Ha Hvk) Hts) as SS.
      pose proof (HS _ _ Ha Hto) as S1. pose proof (HN _ _ Ha Hvk) as Hnr.
      unfold in_save_window, Sinv, no_roll in *.
      destruct (tpc th) eqn:Ep; try contradiction; try discriminate Hnr. destruct j; try contradiction.
      * destruct SS as (Hp' & _). rewrite Hp' in Hnw'. exfalso; apply Hnw'; exact I.
      * destruct SS as (_ & v & ->). rewrite Hvk.
        eapply stored_match_frame; [| |exact S1]; rewrite sput_neq; auto; intro X; inversion X.
    + assert (Hno : no_saver n s).
      { intros t2 th2 H2 Hto2. destruct (Nat.eq_dec t2 (l_tid l)) as [->|Hne]; [|eauto].
        unfold thread_at in *. rewrite Ha in H2. inversion H2; subst. auto. }
      specialize (HG Hno).
      destruct Hcases as [F|(_ & _ & [Hw|(_ & Hp')])].
      * eapply stored_match_frame; eauto.
      * contradiction.
      * exfalso. apply Hnw'. unfold in_save_window. rewrite Hp'. exact I.
  - assert (Hv : c_vk (cfg th) <> n) by (intro X; apply Hnto; right; auto).
    assert (Hno : no_saver n s).
    { intros t2 th2 H2 Hto2. destruct (Nat.eq_dec t2 (l_tid l)) as [->|Hne]; [|eauto].
      unfold thread_at in *. rewrite Ha in H2. inversion H2; subst. contradiction. }
    specialize (HG Hno). pose proof (frame_other n _ _ _ _ _ _ _ _ Hv Hts) as F.
    eapply stored_match_frame; eauto.
Qed.

Lemma Mall_step n L s l s' e :
  canon n L s -> all_twf s -> I_lock s -> I_rw s -> NoRoll n s -> Ginv n s -> Mall n s -> okm n s l ->
  step s l = Some (s', e) -> Mall n s'.
Proof.
  intros HC HW HL HR HN HG HM (Hst & Hno & Hno') Hs t2 th2 Ht2 Hto2 Hp2.
  specialize (Hno' _ _ Hs).
  destruct (step_thread_same _ _ _ _ Hs) as (th & th' & Ha & Hts & Ha' & Hoth).
  pose proof (tstep_cfg _ _ _ _ _ _ _ _ Hts) as Hcfg.
  destruct (step_threads _ _ _ _ _ _ Hs Ht2) as (th0 & th0' & Ha0 & Hts0 & [[-> ->]|[Hne Ho]]).
  - unfold thread_at in Ha0, Ha. rewrite Ha in Ha0. inversion Ha0; subst th0. rewrite Hts in Hts0. inversion Hts0; subst th0'.
    rewrite Hcfg in Hto2, Hp2.
    assert (A1 : on_key n L (cfg th)) by (apply (HC _ _ Ha Hto2)).
    assert (A2 : twf th) by (apply (HW _ _ Ha)).
    assert (A3 : Minv n th (sto (sh s))) by (apply (HM _ _ Ha Hto2 Hp2)).
    assert (A4 : tpc th = PChkL -> sto (sh s) (RW (l_tid l)) <> None) by (intros Hp; apply (HR _ _ Ha Hp)).
    assert (A5 : in_load_window th -> stored_match (sto (sh s)) n).
    { intros Hwin. apply HG. intros t3 th3 H3 Hto3 Hw3.
      destruct (Nat.eq_dec t3 (l_tid l)) as [->|Hne].
      * unfold thread_at in *. rewrite Ha in H3. inversion H3; subst.
        unfold in_load_window, in_save_window in *. destruct (tpc th3); auto.
      * eapply (Hno _ _ _ _ Ha H3); eauto. }
    exact (tstep_Minv n L _ _ _ _ _ _ _ _ A1 Hp2 A2 A3 A4 A5 Hts).
  - pose proof (HM _ _ Ho Hto2 Hp2) as M2.
    destruct (step_write_cases n L s l th th' (sh s') e HC HW HN Hst Ha Hts) as (Hmono & _ & Hcases).
    eapply Minv_frame; eauto.
    intros Hwin. destruct Hcases as [F|(Hto & Hl & [Hw|(_ & Hp')])]; auto.
    + exfalso. eapply (Hno _ _ _ _ Ho Ha); eauto.
    + exfalso. eapply (Hno' t2 th2 (l_tid l) th'); eauto.
      * rewrite Hcfg; auto.
      * unfold in_save_window. rewrite Hp'. exact I.
Qed.

Lemma NoRoll_step n L s l s' e :
  canon n L s -> all_twf s -> NoRoll n s -> strict n s l -> step s l = Some (s', e) -> NoRoll n s'.
Proof.
  intros HC HW HN Hst Hs t2 th2 Ht2 Hv2.
  destruct (step_thread_same _ _ _ _ Hs) as (th & th' & Ha & Hts & Ha' & Hoth).
  pose proof (tstep_cfg _ _ _ _ _ _ _ _ Hts) as Hcfg.
  destruct (step_threads _ _ _ _ _ _ Hs Ht2) as (th0 & th0' & Ha0 & Hts0 & [[-> ->]|[Hne Ho]]).
  - unfold thread_at in Ha0, Ha. rewrite Ha in Ha0. inversion Ha0; subst th0. rewrite Hts in Hts0. inversion Hts0; subst th0'.
    destruct (step_write_cases n L s l th th' (sh s') e HC HW HN Hst Ha Hts) as (_ & Hnr & _).
    apply Hnr. rewrite <- Hcfg. auto.
  - eauto.
Qed.

Lemma init_pc_cases c : forall p, tpc (init_thread c) = p ->
  p = PPre KCrt \/ p = PChkS \/ p = PLockCall \/ p = PMLd Ph0 KKey \/ p = PQLd false KMeta.
Proof.
  intros p <-. unfold init_thread, entry, after_pre; simpl. destruct (c_prog c); simpl; auto; destruct (c_chk c); auto.
Qed.

Lemma init_thread_at cs st t th : thread_at (init_state cs st) t th -> exists c, nth_error cs t = Some c /\ th = init_thread c.
Proof.
  unfold thread_at, init_state; simpl. rewrite nth_error_map. destruct (nth_error cs t) as [c|]; simpl; intros H; inversion H; eauto.
Qed.

(** F4c (ManageSync, partial): the stored key belongs to the stored certificate from the start
    (or one of them is missing); along every run -- any number of requests that spell the name
    canonically, any schedule, errors / cancellations / panics anywhere outside the Stores of a
    save, no unlocked load of ManageSync overlapping a save -- a ManageSync caller returns an error
    only if a fault was injected into one of its own operations. *)
Theorem manage_fails_only_by_own_fault cs st n L es s :
  canon0 n L cs -> stored_match st n -> runs (okm n) (init_state cs st) es s ->
  forall t th r, thread_at s t th -> touches n (cfg th) -> c_prog (cfg th) = PManage ->
    tpc th = PDone r -> r <> ROk -> flt th = true.
Proof.
  intros H0 Hsm R t th r Ht Hto Hp Hd Hr.
  assert (X : cfg_inv cs s /\ all_twf s /\ I_lock s /\ I_rw s /\ NoRoll n s /\ Sall n s /\ Ginv n s /\ Mall n s).
  { eapply (runs_inv (okm n) (fun s => cfg_inv cs s /\ all_twf s /\ I_lock s /\ I_rw s /\ NoRoll n s /\ Sall n s /\ Ginv n s /\ Mall n s)); eauto.
    - intros s3 l3 s4 e3 (A & B & C & D & E & F & G & H) Hok Hs3.
      pose proof (canon_of_cfg_inv _ _ _ _ H0 A) as HC. pose proof Hok as (Hst & _).
      split; [eapply cfg_inv_step; eauto|]. split; [eapply all_twf_step; eauto|].
      split; [eapply I_lock_step; eauto|]. split; [eapply I_rw_step; eauto|].
      split; [eapply NoRoll_step; eauto|]. split; [eapply Sall_step; eauto|].
      split; [eapply Ginv_step; eauto|]. eapply Mall_step; eauto.
    - split; [|split; [apply all_twf_init|split; [apply I_lock_init|split; [apply I_rw_init|]]]].
      { intros t0 th0 Ht0. destruct (init_thread_at _ _ _ _ Ht0) as (c & Hc & ->). auto. }
      split; [|split; [|split]].
      + intros t0 th0 Ht0 _. destruct (init_thread_at _ _ _ _ Ht0) as (c & Hc & ->).
        unfold no_roll. destruct (init_pc_cases c _ eq_refl) as [E|[E|[E|[E|E]]]]; rewrite E; reflexivity.
      + intros t0 th0 Ht0 _. destruct (init_thread_at _ _ _ _ Ht0) as (c & Hc & ->).
        unfold Sinv. destruct (init_pc_cases c _ eq_refl) as [E|[E|[E|[E|E]]]]; rewrite E; exact I.
      + intros _. exact Hsm.
      + intros t0 th0 Ht0 _ Hp0. destruct (init_thread_at _ _ _ _ Ht0) as (c & Hc & ->).
        simpl in Hp0. intros _. unfold Mpc_ok, Mpres, Mload, init_thread, entry; simpl. rewrite Hp0; simpl.
        repeat split; auto. discriminate. }
  destruct X as (_ & _ & _ & _ & _ & _ & _ & HM).
  specialize (HM _ _ Ht Hto Hp). unfold Minv in HM.
  destruct (flt th); auto. destruct (HM eq_refl) as (_ & H2 & _). rewrite Hd in H2. simpl in H2. congruence.
Qed.

(** ** executable check of [okm] along a run (for the Examples) *)
Definition strict_b (n : nat) (s : state) (l : label) : bool :=
  match nth_error (thr s) (l_tid l) with
  | Some th =>
      negb (Nat.eqb (c_vk (cfg th)) n) ||
      match tpc th with PSave _ => fault_eqb (l_fault l) FNone && negb (canc th) | _ => true end
  | None => true
  end.
Fixpoint run_okm (n : nat) (s : state) (ls : list label) : option (state * list ev) :=
  match ls with
  | [] => Some (s, [])
  | l :: r =>
      match step s l with
      | None => None
      | Some (s1, e) =>
          if strict_b n s l && negb (overlap_b n s) && negb (overlap_b n s1)
          then match run_okm n s1 r with Some (s2, es) => Some (s2, e :: es) | None => None end
          else None
      end
  end.

Lemma strict_b_sound n s l : strict_b n s l = true -> strict n s l.
Proof.
  unfold strict_b, strict, strict_th. intros H th Ht Hv. unfold thread_at in Ht. rewrite Ht in H.
  rewrite Hv, Nat.eqb_refl in H. simpl in H. destruct (tpc th); auto.
  apply andb_true_iff in H. destruct H as (A & B). split.
  - destruct (l_fault l); simpl in A; auto; discriminate.
  - destruct (canc th); auto; discriminate.
Qed.

Lemma run_okm_runs n s ls s' es : run_okm n s ls = Some (s', es) -> runs (okm n) s es s'.
Proof.
  revert s s' es; induction ls as [|l ls IH]; simpl; intros s s' es H.
  - inversion H; constructor.
  - destruct (step s l) as [[s1 e]|] eqn:E; [|discriminate].
    destruct (strict_b n s l && negb (overlap_b n s) && negb (overlap_b n s1)) eqn:C; [|discriminate].
    destruct (run_okm n s1 ls) as [[s2 es2]|] eqn:R; [|discriminate]. inversion H; subst.
    apply andb_true_iff in C. destruct C as (C12 & C3). apply andb_true_iff in C12. destruct C12 as (C1 & C2).
    econstructor; eauto. split; [apply strict_b_sound; auto|]. split.
    + apply overlap_b_sound. destruct (overlap_b n s); auto; discriminate.
    + intros s3 e3 E3. rewrite E in E3. inversion E3; subst. apply overlap_b_sound. destruct (overlap_b n s3); auto; discriminate.
Qed.
