(** Proofs about the Issuance LTS (Model.v): thread-level lemmas, one file per lemma family so
    that the case analyses build in parallel. *)
From CM Require Export Issuance.Base Issuance.LockEffect Issuance.StoEffect Issuance.Twf Issuance.Progress.
