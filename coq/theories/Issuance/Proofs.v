(** Proofs about the Issuance LTS (Model.v). *)
From Coq Require Import List Bool Arith Lia.
From CM Require Import Issuance.Model.
Import ListNotations.

(** * Lists *)
Lemma nth_upd_eq {A} (l : list A) n x : n < length l -> nth_error (upd l n x) n = Some x.
Proof. revert n; induction l as [|a l IH]; intros [|n] H; simpl in *; try lia; auto. apply IH; lia. Qed.
Lemma nth_upd_neq {A} (l : list A) n m x : n <> m -> nth_error (upd l n x) m = nth_error l m.
Proof. revert n m; induction l as [|a l IH]; intros [|n] [|m] H; simpl; auto; try congruence. Qed.
Lemma length_upd {A} (l : list A) n x : length (upd l n x) = length l.
Proof. revert n; induction l as [|a l IH]; intros [|n]; simpl; auto. Qed.
Lemma nth_upd {A} (l : list A) n m x y :
  nth_error (upd l n x) m = Some y -> (n = m /\ y = x /\ n < length l) \/ (n <> m /\ nth_error l m = Some y).
Proof.
  intros H. destruct (Nat.eq_dec n m) as [->|Hne].
  - left. assert (m < length l).
    { rewrite <- (length_upd l m x). apply nth_error_Some. congruence. }
    rewrite nth_upd_eq in H by auto. split; auto. split; auto. congruence.
  - right. rewrite nth_upd_neq in H; auto.
Qed.

Lemma skey_eqb_eq a b : skey_eqb a b = true <-> a = b.
Proof.
  destruct a as [n k| |], b as [m j| |]; simpl; try (split; congruence).
  - rewrite andb_true_iff, Nat.eqb_eq. destruct k, j; simpl; split; intros H; try (destruct H; congruence); try (inversion H; auto); try discriminate.
  - rewrite Nat.eqb_eq. split; congruence.
Qed.
Lemma skey_eqb_refl a : skey_eqb a a = true. Proof. apply skey_eqb_eq; auto. Qed.
Lemma sput_eq s k v : sput s k v k = v. Proof. unfold sput; rewrite skey_eqb_refl; auto. Qed.
Lemma sput_neq s k v k' : k <> k' -> sput s k v k' = s k'.
Proof. unfold sput; intros H. destruct (skey_eqb k k') eqn:E; auto. apply skey_eqb_eq in E; congruence. Qed.
Lemma lput_eq l k v : lput l k v k = v. Proof. unfold lput; rewrite Nat.eqb_refl; auto. Qed.
Lemma lput_neq l k v k' : k <> k' -> lput l k v k' = l k'.
Proof. unfold lput; intros H. destruct (Nat.eqb_spec k k'); congruence. Qed.

(** * Runs *)
Lemma step_inv s l s' e :
  step s l = Some (s', e) ->
  exists th th' sh', nth_error (thr s) (l_tid l) = Some th /\
    tstep (l_tid l) th (sh s) (l_fault l) (l_bit l) = Some (th', sh', e) /\
    s' = State (upd (thr s) (l_tid l) th') sh'.
Proof.
  unfold step. destruct (nth_error (thr s) (l_tid l)) as [th|] eqn:E; [|discriminate].
  destruct (tstep _ _ _ _ _) as [[[th' sh'] e']|] eqn:T; [|discriminate].
  intros H; inversion H; subst. eauto 10.
Qed.

(** runs all of whose steps satisfy [ok] (a restriction on schedules / fault plans) *)
Inductive runs (ok : state -> label -> Prop) : state -> list ev -> state -> Prop :=
| runs_nil s : runs ok s [] s
| runs_cons s l s1 e es s2 : ok s l -> step s l = Some (s1, e) -> runs ok s1 es s2 -> runs ok s (e :: es) s2.

Definition any_label (s : state) (l : label) : Prop := True.
Definition reachable_from (s0 s : state) : Prop := exists es, runs any_label s0 es s.
Definition reachable (cs : list tcfg) (st : skey -> option value) (s : state) : Prop :=
  reachable_from (init_state cs st) s.

Lemma runs_inv (ok : state -> label -> Prop) (I : state -> Prop) :
  (forall s l s' e, I s -> ok s l -> step s l = Some (s', e) -> I s') ->
  forall s es s', runs ok s es s' -> I s -> I s'.
Proof. intros Hs s es s' R; induction R; auto. intros; apply IHR; eauto. Qed.

Lemma runs_weaken (ok ok' : state -> label -> Prop) s es s' :
  (forall s l, ok s l -> ok' s l) -> runs ok s es s' -> runs ok' s es s'.
Proof. intros H R; induction R; econstructor; eauto. Qed.

Lemma runs_app (ok : state -> label -> Prop) s es s1 es' s2 : runs ok s es s1 -> runs ok s1 es' s2 -> runs ok s (es ++ es') s2.
Proof. intros R; induction R; simpl; auto. intros; econstructor; eauto. Qed.

Lemma run_runs s ls s' es : run s ls = Some (s', es) -> runs any_label s es s'.
Proof.
  revert s s' es; induction ls as [|l ls IH]; simpl; intros s s' es H.
  - inversion H; constructor.
  - destruct (step s l) as [[s1 e]|] eqn:E; [|discriminate].
    destruct (run s1 ls) as [[s2 es2]|] eqn:R; [|discriminate]. inversion H; subst.
    econstructor; eauto. exact I.
Qed.

(** * Thread-level case analysis *)
(* destruct an innermost scrutinee (one that contains no other match) *)
Ltac break_match_hyp H :=
  match type of H with
  | context [match ?x with _ => _ end] =>
      lazymatch x with
      | context [match _ with _ => _ end] => fail
      | _ => destruct x eqn:?
      end
  end.
Ltac inv_some H := inversion H; subst; clear H.

Ltac brk H := repeat (break_match_hyp H; simpl in H; try discriminate H).
(** unfold one thread step completely: every case of pc, fault, storage / lock look-up and of
    the continuation helpers.  Use after [destruct th; destruct (pc)]. *)
Ltac tstep_full H :=
  unfold tstep, norm_pc, mark, body_start in H; simpl in H; brk H;
  try (unfold exec, fresh_key, body_start in H; simpl in H; brk H);
  unfold panic_goto in H; simpl in H; brk H;
  unfold fin_op, after_attempt, start_renew, start_obtain, body_start, after_pre,
    set_pc, set_cur, set_lkey, set_lcrt, set_nk, set_nc, set_seen, set_recd, is_async, with_sto, with_lks in H; simpl in H;
  brk H.
Ltac tstep_start H th :=
  let c := fresh "c" in let p := fresh "p" in
  destruct th as [c p ? ? ? ? ? ? ? ? ?]; destruct p.

Lemma tstep_cfg t th s f b th' s' e :
  tstep t th s f b = Some (th', s', e) -> cfg th' = cfg th.
Proof. intros H. tstep_start H th. all: tstep_full H. all: inv_some H; reflexivity. Qed.

Lemma tstep_tid t th s f b th' s' e :
  tstep t th s f b = Some (th', s', e) -> e_tid e = t.
Proof. intros H. tstep_start H th. all: tstep_full H. all: inv_some H; reflexivity. Qed.

(** * Lock discipline (thread level) *)
(** the Unlock call of the label fails: an injected error or panic at the deferred release *)
Definition unlock_fault_th (th : thread) (f : fault) (b : bool) : bool :=
  match norm_pc (mark th f) b with
  | Some (PUnlock _) => fault_eqb f FErr || fault_eqb f FPanic
  | _ => false
  end.

Inductive lock_effect (t : nat) (th th' : thread) (s s' : shared) (f : fault) (b : bool) : Prop :=
| le_neutral : lks s' = lks s -> recd th' = recd th -> locked (tpc th') = locked (tpc th) -> lock_effect t th th' s s' f b
| le_acquire : tpc th = PLockWait -> lks s (c_lk (cfg th)) = None ->
    lks s' = lput (lks s) (c_lk (cfg th)) (Some t) -> recd th' = true -> locked (tpc th') = true ->
    lock_effect t th th' s s' f b
| le_release : locked (tpc th) = true -> locked (tpc th') = false -> lks s (c_lk (cfg th)) = Some t ->
    lks s' = lput (lks s) (c_lk (cfg th)) None -> recd th' = false -> unlock_fault_th th f b = false ->
    lock_effect t th th' s s' f b
| le_failed : locked (tpc th) = true -> locked (tpc th') = false -> lks s' = lks s -> recd th' = recd th ->
    (unlock_fault_th th f b = true \/ lks s (c_lk (cfg th)) <> Some t) ->
    lock_effect t th th' s s' f b.

Lemma tstep_lock_effect t th s f b th' s' e :
  tstep t th s f b = Some (th', s', e) -> lock_effect t th th' s s' f b.
Proof.
  intros H. destruct th as [c p ? ? ? ? ? ? ? ? ?]. destruct p.
  all: tstep_full H. all: inv_some H.
  all: try (apply le_neutral; reflexivity).
  all: try (apply le_acquire; simpl; auto; fail).
  all: try (apply le_release; simpl; auto;
            try (match goal with E : Nat.eqb _ _ = true |- _ => apply Nat.eqb_eq in E; subst; auto end);
            unfold unlock_fault_th, norm_pc, mark; simpl in *;
            repeat match goal with E : _ = true |- _ => rewrite E end; auto; fail).
  all: try (apply le_failed; simpl; auto;
            try (right; intros X; rewrite X in *; try discriminate;
                 match goal with E : Some _ = Some _ |- _ => inversion E; subst end;
                 rewrite Nat.eqb_refl in *; discriminate); fail).
  all: try (apply le_failed; simpl; auto; left; unfold unlock_fault_th, norm_pc, mark; simpl in *;
            repeat match goal with E : _ = true |- _ => rewrite E end; auto; fail).
Qed.
(** * Storage frame (thread level) *)
Definition writes_pc (p : pc) (j : kind) : Prop :=
  p = PSave j \/ p = PRoll j \/ (p = PAStore /\ j = KMeta).

Lemma tstep_sto_effect t th s f b th' s' e :
  tstep t th s f b = Some (th', s', e) ->
  sto s' = sto s \/
  exists k v, sto s' = sput (sto s) k v /\
    (k = RW t \/ k = SLast \/ exists j, k = SK (c_vk (cfg th)) j /\ writes_pc (tpc th) j).
Proof.
  intros H. destruct th as [c p ? ? ? ? ? ? ? ? ?]. destruct p.
  all: tstep_full H. all: inv_some H. all: try (left; reflexivity).
  all: right; eexists; eexists; split; [reflexivity|]; simpl; auto.
  all: try (right; right; eexists; split; [reflexivity|]; unfold writes_pc; auto; fail).
Qed.
(** * Progress (thread level) *)
Lemma tstep_enabled t th s :
  final_pc (tpc th) = false -> tpc th <> PLockWait ->
  exists r, tstep t th s FNone true = Some r.
Proof.
  intros Hf Hw. destruct th as [c p cu ? ? ? ? ? ? ? ?]. destruct p; simpl in *; try discriminate; try congruence.
  all: unfold tstep, norm_pc, mark, body_start; simpl.
  all: try (unfold exec; simpl; repeat match goal with |- context [match ?x with _ => _ end] =>
         lazymatch x with context [match _ with _ => _ end] => fail | _ => destruct x eqn:? end end; eauto; fail).
  all: destruct cu; simpl; try destruct (c_prog c); try destruct interval; simpl.
  all: try (unfold exec; simpl; repeat match goal with |- context [match ?x with _ => _ end] =>
         lazymatch x with context [match _ with _ => _ end] => fail | _ => destruct x eqn:? end end; eauto; fail).
Qed.

Lemma tstep_lockwait_enabled t th s :
  tpc th = PLockWait -> lks s (c_lk (cfg th)) = None -> exists r, tstep t th s FNone true = Some r.
Proof.
  intros Hp Hl. destruct th as [c p cu ? ? ? ? ? ? ? ?]; simpl in *; subst.
  unfold tstep, norm_pc, mark; simpl. unfold exec; simpl. rewrite Hl. eauto.
Qed.

(** * Termination measure for the programs without a retry loop *)
Definition rank (p : pc) : nat :=
  match p with
  | PPre KCrt => 40 | PPre KKey => 39 | PPre KMeta => 38
  | PChkS => 36 | PChkL => 35 | PChkD _ => 34 | PLockCall => 33 | PLockWait => 32
  | PRe KCrt => 31 | PRe KKey => 30 | PRe KMeta => 29
  | PLd KKey => 31 | PLd KCrt => 30 | PLd KMeta => 29
  | PEmit1 => 28 | PReuse => 27 | PIssS => 26 | PIssE => 25 | PEmitF _ => 24
  | PSave KKey => 23 | PSave KCrt => 22 | PSave KMeta => 21
  | PRoll KCrt => 20 | PRoll _ => 19 | PEmit2 => 20
  | PCLoad => 31 | PCBody => 30 | PCStore => 29
  | PALoad1 => 31 | PAGet => 30 | PALoad2 => 29 | PAStore => 28
  | PWait => 32
  | PUnlock _ => 10
  | PMLd Ph0 KKey => 120 | PMLd Ph0 KCrt => 119 | PMLd Ph0 KMeta => 118 | PMOcsp Ph0 => 116 | PMEmit Ph0 => 115
  | PMLd _ KKey => 50 | PMLd _ KCrt => 49 | PMLd _ KMeta => 48 | PMOcsp _ => 47 | PMEmit _ => 46
  | PDone _ => 0
  end.
Definition is_mpc (p : pc) : bool := match p with PMLd _ _ | PMOcsp _ | PMEmit _ | PDone _ => true | _ => false end.
Definition rem (th : thread) : nat :=
  (match c_prog (cfg th) with PManage => if is_mpc (tpc th) then 0 else 60 | _ => 0 end) + rank (tpc th).
(** programs whose every path is finite: no doWithRetry loop, no CleanStorage body *)
Definition finite_prog (c : tcfg) : bool :=
  match c_prog c with PObtain false | PRenew false | PManage | PAri _ => true | _ => false end.

(** thread-local consistency of program, current operation and program counter *)
Definition mpc (p : pc) : bool := match p with PMLd _ _ | PMOcsp _ | PMEmit _ | PCLoad | PCBody | PCStore => true | _ => false end.
Definition cpc (p : pc) : bool := match p with PMLd _ _ | PMOcsp _ | PMEmit _ => true | _ => false end.
Definition twf (th : thread) : Prop :=
  match c_prog (cfg th) with
  | PObtain _ => cur th = OpObtain /\ mpc (tpc th) = false
  | PRenew _ => cur th = OpRenew /\ mpc (tpc th) = false
  | PClean _ => cur th = OpClean /\ cpc (tpc th) = false
  | PAri _ => cur th = OpAri /\ mpc (tpc th) = false
  | PManage => (cur th = OpObtain \/ cur th = OpRenew) /\ match tpc th with PCLoad | PCBody | PCStore => False | _ => True end
  end.

Lemma twf_init c : twf (init_thread c).
Proof. unfold twf, init_thread, entry, after_pre; simpl. destruct (c_prog c); simpl; auto; destruct (c_chk c); auto. Qed.

Lemma tstep_twf t th s f b th' s' e :
  twf th -> tstep t th s f b = Some (th', s', e) -> twf th'.
Proof.
  intros Hwf H. destruct th as [c p cu ? ? ? ? ? ? ? ?]. destruct p.
  all: tstep_full H. all: inv_some H. all: unfold twf in *; simpl in *.
  all: repeat match goal with E : c_prog _ = _ |- _ => rewrite E in *; clear E end; simpl in *; auto.
  all: try (destruct (c_prog c); simpl in *; intuition (auto; discriminate)).
  all: try (intuition (auto; discriminate)).
Qed.

Lemma tstep_rem t th s f b th' s' e :
  twf th -> finite_prog (cfg th) = true -> tstep t th s f b = Some (th', s', e) -> rem th' < rem th.
Proof.
  intros Hwf Hfin H. destruct th as [c p cu ? ? ? ? ? ? ? ?]. unfold finite_prog in Hfin; unfold twf in Hwf; simpl in Hfin, Hwf.
  destruct p.
  all: tstep_full H. all: inv_some H.
  all: unfold rem; simpl.
  all: repeat match goal with j : kind |- _ => destruct j | p : phase |- _ => destruct p end; simpl in *; try discriminate.
  all: repeat match goal with E : Some _ = Some _ |- _ => inversion E; subst; clear E end.
  all: repeat match goal with E : c_prog _ = _ |- _ => rewrite E in *; clear E end; simpl in *; try discriminate; try lia.
  all: try (destruct (c_prog c) as [[|]|[|]| | |]; simpl in *; try discriminate; try lia; intuition (try discriminate; try lia)).
  all: try (intuition (try discriminate; try lia); fail).
Qed.
