(** Issuance LTS: what the model guarantees for the situations the driver generates in addition to
    plain faults -- a lock granted to a request whose context has already ended, a leader that dies
    holding the lock (the Locker's staleness rule frees it), instances on separate storages using one
    lock name, CleanUpOwnLocks at exit, a lock key that depends on the issuer list -- and the
    soundness of the lock monitor S9 on the model's own final states. *)
From Coq Require Import List Bool Arith Lia.
From CM Require Import Issuance.Model Issuance.Proofs Issuance.Invariants Issuance.Refuted.
Import ListNotations.

(** * 1. The Locker grants a free lock whatever the state of the caller's context *)
(** the acquisition step does not look at [canc]: a request whose context ended at the Lock gate
    still acquires, is recorded, and is then inside the locked region -- from where
    [locks_released] applies to it like to any other holder *)
Theorem lock_granted_regardless_of_context t th s b :
  tpc th = PLockWait -> lks s (c_lk (cfg th)) = None ->
  exists th' s' e, tstep t th s FNone b = Some (th', s', e) /\
    locked (tpc th') = true /\ recd th' = true /\ lks s' (c_lk (cfg th)) = Some t /\ canc th' = canc th.
Proof.
  intros Hp Hl. destruct th as [c p cu ca ? ? ? ? ? ? ?]; simpl in *; subst.
  unfold tstep, norm_pc, mark; simpl. unfold exec; simpl. rewrite Hl.
  do 3 eexists. split; [reflexivity|]. simpl. rewrite lput_eq.
  unfold body_start, set_pc, set_recd; simpl. rewrite orb_false_r.
  destruct cu; simpl; auto; destruct (c_prog c); simpl; auto; destruct interval; simpl; auto.
Qed.

(** ... and whatever happens then (its storage calls fail, the issuer refuses, it panics), when it
    has returned it holds nothing and has recorded nothing: [locks_released] for a request that
    was already cancelled when it took the lock, stated from the state after the acquisition *)
Theorem cancelled_holder_releases s0 t es s th :
  I_lock s0 -> J_thread t s0 ->
  runs (unlock_ok_for t) s0 es s -> thread_at s t th -> final_pc (tpc th) = true ->
  recd th = false /\ forall l, lks (sh s) l <> Some t.
Proof.
  intros HI HJ R Ht Hf.
  destruct (runs_inv2 (unlock_ok_for t) I_lock (J_thread t)) with (s := s0) (es := es) (s' := s) as [_ HJ']; auto.
  - intros; eapply I_lock_step; eauto.
  - intros; eapply J_thread_step; eauto.
  - destruct (HJ' _ Ht) as [Hr Hown].
    assert (Hl : locked (tpc th) = false) by (destruct (tpc th); simpl in *; auto; discriminate).
    split; [congruence|]. intros l Hl0. apply Hown in Hl0. destruct Hl0; congruence.
Qed.

(** * 2. A leader dies holding the lock; the staleness rule frees it *)
(** the state after request [t] has died (it will never move again) and the Locker's staleness
    rule has fired for everything it held *)
Definition dead_thread (th : thread) : thread := set_recd (set_pc th (PDone RPanic)) false.
Definition free_locks_of (t : nat) (l : nat -> option nat) : nat -> option nat :=
  fun k => match l k with Some u => if Nat.eqb u t then None else Some u | None => None end.
Definition crash_stale (s : state) (t : nat) : state :=
  match nth_error (thr s) t with
  | Some th => State (upd (thr s) t (dead_thread th)) (with_lks (sh s) (free_locks_of t (lks (sh s))))
  | None => s
  end.

Lemma crash_thread_at s t th u thu :
  thread_at s t th -> thread_at (crash_stale s t) u thu ->
  (u = t /\ thu = dead_thread th) \/ (u <> t /\ thread_at s u thu).
Proof.
  unfold thread_at, crash_stale. intros Ht Hu. rewrite Ht in Hu. simpl in Hu.
  apply nth_upd in Hu. destruct Hu as [(E & -> & _)|(Hne & H)]; auto.
Qed.

(** the lock discipline survives the crash: every request inside its locked region still owns its
    lock, so F1 (disjoint issue spans) and everything else that rests on [I_lock] goes on *)
Theorem crash_preserves_I_lock s t : I_lock s -> I_lock (crash_stale s t).
Proof.
  intros HI. unfold crash_stale. destruct (nth_error (thr s) t) as [th|] eqn:Et; auto.
  intros u thu Hu Hl.
  assert (Hu' : thread_at (crash_stale s t) u thu) by (unfold crash_stale; rewrite Et; exact Hu).
  destruct (crash_thread_at s t th u thu Et Hu') as [(-> & ->)|(Hne & H)].
  - simpl in Hl. discriminate.
  - simpl. unfold free_locks_of. rewrite (HI _ _ H Hl).
    destruct (Nat.eqb_spec u t); congruence.
Qed.

Theorem crash_preserves_K_rec s t : K_rec s -> K_rec (crash_stale s t).
Proof.
  intros HK. unfold crash_stale. destruct (nth_error (thr s) t) as [th|] eqn:Et; auto.
  intros l u Hl. simpl in Hl. unfold free_locks_of in Hl.
  destruct (lks (sh s) l) as [v|] eqn:E; [|discriminate].
  destruct (Nat.eqb_spec v t) as [->|Hne]; [discriminate|]. inversion Hl; subst v.
  destruct (HK _ _ E) as (thu & A & B & C). exists thu. split; auto.
  unfold thread_at; simpl. rewrite nth_upd_neq; auto.
Qed.

(** take-over: a request that was waiting for the dead leader's lock can acquire it at once *)
Theorem waiter_takes_over_after_crash s t th w thw :
  I_lock s -> thread_at s t th -> locked (tpc th) = true ->
  thread_at s w thw -> w <> t -> tpc thw = PLockWait -> c_lk (cfg thw) = c_lk (cfg th) ->
  exists s' e, step (crash_stale s t) (Label w FNone true) = Some (s', e) /\
    e_op e = OAcq (c_lk (cfg thw)) /\ e_out e = 0 /\ lks (sh s') (c_lk (cfg thw)) = Some w.
Proof.
  intros HI Ht Hl Hw Hne Hp Hk.
  pose proof (HI _ _ Ht Hl) as Hown.
  assert (Hfree : lks (sh (crash_stale s t)) (c_lk (cfg thw)) = None).
  { unfold crash_stale. unfold thread_at in Ht. rewrite Ht. simpl. unfold free_locks_of.
    rewrite Hk, Hown, Nat.eqb_refl. reflexivity. }
  assert (Hw' : nth_error (thr (crash_stale s t)) w = Some thw).
  { unfold crash_stale. unfold thread_at in Ht, Hw. rewrite Ht. simpl. rewrite nth_upd_neq; auto. }
  destruct (lock_granted_regardless_of_context w thw (sh (crash_stale s t)) true Hp Hfree)
    as (th' & s' & e & Hts & _ & _ & Hlk & _).
  unfold step; simpl. rewrite Hw'. rewrite Hts. do 2 eexists. split; [reflexivity|].
  simpl. split; [|split; auto].
  - destruct thw as [c p ? ? ? ? ? ? ? ? ?]; simpl in *; subst.
    unfold tstep, norm_pc, mark in Hts; simpl in Hts. unfold exec in Hts; simpl in Hts. rewrite Hfree in Hts.
    inversion Hts; reflexivity.
  - destruct thw as [c p ? ? ? ? ? ? ? ? ?]; simpl in *; subst.
    unfold tstep, norm_pc, mark in Hts; simpl in Hts. unfold exec in Hts; simpl in Hts. rewrite Hfree in Hts.
    inversion Hts; reflexivity.
Qed.

(** ... and along every continuation after the crash (any schedule, any faults) the lock
    discipline holds: in particular issue spans stay disjoint *)
Theorem exclusion_after_crash s t es s' :
  I_lock s -> runs any_label (crash_stale s t) es s' -> I_lock s'.
Proof.
  intros HI R. eapply (runs_inv any_label I_lock); eauto.
  - intros; eapply I_lock_step; eauto.
  - apply crash_preserves_I_lock; auto.
Qed.

(** * 3. Separate storages, one lock name: a step touches only the mover's own lock *)
Theorem step_touches_only_own_lock s l s' e th :
  step s l = Some (s', e) -> thread_at s (l_tid l) th ->
  forall k, k <> c_lk (cfg th) -> lks (sh s') k = lks (sh s) k.
Proof.
  intros Hs Ha k Hk.
  destruct (step_thread_same _ _ _ _ Hs) as (th0 & th' & Ha0 & Hts & _).
  unfold thread_at in *. rewrite Ha in Ha0. inversion Ha0; subst th0.
  destruct (tstep_lock_effect _ _ _ _ _ _ _ _ Hts) as [E _ _|_ _ E _ _|_ _ _ E _ _|_ _ E _ _]; rewrite E; auto;
    try (rewrite lput_neq; [reflexivity|congruence]).
Qed.

(** * 4. CleanUpOwnLocks: unlocking every recorded key releases everything *)
Definition cleanup_lks (s : state) : nat -> option nat :=
  fun k => match lks (sh s) k with
           | Some t => match nth_error (thr s) t with
                       | Some th => if recd th && Nat.eqb k (c_lk (cfg th)) then None else Some t
                       | None => Some t
                       end
           | None => None
           end.

Theorem cleanup_releases_everything cs st s : reachable cs st s -> forall k, cleanup_lks s k = None.
Proof.
  intros Hr k. pose proof (held_is_recorded _ _ _ Hr) as HK. unfold cleanup_lks.
  destruct (lks (sh s) k) as [t|] eqn:E; auto.
  destruct (HK _ _ E) as (th & A & B & C). unfold thread_at in A. rewrite A, B, C, Nat.eqb_refl. reflexivity.
Qed.

(** * 5. Soundness of the lock monitor S9 on the model *)
(** when no Unlock call was made to fail and every request has returned, the lock table is empty
    and nothing is recorded: the quantities the monitor compares with zero *)
Theorem model_passes_lock_monitor cs st es s :
  runs unlock_ok (init_state cs st) es s ->
  (forall t th, thread_at s t th -> final_pc (tpc th) = true) ->
  (forall k, lks (sh s) k = None) /\ (forall t th, thread_at s t th -> recd th = false).
Proof.
  intros R Hfin.
  assert (Hrel : forall t th, thread_at s t th -> recd th = false /\ forall l, lks (sh s) l <> Some t).
  { intros t th Ht. eapply (locks_released cs st t es s th); eauto.
    eapply runs_weaken; [|exact R]. intros s0 l0 Hok E th0 Ht0. subst t. apply Hok; auto. }
  assert (Hr : reachable cs st s).
  { exists es. eapply runs_weaken; [|exact R]. intros; exact I. }
  split.
  - intros k. destruct (lks (sh s) k) as [t|] eqn:E; auto.
    destruct (held_is_recorded _ _ _ Hr _ _ E) as (th & A & _).
    destruct (Hrel _ _ A) as (_ & N). exfalso. eapply N; eauto.
  - intros t th Ht. apply (Hrel _ _ Ht).
Qed.

(** * 6. A lock key that depends on the issuer list: refuted *)
(** two configs that agree on the storage names and the identifier but not on the lock key (what
    a key built from "name + preferred issuer" gives when issuer lists differ): both pass the
    pre-check and the re-check, both are inside the issuer at the same time, two certificates *)
Definition obtain_lockA : tcfg := TCfg (PObtain false) 0 0 0 0 false false false false.
Definition obtain_lockB : tcfg := TCfg (PObtain false) 1 0 0 0 false false false false.

Theorem issuer_dependent_lock_key_refuted :
  exists s es th1 th2,
    run (init_state [obtain_lockA; obtain_lockB] no_sto) (sched (rep 6 0 ++ rep 6 1)) = Some (s, es) /\
    thread_at s 0 th1 /\ thread_at s 1 th2 /\ in_span th1 = true /\ in_span th2 = true /\
    c_idn (cfg th1) = c_idn (cfg th2) /\ c_pk (cfg th1) = c_pk (cfg th2) /\ c_vk (cfg th1) = c_vk (cfg th2).
Proof.
  destruct (run (init_state [obtain_lockA; obtain_lockB] no_sto) (sched (rep 6 0 ++ rep 6 1))) as [[s es]|] eqn:R;
    [|vm_compute in R; discriminate].
  exists s, es. vm_compute in R. inversion R; subst s es; clear R.
  do 2 eexists. split; [reflexivity|]. unfold thread_at; simpl. split; [reflexivity|]. split; [reflexivity|]. auto.
Qed.

(** * 7. Nobody hangs behind a dead leader *)
Theorem crash_preserves_J_owner s t : J_owner s -> J_owner (crash_stale s t).
Proof.
  intros HJ. unfold crash_stale. destruct (nth_error (thr s) t) as [th|] eqn:Et; auto.
  intros l u Hl. simpl in Hl. unfold free_locks_of in Hl.
  destruct (lks (sh s) l) as [v|] eqn:E; [|discriminate].
  destruct (Nat.eqb_spec v t) as [->|Hne]; [discriminate|]. inversion Hl; subst v.
  destruct (HJ _ _ E) as (thu & A & B & C). exists thu. split; auto.
  unfold thread_at; simpl. rewrite nth_upd_neq; auto.
Qed.

(** progress from any state that satisfies the two lock invariants (the general form of
    [deadlock_free]) *)
Theorem deadlock_free_from s0 es s :
  I_lock s0 -> J_owner s0 -> runs unlock_ok s0 es s ->
  (exists t th, thread_at s t th /\ final_pc (tpc th) = false) ->
  exists l s' e, l_fault l = FNone /\ step s l = Some (s', e).
Proof.
  intros HI0 HJ0 R (t & th & Ht & Hnf).
  destruct (runs_inv2 unlock_ok I_lock J_owner) with (s := s0) (es := es) (s' := s) as [HI HJ]; auto.
  { intros; eapply I_lock_step; eauto. }
  { intros; eapply J_owner_step; eauto. }
  assert (Hen : forall u thu, thread_at s u thu -> final_pc (tpc thu) = false -> tpc thu <> PLockWait ->
           exists l s' e, l_fault l = FNone /\ step s l = Some (s', e)).
  { intros u thu Hu Hf Hw. destruct (tstep_enabled u thu (sh s) Hf Hw) as [[[th' sh'] e] He].
    exists (Label u FNone true). unfold step; simpl. unfold thread_at in Hu. rewrite Hu, He. eauto. }
  destruct (pc_eq_lockwait (tpc th)) as [Hw|Hw]; [|eapply Hen; eauto].
  destruct (lks (sh s) (c_lk (cfg th))) as [u|] eqn:Hl.
  - destruct (HJ _ _ Hl) as (thu & Hu & Lu & _). eapply (Hen u thu); auto.
    + destruct (tpc thu); simpl in *; auto; discriminate.
    + intros E; rewrite E in Lu; discriminate.
  - destruct (tstep_lockwait_enabled t th (sh s) Hw Hl) as [[[th' sh'] e] He].
    exists (Label t FNone true). unfold step; simpl. unfold thread_at in Ht. rewrite Ht, He. eauto.
Qed.

(** after a leader has died at any point of any run and the staleness rule has fired, along every
    continuation in which no Unlock is made to fail, every state with an unfinished request has a
    fault-free step: the followers never hang *)
Theorem no_hang_after_crash cs st es0 s t es s' :
  runs unlock_ok (init_state cs st) es0 s -> runs unlock_ok (crash_stale s t) es s' ->
  (exists u th, thread_at s' u th /\ final_pc (tpc th) = false) ->
  exists l s'' e, l_fault l = FNone /\ step s' l = Some (s'', e).
Proof.
  intros R0 R Hex.
  destruct (runs_inv2 unlock_ok I_lock J_owner) with (s := init_state cs st) (es := es0) (s' := s) as [HI HJ]; auto.
  { intros; eapply I_lock_step; eauto. }
  { intros; eapply J_owner_step; eauto. }
  { apply I_lock_init. }
  { apply J_owner_init. }
  eapply deadlock_free_from; [| |exact R|exact Hex].
  - apply crash_preserves_I_lock; auto.
  - apply crash_preserves_J_owner; auto.
Qed.

(** witness: the leader dies inside the issuer; the follower, which was waiting for the lock,
    acquires it, issues, saves and succeeds *)
Lemma ex_takeover_after_crash :
  exists s es s1 es1 th1,
    run (init_state [obtain_lockA; obtain_lockA] no_sto) (sched (rep 6 0 ++ rep 2 1)) = Some (s, es) /\
    run (crash_stale s 0) (sched (rep 10 1)) = Some (s1, es1) /\
    thread_at s1 1 th1 /\ tpc th1 = PDone ROk /\ flt th1 = false /\
    sto (sh s1) (SK 0 KCrt) <> None /\ lks (sh s1) 0 = None.
Proof.
  destruct (run (init_state [obtain_lockA; obtain_lockA] no_sto) (sched (rep 6 0 ++ rep 2 1))) as [[s es]|] eqn:R;
    [|vm_compute in R; discriminate].
  exists s, es. vm_compute in R. inversion R; subst s es; clear R.
  match goal with |- exists s1 es1 th1, _ /\ run ?x ?y = _ /\ _ => destruct (run x y) as [[s1 es1]|] eqn:R1; [|vm_compute in R1; discriminate] end.
  exists s1, es1. vm_compute in R1. inversion R1; subst s1 es1; clear R1.
  eexists. split; [reflexivity|]. split; [reflexivity|]. unfold thread_at; simpl. split; [reflexivity|].
  repeat split; auto; discriminate.
Qed.

(** issue spans stay disjoint after the crash: two requests inside the issuer under one lock key
    are one request *)
Theorem spans_disjoint_after_crash s t es s' t1 th1 t2 th2 :
  I_lock s -> runs any_label (crash_stale s t) es s' ->
  thread_at s' t1 th1 -> thread_at s' t2 th2 -> in_span th1 = true -> in_span th2 = true ->
  c_lk (cfg th1) = c_lk (cfg th2) -> t1 = t2.
Proof.
  intros HI R H1 H2 S1 S2 Hk. pose proof (exclusion_after_crash _ _ _ _ HI R) as HI'.
  assert (L1 : locked (tpc th1) = true) by (unfold in_span in S1; destruct (tpc th1); try discriminate; auto).
  assert (L2 : locked (tpc th2) = true) by (unfold in_span in S2; destruct (tpc th2); try discriminate; auto).
  pose proof (HI' _ _ H1 L1) as O1. pose proof (HI' _ _ H2 L2) as O2. rewrite Hk in O1. congruence.
Qed.
