(** Issuance LTS: F3 (callers agree) -- thread-level lemmas. *)
From Coq Require Import List Bool Arith Lia.
From CM Require Import Issuance.Model Issuance.Proofs Issuance.Invariants Issuance.NoReissueTL.
From CM Require Export Issuance.AgreeTL0.
Import ListNotations.

(** the bundle under storage name [n] is complete and its certificate is not due *)
Definition fresh_complete (st : skey -> option value) (n : nat) : Prop :=
  st (SK n KKey) <> None /\ st (SK n KMeta) <> None /\ exists ce, st (SK n KCrt) = Some (VCrt ce) /\ c_due ce = false.

(** what a request that is inside its locked region knows about the bundle: it decided to issue
    only because the bundle was not fresh_complete; what it has loaded is what storage holds *)
Definition Kinv (n : nat) (th : thread) (st : skey -> option value) : Prop :=
  match tpc th with
  | PEmit1 | PReuse | PIssS | PIssE | PSave KKey => ~ fresh_complete st n
  | PLd KCrt | PMLd _ KCrt => st (SK n KKey) <> None
  | PLd KMeta | PMLd _ KMeta => st (SK n KKey) <> None /\ exists v, st (SK n KCrt) = Some v /\ lcrt th = cert_of v
  | _ => True
  end.

(** the label injects neither a cancellation nor a fault into an existence check *)
Definition calm_th (th : thread) (f : fault) : Prop :=
  f <> FCancel /\ truthful_th th f.

Lemma tstep_Kinv n L t th s f b th' s' e :
  on_key n L (cfg th) -> twf th -> canc th = false -> calm_th th f ->
  Kinv n th (sto s) -> tstep t th s f b = Some (th', s', e) ->
  Kinv n th' (sto s') /\ canc th' = false.
Proof.
  intros (Hpk & Hvk & Hlk & Hfo & Hcp) (Hw1 & Hw2 & Hw3) Hca (Hnc & Htr) HK H.
  destruct th as [c p cu ca ? ? ? ? ? ? ?]. unfold Kinv, truthful_th, cert_prog, force_eff, nc_ok, fresh_complete in *; simpl in *.
  subst ca. destruct p; simpl in *.
  all: tstep_full H. all: inv_some H; simpl in *; try congruence.
  all: try (split; [exact I|reflexivity]).
  all: split; [|reflexivity].
  all: rewrite ?Hvk in *.
  all: repeat match goal with j : kind |- _ => destruct j end; simpl in *; try discriminate.
  all: repeat match goal with E : Some _ = Some _ |- _ => inversion E; subst; clear E end.
  all: try exact HK.
  all: try (intros (A & B & ce & C & D);
            repeat match goal with E : isSome (sto ?s ?k) = false |- _ => destruct (sto s k) eqn:?; simpl in E; try discriminate E end;
            congruence).
  all: try exact I.
  all: try congruence.
  all: try (split; [tauto|eexists; split; [eassumption|reflexivity]]).
  all: try (destruct HK as (HK1 & v0 & HK2 & HK3); intros (A & B & ce & C & D);
            rewrite C in HK2; inversion HK2; subst; simpl in *; subst; simpl in *; rewrite D in *; simpl in *;
            unfold force_eff in *; destruct (c_prog c); simpl in *; congruence).
  all: try (destruct Htr; discriminate).
Qed.

(** the request is not about to issue or to write the bundle, and what it has loaded under the
    lock is the stored certificate *)
Definition quiet2 (ce : cert) (th : thread) : Prop :=
  match tpc th with
  | PEmit1 | PReuse | PIssS | PIssE | PSave _ | PRoll _ => False
  | PLd KMeta => lcrt th = Some ce
  | _ => True
  end.

Lemma tstep_quiet2 n L ce t th s f b th' s' e :
  on_key n L (cfg th) -> twf th -> canc th = false -> calm_th th f -> quiet2 ce th ->
  sto s (SK n KKey) <> None -> sto s (SK n KCrt) = Some (VCrt ce) -> sto s (SK n KMeta) <> None ->
  c_due ce = false ->
  tstep t th s f b = Some (th', s', e) ->
  quiet2 ce th' /\ canc th' = false /\ (forall j, sto s' (SK n j) = sto s (SK n j)) /\ (forall i, e_op e <> OIssS i).
Proof.
  intros (Hpk & Hvk & Hlk & Hfo & Hcp) (Hw1 & Hw2 & Hw3) Hca (Hnc & Htr) Hq Hk Hc Hm Hdue H.
  destruct th as [c p cu ca ? ? ? ? ? ? ?]. unfold quiet2, truthful_th, cert_prog, force_eff, nc_ok in *; simpl in *.
  subst ca. destruct p; simpl in *; try contradiction.
  all: tstep_full H. all: inv_some H; simpl in *; try congruence.
  all: try (split; [|split; [|split]]; [auto|reflexivity| intros j0; try reflexivity | intros i0; discriminate]; fail).
  all: rewrite ?Hvk in *.
  all: repeat match goal with j : kind |- _ => destruct j end; simpl in *; try discriminate.
  all: subst; simpl in *.
  all: repeat match goal with E : Some _ = Some _ |- _ => inversion E; subst; clear E end.
  all: try (split; [|split; [|split]]; [auto|reflexivity| intros j0; try reflexivity | intros i0; discriminate]; fail).
  all: try (exfalso;
            repeat match goal with
                   | E : ?x = Some _, N : ?x <> None |- _ => clear N
                   | E : context [isSome (sto ?s ?k)] |- _ => destruct (sto s k) eqn:?; simpl in E
                   end; simpl in *; try congruence; try discriminate; fail).
  all: repeat match goal with E1 : ?x = Some _, E2 : ?x = Some _ |- _ => rewrite E1 in E2; inversion E2; subst; clear E2 end; simpl in *.
  all: try (split; [|split; [|split]]; [auto|reflexivity| intros j0; try reflexivity | intros i0; discriminate]; fail).
  all: try (exfalso; destruct (c_prog c); simpl in *; intuition (try discriminate; try congruence); fail).
  all: try (exfalso; rewrite Hdue in *; simpl in *; unfold force_eff in *; destruct (c_prog c); simpl in *; congruence).
  all: try (destruct Htr; discriminate).
Qed.

