From Coq Require Import List Bool Arith Lia.
From CM Require Import Issuance.Model Issuance.Proofs Issuance.Invariants.
Import ListNotations.

(** ** F4c (obtain): a request to obtain fails only through a fault in one of its own operations *)
Definition unfaulted_ok (th : thread) : Prop :=
  flt th = false ->
  canc th = false /\
  match tpc th with
  | PChkD r | PUnlock r | PDone r => r = ROk
  | PEmitF _ | PRoll _ | PWait | PLd _ | PCLoad | PCBody | PCStore | PALoad1 | PAGet | PALoad2 | PAStore => False
  | _ => True
  end.

Lemma tstep_unfaulted t th s f b th' s' e a :
  c_prog (cfg th) = PObtain a -> twf th -> unfaulted_ok th ->
  (tpc th = PChkL -> sto s (RW t) <> None) ->
  tstep t th s f b = Some (th', s', e) -> unfaulted_ok th'.
Proof.
  intros Hp Hwf Hu Hrw H. destruct th as [c p cu ca fl ? ? ? ? ? ?]. unfold twf, unfaulted_ok in *; simpl in *.
  rewrite Hp in Hwf. destruct Hwf as ([-> Hm] & Hpc & _). destruct p; simpl in Hm, Hpc; try discriminate.
  all: tstep_full H. all: inv_some H; simpl.
  all: try (intros Hf; apply orb_false_iff in Hf; destruct Hf as [Hf1 Hf2]; try discriminate; subst;
            specialize (Hu eq_refl); destruct Hu as [-> Hu]; simpl in *; subst; auto; try discriminate; try tauto;
            try (split; auto; congruence)).
  all: try (rewrite Hp in *; discriminate).
  all: try (exfalso; apply Hrw; auto; destruct (sto s' (RW t)); auto; discriminate).
Qed.

(** the rw_test key of a thread is its own: present while the thread is between Store and Load *)
Definition I_rw (s : state) : Prop :=
  forall t th, thread_at s t th -> tpc th = PChkL -> sto (sh s) (RW t) <> None.

Lemma tstep_to_chkl t th s f b th' s' e :
  tstep t th s f b = Some (th', s', e) -> tpc th' = PChkL -> sto s' (RW t) <> None.
Proof.
  intros H Hp. destruct th as [c p ? ? ? ? ? ? ? ? ?]. destruct p.
  all: tstep_full H. all: inv_some H; simpl in *; try discriminate.
  all: rewrite sput_eq; discriminate.
Qed.

Lemma I_rw_step s l s' e : I_rw s -> step s l = Some (s', e) -> I_rw s'.
Proof.
  intros HI Hs t2 th2 Ht2 Hp2.
  destruct (step_threads _ _ _ _ _ _ Hs Ht2) as (th & th' & Ha & Hts & [[-> ->]|[Hne Ho]]).
  - eapply tstep_to_chkl; eauto.
  - pose proof (HI _ _ Ho Hp2) as Hrw.
    destruct (tstep_sto_effect _ _ _ _ _ _ _ _ Hts) as [E|(k & v & E & Hk)]; rewrite E; auto.
    rewrite sput_neq; auto. destruct Hk as [->|[->|(j & -> & _)]]; congruence.
Qed.

Lemma I_rw_init cs st : I_rw (init_state cs st).
Proof.
  intros t th Ht Hp. unfold thread_at, init_state in Ht; simpl in Ht. rewrite nth_error_map in Ht.
  destruct (nth_error cs t) as [c|]; simpl in Ht; inversion Ht; subst. simpl in Hp.
  unfold entry, after_pre in Hp. destruct (c_prog c); simpl in Hp; try discriminate; destruct (c_chk c); discriminate.
Qed.

Definition I_unf (s : state) : Prop :=
  forall t th a, thread_at s t th -> c_prog (cfg th) = PObtain a -> unfaulted_ok th.

Lemma I_unf_step s l s' e : all_twf s -> I_rw s -> I_unf s -> step s l = Some (s', e) -> I_unf s'.
Proof.
  intros HW HR HU Hs t2 th2 a Ht2 Hp2.
  destruct (step_threads _ _ _ _ _ _ Hs Ht2) as (th & th' & Ha & Hts & [[-> ->]|[Hne Ho]]); eauto.
  rewrite (tstep_cfg _ _ _ _ _ _ _ _ Hts) in Hp2.
  eapply tstep_unfaulted; eauto.
Qed.

Lemma I_unf_init cs st : I_unf (init_state cs st).
Proof.
  intros t th a Ht Hp. unfold thread_at, init_state in Ht; simpl in Ht. rewrite nth_error_map in Ht.
  destruct (nth_error cs t) as [c|]; simpl in Ht; inversion Ht; subst. simpl in *.
  unfold unfaulted_ok, init_thread, entry; simpl. rewrite Hp; simpl. auto.
Qed.

Theorem obtain_fails_only_by_own_fault cs st s t th a r :
  reachable cs st s -> thread_at s t th -> c_prog (cfg th) = PObtain a ->
  tpc th = PDone r -> r <> ROk -> flt th = true.
Proof.
  intros [es R] Ht Hp Hd Hr.
  assert (H : all_twf s /\ I_rw s /\ I_unf s).
  { eapply (runs_inv any_label (fun s => all_twf s /\ I_rw s /\ I_unf s)); eauto.
    - intros s0 l s1 e0 (HW & HR & HU) _ Hs. split; [|split].
      + eapply all_twf_step; eauto.
      + eapply I_rw_step; eauto.
      + eapply I_unf_step; eauto.
    - split; [apply all_twf_init|split; [apply I_rw_init|apply I_unf_init]]. }
  destruct H as (_ & _ & HU). specialize (HU _ _ _ Ht Hp). unfold unfaulted_ok in HU.
  destruct (flt th); auto. destruct (HU eq_refl) as [_ H2]. rewrite Hd in H2. congruence.
Qed.
