(** Correspondence for C01 / C09: the Go harness drives the real obtainCert / renewCert /
    manageOne / CleanStorage / updateARI in lock-step and writes the global trace; the model
    replays the same labels (thread, injected fault) and must produce the same operations with
    the same outcomes, the same results, cache contents, storage and lock state.
    Independently, [spec_ok] evaluates the statements of the theorems on the implementation's
    observation alone. *)
From Coq Require Import List Bool Arith ZArith Lia.
From CM Require Import Lib.Str Lib.Wire Issuance.Model.
Import ListNotations.
Open Scope nat_scope.

(** * Observed case *)
Record ostep := OStep { o_tid : nat; o_fault : fault; o_op : op; o_out : nat }.

Record ocase := OCase {
  oc_mode : nat;
  oc_cfgs : list tcfg;
  oc_init : list (skey * value);
  oc_steps : list ostep;
  oc_results : list Z;
  oc_seen : list Z;
  oc_final : list (nat * (bool * bool * bool) * bool * nat);   (* name class, has key/crt/meta, match, cert id *)
  oc_rwleft : nat; oc_last : bool; oc_held : nat; oc_recorded : nat;
  oc_dead : bool;    (* the driver found a request waiting for a lock that nobody held any more *)
  oc_after : nat     (* locks still held + still recorded after CleanUpOwnLocks has run at the end *)
}.

(** * Equality tests *)
Definition op_eqb (a b : op) : bool :=
  match a, b with
  | OExists k, OExists j | OLoad k, OLoad j | OStore k, OStore j | ODelete k, ODelete j => skey_eqb k j
  | OLoadOcsp, OLoadOcsp | OAriGet, OAriGet | OOther, OOther => true
  | OLock l, OLock m | OAcq l, OAcq m | OUnlock l, OUnlock m | OEmit l, OEmit m
  | OIssS l, OIssS m | OIssE l, OIssE m | OCa l, OCa m => Nat.eqb l m
  | _, _ => false
  end.

Definition is_unlock (o : op) : bool := match o with OUnlock _ => true | _ => false end.
Definition is_other (o : op) : bool := match o with OOther => true | _ => false end.
Definition is_exists (o : op) : bool := match o with OExists _ => true | _ => false end.

(** the choice bit is read off the observed operation *)
Definition bit_for (s : state) (o : ostep) : bool :=
  match nth_error (thr s) (o_tid o) with
  | Some th =>
      match tpc th with
      | PWait => negb (is_unlock (o_op o))
      | PCBody => is_other (o_op o)
      | _ => true
      end
  | None => true
  end.

(** replay: index of the first step at which model and implementation differ, with the model's
    event there (None = the model could not move) *)
Fixpoint replay (i : nat) (s : state) (steps : list ostep) : state * option (nat * option ev) :=
  match steps with
  | [] => (s, None)
  | o :: r =>
      match step s (Label (o_tid o) (o_fault o) (bit_for s o)) with
      | Some (s', e) =>
          if op_eqb (e_op e) (o_op o) && Nat.eqb (e_out e) (o_out o) then replay (S i) s' r
          else (s, Some (i, Some e))
      | None => (s, Some (i, None))
      end
  end.

Definition res_code (r : result) : Z := match r with ROk => 0 | RErr => 1 | RPanic => 2 end%Z.

Definition count {A} (p : A -> bool) (l : list A) : nat := length (filter p l).

Definition final_agrees (c : ocase) (s : state) : bool :=
  let ths := thr s in
  (* results: every thread finished with the observed result *)
  forallb (fun p : thread * Z => match result_of (fst p) with Some r => Z.eqb (res_code r) (snd p) | None => false end)
          (combine ths (oc_results c)) &&
  Nat.eqb (length ths) (length (oc_results c)) &&
  (* cache of the manage threads *)
  forallb (fun p : thread * Z => match seen (fst p) with Some ce => Z.eqb (Z.of_nat (c_id ce)) (snd p) | None => Z.eqb (snd p) (-1) end)
          (combine ths (oc_seen c)) &&
  (* storage *)
  forallb (fun e : nat * (bool * bool * bool) * bool * nat =>
             let '(n, (hk, hc, hm), mt, cid) := e in
             let vk := sto (sh s) (SK n KKey) in
             let vc := sto (sh s) (SK n KCrt) in
             Bool.eqb (isSome vk) hk && Bool.eqb (isSome vc) hc && Bool.eqb (isSome (sto (sh s) (SK n KMeta))) hm &&
             Bool.eqb (kid_matches (option_map key_of vk) (match vc with Some v => cert_of v | None => None end)) mt &&
             (negb hc || Nat.eqb (cid_of (match vc with Some v => cert_of v | None => None end)) cid))
          (oc_final c) &&
  Nat.eqb (count (fun t => isSome (sto (sh s) (RW t))) (seq 0 (length ths))) (oc_rwleft c) &&
  Bool.eqb (isSome (sto (sh s) SLast)) (oc_last c) &&
  Nat.eqb (count (fun l => isSome (lks (sh s) l)) (nodup Nat.eq_dec (map (fun th => c_lk (cfg th)) ths))) (oc_held c) &&
  Nat.eqb (count recd ths) (oc_recorded c).

Definition model_agrees (c : ocase) : bool :=
  let s0 := init_state (oc_cfgs c) (sto_of_list (oc_init c)) in
  match replay 0 s0 (oc_steps c) with
  | (s, None) => final_agrees c s
  | (_, Some _) => false
  end.

(** * The specification, evaluated on the implementation's observation only
    (thread configurations and initial storage are inputs; steps, results, cache, final
    storage and lock counts are what the real code did). *)
Definition cfg_of (c : ocase) (t : nat) : option tcfg := nth_error (oc_cfgs c) t.

(** S1 (issue_spans_disjoint): never two requests inside Issuer.Issue for one identifier.
    Defined on events so that the same function is applied to the implementation's trace (here)
    and to the model's traces (theorem [model_spans_ok] in Issuance/SpecLink.v). *)
Fixpoint spans_ok_ev (inspan : list (nat * nat)) (es : list ev) : bool :=
  match es with
  | [] => true
  | e :: r =>
      match e_op e with
      | OIssS i =>
          if Nat.eqb (e_out e) 0
          then negb (existsb (fun p => Nat.eqb (snd p) i) inspan) && spans_ok_ev ((e_tid e, i) :: inspan) r
          else spans_ok_ev inspan r
      | OIssE _ => spans_ok_ev (filter (fun p => negb (Nat.eqb (fst p) (e_tid e))) inspan) r
      | _ => spans_ok_ev inspan r
      end
  end.
Definition ev_of (o : ostep) : ev := Ev (o_tid o) (o_op o) (o_out o).
Definition spans_ok (inspan : list (nat * nat)) (steps : list ostep) : bool := spans_ok_ev inspan (map ev_of steps).

(** the request had one of its existence checks falsified (injected error, or its context was
    cancelled) before *)
Definition untruthful (t : nat) (before : list ostep) : bool :=
  existsb (fun o => Nat.eqb (o_tid o) t &&
                    (fault_eqb (o_fault o) FCancel || (fault_eqb (o_fault o) FErr && is_exists (o_op o)))) before.

Definition nonforced_on (c : ocase) (n : nat) (t : nat) : bool :=
  match cfg_of c t with Some g => Nat.eqb (c_vk g) n && negb (force_eff g) | None => false end.

(** S2 (no_reissue_after_save): after a completed save of a certificate that is not due, no
    non-forced request for that storage key enters the issuer (unless its own existence check
    was falsified) *)
Fixpoint no_reissue (c : ocase) (saved : list nat) (before steps : list ostep) : bool :=
  match steps with
  | [] => true
  | o :: r =>
      let ok :=
        match o_op o with
        | OIssS _ => negb (existsb (fun n => nonforced_on c n (o_tid o)) saved) || untruthful (o_tid o) before
        | _ => true
        end in
      let saved' :=
        match o_op o, cfg_of c (o_tid o) with
        | OStore (SK n KMeta), Some g =>
            if Nat.eqb (o_out o) 0 && negb (c_issdue g) && match c_prog g with PAri _ => false | _ => true end
            then n :: saved else saved
        | _, _ => saved
        end in
      ok && no_reissue c saved' (before ++ [o]) r
  end.
Definition some_forced (c : ocase) : bool := existsb force_eff (oc_cfgs c).
(** storage names that hold a complete, matching bundle with a certificate that is not due from the start *)
Definition init_fresh (c : ocase) : list nat :=
  flat_map (fun g : tcfg =>
              let n := c_vk g in
              match sto_of_list (oc_init c) (SK n KKey), sto_of_list (oc_init c) (SK n KCrt), sto_of_list (oc_init c) (SK n KMeta) with
              | Some _, Some (VCrt ce), Some _ => if c_due ce then [] else [n]
              | _, _, _ => []
              end) (oc_cfgs c).
Definition s2_ok (c : ocase) : bool := some_forced c || no_reissue c (init_fresh c) [] (oc_steps c).

(** S3 (callers_agree): every ManageSync caller that succeeded holds the stored certificate *)
Definition is_manage (g : tcfg) : bool := match c_prog g with PManage => true | _ => false end.
Definition s3_applies (c : ocase) : bool :=
  negb (some_forced c) && negb (existsb c_issdue (oc_cfgs c)) &&
  negb (existsb (fun o => fault_eqb (o_fault o) FCancel || (fault_eqb (o_fault o) FErr && is_exists (o_op o))) (oc_steps c)).
Definition stored_cid (c : ocase) (n : nat) : option nat :=
  match find (fun e : nat * (bool * bool * bool) * bool * nat => let '(m, _, _, _) := e in Nat.eqb m n) (oc_final c) with
  | Some (_, (_, hc, _), _, cid) => if hc then Some cid else None
  | None => None
  end.
Definition s3_ok (c : ocase) : bool :=
  negb (s3_applies c) ||
  forallb (fun p : tcfg * (Z * Z) =>
             let '(g, (r, sn)) := p in
             negb (is_manage g && Z.eqb r 0) ||
             match stored_cid c (c_vk g) with Some cid => Z.eqb sn (Z.of_nat cid) | None => false end)
          (combine (oc_cfgs c) (combine (oc_results c) (oc_seen c))).

(** S4 (error_only_own_fault / takeover): a request fails only if a fault was injected into one
    of its own operations.  A cancellation that the driver had to perform because the request
    waited for a lock nobody would ever release ([oc_dead]) does not count as its own fault; a
    cancellation while waiting for a lock that is held does. *)
Definition own_fault (c : ocase) (t : nat) : bool :=
  existsb (fun o => Nat.eqb (o_tid o) t && negb (fault_eqb (o_fault o) FNone) &&
                    negb (oc_dead c && match o_op o with OAcq _ => true | _ => false end)) (oc_steps c).
Definition init_has (c : ocase) (k : skey) : option value :=
  sto_of_list (oc_init c) k.
Definition init_bundle_ok (c : ocase) (g : tcfg) : bool :=
  let n := c_vk g in
  match init_has c (SK n KKey), init_has c (SK n KCrt), init_has c (SK n KMeta) with
  | None, None, None => match c_prog g with PRenew _ | PAri _ => false | _ => true end
  | Some (VKey k), Some (VCrt ce), Some (VMeta _ | VMetaA _) => Nat.eqb k (c_kid ce)
  | _, _, _ => false
  end.
Definition s4_applies (c : ocase) : bool := forallb (init_bundle_ok c) (oc_cfgs c).
Definition s4_ok (c : ocase) : bool :=
  negb (s4_applies c) ||
  forallb (fun p : nat * Z => Z.eqb (snd p) 0 || own_fault c (fst p))
          (combine (seq 0 (length (oc_results c))) (oc_results c)).

(** C09 (locks_released): unless the Unlock call itself failed, nothing is held and nothing is
    recorded when all operations have returned; nobody had to be rescued from a leaked lock *)
Definition unlock_faulted (c : ocase) : bool :=
  existsb (fun o => is_unlock (o_op o) && (fault_eqb (o_fault o) FErr || fault_eqb (o_fault o) FPanic)) (oc_steps c).
Definition rescued (c : ocase) : bool := oc_dead c.
(** ... and whatever is still held (after a failed Unlock) is recorded, so that CleanUpOwnLocks
    releases it: nothing is held or recorded after it has run (theorem [held_is_recorded]) *)
Definition s9_ok (c : ocase) : bool :=
  (unlock_faulted c || (Nat.eqb (oc_held c) 0 && Nat.eqb (oc_recorded c) 0 && negb (rescued c))) &&
  Nat.eqb (oc_after c) 0.

(** free-running runs (no gate, real goroutines on one FileStorage directory; only the issuer's
    entry / exit are recorded, in the order of their time stamps): spans disjoint (S1), every caller
    succeeded, storage was empty so exactly one issuance happened (S2), nothing held or recorded *)
Definition is_iss_start (o : ostep) : bool := match o_op o with OIssS _ => Nat.eqb (o_out o) 0 | _ => false end.
Definition free_ok (c : ocase) : bool :=
  spans_ok [] (oc_steps c) && forallb (Z.eqb 0) (oc_results c) &&
  Nat.eqb (count is_iss_start (oc_steps c)) 1 &&
  Nat.eqb (oc_held c) 0 && Nat.eqb (oc_recorded c) 0.

Definition spec_ok (c : ocase) : bool :=
  match oc_mode c with
  | 0 => spans_ok [] (oc_steps c) && s2_ok c && s3_ok c && s4_ok c
  | 1 => spans_ok [] (oc_steps c)
  | 2 => s2_ok c
  | 3 => s3_ok c
  | 4 => s4_ok c
  | 6 => free_ok c
  | _ => s9_ok c
  end.

Definition compares (c : ocase) : bool :=
  (* 7: C09's clause alone, for runs whose trace is not determined by the labels (doWithRetry's first
     select with a context that is already cancelled: it may or may not run the attempt once) *)
  match oc_mode c with 2 | 3 | 4 | 6 | 7 => false | _ => true end.

(** * Wire *)
Open Scope Z_scope.
Definition get_kind : dec kind :=
  x <- get_nat ;; match x with 0%nat => ret KKey | 1%nat => ret KCrt | 2%nat => ret KMeta | _ => fun _ => None end.
Definition get_skey3 : dec skey :=
  t <- get_nat ;; a <- get_nat ;; b <- get_nat ;;
  match t with
  | 0%nat => match b with 0%nat => ret (SK a KKey) | 1%nat => ret (SK a KCrt) | 2%nat => ret (SK a KMeta) | _ => fun _ => None end
  | 1%nat => ret (RW a)
  | 2%nat => ret SLast
  | _ => fun _ => None
  end.
Definition get_fault : dec fault :=
  x <- get_nat ;; match x with 0%nat => ret FNone | 1%nat => ret FErr | 2%nat => ret FCancel | 3%nat => ret FPanic | _ => fun _ => None end.
Definition get_cfg : dec tcfg :=
  p <- get_nat ;; fl <- get_bool ;; lk <- get_nat ;; pk <- get_nat ;; vk <- get_nat ;; idn <- get_nat ;;
  ru <- get_bool ;; ck <- get_bool ;; fo <- get_bool ;; du <- get_bool ;;
  match (match p with 0%nat => Some (PObtain fl) | 1%nat => Some (PRenew fl) | 2%nat => Some PManage
                 | 3%nat => Some (PClean fl) | 4%nat => Some (PAri fl) | 5%nat => Some (PAcct fl) | _ => None end) with
  | Some pr => ret (TCfg pr lk pk vk idn ru ck fo du)
  | None => fun _ => None
  end.
Definition get_value : dec value :=
  t <- get_nat ;; a <- get_nat ;; b <- get_nat ;; c <- get_bool ;;
  match t with
  | 0%nat => ret (VKey a) | 1%nat => ret (VCrt (Cert a b c)) | 2%nat => ret (VMeta a) | 3%nat => ret VRaw
  | 4%nat => ret (VLast (negb (Nat.eqb a 0)))
  | 5%nat => ret (VMetaA a)
  | _ => fun _ => None
  end.
Definition get_op : dec op :=
  k <- get_nat ;; a <- get_nat ;; b <- get_nat ;; c <- get_nat ;;
  let key : option skey :=
    match a with
    | 0%nat => match c with 0%nat => Some (SK b KKey) | 1%nat => Some (SK b KCrt) | 2%nat => Some (SK b KMeta) | _ => None end
    | 1%nat => Some (RW b) | 2%nat => Some SLast | _ => None
    end in
  let wk (f : skey -> op) : dec op := match key with Some x => ret (f x) | None => fun _ => None end in
  match k with
  | 1%nat => wk OExists | 2%nat => wk OLoad | 3%nat => wk OStore | 4%nat => wk ODelete
  | 5%nat => ret OLoadOcsp | 6%nat => ret (OLock a) | 7%nat => ret (OAcq a) | 8%nat => ret (OUnlock a)
  | 9%nat => ret (OEmit a) | 10%nat => ret (OIssS a) | 11%nat => ret (OIssE a) | 12%nat => ret OAriGet
  | 13%nat => ret OOther | 14%nat => ret (OCa a)
  | _ => fun _ => None
  end.
Definition get_ostep : dec ostep :=
  t <- get_nat ;; f <- get_fault ;; o <- get_op ;; r <- get_nat ;; ret (OStep t f o r).
Definition get_final : dec (nat * (bool * bool * bool) * bool * nat) :=
  n <- get_nat ;; hk <- get_bool ;; hc <- get_bool ;; hm <- get_bool ;; m <- get_bool ;; cid <- get_nat ;;
  ret (n, (hk, hc, hm), m, cid).
Definition get_case : dec ocase :=
  mode <- get_nat ;;
  cfgs <- get_list get_cfg ;;
  ini <- get_list (get_pair get_skey3 get_value) ;;
  steps <- get_list get_ostep ;;
  res <- get_list get_z ;;
  sn <- get_list get_z ;;
  fin <- get_list get_final ;;
  rw <- get_nat ;; la <- get_bool ;; held <- get_nat ;; rec <- get_nat ;; dead <- get_bool ;; after <- get_nat ;;
  ret (OCase mode cfgs ini steps res sn fin rw la held rec dead after).

Definition check_line (l : list Z) : Z :=
  match decode get_case l with
  | Some c => code (negb (compares c) || model_agrees c) (spec_ok c)
  | None => code_decode_error
  end.

(** diagnostics: [agree; index of first differing step or -1; model's thread/out there;
    final_agrees; S1; S2; S3; S4; S9] *)
Definition b2z (b : bool) : Z := if b then 1 else 0.
Definition explain_line (l : list Z) : list Z :=
  match decode get_case l with
  | Some c =>
      let s0 := init_state (oc_cfgs c) (sto_of_list (oc_init c)) in
      let '(s, d) := replay 0 s0 (oc_steps c) in
      let pre :=
        match d with
        | None => [1; -1; -1; -1; b2z (final_agrees c s)]
        | Some (i, Some e) => [0; Z.of_nat i; Z.of_nat (e_tid e); Z.of_nat (e_out e); 0]
        | Some (i, None) => [0; Z.of_nat i; -1; -1; 0]
        end in
      pre ++ [b2z (spans_ok [] (oc_steps c)); b2z (s2_ok c); b2z (s3_ok c); b2z (s4_ok c); b2z (s9_ok c)]
  | None => []
  end.
