(** Issuance LTS: F2 -- once a certificate that is not due has been saved, no non-forced request
    for that storage key enters the issuer again, and storage keeps that certificate. *)
From Coq Require Import List Bool Arith Lia.
From CM Require Import Issuance.Model Issuance.Proofs Issuance.Invariants.
From CM Require Export Issuance.KeyDefs.
Import ListNotations.

(** the request has not decided to issue (and cannot decide so from what it has seen) *)
Definition quiet (ce : cert) (th : thread) : Prop :=
  match tpc th with
  | PEmit1 | PReuse | PIssS | PIssE | PEmitF _ | PSave _ | PRoll _ => False
  | PLd KMeta => lcrt th = Some ce
  | PRe _ => canc th = false
  | PWait => cur th = OpRenew
  | _ => True
  end.

(** no fault is injected into an existence check (Exists has no error result: a failing check
    reads as "absent"); the retry of an obtain starts with such a check *)
Definition truthful_th (th : thread) (f : fault) : Prop :=
  match tpc th with PPre _ | PRe _ => f = FNone | PWait => cur th = OpRenew \/ f = FNone | _ => True end.

Lemma tstep_quiet n L ce t th s f b th' s' e :
  on_key n L (cfg th) -> twf th -> quiet ce th ->
  sto s (SK n KKey) <> None -> sto s (SK n KCrt) = Some (VCrt ce) -> sto s (SK n KMeta) <> None ->
  c_due ce = false -> truthful_th th f ->
  tstep t th s f b = Some (th', s', e) ->
  quiet ce th' /\ (forall j, sto s' (SK n j) = sto s (SK n j)) /\ (forall i, e_op e <> OIssS i).
Proof.
  intros (Hpk & Hvk & Hlk & Hfo & Hcp) (Hw1 & Hw2 & Hw3) Hq Hk Hc Hm Hdue Htr H.
  destruct th as [c p cu ? ? ? ? ? ? ? ?]. unfold quiet, truthful_th, cert_prog, force_eff, nc_ok in *; simpl in *.
  destruct p; simpl in *; try contradiction.
  all: tstep_full H. all: inv_some H; simpl in *.
  all: try (split; [|split]; [auto| intros j0; try reflexivity | intros i0; discriminate]; fail).
  all: rewrite ?Hvk in *.
  all: repeat match goal with j : kind |- _ => destruct j end; simpl in *; try discriminate.
  all: subst; simpl in *.
  all: repeat match goal with E : Some _ = Some _ |- _ => inversion E; subst; clear E end.
  all: try (split; [|split]; [auto| intros j0; try reflexivity | intros i0; discriminate]; fail).
  all: try (exfalso;
            repeat match goal with
                   | E : ?x = Some _, N : ?x <> None |- _ => clear N
                   | E : context [isSome (sto ?s ?k)] |- _ => destruct (sto s k) eqn:?; simpl in E
                   end; simpl in *; try congruence; try discriminate; fail).
  all: repeat match goal with E1 : ?x = Some _, E2 : ?x = Some _ |- _ => rewrite E1 in E2; inversion E2; subst; clear E2 end; simpl in *.
  all: try (split; [|split]; [auto| intros j0; try reflexivity | intros i0; discriminate]; fail).
  all: try (exfalso; destruct (c_prog c); simpl in *; intuition (try discriminate; try congruence); fail).
  all: try (exfalso; rewrite Hdue in *; simpl in *; unfold force_eff in *; destruct (c_prog c); simpl in *; congruence).
Qed.

(** shape of the steps around the save *)
Lemma tstep_save_shape t th s f b th' s' e :
  twf th -> cert_prog (cfg th) -> tstep t th s f b = Some (th', s', e) ->
  (tpc th' = PSave KCrt -> tpc th = PSave KKey /\ sto s' (SK (c_vk (cfg th)) KKey) <> None) /\
  (tpc th' = PSave KMeta -> tpc th = PSave KCrt /\
      exists c, nc th' = Some c /\ sto s' (SK (c_vk (cfg th)) KCrt) = Some (VCrt c) /\
                sto s' (SK (c_vk (cfg th)) KKey) = sto s (SK (c_vk (cfg th)) KKey)) /\
  (forall n, e_op e = OStore (SK n KMeta) -> e_out e = 0 ->
      tpc th = PSave KMeta /\ c_vk (cfg th) = n /\ tpc th' = PEmit2 /\
      (exists v, sto s' = sput (sto s) (SK n KMeta) (Some v)) /\
      exists c, nc th = Some c /\ c_due c = c_issdue (cfg th)).
Proof.
  intros (Hw1 & Hw2 & Hw3) Hcp H.
  destruct th as [c p cu ? ? ? ? ? ? ? ?]. unfold cert_prog, nc_ok in *; simpl in *.
  destruct p; simpl in *.
  all: tstep_full H. all: inv_some H; simpl in *.
  all: try (split; [|split]; [intros X; discriminate X|intros X; discriminate X|intros n0 X; discriminate X]; fail).
  all: try (exfalso; destruct (c_prog c); simpl in *; intuition (try discriminate; try congruence); fail).
  all: split; [|split]; try (intros X; discriminate X); try (intros n0 X; discriminate X).
  all: intros; simpl in *;
       repeat match goal with
              | E : Some _ = Some _ |- _ => inversion E; subst; clear E
              | E : PSave _ = PSave _ |- _ => inversion E; subst; clear E
              | E : OStore _ = OStore _ |- _ => inversion E; subst; clear E
              end; try discriminate.
  all: try (destruct Hw3 as (c1 & Hn1 & Hd1 & Hk1); try (inversion Hn1; subst); try discriminate).
  all: rewrite ?sput_eq; try (rewrite ?sput_neq by (intro X; inversion X)).
  all: try (intuition (eauto; try discriminate); fail).
Qed.

Lemma unlocked_quiet ce th : locked (tpc th) = false -> quiet ce th.
Proof. unfold quiet. destruct (tpc th); simpl; intros; auto; discriminate. Qed.
