(** Issuance LTS: F3 -- successful ManageSync callers hold the stored certificate. *)
From Coq Require Import List Bool Arith Lia.
From CM Require Import Issuance.Model Issuance.Proofs Issuance.Invariants Issuance.NoReissueTL Issuance.NoReissue Issuance.AgreeTL.
Import ListNotations.

Definition no_overlap (n : nat) (s : state) : Prop :=
  forall t1 th1 t2 th2, thread_at s t1 th1 -> thread_at s t2 th2 ->
    touches n (cfg th1) -> touches n (cfg th2) -> in_load_window th1 -> in_save_window th2 -> False.

Definition calm (n : nat) (s : state) (l : label) : Prop :=
  forall th, thread_at s (l_tid l) th -> touches n (cfg th) -> calm_th th (l_fault l).
(** restriction on schedules and fault plans under which F3 is proved: requests on [n] are not
    cancelled, their existence checks are not falsified, and no unlocked load of ManageSync
    overlaps a save *)
Definition ok3 (n : nat) (s : state) (l : label) : Prop :=
  calm n s l /\ no_overlap n s /\ forall s' e, step s l = Some (s', e) -> no_overlap n s'.

Definition Kall (n : nat) (s : state) : Prop :=
  forall t th, thread_at s t th -> touches n (cfg th) -> Kinv n th (sto (sh s)) /\ canc th = false.

Lemma Kinv_frame n th st st' : (forall j, st' (SK n j) = st (SK n j)) -> Kinv n th st -> Kinv n th st'.
Proof. intros F. unfold Kinv, fresh_complete. rewrite !F. auto. Qed.

Lemma Kinv_trivial n th st : locked (tpc th) = false -> ~ in_load_window th -> Kinv n th st.
Proof.
  unfold Kinv, in_load_window. destruct (tpc th); simpl; intros; auto; try discriminate;
    repeat match goal with j : kind |- _ => destruct j end; try tauto; try discriminate.
Qed.

Lemma Kall_step n L s l s' e :
  canon n L s -> all_twf s -> I_lock s -> Kall n s -> ok3 n s l -> step s l = Some (s', e) -> Kall n s'.
Proof.
  intros HC HW HL HK (Hcalm & Hno & Hno') Hs t2 th2 Ht2 Hto2.
  specialize (Hno' _ _ Hs). unfold no_overlap in Hno, Hno'.
  destruct (step_thread_same _ _ _ _ Hs) as (th & th' & Ha & Hts & Ha' & Hoth).
  pose proof (tstep_cfg _ _ _ _ _ _ _ _ Hts) as Hcfg.
  destruct (step_threads _ _ _ _ _ _ Hs Ht2) as (th0 & th0' & Ha0 & Hts0 & [[-> ->]|[Hne Ho]]).
  - unfold thread_at in *. rewrite Ha in Ha0. inversion Ha0; subst th0. rewrite Hts in Hts0. inversion Hts0; subst th0'.
    rewrite Hcfg in Hto2. destruct (HK _ _ Ha Hto2) as (K1 & K2).
    eapply tstep_Kinv; eauto.
  - destruct (HK _ _ Ho Hto2) as (K1 & K2). split; auto.
    destruct (Nat.eq_dec (c_vk (cfg th)) n) as [Hv|Hv].
    + assert (Hto : touches n (cfg th)) by (right; auto).
      destruct (HC _ _ Ha Hto) as (_ & _ & HlkA & _ & Hcp).
      destruct (tstep_write_shape _ _ _ _ _ _ _ _ (HW _ _ Ha) Hcp Hts) as [F|(Hl & Hw)].
      * rewrite Hv in F. apply (Kinv_frame n th2 (sto (sh s))); auto.
      * (* the mover writes inside its save: th2 is neither locked nor inside a load window *)
        destruct (locked (tpc th2)) eqn:Hl2.
        { exfalso. destruct (HC _ _ Ho Hto2) as (_ & _ & HlkB & _).
          pose proof (HL _ _ Ha Hl) as O1. pose proof (HL _ _ Ho Hl2) as O2. rewrite HlkA in O1. rewrite HlkB in O2. congruence. }
        apply Kinv_trivial; auto. intros Hwin.
        destruct Hw as [Hw|(Hp & Hp')].
        -- eapply (Hno _ _ _ _ Ho Ha); eauto.
        -- eapply (Hno' t2 th2 (l_tid l) th'); eauto.
           ++ rewrite Hcfg. auto.
           ++ unfold in_save_window. rewrite Hp'. exact I.
    + apply (Kinv_frame n th2 (sto (sh s))); auto. intros j.
      destruct (tstep_sto_effect _ _ _ _ _ _ _ _ Hts) as [E|(k & v & E & Hkk)]; rewrite E; auto.
      rewrite sput_neq; auto. destruct Hkk as [->|[->|(j0 & -> & _)]]; try discriminate. intros X; inversion X; congruence.
Qed.

Lemma Kall_init n cs st : Kall n (init_state cs st).
Proof.
  intros t th Ht _. unfold thread_at, init_state in Ht; simpl in Ht. rewrite nth_error_map in Ht.
  destruct (nth_error cs t) as [c|]; simpl in Ht; inversion Ht; subst. split; auto.
  unfold Kinv; simpl. unfold entry, after_pre. destruct (c_prog c); simpl; auto; destruct (c_chk c); simpl; auto.
Qed.

Definition Saved2 (n : nat) (ce : cert) (s : state) : Prop :=
  sto (sh s) (SK n KKey) <> None /\ sto (sh s) (SK n KCrt) = Some (VCrt ce) /\ sto (sh s) (SK n KMeta) <> None /\
  c_due ce = false /\
  forall t th, thread_at s t th -> touches n (cfg th) -> quiet2 ce th /\ canc th = false.

Lemma saved2_step n L ce s l s' e :
  canon n L s -> all_twf s -> Saved2 n ce s -> calm n s l -> step s l = Some (s', e) -> Saved2 n ce s'.
Proof.
  intros HC HW (Hk & Hc & Hm & Hd & Hq) Hcalm Hs.
  destruct (step_thread_same _ _ _ _ Hs) as (th & th' & Ha & Hts & Ha' & Hoth).
  pose proof (tstep_cfg _ _ _ _ _ _ _ _ Hts) as Hcfg.
  assert (Hframe : (touches n (cfg th) -> quiet2 ce th' /\ canc th' = false) /\ (forall j, sto (sh s') (SK n j) = sto (sh s) (SK n j))).
  { assert (Hdec : touches n (cfg th) \/ (c_pk (cfg th) <> n /\ c_vk (cfg th) <> n)).
    { unfold touches. destruct (Nat.eq_dec (c_pk (cfg th)) n); auto. destruct (Nat.eq_dec (c_vk (cfg th)) n); auto. }
    destruct Hdec as [Hto|[Hp Hv]].
    - destruct (Hq _ _ Ha Hto) as (Q1 & Q2).
      destruct (tstep_quiet2 n L ce _ _ _ _ _ _ _ _ (HC _ _ Ha Hto) (HW _ _ Ha) Q2 (Hcalm _ Ha Hto) Q1 Hk Hc Hm Hd Hts) as (A & B & C & _).
      auto.
    - split; [intros [X|X]; congruence|]. intros j.
      destruct (tstep_sto_effect _ _ _ _ _ _ _ _ Hts) as [E|(k & v & E & Hkk)]; rewrite E; auto.
      rewrite sput_neq; auto. destruct Hkk as [->|[->|(j0 & -> & _)]]; try discriminate. intros X; inversion X; congruence. }
  destruct Hframe as (Q & F). unfold Saved2. rewrite !F. split; auto. split; auto. split; auto. split; auto.
  intros t2 th2 Ht2 Hto2.
  destruct (step_threads _ _ _ _ _ _ Hs Ht2) as (th0 & th0' & Ha0 & Hts0 & [[-> ->]|[Hne Ho]]).
  - unfold thread_at in *. rewrite Ha in Ha0. inversion Ha0; subst. rewrite Hts in Hts0. inversion Hts0; subst.
    apply Q. rewrite <- Hcfg. auto.
  - apply (Hq _ _ Ho Hto2).
Qed.

(** ** a successful unlocked load of a certificate that is not due establishes [Saved2] *)
Lemma load_establishes n L s l s' e th th' ph ce :
  canon n L s -> Kall n s -> Kall n s' -> no_overlap n s ->
  step s l = Some (s', e) -> thread_at s (l_tid l) th -> thread_at s' (l_tid l) th' ->
  tstep (l_tid l) th (sh s) (l_fault l) (l_bit l) = Some (th', sh s', e) ->
  touches n (cfg th) -> c_prog (cfg th) = PManage ->
  tpc th' = PMOcsp ph -> lcrt th' = Some ce -> c_due ce = false ->
  Saved2 n ce s'.
Proof.
  intros HC HK HK' Hno Hs Ha Ha' Hts Hto Hp Hp' Hl Hd.
  destruct (tstep_manage_shape _ _ _ _ _ _ _ _ Hp Hts) as (S1 & _ & _).
  destruct (S1 _ Hp') as (Hp0 & Hsto & Hlc & _ & Hm).
  destruct (HC _ _ Ha Hto) as (_ & Hvk & _).
  destruct (HK _ _ Ha Hto) as (K1 & _). unfold Kinv in K1. rewrite Hp0 in K1.
  destruct K1 as (Hk & v & Hc & Hv). rewrite <- Hlc, Hl in Hv.
  assert (v = VCrt ce) by (destruct v; simpl in Hv; inversion Hv; auto). subst v. rewrite Hvk in Hm.
  unfold Saved2. rewrite Hsto. split; auto. split; auto. split; auto. split; auto.
  intros t2 th2 Ht2 Hto2. split; [|apply (HK' _ _ Ht2 Hto2)].
  destruct (step_threads _ _ _ _ _ _ Hs Ht2) as (th0 & th0' & Ha0 & Hts0 & [[-> ->]|[Hne Ho]]).
  - unfold thread_at in *. rewrite Ha in Ha0. inversion Ha0; subst. rewrite Hts in Hts0. inversion Hts0; subst.
    unfold quiet2. rewrite Hp'. exact I.
  - destruct (HK _ _ Ho Hto2) as (K2 & _).
    assert (Hfc : fresh_complete (sto (sh s)) n) by (unfold fresh_complete; eauto).
    assert (Hwin : in_load_window th) by (unfold in_load_window; rewrite Hp0; exact I).
    unfold no_overlap in Hno. specialize (Hno _ _ _ _ Ha Ho Hto Hto2 Hwin).
    unfold quiet2, Kinv, in_save_window in *.
    destruct (tpc th2); repeat match goal with j : kind |- _ => destruct j end; simpl in *; auto; try tauto.
    destruct K2 as (_ & v2 & Hc2 & Hv2). rewrite Hc in Hc2. inversion Hc2; subst. auto.
Qed.

(** ** what a ManageSync caller has in its hands is the stored certificate *)
Definition Zinv (n : nat) (s : state) (th : thread) : Prop :=
  (forall ph, tpc th = PMOcsp ph -> exists ce, lcrt th = Some ce /\ (c_due ce = false -> Saved2 n ce s)) /\
  (forall ph, tpc th = PMEmit ph -> exists ce, lcrt th = Some ce /\ seen th = Some ce /\ (c_due ce = false -> Saved2 n ce s)) /\
  (tpc th = PDone ROk -> forall ce, seen th = Some ce -> c_due ce = false -> Saved2 n ce s).
Definition Zall (n : nat) (s : state) : Prop :=
  forall t th, thread_at s t th -> touches n (cfg th) -> c_prog (cfg th) = PManage -> Zinv n s th.

Lemma Zall_step n L s l s' e :
  canon n L s -> all_twf s -> I_lock s -> Kall n s -> Zall n s -> ok3 n s l -> step s l = Some (s', e) -> Zall n s'.
Proof.
  intros HC HW HL HK HZ Hok Hs t2 th2 Ht2 Hto2 Hp2.
  pose proof (Kall_step _ _ _ _ _ _ HC HW HL HK Hok Hs) as HK'.
  destruct Hok as (Hcalm & Hno & _).
  assert (Hst : forall ce, Saved2 n ce s -> Saved2 n ce s') by (intros; eapply saved2_step; eauto).
  destruct (step_thread_same _ _ _ _ Hs) as (th & th' & Ha & Hts & Ha' & Hoth).
  pose proof (tstep_cfg _ _ _ _ _ _ _ _ Hts) as Hcfg.
  destruct (step_threads _ _ _ _ _ _ Hs Ht2) as (th0 & th0' & Ha0 & Hts0 & [[-> ->]|[Hne Ho]]).
  - unfold thread_at in Ha0, Ha. rewrite Ha in Ha0. inversion Ha0; subst th0. rewrite Hts in Hts0. inversion Hts0; subst th0'.
    rewrite Hcfg in Hto2, Hp2.
    destruct (tstep_manage_shape _ _ _ _ _ _ _ _ Hp2 Hts) as (S1 & S2 & S3).
    destruct (HZ _ _ Ha Hto2 Hp2) as (Z1 & Z2 & Z3).
    split; [|split].
    + intros ph Hp'. destruct (S1 _ Hp') as (Hp0 & _ & Hlc & (ce & Hce) & _).
      exists ce. split; [congruence|]. intros Hd.
      eapply (load_establishes n L s l s' e th th' ph ce); eauto. congruence.
    + intros ph Hp'. destruct (S2 _ Hp') as (Hp0 & Hlc & Hse).
      destruct (Z1 _ Hp0) as (ce & Hce & Hsv). exists ce. split; [congruence|]. split; [congruence|]. auto.
    + intros Hp' ce Hse Hd. destruct (S3 Hp') as [(ph & Hp0 & Hse')|(Hp0 & Hse')].
      * destruct (Z2 _ Hp0) as (ce0 & Hl0 & Hs0 & Hsv). rewrite Hse', Hs0 in Hse. inversion Hse; subst. auto.
      * destruct (Z1 _ Hp0) as (ce0 & Hl0 & Hsv). rewrite Hse', Hl0 in Hse. inversion Hse; subst. auto.
  - destruct (HZ _ _ Ho Hto2 Hp2) as (Z1 & Z2 & Z3). split; [|split].
    + intros ph Hp'. destruct (Z1 _ Hp') as (ce & A & B). eauto.
    + intros ph Hp'. destruct (Z2 _ Hp') as (ce & A & B & C). eauto 6.
    + intros Hp' ce A B. eauto.
Qed.

Lemma Zall_init n cs st : Zall n (init_state cs st).
Proof.
  intros t th Ht _ _. unfold thread_at, init_state in Ht; simpl in Ht. rewrite nth_error_map in Ht.
  destruct (nth_error cs t) as [c|]; simpl in Ht; inversion Ht; subst. unfold Zinv; simpl.
  unfold entry, after_pre. destruct (c_prog c); simpl; repeat split; intros; try discriminate; destruct (c_chk c); discriminate.
Qed.

(** F3 (partial): every ManageSync caller for storage name [n] that has returned successfully and
    whose cached certificate is not due holds exactly the certificate that storage holds *)
Theorem callers_agree cs st n L es s :
  canon0 n L cs -> runs (ok3 n) (init_state cs st) es s ->
  forall t th ce, thread_at s t th -> touches n (cfg th) -> c_prog (cfg th) = PManage ->
    tpc th = PDone ROk -> seen th = Some ce -> c_due ce = false ->
    sto (sh s) (SK n KCrt) = Some (VCrt ce).
Proof.
  intros H0 R.
  assert (X : cfg_inv cs s /\ all_twf s /\ I_lock s /\ Kall n s /\ Zall n s).
  { eapply (runs_inv (ok3 n) (fun s => cfg_inv cs s /\ all_twf s /\ I_lock s /\ Kall n s /\ Zall n s)); eauto.
    - intros s3 l3 s4 e3 (A & B & C & D & E) Hok Hs3.
      pose proof (canon_of_cfg_inv _ _ _ _ H0 A) as HC.
      split; [eapply cfg_inv_step; eauto|]. split; [eapply all_twf_step; eauto|].
      split; [eapply I_lock_step; eauto|]. split; [eapply Kall_step; eauto|]. eapply Zall_step; eauto.
    - split; [|split; [apply all_twf_init|split; [apply I_lock_init|split; [apply Kall_init|apply Zall_init]]]].
      intros t0 th0 Ht0. unfold thread_at, init_state in Ht0; simpl in Ht0. rewrite nth_error_map in Ht0.
      destruct (nth_error cs t0); simpl in Ht0; inversion Ht0; subst; auto. }
  destruct X as (_ & _ & _ & _ & HZ).
  intros t th ce Ht Hto Hp Hd Hse Hdue.
  destruct (HZ _ _ Ht Hto Hp) as (_ & _ & Z3). destruct (Z3 Hd _ Hse Hdue) as (_ & Hc & _). auto.
Qed.

Corollary callers_agree_pairwise cs st n L es s t1 th1 ce1 t2 th2 ce2 :
  canon0 n L cs -> runs (ok3 n) (init_state cs st) es s ->
  thread_at s t1 th1 -> touches n (cfg th1) -> c_prog (cfg th1) = PManage -> tpc th1 = PDone ROk ->
  seen th1 = Some ce1 -> c_due ce1 = false ->
  thread_at s t2 th2 -> touches n (cfg th2) -> c_prog (cfg th2) = PManage -> tpc th2 = PDone ROk ->
  seen th2 = Some ce2 -> c_due ce2 = false ->
  ce1 = ce2.
Proof.
  intros H0 R A1 A2 A3 A4 A5 A6 B1 B2 B3 B4 B5 B6.
  pose proof (callers_agree _ _ _ _ _ _ H0 R _ _ _ A1 A2 A3 A4 A5 A6) as X.
  pose proof (callers_agree _ _ _ _ _ _ H0 R _ _ _ B1 B2 B3 B4 B5 B6) as Y.
  congruence.
Qed.

(** ** executable check of [ok3] along a run (for the Examples) *)
Definition touches_b (n : nat) (c : tcfg) : bool := Nat.eqb (c_pk c) n || Nat.eqb (c_vk c) n.
Definition load_window_b (th : thread) : bool :=
  match tpc th with PMLd _ KCrt | PMLd _ KMeta => true | _ => false end.
Definition save_window_b (th : thread) : bool :=
  match tpc th with PSave KCrt | PSave KMeta | PRoll _ => true | _ => false end.
Definition overlap_b (n : nat) (s : state) : bool :=
  existsb (fun th => touches_b n (cfg th) && load_window_b th) (thr s) &&
  existsb (fun th => touches_b n (cfg th) && save_window_b th) (thr s).
Definition calm_b (s : state) (l : label) : bool :=
  match nth_error (thr s) (l_tid l) with
  | Some th => negb (fault_eqb (l_fault l) FCancel) &&
               match tpc th with PPre _ | PRe _ | PWait => fault_eqb (l_fault l) FNone | _ => true end
  | None => true
  end.
Fixpoint run_chk (n : nat) (s : state) (ls : list label) : option (state * list ev) :=
  match ls with
  | [] => Some (s, [])
  | l :: r =>
      match step s l with
      | None => None
      | Some (s1, e) =>
          if calm_b s l && negb (overlap_b n s) && negb (overlap_b n s1)
          then match run_chk n s1 r with Some (s2, es) => Some (s2, e :: es) | None => None end
          else None
      end
  end.

Lemma touches_b_true n c : touches n c -> touches_b n c = true.
Proof. unfold touches, touches_b. intros [H|H]; rewrite H, Nat.eqb_refl; auto. apply orb_true_r. Qed.

Lemma overlap_b_sound n s : overlap_b n s = false -> no_overlap n s.
Proof.
  intros H t1 th1 t2 th2 H1 H2 T1 T2 W1 W2. unfold overlap_b in H.
  assert (A : existsb (fun th => touches_b n (cfg th) && load_window_b th) (thr s) = true).
  { apply existsb_exists. exists th1. split; [eapply nth_error_In; eauto|].
    rewrite touches_b_true by auto. unfold in_load_window in W1; unfold load_window_b.
    destruct (tpc th1); repeat match goal with j : kind |- _ => destruct j end; simpl in *; auto. }
  assert (B : existsb (fun th => touches_b n (cfg th) && save_window_b th) (thr s) = true).
  { apply existsb_exists. exists th2. split; [eapply nth_error_In; eauto|].
    rewrite touches_b_true by auto. unfold in_save_window in W2; unfold save_window_b.
    destruct (tpc th2); repeat match goal with j : kind |- _ => destruct j end; simpl in *; auto. }
  rewrite A, B in H. discriminate.
Qed.

Lemma calm_b_sound n s l : calm_b s l = true -> calm n s l.
Proof.
  unfold calm_b, calm. intros H th Ht _. unfold thread_at in Ht. rewrite Ht in H.
  apply andb_true_iff in H. destruct H as (A & B). split.
  - intros E. rewrite E in A. discriminate.
  - unfold truthful_th. destruct (tpc th); auto; try (right); destruct (l_fault l); simpl in *; auto; discriminate.
Qed.

Lemma run_chk_runs n s ls s' es : run_chk n s ls = Some (s', es) -> runs (ok3 n) s es s'.
Proof.
  revert s s' es; induction ls as [|l ls IH]; simpl; intros s s' es H.
  - inversion H; constructor.
  - destruct (step s l) as [[s1 e]|] eqn:E; [|discriminate].
    destruct (calm_b s l && negb (overlap_b n s) && negb (overlap_b n s1)) eqn:C; [|discriminate].
    destruct (run_chk n s1 ls) as [[s2 es2]|] eqn:R; [|discriminate]. inversion H; subst.
    apply andb_true_iff in C. destruct C as (C12 & C3). apply andb_true_iff in C12. destruct C12 as (C1 & C2).
    econstructor; eauto. split; [apply calm_b_sound; auto|]. split.
    + apply overlap_b_sound. destruct (overlap_b n s); auto; discriminate.
    + intros s3 e3 E3. rewrite E in E3. inversion E3; subst. apply overlap_b_sound. destruct (overlap_b n s3); auto; discriminate.
Qed.
