(** Issuance LTS: witnesses (vm_compute) that the unrestricted statements are false of the
    faithful model.  Each witness is replayed on the real code by the harness (corpus cases of
    harness/cmd/run/c01.go) and recorded as a known finding. *)
From Coq Require Import List Bool Arith Lia.
From CM Require Import Issuance.Model Issuance.Proofs Issuance.Invariants Issuance.NoReissueTL Issuance.NoReissue.
Import ListNotations.

Definition lab (t : nat) : label := Label t FNone true.
Definition sched (ts : list nat) : list label := map lab ts.
Definition no_sto : skey -> option value := fun _ => None.

Lemma reachable_run cs st ls s es : run (init_state cs st) ls = Some (s, es) -> reachable cs st s.
Proof. intros H. exists es. eapply run_runs; eauto. Qed.

(** (a) spelling-dependent keys.  Classes: lock key 0 = "issue_cert_bücher.example",
    1 = "issue_cert_xn--bcher-kva.example"; storage name 0 = "bcher.example" (Safe of the
    Unicode spelling), 1 = "xn--bcher-kva.example"; identifier 0 = the punycode name. *)
Definition obtain_unicode : tcfg := TCfg (PObtain false) 0 0 1 0 false false false false.
Definition obtain_puny : tcfg := TCfg (PObtain false) 1 1 1 0 false false false false.

Definition rep (n : nat) (t : nat) : list nat := repeat t n.

Theorem issue_spans_disjoint_refuted_spelling :
  exists cs st s t1 t2 th1 th2,
    reachable cs st s /\ thread_at s t1 th1 /\ thread_at s t2 th2 /\
    in_span th1 = true /\ in_span th2 = true /\ c_idn (cfg th1) = c_idn (cfg th2) /\ t1 <> t2.
Proof.
  pose (cs := [obtain_unicode; obtain_puny]).
  pose (ls := sched (rep 6 0 ++ rep 6 1)).
  destruct (run (init_state cs no_sto) ls) as [[s es]|] eqn:R; [|vm_compute in R; discriminate].
  exists cs, no_sto, s, 0, 1.
  assert (Hr : reachable cs no_sto s) by (eapply reachable_run; eauto).
  vm_compute in R. inversion R; subst s es; clear R.
  do 2 eexists. split; [exact Hr|]. unfold thread_at; simpl.
  split; [reflexivity|]. split; [reflexivity|]. repeat split; auto.
Qed.

(** the same spelling twice: the pre-check looks under Safe(unicode), the save went under the
    punycode name, so every call issues again -- in a run without any fault *)
Theorem no_reissue_refuted_spelling :
  exists cs st ls s es t c,
    run (init_state cs st) ls = Some (s, es) /\
    Forall (fun l => l_fault l = FNone) ls /\
    nth_error cs t = Some c /\ c_force c = false /\
    exists n i j,
      nth_error es i = Some (Ev 0 (OStore (SK n KMeta)) 0) /\ nth_error es j = Some (Ev t (OIssS (c_idn c)) 0) /\
      i < j /\ c_vk c = n.
Proof.
  pose (cs := [obtain_unicode; obtain_unicode]).
  pose (ls := sched (rep 12 0 ++ rep 6 1)).
  destruct (run (init_state cs no_sto) ls) as [[s es]|] eqn:R; [|vm_compute in R; discriminate].
  exists cs, no_sto, ls, s, es, 1, obtain_unicode.
  split; auto. split.
  { unfold ls, sched. apply Forall_forall. intros l Hl. apply in_map_iff in Hl. destruct Hl as (t & <- & _). reflexivity. }
  split; [reflexivity|]. split; [reflexivity|].
  vm_compute in R. inversion R; subst s es; clear R.
  exists 1, 9, 17. split; [reflexivity|]. split; [reflexivity|]. split; [lia|reflexivity].
Qed.

(** (b) manageOne loads the bundle outside the issue lock: scheduled between the .key and .crt
    Stores of another instance's fresh-key renewal it reads new key + old certificate and fails,
    although no fault was injected anywhere *)
Definition renew_canon : tcfg := TCfg (PRenew false) 0 0 0 0 false false false false.
Definition manage_canon : tcfg := TCfg PManage 0 0 0 0 false false false false.
Definition due_bundle : skey -> option value :=
  sto_of_list [(SK 0 KKey, VKey 50); (SK 0 KCrt, VCrt (Cert 90 50 true)); (SK 0 KMeta, VMeta 90)].

Theorem manage_load_races_renew_save_refuted :
  exists cs st ls s es th,
    run (init_state cs st) ls = Some (s, es) /\ Forall (fun l => l_fault l = FNone) ls /\
    (forall c, In c cs -> on_key 0 0 c) /\
    thread_at s 1 th /\ c_prog (cfg th) = PManage /\ tpc th = PDone RErr /\ flt th = false.
Proof.
  pose (cs := [renew_canon; manage_canon]).
  pose (ls := sched (rep 9 0 ++ rep 3 1)).
  destruct (run (init_state cs due_bundle) ls) as [[s es]|] eqn:R; [|vm_compute in R; discriminate].
  exists cs, due_bundle, ls, s, es.
  vm_compute in R. inversion R; subst s es; clear R.
  eexists. split; [reflexivity|]. split.
  { unfold ls, sched. apply Forall_forall. intros l Hl. apply in_map_iff in Hl. destruct Hl as (t & <- & _). reflexivity. }
  split.
  { intros c [<-|[<-|[]]]; unfold on_key, cert_prog, force_eff; simpl; auto. }
  unfold thread_at; simpl. split; [reflexivity|]. auto.
Qed.

(** (c) a storage fault inside the save of a fresh-key renewal: the rollback deletes the new key
    after the old one was overwritten; the waiting renewal then fails without a fault of its own *)
Theorem takeover_refuted_save_fault :
  exists cs st ls s es th,
    run (init_state cs st) ls = Some (s, es) /\
    (forall c, In c cs -> on_key 0 0 c) /\
    thread_at s 1 th /\ tpc th = PDone RErr /\ flt th = false.
Proof.
  pose (cs := [renew_canon; renew_canon]).
  pose (ls := sched (rep 9 0) ++ [Label 0 FErr true] ++ sched (rep 2 0 ++ rep 4 1)).
  destruct (run (init_state cs due_bundle) ls) as [[s es]|] eqn:R; [|vm_compute in R; discriminate].
  exists cs, due_bundle, ls, s, es.
  vm_compute in R. inversion R; subst s es; clear R.
  eexists. split; [reflexivity|]. split.
  { intros c [<-|[<-|[]]]; unfold on_key, cert_prog, force_eff; simpl; auto. }
  unfold thread_at; simpl. split; [reflexivity|]. auto.
Qed.
