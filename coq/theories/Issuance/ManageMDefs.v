(** Issuance LTS: F4c for ManageSync (partial) -- the caller's view (definitions). *)
From Coq Require Import List Bool Arith Lia.
From CM Require Import Issuance.Model Issuance.Proofs Issuance.Invariants Issuance.NoReissueTL Issuance.AgreeTL0 Issuance.Takeover Issuance.ManageTL.
Import ListNotations.

(** * What a ManageSync caller that has had no fault of its own can rely on *)
Definition Mpc_ok (p : pc) : Prop :=
  match p with
  | PChkD r | PUnlock r | PDone r => r = ROk
  | PEmitF _ | PRoll _ | PWait | PCLoad | PCBody | PCStore | PALoad1 | PAGet | PALoad2 | PAStore
  | PQLd _ _ | PQCb | PQCa _ _ | PQSv _ | PQRb => False
  | _ => True
  end.

(** the parts of the bundle the caller has seen (or written) are there *)
Definition Mpres (n : nat) (th : thread) (st : skey -> option value) : Prop :=
  (cur th = OpRenew -> bundle_complete st n) /\
  match tpc th with
  | PPre KKey | PRe KKey => pres st n KCrt
  | PPre KMeta | PRe KMeta => pres st n KCrt /\ pres st n KKey
  | PSave KCrt => pres st n KKey
  | PSave KMeta => pres st n KKey /\ pres st n KCrt
  | PEmit2 | PUnlock _ => bundle_complete st n
  | PMLd Ph0 KKey => True
  | PMLd Ph0 KCrt => pres st n KKey
  | PMLd Ph0 KMeta => pres st n KKey /\ pres st n KCrt
  | PMLd _ _ | PMOcsp _ | PMEmit _ => bundle_complete st n
  | _ => True
  end.

(** inside its unlocked load: the key it holds is the stored one; then key and certificate match *)
Definition Mload (n : nat) (th : thread) (st : skey -> option value) : Prop :=
  match tpc th with
  | PMLd _ KCrt => exists vk, st (SK n KKey) = Some vk /\ lkey th = Some (key_of vk)
  | PMLd _ KMeta => kid_matches (lkey th) (lcrt th) = true
  | _ => True
  end.

Definition Minv (n : nat) (th : thread) (st : skey -> option value) : Prop :=
  flt th = false -> canc th = false /\ Mpc_ok (tpc th) /\ Mpres n th st /\ Mload n th st.

