(** Issuance LTS: F3, the missing clause -- every ManageSync caller that had no fault of its own
    and returned successfully holds a certificate that is not due (global part). *)
From Coq Require Import List Bool Arith Lia.
From CM Require Import Issuance.Model Issuance.Proofs Issuance.Invariants Issuance.NoReissueTL Issuance.NoReissue Issuance.AgreeTL0 Issuance.Agree
  Issuance.OwnFault Issuance.Takeover Issuance.ManageTL Issuance.ManageM Issuance.ManageTakeover Issuance.FreshTL Issuance.FreshM.
Import ListNotations.

Definition saver_at_crt (n : nat) (s : state) : Prop :=
  exists t th, thread_at s t th /\ touches n (cfg th) /\ tpc th = PSave KCrt.
(** the stored certificate is not due, or a saver is about to store one that is not *)
Definition Einv (n : nat) (s : state) : Prop := nd (sto (sh s)) n \/ saver_at_crt n s.
Definition nondue (n : nat) (s : state) : Prop :=
  forall t th, thread_at s t th -> touches n (cfg th) -> c_issdue (cfg th) = false.
Definition Mono0 (n : nat) (st0 : skey -> option value) (s : state) : Prop :=
  forall j, st0 (SK n j) <> None -> sto (sh s) (SK n j) <> None.
(** a part that was missing at the start and is there now was saved by somebody *)
Definition Hinv (n : nat) (st0 : skey -> option value) (s : state) : Prop :=
  (st0 (SK n KKey) = None -> sto (sh s) (SK n KKey) <> None -> Einv n s) /\
  (st0 (SK n KCrt) = None -> sto (sh s) (SK n KCrt) <> None -> nd (sto (sh s)) n) /\
  (st0 (SK n KMeta) = None -> sto (sh s) (SK n KMeta) <> None -> nd (sto (sh s)) n).
Definition Nall (n : nat) (s : state) : Prop :=
  forall t th, thread_at s t th -> touches n (cfg th) -> tpc th = PSave KMeta -> nd (sto (sh s)) n.
Definition Fall (n : nat) (st0 : skey -> option value) (s : state) : Prop :=
  forall t th, thread_at s t th -> touches n (cfg th) -> c_prog (cfg th) = PManage ->
    Finv n st0 (Einv n s) th (sto (sh s)).

Lemma nondue_step n s l s' e : nondue n s -> step s l = Some (s', e) -> nondue n s'.
Proof. intros HD Hs t th Ht Hto. destruct (step_cfg _ _ _ _ _ _ Hs Ht) as (th0 & H0 & E). rewrite E in *. eauto. Qed.

(** exact effect of one step on the bundle of [n] *)
Lemma step_effect n L s l th th' sh' e :
  canon n L s -> all_twf s -> NoRoll n s -> strict n s l -> nondue n s ->
  thread_at s (l_tid l) th -> tstep (l_tid l) th (sh s) (l_fault l) (l_bit l) = Some (th', sh', e) ->
  (forall j, sto sh' (SK n j) = sto (sh s) (SK n j)) \/
  (touches n (cfg th) /\ locked (tpc th) = true /\
   exists j v, tpc th = PSave j /\ sto sh' = sput (sto (sh s)) (SK n j) (Some v) /\
     (j = KKey -> tpc th' = PSave KCrt) /\
     (j = KCrt -> tpc th' = PSave KMeta /\ exists c, v = VCrt c /\ c_due c = false)).
Proof.
  intros HC HW HN Hst HD Ha Hts.
  destruct (step_write_cases n L s l th th' sh' e HC HW HN Hst Ha Hts) as (_ & _ & [F|(Hto & Hl & Hw)]); auto.
  right. split; auto. split; auto.
  destruct (HC _ _ Ha Hto) as (_ & Hvk & _ & _ & Hcp).
  pose proof (tstep_strict_save _ _ _ _ _ _ _ _ (HW _ _ Ha) Hcp (Hst _ Ha Hvk) Hts) as SS.
  pose proof (HN _ _ Ha Hvk) as Hnr. unfold no_roll in Hnr.
  assert (Hps : exists j, tpc th = PSave j).
  { destruct Hw as [Hw|(Hp & _)]; eauto. unfold in_save_window in Hw.
    destruct (tpc th); try contradiction; try discriminate Hnr; eauto. }
  destruct Hps as (j & Hp). rewrite Hp in SS. rewrite Hvk in SS. exists j.
  destruct j.
  - destruct SS as (Hp' & _ & E). eexists. split; auto. split; [exact E|]. split; auto. intros X; discriminate X.
  - destruct SS as (Hp' & c & _ & Hd & E). eexists. split; auto. split; [exact E|]. split; [intros X; discriminate X|].
    intros _. split; auto. exists c. split; auto. rewrite Hd. apply (HD _ _ Ha Hto).
  - destruct SS as (Hp' & v & E). exists v. split; auto. split; [exact E|]. split; intros X; discriminate X.
Qed.

Lemma nd_frame st st' n : st' (SK n KCrt) = st (SK n KCrt) -> nd st n -> nd st' n.
Proof. unfold nd. intros E. rewrite E. auto. Qed.

Lemma nd_step n L s l s' e :
  canon n L s -> all_twf s -> NoRoll n s -> strict n s l -> nondue n s ->
  step s l = Some (s', e) -> nd (sto (sh s)) n -> nd (sto (sh s')) n.
Proof.
  intros HC HW HN Hst HD Hs Hnd.
  destruct (step_thread_same _ _ _ _ Hs) as (th & th' & Ha & Hts & _).
  destruct (step_effect n L s l th th' (sh s') e HC HW HN Hst HD Ha Hts) as [F|(_ & _ & j & v & Hp & E & _ & Hc)].
  - eapply nd_frame; eauto.
  - rewrite E. destruct j.
    + eapply nd_frame; [|exact Hnd]. apply sput_neq. intro X; inversion X.
    + destruct (Hc eq_refl) as (_ & c & -> & Hd). exists c. rewrite sput_eq. auto.
    + eapply nd_frame; [|exact Hnd]. apply sput_neq. intro X; inversion X.
Qed.

Lemma Einv_step n L s l s' e :
  canon n L s -> all_twf s -> NoRoll n s -> strict n s l -> nondue n s ->
  step s l = Some (s', e) -> Einv n s -> Einv n s'.
Proof.
  intros HC HW HN Hst HD Hs [Hnd|(t3 & th3 & H3 & Hto3 & Hp3)].
  - left. eapply nd_step; eauto.
  - destruct (step_thread_same _ _ _ _ Hs) as (th & th' & Ha & Hts & Ha' & Hoth).
    destruct (Nat.eq_dec t3 (l_tid l)) as [->|Hne].
    + unfold thread_at in *. rewrite Ha in H3. inversion H3; subst th3.
      destruct (step_effect n L s l th th' (sh s') e HC HW HN Hst HD Ha Hts) as [F|(_ & _ & j & v & Hp & E & _ & Hc)].
      * (* a saver at the Store of the certificate does store it *)
        destruct (HC _ _ Ha Hto3) as (_ & Hvk & _ & _ & Hcp).
        pose proof (tstep_strict_save _ _ _ _ _ _ _ _ (HW _ _ Ha) Hcp (Hst _ Ha Hvk) Hts) as SS.
        rewrite Hp3 in SS. destruct SS as (_ & c & _ & Hd & E). left. exists c. rewrite E, Hvk, sput_eq.
        split; auto. rewrite Hd. apply (HD _ _ Ha Hto3).
      * rewrite Hp3 in Hp. inversion Hp; subst j. destruct (Hc eq_refl) as (_ & c & -> & Hd).
        left. exists c. rewrite E, sput_eq. auto.
    + right. exists t3, th3. split; auto.
Qed.

Lemma Mono0_step n L st0 s l s' e :
  canon n L s -> all_twf s -> NoRoll n s -> strict n s l ->
  step s l = Some (s', e) -> Mono0 n st0 s -> Mono0 n st0 s'.
Proof.
  intros HC HW HN Hst Hs HM j Hj.
  destruct (step_thread_same _ _ _ _ Hs) as (th & th' & Ha & Hts & _).
  destruct (step_write_cases n L s l th th' (sh s') e HC HW HN Hst Ha Hts) as (Hmono & _ & _). auto.
Qed.

Lemma Nall_step n L s l s' e :
  canon n L s -> all_twf s -> NoRoll n s -> strict n s l -> nondue n s ->
  step s l = Some (s', e) -> Nall n s -> Nall n s'.
Proof.
  intros HC HW HN Hst HD Hs HNa t2 th2 Ht2 Hto2 Hp2.
  destruct (step_thread_same _ _ _ _ Hs) as (th & th' & Ha & Hts & Ha' & Hoth).
  pose proof (tstep_cfg _ _ _ _ _ _ _ _ Hts) as Hcfg.
  destruct (step_threads _ _ _ _ _ _ Hs Ht2) as (th0 & th0' & Ha0 & Hts0 & [[-> ->]|[Hne Ho]]).
  - unfold thread_at in Ha0, Ha. rewrite Ha in Ha0. inversion Ha0; subst th0. rewrite Hts in Hts0. inversion Hts0; subst th0'.
    rewrite Hcfg in Hto2.
    destruct (HC _ _ Ha Hto2) as (_ & Hvk & _ & _ & Hcp).
    destruct (tstep_save_shape _ _ _ _ _ _ _ _ (HW _ _ Ha) Hcp Hts) as (_ & S2 & _).
    destruct (S2 Hp2) as (Hp & _).
    pose proof (tstep_strict_save _ _ _ _ _ _ _ _ (HW _ _ Ha) Hcp (Hst _ Ha Hvk) Hts) as SS.
    rewrite Hp in SS. destruct SS as (_ & c & _ & Hd & E). exists c. rewrite E, Hvk, sput_eq.
    split; auto. rewrite Hd. apply (HD _ _ Ha Hto2).
  - eapply nd_step; eauto.
Qed.

Lemma Hinv_step n L st0 s l s' e :
  canon n L s -> all_twf s -> NoRoll n s -> strict n s l -> nondue n s -> Nall n s ->
  step s l = Some (s', e) -> Hinv n st0 s -> Hinv n st0 s'.
Proof.
  intros HC HW HN Hst HD HNa Hs (H1 & H2 & H3).
  destruct (step_thread_same _ _ _ _ Hs) as (th & th' & Ha & Hts & Ha' & Hoth).
  pose proof (tstep_cfg _ _ _ _ _ _ _ _ Hts) as Hcfg.
  assert (HE : Einv n s -> Einv n s') by (eapply Einv_step; eauto).
  assert (HNd : nd (sto (sh s)) n -> nd (sto (sh s')) n) by (eapply nd_step; eauto).
  destruct (step_effect n L s l th th' (sh s') e HC HW HN Hst HD Ha Hts) as [F|(Hto & _ & j & v & Hp & E & Hk & Hc)].
  - unfold Hinv. rewrite !F. split; [|split]; auto.
  - assert (Hto' : touches n (cfg th')) by (rewrite Hcfg; auto).
    split; [|split]; intros Hz Hpr.
    + destruct j.
      * right. exists (l_tid l), th'. split; auto.
      * apply HE, H1; auto. rewrite E in Hpr. rewrite sput_neq in Hpr; auto. intro X; inversion X.
      * apply HE, H1; auto. rewrite E in Hpr. rewrite sput_neq in Hpr; auto. intro X; inversion X.
    + destruct j.
      * apply HNd, H2; auto. rewrite E in Hpr. rewrite sput_neq in Hpr; auto. intro X; inversion X.
      * destruct (Hc eq_refl) as (_ & c & -> & Hd). exists c. rewrite E, sput_eq. auto.
      * apply HNd, H2; auto. rewrite E in Hpr. rewrite sput_neq in Hpr; auto. intro X; inversion X.
    + destruct j.
      * apply HNd, H3; auto. rewrite E in Hpr. rewrite sput_neq in Hpr; auto. intro X; inversion X.
      * apply HNd, H3; auto. rewrite E in Hpr. rewrite sput_neq in Hpr; auto. intro X; inversion X.
      * apply HNd. eapply HNa; eauto.
Qed.

Lemma Finv_frame n st0 (E E' : Prop) th st st' :
  (E -> E') -> (nd st n -> nd st' n) ->
  (locked (tpc th) = true -> st' (SK n KCrt) = st (SK n KCrt)) ->
  Finv n st0 E th st -> Finv n st0 E' th st'.
Proof.
  intros HE HN HL HF Hf. destruct (HF Hf) as (A & B). split; auto.
  unfold Fcl in *. destruct (tpc th); auto;
    repeat match goal with j : kind |- _ => destruct j | p : phase |- _ => destruct p | r : result |- _ => destruct r end;
    auto.
  rewrite (HL eq_refl). auto.
Qed.

Lemma load_window_from t th s f b th' s' e :
  tstep t th s f b = Some (th', s', e) -> in_load_window th' -> exists ph j, tpc th = PMLd ph j.
Proof.
  intros H Hw. destruct th as [c p ? ? ? ? ? ? ? ? ?]. unfold in_load_window in Hw. destruct p.
  all: try (eexists; eexists; reflexivity).
  all: tstep_full H. all: inv_some H; simpl in Hw; try contradiction.
Qed.

Lemma incomplete_missing (st0 : skey -> option value) n :
  ~ bundle_complete st0 n -> exists j, st0 (SK n j) = None.
Proof.
  intros H. destruct (st0 (SK n KKey)) eqn:E1; [|exists KKey; auto].
  destruct (st0 (SK n KCrt)) eqn:E2; [|exists KCrt; auto].
  destruct (st0 (SK n KMeta)) eqn:E3; [|exists KMeta; auto].
  exfalso. apply H. intros j; destruct j; congruence.
Qed.

Lemma Fall_step n L st0 s l s' e :
  canon n L s -> all_twf s -> I_lock s -> NoRoll n s -> nondue n s -> Mono0 n st0 s -> Hinv n st0 s ->
  Mall n s -> Fall n st0 s -> okm n s l -> step s l = Some (s', e) -> Fall n st0 s'.
Proof.
  intros HC HW HL HN HD HM0 (H1 & H2 & H3) HM HF (Hst & Hno & Hno') Hs t2 th2 Ht2 Hto2 Hp2.
  specialize (Hno' _ _ Hs).
  destruct (step_thread_same _ _ _ _ Hs) as (th & th' & Ha & Hts & Ha' & Hoth).
  pose proof (tstep_cfg _ _ _ _ _ _ _ _ Hts) as Hcfg.
  assert (HE : Einv n s -> Einv n s') by (eapply Einv_step; eauto).
  assert (HNd : nd (sto (sh s)) n -> nd (sto (sh s')) n) by (eapply nd_step; eauto).
  destruct (step_threads _ _ _ _ _ _ Hs Ht2) as (th0 & th0' & Ha0 & Hts0 & [[-> ->]|[Hne Ho]]).
  - unfold thread_at in Ha0, Ha. rewrite Ha in Ha0. inversion Ha0; subst th0. rewrite Hts in Hts0. inversion Hts0; subst th0'.
    rewrite Hcfg in Hto2, Hp2.
    pose proof (HC _ _ Ha Hto2) as A1. destruct A1 as (Hpk & Hvk & Hlk & Hfo & Hcp).
    eapply (tstep_Finv n L st0 (Einv n s) (Einv n s')); try exact Hts; auto.
    + repeat split; auto.
    + apply (HD _ _ Ha Hto2).
    + apply (HW _ _ Ha).
    + apply (HM _ _ Ha Hto2 Hp2).
    + apply (HF _ _ Ha Hto2 Hp2).
    + intros X; left; exact X.
    + intros Hc Hnc. destruct (incomplete_missing _ _ Hnc) as (j & Hj).
      destruct j; [apply H1|left; apply H2|left; apply H3]; auto.
    + intros Hlk2 Hnp [Hnd|(t3 & th3 & H3' & Hto3 & Hp3)]; auto. exfalso.
      destruct (Nat.eq_dec t3 (l_tid l)) as [->|Hne].
      * unfold thread_at in H3'. rewrite Ha in H3'. inversion H3'; subst. contradiction.
      * destruct (HC _ _ H3' Hto3) as (_ & _ & HlkB & _).
        assert (Hl3 : locked (tpc th3) = true) by (rewrite Hp3; reflexivity).
        pose proof (HL _ _ Ha Hlk2) as O1. pose proof (HL _ _ H3' Hl3) as O2. rewrite Hlk in O1. rewrite HlkB in O2. congruence.
    + intros Hwin [Hnd|(t3 & th3 & H3' & Hto3 & Hp3)]; auto. exfalso.
      destruct (Nat.eq_dec t3 (l_tid l)) as [->|Hne].
      * unfold thread_at in H3'. rewrite Ha in H3'. inversion H3'; subst.
        destruct (load_window_from _ _ _ _ _ _ _ _ Hts Hwin) as (ph & j & Hpj). congruence.
      * eapply (Hno' (l_tid l) th' t3 th3); eauto.
        -- rewrite Hcfg; auto.
        -- unfold in_save_window. rewrite Hp3. exact I.
  - pose proof (HF _ _ Ho Hto2 Hp2) as F2.
    eapply Finv_frame; eauto.
    intros Hl2.
    destruct (step_effect n L s l th th' (sh s') e HC HW HN Hst HD Ha Hts) as [F|(Hto & Hl & _)]; auto.
    exfalso. destruct (HC _ _ Ha Hto) as (_ & _ & HlkA & _). destruct (HC _ _ Ho Hto2) as (_ & _ & HlkB & _).
    pose proof (HL _ _ Ha Hl) as O1. pose proof (HL _ _ Ho Hl2) as O2. rewrite HlkA in O1. rewrite HlkB in O2. congruence.
Qed.

(** F3, the clause that was missing: no issuer hands out certificates that are already due; then,
    under the restrictions of [okm], every ManageSync caller that had no fault of its own and
    returned successfully has cached a certificate that is not due *)
Theorem manage_success_not_due cs st n L es s :
  canon0 n L cs -> (forall c, In c cs -> touches n c -> c_issdue c = false) -> stored_match st n ->
  runs (okm n) (init_state cs st) es s ->
  forall t th, thread_at s t th -> touches n (cfg th) -> c_prog (cfg th) = PManage ->
    tpc th = PDone ROk -> flt th = false -> exists ce, seen th = Some ce /\ c_due ce = false.
Proof.
  intros H0 Hnd0 Hsm R t th Ht Hto Hp Hd Hfl.
  pose (Inv := fun s => cfg_inv cs s /\ all_twf s /\ I_lock s /\ I_rw s /\ NoRoll n s /\ Sall n s /\ Ginv n s /\ Mall n s /\
                        Mono0 n st s /\ Nall n s /\ Hinv n st s /\ Fall n st s).
  assert (X : Inv s).
  { eapply (runs_inv (okm n) Inv); eauto.
    - intros s3 l3 s4 e3 (A & B & C & D & E & F & G & H & I1 & I2 & I3 & I4) Hok Hs3.
      pose proof (canon_of_cfg_inv _ _ _ _ H0 A) as HC. pose proof Hok as (Hst & _).
      assert (HD : nondue n s3).
      { intros t0 th0 Ht0 Hto0. apply Hnd0; auto. eapply nth_error_In. apply A; eauto. }
      split; [eapply cfg_inv_step; eauto|]. split; [eapply all_twf_step; eauto|].
      split; [eapply I_lock_step; eauto|]. split; [eapply I_rw_step; eauto|].
      split; [eapply NoRoll_step; eauto|]. split; [eapply Sall_step; eauto|].
      split; [eapply Ginv_step; eauto|]. split; [eapply Mall_step; eauto|].
      split; [eapply Mono0_step; eauto|]. split; [eapply Nall_step; eauto|].
      split; [eapply Hinv_step; eauto|]. eapply Fall_step; eauto.
    - assert (Hinit : forall t0 th0, thread_at (init_state cs st) t0 th0 -> exists c, nth_error cs t0 = Some c /\ th0 = init_thread c)
        by (intros; eapply init_thread_at; eauto).
      split; [|split; [apply all_twf_init|split; [apply I_lock_init|split; [apply I_rw_init|]]]].
      { intros t0 th0 Ht0. destruct (Hinit _ _ Ht0) as (c & Hc & ->). auto. }
      split; [|split; [|split; [|split; [|split; [|split; [|split]]]]]].
      + intros t0 th0 Ht0 _. destruct (Hinit _ _ Ht0) as (c & Hc & ->).
        unfold no_roll. destruct (init_pc_cases c _ eq_refl) as [E|[E|[E|[E|E]]]]; rewrite E; reflexivity.
      + intros t0 th0 Ht0 _. destruct (Hinit _ _ Ht0) as (c & Hc & ->).
        unfold Sinv. destruct (init_pc_cases c _ eq_refl) as [E|[E|[E|[E|E]]]]; rewrite E; exact I.
      + intros _. exact Hsm.
      + intros t0 th0 Ht0 _ Hp0. destruct (Hinit _ _ Ht0) as (c & Hc & ->).
        simpl in Hp0. intros _. unfold Mpc_ok, Mpres, Mload, init_thread, entry; simpl. rewrite Hp0; simpl.
        repeat split; auto. discriminate.
      + intros j Hj. exact Hj.
      + intros t0 th0 Ht0 _ Hp0. destruct (Hinit _ _ Ht0) as (c & Hc & ->).
        exfalso. destruct (init_pc_cases c _ eq_refl) as [E|[E|[E|[E|E]]]]; rewrite E in Hp0; discriminate.
      + simpl. split; [|split]; intros Hz Hpr; contradiction.
      + intros t0 th0 Ht0 _ Hp0. destruct (Hinit _ _ Ht0) as (c & Hc & ->).
        simpl in Hp0. intros _. unfold Fobt, Fcl, init_thread, entry; simpl. rewrite Hp0; simpl.
        split; auto. intros _ X; discriminate X. }
  destruct X as (_ & _ & _ & _ & _ & _ & _ & _ & _ & _ & _ & HF).
  destruct (HF _ _ Ht Hto Hp Hfl) as (_ & Fc). unfold Fcl in Fc. rewrite Hd in Fc.
  destruct (seen th) as [ce|]; simpl in Fc; [|discriminate]. eauto.
Qed.

(** F3 for callers without a fault of their own, all clauses: under the restrictions of [ok3]
    (requests on the name are not cancelled, existence checks not falsified) and [okm] (no fault
    inside a save, no unlocked load overlapping a save), with issuers that do not hand out due
    certificates, every ManageSync caller that returned successfully holds exactly the stored
    certificate, and it is not due *)
Definition ok3m (n : nat) (s : state) (l : label) : Prop := ok3 n s l /\ okm n s l.

Theorem callers_agree_not_due cs st n L es s :
  canon0 n L cs -> (forall c, In c cs -> touches n c -> c_issdue c = false) -> stored_match st n ->
  runs (ok3m n) (init_state cs st) es s ->
  forall t th, thread_at s t th -> touches n (cfg th) -> c_prog (cfg th) = PManage ->
    tpc th = PDone ROk -> flt th = false ->
    exists ce, seen th = Some ce /\ c_due ce = false /\ sto (sh s) (SK n KCrt) = Some (VCrt ce).
Proof.
  intros H0 Hnd Hsm R t th Ht Hto Hp Hd Hf.
  assert (R1 : runs (ok3 n) (init_state cs st) es s) by (eapply runs_weaken; [|exact R]; intros ? ? [A _]; exact A).
  assert (R2 : runs (okm n) (init_state cs st) es s) by (eapply runs_weaken; [|exact R]; intros ? ? [_ B]; exact B).
  destruct (manage_success_not_due _ _ _ _ _ _ H0 Hnd Hsm R2 _ _ Ht Hto Hp Hd Hf) as (ce & Hs & Hdue).
  exists ce. split; auto. split; auto.
  eapply callers_agree; eauto.
Qed.

Corollary callers_agree_not_due_pairwise cs st n L es s t1 th1 t2 th2 :
  canon0 n L cs -> (forall c, In c cs -> touches n c -> c_issdue c = false) -> stored_match st n ->
  runs (ok3m n) (init_state cs st) es s ->
  thread_at s t1 th1 -> touches n (cfg th1) -> c_prog (cfg th1) = PManage -> tpc th1 = PDone ROk -> flt th1 = false ->
  thread_at s t2 th2 -> touches n (cfg th2) -> c_prog (cfg th2) = PManage -> tpc th2 = PDone ROk -> flt th2 = false ->
  exists ce, seen th1 = Some ce /\ seen th2 = Some ce /\ c_due ce = false.
Proof.
  intros H0 Hnd Hsm R A1 A2 A3 A4 A5 B1 B2 B3 B4 B5.
  destruct (callers_agree_not_due _ _ _ _ _ _ H0 Hnd Hsm R _ _ A1 A2 A3 A4 A5) as (c1 & S1 & D1 & X1).
  destruct (callers_agree_not_due _ _ _ _ _ _ H0 Hnd Hsm R _ _ B1 B2 B3 B4 B5) as (c2 & S2 & D2 & X2).
  rewrite X1 in X2. inversion X2; subst. eauto.
Qed.

(** executable check of [ok3m] along a run *)
Fixpoint run_ok3m (n : nat) (s : state) (ls : list label) : option (state * list ev) :=
  match ls with
  | [] => Some (s, [])
  | l :: r =>
      match step s l with
      | None => None
      | Some (s1, e) =>
          if calm_b s l && strict_b n s l && negb (overlap_b n s) && negb (overlap_b n s1)
          then match run_ok3m n s1 r with Some (s2, es) => Some (s2, e :: es) | None => None end
          else None
      end
  end.

Lemma run_ok3m_runs n s ls s' es : run_ok3m n s ls = Some (s', es) -> runs (ok3m n) s es s'.
Proof.
  revert s s' es; induction ls as [|l ls IH]; simpl; intros s s' es H.
  - inversion H; constructor.
  - destruct (step s l) as [[s1 e]|] eqn:E; [|discriminate].
    destruct (calm_b s l && strict_b n s l && negb (overlap_b n s) && negb (overlap_b n s1)) eqn:C; [|discriminate].
    destruct (run_ok3m n s1 ls) as [[s2 es2]|] eqn:R; [|discriminate]. inversion H; subst.
    apply andb_true_iff in C. destruct C as (C123 & C4). apply andb_true_iff in C123. destruct C123 as (C12 & C3).
    apply andb_true_iff in C12. destruct C12 as (C1 & C2).
    assert (N1 : no_overlap n s) by (apply overlap_b_sound; destruct (overlap_b n s); auto; discriminate).
    assert (N2 : forall s3 e3, step s l = Some (s3, e3) -> no_overlap n s3).
    { intros s3 e3 E3. rewrite E in E3. inversion E3; subst. apply overlap_b_sound. destruct (overlap_b n s3); auto; discriminate. }
    econstructor; eauto. split.
    + split; [apply calm_b_sound; auto|]. split; auto.
    + split; [apply strict_b_sound; auto|]. split; auto.
Qed.
