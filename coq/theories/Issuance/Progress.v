(** Issuance LTS: enabledness and the termination measure (thread level). *)
From Coq Require Import List Bool Arith Lia.
From CM Require Import Issuance.Model Issuance.Base Issuance.Twf.
Import ListNotations.

(** * Progress (thread level) *)
Lemma tstep_enabled t th s :
  final_pc (tpc th) = false -> tpc th <> PLockWait ->
  exists r, tstep t th s FNone true = Some r.
Proof.
  intros Hf Hw. destruct th as [c p cu ? ? ? ? ? ? ? ?]. destruct p; simpl in *; try discriminate; try congruence.
  all: unfold tstep, norm_pc, mark, body_start; simpl.
  all: try (unfold exec; simpl; repeat match goal with |- context [match ?x with _ => _ end] =>
         lazymatch x with context [match _ with _ => _ end] => fail | _ => destruct x eqn:? end end; eauto; fail).
  all: destruct cu; simpl; try destruct (c_prog c); try destruct interval; simpl.
  all: try (unfold exec; simpl; repeat match goal with |- context [match ?x with _ => _ end] =>
         lazymatch x with context [match _ with _ => _ end] => fail | _ => destruct x eqn:? end end; eauto; fail).
Qed.

Lemma tstep_lockwait_enabled t th s :
  tpc th = PLockWait -> lks s (c_lk (cfg th)) = None -> exists r, tstep t th s FNone true = Some r.
Proof.
  intros Hp Hl. destruct th as [c p cu ? ? ? ? ? ? ? ?]; simpl in *; subst.
  unfold tstep, norm_pc, mark; simpl. unfold exec; simpl. rewrite Hl. eauto.
Qed.

(** * Termination measure for the programs without a retry loop *)
Definition rank (p : pc) : nat :=
  match p with
  | PPre KCrt => 40 | PPre KKey => 39 | PPre KMeta => 38
  | PChkS => 36 | PChkL => 35 | PChkD _ => 34 | PLockCall => 33 | PLockWait => 32
  | PRe KCrt => 31 | PRe KKey => 30 | PRe KMeta => 29
  | PLd KKey => 31 | PLd KCrt => 30 | PLd KMeta => 29
  | PEmit1 => 28 | PReuse => 27 | PIssS => 26 | PIssE => 25 | PEmitF _ => 24
  | PSave KKey => 23 | PSave KCrt => 22 | PSave KMeta => 21
  | PRoll KCrt => 20 | PRoll _ => 19 | PEmit2 => 20
  | PCLoad => 31 | PCBody => 30 | PCStore => 29
  | PALoad1 => 31 | PAGet => 30 | PALoad2 => 29 | PAStore => 28
  | PQLd false KMeta => 45 | PQLd false _ => 44 | PQLd true KMeta => 31 | PQLd true _ => 30 | PQCb => 29
  | PQCa r a => 20 + 3 * (2 - r) + (2 - a) | PQSv KMeta => 18 | PQSv _ => 17 | PQRb => 16
  | PWait => 32
  | PUnlock _ => 10
  | PMLd Ph0 KKey => 120 | PMLd Ph0 KCrt => 119 | PMLd Ph0 KMeta => 118 | PMOcsp Ph0 => 116 | PMEmit Ph0 => 115
  | PMLd _ KKey => 50 | PMLd _ KCrt => 49 | PMLd _ KMeta => 48 | PMOcsp _ => 47 | PMEmit _ => 46
  | PDone _ => 0
  end.
Definition is_mpc (p : pc) : bool := match p with PMLd _ _ | PMOcsp _ | PMEmit _ | PDone _ => true | _ => false end.
Definition rem (th : thread) : nat :=
  (match c_prog (cfg th) with PManage => if is_mpc (tpc th) then 0 else 60 | _ => 0 end) + rank (tpc th).
(** programs whose every path is finite: no doWithRetry loop, no CleanStorage body (the requests of
    an account registration are retried at most twice) *)
Definition finite_prog (c : tcfg) : bool :=
  match c_prog c with PObtain false | PRenew false | PManage | PAri _ | PAcct _ => true | _ => false end.

Lemma tstep_rem t th s f b th' s' e :
  twf th -> finite_prog (cfg th) = true -> tstep t th s f b = Some (th', s', e) -> rem th' < rem th.
Proof.
  intros (Hwf & Hwc & _) Hfin H. destruct th as [c p cu ? ? ? ? ? ? ? ?]. unfold finite_prog in Hfin; simpl in Hfin, Hwf, Hwc.
  destruct p.
  all: tstep_full H. all: inv_some H.
  all: unfold rem; simpl.
  all: repeat match goal with j : kind |- _ => destruct j | p : phase |- _ => destruct p end; simpl in *; try discriminate.
  all: repeat match goal with E : Some _ = Some _ |- _ => inversion E; subst; clear E end.
  all: repeat match goal with E : c_prog _ = _ |- _ => rewrite E in *; clear E end; simpl in *; try discriminate; try lia.
  all: try (destruct (c_prog c) as [[|]|[|]| | | |]; try destruct lk; simpl in *; try discriminate; try lia; intuition (try discriminate; try lia)).
  all: try (intuition (try discriminate; try lia); fail).
  all: try (intuition (try discriminate; try congruence; try lia); fail).
Qed.
