(** Issuance LTS: F3 / F4c -- shapes of ManageSync's steps and of the steps that write a bundle. *)
From Coq Require Import List Bool Arith Lia.
From CM Require Import Issuance.Model Issuance.Proofs Issuance.Invariants Issuance.KeyDefs.
Import ListNotations.

(** shape of ManageSync's steps after a load *)
Lemma tstep_manage_shape t th s f b th' s' e :
  c_prog (cfg th) = PManage -> tstep t th s f b = Some (th', s', e) ->
  (forall ph, tpc th' = PMOcsp ph ->
      tpc th = PMLd ph KMeta /\ sto s' = sto s /\ lcrt th' = lcrt th /\ (exists ce, lcrt th = Some ce) /\
      sto s (SK (c_vk (cfg th)) KMeta) <> None) /\
  (forall ph, tpc th' = PMEmit ph -> tpc th = PMOcsp ph /\ lcrt th' = lcrt th /\ seen th' = lcrt th) /\
  (tpc th' = PDone ROk ->
      (exists ph, tpc th = PMEmit ph /\ seen th' = seen th) \/ (tpc th = PMOcsp PhR /\ seen th' = lcrt th)).
Proof.
  intros Hp H. destruct th as [c p cu ? ? ? ? ? ? ? ?]. simpl in *. destruct p.
  all: tstep_full H. all: inv_some H; simpl in *.
  all: try (rewrite Hp in *; try discriminate).
  all: try (split; [|split]; [intros ph0 X; discriminate X|intros ph0 X; discriminate X|intros X; discriminate X]; fail).
  all: split; [|split]; try (intros ph0 X; discriminate X); try (intros X; discriminate X).
  all: intros; simpl in *;
       repeat match goal with
              | E : PMOcsp _ = PMOcsp _ |- _ => inversion E; subst; clear E
              | E : PMEmit _ = PMEmit _ |- _ => inversion E; subst; clear E
              end.
  all: try (left; eexists; split; reflexivity).
  all: try (right; split; reflexivity).
  all: try (split; [reflexivity|split; reflexivity]).
  all: repeat split; try congruence.
  all: destruct lkey, lcrt; simpl in *; try discriminate; eauto.
Qed.

(** ManageSync's load window (between its Load of the key and its Load of the metadata, outside
    the lock) and a saver's window (between its Store of the key and the end of the save) *)
Definition in_load_window (th : thread) : Prop :=
  match tpc th with PMLd _ KCrt | PMLd _ KMeta => True | _ => False end.
Definition in_save_window (th : thread) : Prop :=
  match tpc th with PSave KCrt | PSave KMeta | PRoll _ => True | _ => False end.

(** a step that changes the request's bundle is made inside its save *)
Lemma tstep_write_shape t th s f b th' s' e :
  twf th -> cert_prog (cfg th) -> tstep t th s f b = Some (th', s', e) ->
  (forall j, sto s' (SK (c_vk (cfg th)) j) = sto s (SK (c_vk (cfg th)) j)) \/
  (locked (tpc th) = true /\ (in_save_window th \/ (tpc th = PSave KKey /\ tpc th' = PSave KCrt))).
Proof.
  intros (Hw1 & Hw2 & Hw3) Hcp H.
  destruct th as [c p cu ? ? ? ? ? ? ? ?]. unfold cert_prog, in_save_window in *; simpl in *. destruct p; simpl in *.
  all: tstep_full H. all: inv_some H; simpl in *.
  all: try (left; intros j0; reflexivity).
  all: try (right; split; [reflexivity|]; left; exact I).
  all: try (right; split; [reflexivity|]; right; split; reflexivity).
  all: try (exfalso; destruct (c_prog c); simpl in *; intuition (try discriminate; try congruence); fail).
  all: inversion Heqo; subst; right; split; [reflexivity|]; right; split; reflexivity.
Qed.
