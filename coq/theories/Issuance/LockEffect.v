(** Issuance LTS: what one thread step does to the lock table and the lock record. *)
From Coq Require Import List Bool Arith Lia.
From CM Require Import Issuance.Model Issuance.Base.
Import ListNotations.

(** * Lock discipline (thread level) *)
(** the Unlock call of the label fails: an injected error or panic at the deferred release *)
Definition unlock_fault_th (th : thread) (f : fault) (b : bool) : bool :=
  match norm_pc (mark th f) b with
  | Some (PUnlock _) => fault_eqb f FErr || fault_eqb f FPanic
  | _ => false
  end.

Inductive lock_effect (t : nat) (th th' : thread) (s s' : shared) (f : fault) (b : bool) : Prop :=
| le_neutral : lks s' = lks s -> recd th' = recd th -> locked (tpc th') = locked (tpc th) -> lock_effect t th th' s s' f b
| le_acquire : tpc th = PLockWait -> lks s (c_lk (cfg th)) = None ->
    lks s' = lput (lks s) (c_lk (cfg th)) (Some t) -> recd th' = true -> locked (tpc th') = true ->
    lock_effect t th th' s s' f b
| le_release : locked (tpc th) = true -> locked (tpc th') = false -> lks s (c_lk (cfg th)) = Some t ->
    lks s' = lput (lks s) (c_lk (cfg th)) None -> recd th' = false -> unlock_fault_th th f b = false ->
    lock_effect t th th' s s' f b
| le_failed : locked (tpc th) = true -> locked (tpc th') = false -> lks s' = lks s -> recd th' = recd th ->
    (unlock_fault_th th f b = true \/ lks s (c_lk (cfg th)) <> Some t) ->
    lock_effect t th th' s s' f b.

Lemma tstep_lock_effect t th s f b th' s' e :
  tstep t th s f b = Some (th', s', e) -> lock_effect t th th' s s' f b.
Proof.
  intros H. destruct th as [c p ? ? ? ? ? ? ? ? ?]. destruct p.
  all: tstep_full H. all: inv_some H.
  all: try (apply le_neutral; reflexivity).
  all: try (apply le_acquire; simpl; auto; fail).
  all: try (apply le_release; simpl; auto;
            try (match goal with E : Nat.eqb _ _ = true |- _ => apply Nat.eqb_eq in E; subst; auto end);
            unfold unlock_fault_th, norm_pc, mark; simpl in *;
            repeat match goal with E : _ = true |- _ => rewrite E end; auto; fail).
  all: try (apply le_failed; simpl; auto;
            try (right; intros X; rewrite X in *; try discriminate;
                 match goal with E : Some _ = Some _ |- _ => inversion E; subst end;
                 rewrite Nat.eqb_refl in *; discriminate); fail).
  all: try (apply le_failed; simpl; auto; left; unfold unlock_fault_th, norm_pc, mark; simpl in *;
            repeat match goal with E : _ = true |- _ => rewrite E end; auto; fail).
Qed.
