From Coq Require Import List Bool Arith Lia.
From CM Require Import Issuance.Model Issuance.Proofs.
Import ListNotations.

(** * Global invariants *)
Definition thread_at (s : state) (t : nat) (th : thread) : Prop := nth_error (thr s) t = Some th.

Lemma step_threads s l s' e t2 th2 :
  step s l = Some (s', e) -> thread_at s' t2 th2 ->
  exists th th', thread_at s (l_tid l) th /\ tstep (l_tid l) th (sh s) (l_fault l) (l_bit l) = Some (th', sh s', e) /\
    ((t2 = l_tid l /\ th2 = th') \/ (t2 <> l_tid l /\ thread_at s t2 th2)).
Proof.
  intros Hs Ht. apply step_inv in Hs. destruct Hs as (th & th' & sh' & Hn & Hts & ->).
  exists th, th'. split; auto. split; auto. unfold thread_at in *; simpl in *.
  apply nth_upd in Ht. destruct Ht as [(-> & -> & _)|(Hne & Hn2)]; auto.
Qed.

Lemma step_thread_same s l s' e :
  step s l = Some (s', e) ->
  exists th th', thread_at s (l_tid l) th /\ tstep (l_tid l) th (sh s) (l_fault l) (l_bit l) = Some (th', sh s', e) /\
    thread_at s' (l_tid l) th' /\ (forall t2 th2, t2 <> l_tid l -> thread_at s t2 th2 -> thread_at s' t2 th2).
Proof.
  intros Hs. apply step_inv in Hs. destruct Hs as (th & th' & sh' & Hn & Hts & ->).
  exists th, th'. split; auto. split; auto. unfold thread_at; simpl. split.
  - apply nth_upd_eq. apply nth_error_Some. congruence.
  - intros t2 th2 Hne H. rewrite nth_upd_neq; auto.
Qed.

(** cfg of every thread is constant *)
Lemma step_cfg s l s' e t th' :
  step s l = Some (s', e) -> thread_at s' t th' -> exists th, thread_at s t th /\ cfg th' = cfg th.
Proof.
  intros Hs Ht. destruct (step_threads _ _ _ _ _ _ Hs Ht) as (th & th1 & Ha & Hts & [[-> ->]|[Hne Ho]]).
  - exists th. split; auto. eapply tstep_cfg; eauto.
  - eauto.
Qed.

(** ** I_lock: a thread in the locked region owns its lock in the lock table *)
Definition I_lock (s : state) : Prop :=
  forall t th, thread_at s t th -> locked (tpc th) = true -> lks (sh s) (c_lk (cfg th)) = Some t.

Lemma I_lock_step s l s' e : I_lock s -> step s l = Some (s', e) -> I_lock s'.
Proof.
  intros HI Hs t2 th2 Ht2 Hl2.
  destruct (step_threads _ _ _ _ _ _ Hs Ht2) as (th & th' & Ha & Hts & Hcase).
  pose proof (tstep_cfg _ _ _ _ _ _ _ _ Hts) as Hcfg.
  pose proof (tstep_lock_effect _ _ _ _ _ _ _ _ Hts) as Hle.
  destruct Hcase as [[-> ->]|[Hne Ho]].
  - rewrite Hcfg. destruct Hle as [Hk _ Hlk|Hp Hn Hk _ _|_ Hu _ _ _ _|_ Hu _ _ _].
    + rewrite Hk. apply HI; auto. congruence.
    + rewrite Hk, lput_eq; auto.
    + congruence.
    + congruence.
  - pose proof (HI _ _ Ho Hl2) as Hown.
    destruct Hle as [Hk _ _|Hp Hn Hk _ _|Hl _ Hown' Hk _ _|_ _ Hk _ _]; try (rewrite Hk; auto; fail).
    + rewrite Hk, lput_neq; auto. intros E. rewrite E in Hn. congruence.
    + rewrite Hk, lput_neq; auto. intros E. rewrite E in Hown'. congruence.
Qed.

Lemma I_lock_init cs st : I_lock (init_state cs st).
Proof.
  intros t th Ht Hl. unfold thread_at, init_state in Ht; simpl in Ht.
  rewrite nth_error_map in Ht. destruct (nth_error cs t) as [c|]; simpl in Ht; [|discriminate].
  inversion Ht; subst. unfold init_thread, entry, after_pre in Hl; simpl in Hl.
  destruct (c_prog c); simpl in Hl; try discriminate; destruct (c_chk c); discriminate.
Qed.

Lemma I_lock_reachable cs st s : reachable cs st s -> I_lock s.
Proof.
  intros [es R]. eapply (runs_inv any_label I_lock); eauto.
  - intros; eapply I_lock_step; eauto.
  - apply I_lock_init.
Qed.

(** ** F1: issue spans for one identifier are disjoint when spellings agree on the lock key *)
Definition agree_on_lock (cs : list tcfg) : Prop :=
  forall c1 c2, In c1 cs -> In c2 cs -> c_idn c1 = c_idn c2 -> c_lk c1 = c_lk c2.

Lemma cfg_in_init cs st s : reachable cs st s -> forall t th, thread_at s t th -> nth_error cs t = Some (cfg th).
Proof.
  intros [es R]. remember (init_state cs st) as s0 eqn:E.
  assert (H0 : forall t th, thread_at s0 t th -> nth_error cs t = Some (cfg th)).
  { subst. intros t th Ht. unfold thread_at, init_state in Ht; simpl in Ht. rewrite nth_error_map in Ht.
    destruct (nth_error cs t); simpl in Ht; inversion Ht; subst; auto. }
  clear E. induction R; auto. apply IHR. intros t th Ht.
  match goal with Hs : step _ _ = Some _ |- _ => destruct (step_cfg _ _ _ _ _ _ Hs Ht) as (th0 & Ha & ->) end. auto.
Qed.

Theorem issue_spans_disjoint cs st s t1 t2 th1 th2 :
  agree_on_lock cs -> reachable cs st s ->
  thread_at s t1 th1 -> thread_at s t2 th2 ->
  in_span th1 = true -> in_span th2 = true -> c_idn (cfg th1) = c_idn (cfg th2) -> t1 = t2.
Proof.
  intros Hag Hr H1 H2 S1 S2 Hid.
  pose proof (I_lock_reachable _ _ _ Hr) as HI.
  pose proof (cfg_in_init _ _ _ Hr) as Hc.
  assert (L1 : locked (tpc th1) = true) by (unfold in_span in S1; destruct (tpc th1); try discriminate; auto).
  assert (L2 : locked (tpc th2) = true) by (unfold in_span in S2; destruct (tpc th2); try discriminate; auto).
  pose proof (HI _ _ H1 L1) as O1. pose proof (HI _ _ H2 L2) as O2.
  rewrite (Hag (cfg th1) (cfg th2)) in O1; auto.
  - congruence.
  - eapply nth_error_In; eauto.
  - eapply nth_error_In; eauto.
Qed.
(** ** C09: every operation releases the lock it took *)
(** what thread [t] holds / has recorded is exactly its locked region *)
Definition J_thread (t : nat) (s : state) : Prop :=
  forall th, thread_at s t th ->
    recd th = locked (tpc th) /\
    (forall l, lks (sh s) l = Some t -> locked (tpc th) = true /\ l = c_lk (cfg th)).

(** the fault plan does not make an Unlock call of thread [t] itself fail *)
Definition unlock_ok_for (t : nat) (s : state) (l : label) : Prop :=
  l_tid l = t -> forall th, thread_at s t th -> unlock_fault_th th (l_fault l) (l_bit l) = false.

Lemma J_thread_step t s l s' e :
  I_lock s -> J_thread t s -> unlock_ok_for t s l -> step s l = Some (s', e) -> J_thread t s'.
Proof.
  intros HI HJ Hok Hs th2 Ht2.
  destruct (step_threads _ _ _ _ _ _ Hs Ht2) as (th & th' & Ha & Hts & Hcase).
  pose proof (tstep_cfg _ _ _ _ _ _ _ _ Hts) as Hcfg.
  pose proof (tstep_lock_effect _ _ _ _ _ _ _ _ Hts) as Hle.
  destruct Hcase as [[-> ->]|[Hne Ho]].
  - (* t itself moves *)
    destruct (HJ _ Ha) as [Hr Hown]. rewrite Hcfg.
    destruct Hle as [Hk Hrc Hlk|Hp Hn Hk Hrc Hlk|Hl Hu Hown' Hk Hrc Huf|Hl Hu Hk Hrc Hbad].
    + rewrite Hk, Hrc, Hlk. auto.
    + rewrite Hrc, Hlk. split; auto. intros l0 Hl0. split; auto. rewrite Hk in Hl0.
      destruct (Nat.eq_dec (c_lk (cfg th)) l0) as [E|E]; auto.
      rewrite lput_neq in Hl0; auto. apply Hown in Hl0. destruct Hl0 as [Hl0 _]. rewrite Hp in Hl0. discriminate.
    + rewrite Hrc, Hu. split; auto. intros l0 Hl0. rewrite Hk in Hl0.
      destruct (Nat.eq_dec (c_lk (cfg th)) l0) as [E|E].
      * subst. rewrite lput_eq in Hl0. discriminate.
      * rewrite lput_neq in Hl0; auto. apply Hown in Hl0. destruct Hl0; congruence.
    + exfalso. destruct Hbad as [Hb|Hb].
      * rewrite (Hok eq_refl _ Ha) in Hb. discriminate.
      * apply Hb. apply HI; auto.
  - (* another thread moves *)
    destruct (HJ _ Ho) as [Hr Hown]. split; auto. intros l0 Hl0. apply Hown.
    destruct Hle as [Hk _ _|Hp Hn Hk _ _|Hl _ Hown' Hk _ _|_ _ Hk _ _]; try (rewrite Hk in Hl0; auto; fail).
    + rewrite Hk in Hl0. destruct (Nat.eq_dec (c_lk (cfg th)) l0) as [E|E].
      * subst. rewrite lput_eq in Hl0. inversion Hl0. congruence.
      * rewrite lput_neq in Hl0; auto.
    + rewrite Hk in Hl0. destruct (Nat.eq_dec (c_lk (cfg th)) l0) as [E|E].
      * subst. rewrite lput_eq in Hl0. discriminate.
      * rewrite lput_neq in Hl0; auto.
Qed.

Lemma J_thread_init t cs st : J_thread t (init_state cs st).
Proof.
  intros th Ht. unfold thread_at, init_state in Ht; simpl in Ht.
  rewrite nth_error_map in Ht. destruct (nth_error cs t) as [c|]; simpl in Ht; [|discriminate].
  inversion Ht; subst. simpl. split.
  - unfold entry, after_pre. destruct (c_prog c); simpl; auto; destruct (c_chk c); auto.
  - intros l Hl. discriminate.
Qed.

Lemma runs_inv2 (ok : state -> label -> Prop) (I K : state -> Prop) :
  (forall s l s' e, I s -> step s l = Some (s', e) -> I s') ->
  (forall s l s' e, I s -> K s -> ok s l -> step s l = Some (s', e) -> K s') ->
  forall s es s', runs ok s es s' -> I s -> K s -> I s' /\ K s'.
Proof. intros HI HK s es s' R; induction R; auto. intros; apply IHR; eauto. Qed.

Theorem locks_released cs st t es s th :
  runs (unlock_ok_for t) (init_state cs st) es s ->
  thread_at s t th -> final_pc (tpc th) = true ->
  recd th = false /\ forall l, lks (sh s) l <> Some t.
Proof.
  intros R Ht Hf.
  destruct (runs_inv2 (unlock_ok_for t) I_lock (J_thread t)) with (s := init_state cs st) (es := es) (s' := s) as [_ HJ]; auto.
  - intros; eapply I_lock_step; eauto.
  - intros; eapply J_thread_step; eauto.
  - apply I_lock_init.
  - apply J_thread_init.
  - destruct (HJ _ Ht) as [Hr Hown].
    assert (Hl : locked (tpc th) = false) by (destruct (tpc th); simpl in *; auto; discriminate).
    split; [congruence|]. intros l Hl0. apply Hown in Hl0. destruct Hl0; congruence.
Qed.

(** every lock that is held is recorded by its holder -- in every reachable state, whatever failed,
    Unlock calls included: what CleanUpOwnLocks releases (every recorded key) is all there is *)
Definition K_rec (s : state) : Prop :=
  forall l t, lks (sh s) l = Some t -> exists th, thread_at s t th /\ recd th = true /\ l = c_lk (cfg th).

Lemma K_rec_step s l s' e : K_rec s -> step s l = Some (s', e) -> K_rec s'.
Proof.
  intros HK Hs l0 t0 Hl0.
  destruct (step_thread_same _ _ _ _ Hs) as (th & th' & Ha & Hts & Ha' & Hoth).
  pose proof (tstep_cfg _ _ _ _ _ _ _ _ Hts) as Hcfg.
  pose proof (tstep_lock_effect _ _ _ _ _ _ _ _ Hts) as Hle.
  assert (Hold : lks (sh s) l0 = Some t0 -> t0 <> l_tid l -> exists th0, thread_at s' t0 th0 /\ recd th0 = true /\ l0 = c_lk (cfg th0)).
  { intros H0 Hne. destruct (HK _ _ H0) as (th0 & A & B & C). exists th0. split; auto. }
  destruct Hle as [Hk Hrc _|Hp Hn Hk Hrc _|_ _ Hown Hk Hrc _|_ _ Hk Hrc _].
  - rewrite Hk in Hl0. destruct (Nat.eq_dec t0 (l_tid l)) as [->|Hne]; auto.
    destruct (HK _ _ Hl0) as (th0 & A & B & C). unfold thread_at in A. rewrite Ha in A. inversion A; subst th0.
    exists th'. split; auto. split; [congruence|congruence].
  - rewrite Hk in Hl0. destruct (Nat.eq_dec (c_lk (cfg th)) l0) as [E|E].
    + subst l0. rewrite lput_eq in Hl0. inversion Hl0; subst t0. exists th'. split; auto. split; auto. congruence.
    + rewrite lput_neq in Hl0; auto. destruct (Nat.eq_dec t0 (l_tid l)) as [->|Hne]; auto.
      destruct (HK _ _ Hl0) as (th0 & A & B & C). unfold thread_at in A. rewrite Ha in A. inversion A; subst th0. congruence.
  - rewrite Hk in Hl0. destruct (Nat.eq_dec (c_lk (cfg th)) l0) as [E|E].
    + subst l0. rewrite lput_eq in Hl0. discriminate.
    + rewrite lput_neq in Hl0; auto. destruct (Nat.eq_dec t0 (l_tid l)) as [->|Hne]; auto.
      destruct (HK _ _ Hl0) as (th0 & A & B & C). unfold thread_at in A. rewrite Ha in A. inversion A; subst th0. congruence.
  - rewrite Hk in Hl0. destruct (Nat.eq_dec t0 (l_tid l)) as [->|Hne]; auto.
    destruct (HK _ _ Hl0) as (th0 & A & B & C). unfold thread_at in A. rewrite Ha in A. inversion A; subst th0.
    exists th'. split; auto. split; [congruence|congruence].
Qed.

Theorem held_is_recorded cs st s : reachable cs st s -> K_rec s.
Proof.
  intros [es R]. eapply (runs_inv any_label K_rec); eauto.
  - intros; eapply K_rec_step; eauto.
  - intros l t H. discriminate H.
Qed.

(** the release does not depend on the caller's context: a cancelled request still unlocks *)
Theorem release_ignores_cancel t th s r b :
  tpc th = PUnlock r -> canc th = true -> lks s (c_lk (cfg th)) = Some t ->
  exists th' s' e, tstep t th s FNone b = Some (th', s', e) /\
    lks s' (c_lk (cfg th)) = None /\ recd th' = false /\ e_op e = OUnlock (c_lk (cfg th)) /\ e_out e = 0.
Proof.
  intros Hp Hc Hl. destruct th as [c p ? ? ? ? ? ? ? ? ?]; simpl in *; subst.
  unfold tstep, norm_pc, mark; simpl. unfold exec; simpl. rewrite Hl, Nat.eqb_refl.
  do 3 eexists. split; [reflexivity|]. simpl. rewrite lput_eq.
  unfold fin_op, set_recd, set_pc; simpl. destruct (c_prog c); destruct r; simpl; auto.
Qed.

(** if the Unlock call itself fails, the lock is by definition still held and still recorded *)
Theorem unlock_failure_keeps_record t th s r b f :
  tpc th = PUnlock r -> (f = FErr \/ f = FPanic) -> lks s (c_lk (cfg th)) = Some t -> recd th = true ->
  exists th' s' e, tstep t th s f b = Some (th', s', e) /\
    locked (tpc th') = false /\ lks s' (c_lk (cfg th)) = Some t /\ recd th' = true.
Proof.
  intros Hp Hf Hl Hr. destruct th as [c p ? ? ? ? ? ? ? ? ?]; simpl in *; subst.
  destruct Hf as [-> | ->]; unfold tstep, norm_pc, mark; simpl; unfold exec, panic_goto; simpl.
  - do 3 eexists. split; [reflexivity|]. unfold fin_op, set_pc; simpl.
    destruct (c_prog c); destruct r; simpl; auto; destruct cur; auto.
  - do 3 eexists. split; [reflexivity|]. simpl. auto.
Qed.
Lemma pc_eq_lockwait p : p = PLockWait \/ p <> PLockWait.
Proof. destruct p; auto; right; discriminate. Qed.

(** ** F4a: deadlock freedom *)
(** no Unlock call fails (an Unlock that fails leaves the lock held for ever, by definition) *)
Definition unlock_ok (s : state) (l : label) : Prop :=
  forall th, thread_at s (l_tid l) th -> unlock_fault_th th (l_fault l) (l_bit l) = false.

(** every held lock has a live holder inside its locked region *)
Definition J_owner (s : state) : Prop :=
  forall l u, lks (sh s) l = Some u -> exists th, thread_at s u th /\ locked (tpc th) = true /\ c_lk (cfg th) = l.

Lemma J_owner_step s l s' e :
  I_lock s -> J_owner s -> unlock_ok s l -> step s l = Some (s', e) -> J_owner s'.
Proof.
  intros HI HJ Hok Hs l0 u Hl0.
  destruct (step_thread_same _ _ _ _ Hs) as (th & th' & Ha & Hts & Ha' & Hoth).
  pose proof (tstep_cfg _ _ _ _ _ _ _ _ Hts) as Hcfg.
  pose proof (tstep_lock_effect _ _ _ _ _ _ _ _ Hts) as Hle.
  assert (Hkeep : forall th0, thread_at s u th0 -> locked (tpc th0) = true -> c_lk (cfg th0) = l0 ->
            (u <> l_tid l \/ locked (tpc th') = true) ->
            exists th1, thread_at s' u th1 /\ locked (tpc th1) = true /\ c_lk (cfg th1) = l0).
  { intros th0 H0 L0 C0 Hc. destruct (Nat.eq_dec u (l_tid l)) as [->|Hne].
    - unfold thread_at in *. rewrite Ha in H0. inversion H0; subst. exists th'. split; auto. split; [|congruence].
      destruct Hc; congruence.
    - exists th0. split; auto. }
  destruct Hle as [Hk _ Hlk|Hp Hn Hk _ Hlk|Hl Hu Hown' Hk _ _|Hl Hu Hk _ Hbad].
  - rewrite Hk in Hl0. destruct (HJ _ _ Hl0) as (th0 & H0 & L0 & C0). apply (Hkeep th0); auto.
    destruct (Nat.eq_dec u (l_tid l)) as [->|Hne]; [right|left; auto].
    unfold thread_at in *. rewrite Ha in H0. inversion H0; subst. congruence.
  - rewrite Hk in Hl0. destruct (Nat.eq_dec (c_lk (cfg th)) l0) as [E|E].
    + subst. rewrite lput_eq in Hl0. inversion Hl0; subst. exists th'. split; auto. split; auto. congruence.
    + rewrite lput_neq in Hl0; auto. destruct (HJ _ _ Hl0) as (th0 & H0 & L0 & C0). apply (Hkeep th0); auto.
  - rewrite Hk in Hl0. destruct (Nat.eq_dec (c_lk (cfg th)) l0) as [E|E].
    + subst. rewrite lput_eq in Hl0. discriminate.
    + rewrite lput_neq in Hl0; auto. destruct (HJ _ _ Hl0) as (th0 & H0 & L0 & C0). apply (Hkeep th0); auto.
      left. intros ->. unfold thread_at in *. rewrite Ha in H0. inversion H0; subst.
      rewrite (HI _ _ Ha L0) in Hown'. congruence.
  - exfalso. destruct Hbad as [Hb|Hb].
    + rewrite (Hok _ Ha) in Hb. discriminate.
    + apply Hb. apply HI; auto.
Qed.

Lemma J_owner_init cs st : J_owner (init_state cs st).
Proof. intros l u H. discriminate. Qed.

Theorem deadlock_free cs st es s :
  runs unlock_ok (init_state cs st) es s ->
  (exists t th, thread_at s t th /\ final_pc (tpc th) = false) ->
  exists l s' e, l_fault l = FNone /\ step s l = Some (s', e).
Proof.
  intros R (t & th & Ht & Hnf).
  destruct (runs_inv2 unlock_ok I_lock J_owner) with (s := init_state cs st) (es := es) (s' := s) as [HI HJ]; auto.
  { intros; eapply I_lock_step; eauto. }
  { intros; eapply J_owner_step; eauto. }
  { apply I_lock_init. }
  { apply J_owner_init. }
  assert (Hen : forall u thu, thread_at s u thu -> final_pc (tpc thu) = false -> tpc thu <> PLockWait ->
           exists l s' e, l_fault l = FNone /\ step s l = Some (s', e)).
  { intros u thu Hu Hf Hw. destruct (tstep_enabled u thu (sh s) Hf Hw) as [[[th' sh'] e] He].
    exists (Label u FNone true). unfold step; simpl. unfold thread_at in Hu. rewrite Hu, He. eauto. }
  destruct (pc_eq_lockwait (tpc th)) as [Hw|Hw]; [|eapply Hen; eauto].
  destruct (lks (sh s) (c_lk (cfg th))) as [u|] eqn:Hl.
  - destruct (HJ _ _ Hl) as (thu & Hu & Lu & _). eapply (Hen u thu); auto.
    + destruct (tpc thu); simpl in *; auto; discriminate.
    + intros E; rewrite E in Lu; discriminate.
  - destruct (tstep_lockwait_enabled t th (sh s) Hw Hl) as [[[th' sh'] e] He].
    exists (Label t FNone true). unfold step; simpl. unfold thread_at in Ht. rewrite Ht, He. eauto.
Qed.
(** ** thread-local consistency holds in every reachable state *)
Definition all_twf (s : state) : Prop := forall t th, thread_at s t th -> twf th.
Lemma all_twf_step s l s' e : all_twf s -> step s l = Some (s', e) -> all_twf s'.
Proof.
  intros HW Hs t2 th2 Ht2.
  destruct (step_threads _ _ _ _ _ _ Hs Ht2) as (th & th' & Ha & Hts & [[-> ->]|[Hne Ho]]); eauto.
  eapply tstep_twf; eauto.
Qed.
Lemma all_twf_init cs st : all_twf (init_state cs st).
Proof.
  intros t th Ht. unfold thread_at, init_state in Ht; simpl in Ht. rewrite nth_error_map in Ht.
  destruct (nth_error cs t); simpl in Ht; inversion Ht. apply twf_init.
Qed.

(** ** F4b: every run of programs without a retry loop is finite, with an explicit bound *)
Definition total_rem (s : state) : nat := list_sum (map rem (thr s)).

Lemma list_sum_upd l t (x x' : thread) :
  nth_error l t = Some x -> rem x' < rem x -> list_sum (map rem (upd l t x')) < list_sum (map rem l).
Proof.
  revert t; induction l as [|a l IH]; intros [|t] H Hlt; simpl in *; try discriminate.
  - inversion H; subst. lia.
  - specialize (IH _ H Hlt). lia.
Qed.

Definition all_finite (s : state) : Prop := forall t th, thread_at s t th -> finite_prog (cfg th) = true.

Lemma all_finite_step s l s' e : all_finite s -> step s l = Some (s', e) -> all_finite s'.
Proof.
  intros HF Hs t th Ht. destruct (step_cfg _ _ _ _ _ _ Hs Ht) as (th0 & H0 & ->). eauto.
Qed.

Lemma step_total_rem s l s' e :
  all_twf s -> all_finite s -> step s l = Some (s', e) -> total_rem s' < total_rem s.
Proof.
  intros HW HF Hs. apply step_inv in Hs. destruct Hs as (th & th' & sh' & Hn & Hts & ->).
  unfold total_rem; simpl. eapply list_sum_upd; eauto.
  eapply tstep_rem; eauto.
Qed.

Lemma runs_bounded (ok : state -> label -> Prop) s es s' :
  runs ok s es s' -> all_twf s -> all_finite s -> length es + total_rem s' <= total_rem s.
Proof.
  intros R; induction R; intros HW HF; simpl; auto.
  pose proof (step_total_rem _ _ _ _ HW HF H0).
  specialize (IHR (all_twf_step _ _ _ _ HW H0) (all_finite_step _ _ _ _ HF H0)). lia.
Qed.

Lemma rem_le th : rem th <= 180.
Proof.
  unfold rem. assert (R : rank (tpc th) <= 120).
  { destruct (tpc th); cbn [rank];
      repeat match goal with |- context [match ?x with _ => _ end] => destruct x end; lia. }
  destruct (c_prog (cfg th)); try destruct (is_mpc (tpc th)); lia.
Qed.

Lemma total_rem_le s : total_rem s <= 180 * length (thr s).
Proof.
  unfold total_rem. induction (thr s) as [|a l IH]; simpl; auto. pose proof (rem_le a). lia.
Qed.

Theorem finite_runs_bounded cs st es s :
  (forall c, In c cs -> finite_prog c = true) ->
  runs any_label (init_state cs st) es s -> length es <= 180 * length cs.
Proof.
  intros Hfin R.
  assert (HF : all_finite (init_state cs st)).
  { intros t th Ht. unfold thread_at, init_state in Ht; simpl in Ht. rewrite nth_error_map in Ht.
    destruct (nth_error cs t) eqn:E; simpl in Ht; inversion Ht; subst. simpl. apply Hfin. eapply nth_error_In; eauto. }
  pose proof (runs_bounded _ _ _ _ R (all_twf_init cs st) HF) as Hb.
  pose proof (total_rem_le (init_state cs st)) as Hl. simpl in Hl. rewrite map_length in Hl. lia.
Qed.
