(** Issuance LTS: witnesses showing that the hypotheses of the theorems of Props/C01.v are met by
    non-trivial runs (compiled once here; Props/C01.v only refers to them). *)
From Coq Require Import List Bool Arith Lia.
From CM Require Import Issuance.Model Issuance.Proofs Issuance.Invariants Issuance.OwnFault
  Issuance.NoReissueTL Issuance.NoReissue Issuance.AgreeTL Issuance.Agree Issuance.Refuted Issuance.Takeover
  Issuance.ManageTL Issuance.ManageTakeover Issuance.FreshTL Issuance.Fresh.
Import ListNotations.

Lemma ex_callers_agree_nontrivial :
  exists s es th0 th1 ce,
    runs (ok3 0) (init_state [manage_canon; manage_canon] no_sto) es s /\
    thread_at s 0 th0 /\ thread_at s 1 th1 /\ tpc th0 = PDone ROk /\ tpc th1 = PDone ROk /\
    seen th0 = Some ce /\ seen th1 = Some ce /\ c_due ce = false /\
    length (filter (fun e => match e_op e with OIssS _ => true | _ => false end) es) = 1.
Proof.
  destruct (run_chk 0 (init_state [manage_canon; manage_canon] no_sto) (sched ([1;1;1] ++ rep 18 0 ++ rep 10 1)))
    as [[s es]|] eqn:R; [|vm_compute in R; discriminate].
  exists s, es. pose proof (run_chk_runs _ _ _ _ _ R) as Hr.
  vm_compute in R. inversion R; subst s es; clear R.
  do 3 eexists. split; [exact Hr|]. unfold thread_at; simpl.
  split; [reflexivity|]. split; [reflexivity|]. repeat split; reflexivity.
Qed.

Lemma ex_takeover_nontrivial :
  exists s es th0 th1,
    runs (save_ok 0) (init_state [renew_canon; renew_canon] due_bundle) es s /\ bundle_complete due_bundle 0 /\
    thread_at s 0 th0 /\ thread_at s 1 th1 /\ tpc th0 = PDone RErr /\ flt th0 = true /\
    tpc th1 = PDone ROk /\ flt th1 = false /\
    length (filter (fun e => match e_op e with OIssS _ => true | _ => false end) es) = 2.
Proof.
  destruct (run_sok 0 (init_state [renew_canon; renew_canon] due_bundle)
              (sched [0;0;1;0;0;0;0] ++ [Label 0 FErr true] ++ sched (rep 2 0 ++ rep 12 1)))
    as [[s es]|] eqn:R; [|vm_compute in R; discriminate].
  exists s, es. pose proof (run_sok_runs _ _ _ _ _ R) as Hr.
  vm_compute in R. inversion R; subst s es; clear R.
  do 2 eexists. split; [exact Hr|]. split; [intros [] ; discriminate|].
  unfold thread_at; simpl. split; [reflexivity|]. split; [reflexivity|]. repeat split; reflexivity.
Qed.

Lemma ex_manage_takeover_nontrivial :
  let cs := [TCfg (PObtain false) 0 0 0 0 false false false false; manage_canon] in
  canon0 0 0 cs /\ stored_match no_sto 0 /\
  exists s es th0 th1 ce,
    runs (okm 0) (init_state cs no_sto) es s /\
    thread_at s 0 th0 /\ thread_at s 1 th1 /\ tpc th0 = PDone RPanic /\ flt th0 = true /\
    tpc th1 = PDone ROk /\ flt th1 = false /\ seen th1 = Some ce /\ sto (sh s) (SK 0 KCrt) = Some (VCrt ce).
Proof.
  simpl. split; [|split].
  - intros c [<-|[<-|[]]] _; unfold on_key, cert_prog, force_eff; simpl; auto.
  - intros vk vc H; discriminate H.
  - destruct (run_okm 0 (init_state [TCfg (PObtain false) 0 0 0 0 false false false false; manage_canon] no_sto)
                (sched [0;0;0;1;1;1;0;0] ++ [Label 0 FPanic true] ++ sched (rep 1 0 ++ rep 15 1)))
      as [[s es]|] eqn:R; [|vm_compute in R; discriminate].
    exists s, es. pose proof (run_okm_runs _ _ _ _ _ R) as Hr.
    vm_compute in R. inversion R; subst s es; clear R.
    do 3 eexists. split; [exact Hr|]. unfold thread_at; simpl. split; [reflexivity|]. split; [reflexivity|].
    repeat split; reflexivity.
Qed.

Lemma ex_hypotheses_nontrivial :
  let cs := [manage_canon; manage_canon] in
  agree_on_lock cs /\ canon0 0 0 cs /\
  exists s th1 th2, reachable cs no_sto s /\ thread_at s 0 th1 /\ thread_at s 1 th2 /\
    in_span th1 = true /\ tpc th2 = PLockWait.
Proof.
  simpl. split; [|split].
  - intros c1 c2 [<-|[<-|[]]] [<-|[<-|[]]] _; reflexivity.
  - intros c [<-|[<-|[]]] _; unfold on_key, cert_prog, force_eff; simpl; auto.
  - destruct (run (init_state [manage_canon; manage_canon] no_sto) (sched (rep 7 0 ++ rep 3 1))) as [[s es]|] eqn:R;
      [|vm_compute in R; discriminate].
    exists s. assert (Hr : reachable [manage_canon; manage_canon] no_sto s) by (eapply reachable_run; eauto).
    vm_compute in R. inversion R; subst s es; clear R.
    do 2 eexists. split; [exact Hr|]. unfold thread_at; simpl. split; [reflexivity|]. split; [reflexivity|]. auto.
Qed.

Lemma ex_callers_agree_not_due_nontrivial :
  let cs := [manage_canon; manage_canon] in
  canon0 0 0 cs /\ (forall c, In c cs -> touches 0 c -> c_issdue c = false) /\ stored_match due_bundle 0 /\
  exists s es th0 th1 ce,
    runs (ok3m 0) (init_state cs due_bundle) es s /\
    thread_at s 0 th0 /\ thread_at s 1 th1 /\ tpc th0 = PDone ROk /\ tpc th1 = PDone ROk /\
    flt th0 = false /\ flt th1 = false /\ seen th0 = Some ce /\ seen th1 = Some ce /\ c_due ce = false /\
    length (filter (fun e => match e_op e with OIssS _ => true | _ => false end) es) = 1.
Proof.
  simpl. split; [|split; [|split]].
  - intros c [<-|[<-|[]]] _; unfold on_key, cert_prog, force_eff; simpl; auto.
  - intros c [<-|[<-|[]]] _; reflexivity.
  - intros vk vc H1 H2. vm_compute in H1, H2. inversion H1; inversion H2; subst. reflexivity.
  - destruct (run_ok3m 0 (init_state [manage_canon; manage_canon] due_bundle) (sched (rep 7 0 ++ rep 6 1 ++ rep 15 0 ++ rep 9 1)))
      as [[s es]|] eqn:R; [|vm_compute in R; discriminate].
    exists s, es. pose proof (run_ok3m_runs _ _ _ _ _ R) as Hr.
    vm_compute in R. inversion R; subst s es; clear R.
    do 3 eexists. split; [exact Hr|]. unfold thread_at; simpl. split; [reflexivity|]. split; [reflexivity|].
    repeat split; reflexivity.
Qed.
