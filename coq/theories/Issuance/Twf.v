(** Issuance LTS: thread-local consistency invariant. *)
From Coq Require Import List Bool Arith Lia.
From CM Require Import Issuance.Model Issuance.Base.
Import ListNotations.

(** thread-local consistency of program, current operation, program counter and locals *)
Definition mpc (p : pc) : bool := match p with PMLd _ _ | PMOcsp _ | PMEmit _ => true | _ => false end.
Definition pc_cur_ok (cu : opk) (p : pc) : Prop :=
  match p with
  | PLd _ => cu = OpRenew
  | PPre _ | PRe _ | PReuse => cu = OpObtain
  | PCLoad | PCBody | PCStore => cu = OpClean
  | PALoad1 | PAGet | PALoad2 | PAStore => cu = OpAri
  | PQLd _ _ | PQCb | PQCa _ _ | PQSv _ | PQRb => cu = OpAcct
  | _ => True
  end.
Definition prog_cur_ok (pr : prog) (cu : opk) (p : pc) : Prop :=
  match pr with
  | PObtain _ => cu = OpObtain /\ mpc p = false
  | PRenew _ => cu = OpRenew /\ mpc p = false
  | PClean _ => cu = OpClean /\ mpc p = false
  | PAri _ => cu = OpAri /\ mpc p = false
  | PAcct _ => cu = OpAcct /\ mpc p = false
  | PManage => cu = OpObtain \/ cu = OpRenew
  end.
Definition nc_ok (th : thread) : Prop :=
  match tpc th with
  | PIssE | PSave _ => exists c, nc th = Some c /\ c_due c = c_issdue (cfg th) /\ c_kid c = nk th
  | PPre _ | PLockWait => canc th = false
  | _ => True
  end.
Definition twf (th : thread) : Prop :=
  prog_cur_ok (c_prog (cfg th)) (cur th) (tpc th) /\ pc_cur_ok (cur th) (tpc th) /\ nc_ok th.

Lemma twf_init c : twf (init_thread c).
Proof.
  unfold twf, init_thread, entry, after_pre, nc_ok; simpl.
  destruct (c_prog c); simpl; auto; destruct (c_chk c); simpl; auto.
Qed.

Lemma tstep_twf t th s f b th' s' e :
  twf th -> tstep t th s f b = Some (th', s', e) -> twf th'.
Proof.
  intros (Hw1 & Hw2 & Hw3) H. destruct th as [c p cu ? ? ? ? ? ? ? ?]. destruct p.
  all: tstep_full H. all: inv_some H. all: unfold twf, nc_ok in *; simpl in *.
  all: repeat match goal with E : c_prog _ = _ |- _ => rewrite E in *; clear E end; simpl in *.
  all: try (destruct (c_prog c); simpl in *).
  all: try (intuition (eauto; try discriminate; try congruence); fail).
  all: try (split; [|split]; eauto; intuition (eauto; try discriminate; try congruence); fail).
  all: try (destruct Hw3 as (c0 & E1 & E2 & E3); try (inversion E1; subst); simpl;
            intuition (eauto; try discriminate; try congruence); fail).
  all: try (rewrite orb_true_r in *; simpl in *; discriminate).
  all: subst; simpl; intuition auto.
Qed.
