(** Issuance LTS: what one thread step can write to storage. *)
From Coq Require Import List Bool Arith Lia.
From CM Require Import Issuance.Model Issuance.Base.
Import ListNotations.

(** * Storage frame (thread level) *)
Definition writes_pc (p : pc) (j : kind) : Prop :=
  p = PSave j \/ p = PRoll j \/ (p = PAStore /\ j = KMeta) \/ p = PQSv j \/ (p = PQRb /\ j = KMeta).

Lemma tstep_sto_effect t th s f b th' s' e :
  tstep t th s f b = Some (th', s', e) ->
  sto s' = sto s \/
  exists k v, sto s' = sput (sto s) k v /\
    (k = RW t \/ k = SLast \/ exists j, k = SK (c_vk (cfg th)) j /\ writes_pc (tpc th) j).
Proof.
  intros H. destruct th as [c p ? ? ? ? ? ? ? ? ?]. destruct p.
  all: tstep_full H. all: inv_some H. all: try (left; reflexivity).
  all: right; eexists; eexists; split; [reflexivity|]; simpl; auto.
  all: try (right; right; eexists; split; [reflexivity|]; unfold writes_pc; auto 10; fail).
Qed.
