(** Issuance LTS: the boolean specification that the check evaluates on the implementation's
    trace holds of every trace of the model (so that "spec_ok fails on the implementation" means
    "the property fails", not "the monitor is stricter than the theorem"). *)
From Coq Require Import List Bool Arith Lia.
From CM Require Import Issuance.Model Issuance.Proofs Issuance.Invariants Issuance.Check.
Import ListNotations.

Lemma tstep_span_shape t th s f b th' s' e :
  tstep t th s f b = Some (th', s', e) ->
  (in_span th = true -> (exists i, e_op e = OIssE i) /\ in_span th' = false) /\
  (in_span th = false -> in_span th' = true -> e_op e = OIssS (c_idn (cfg th)) /\ e_out e = 0) /\
  (forall i, e_op e = OIssS i -> e_out e = 0 -> in_span th' = true /\ in_span th = false /\ i = c_idn (cfg th)) /\
  (forall i, e_op e = OIssE i -> in_span th = true).
Proof.
  intros H. destruct th as [c p ? ? ? ? ? ? ? ? ?]. unfold in_span; simpl. destruct p.
  all: tstep_full H. all: inv_some H; simpl in *.
  all: repeat split; intros; try discriminate; eauto.
  all: try match goal with E : OIssS _ = OIssS _ |- _ => inversion E; auto end.
Qed.

(** the monitor's set of open spans describes threads that really are inside the issuer *)
Definition Sp (s : state) (inspan : list (nat * nat)) : Prop :=
  forall t i, In (t, i) inspan -> exists th, thread_at s t th /\ in_span th = true /\ c_idn (cfg th) = i.

Lemma spans_ok_runs cs st :
  agree_on_lock cs ->
  forall s es s', runs any_label s es s' -> reachable cs st s ->
  forall inspan, Sp s inspan -> spans_ok_ev inspan es = true.
Proof.
  intros Hag s es s' R. induction R as [s|s l s1 e es s2 _ Hs R IH]; intros Hr inspan HSp; simpl; auto.
  assert (Hr1 : reachable cs st s1).
  { destruct Hr as [es0 R0]. exists (es0 ++ [e]). eapply runs_app; eauto. econstructor; eauto. exact I. constructor. }
  destruct (step_thread_same _ _ _ _ Hs) as (th & th' & Ha & Hts & Ha' & Hoth).
  pose proof (tstep_tid _ _ _ _ _ _ _ _ Hts) as Htid.
  pose proof (tstep_cfg _ _ _ _ _ _ _ _ Hts) as Hcfg.
  destruct (tstep_span_shape _ _ _ _ _ _ _ _ Hts) as (S1 & S2 & S3 & S4).
  (* entries of other threads stay valid *)
  assert (Hkeep : forall t i, In (t, i) inspan -> t <> l_tid l ->
            exists th0, thread_at s1 t th0 /\ in_span th0 = true /\ c_idn (cfg th0) = i).
  { intros t i Hin Hne. destruct (HSp _ _ Hin) as (th0 & H0 & H1 & H2). exists th0. split; auto. }
  (* if the mover is not inside a span before the step, no entry is its own *)
  assert (Hnot : in_span th = false -> forall i, ~ In (l_tid l, i) inspan).
  { intros Hns i Hin. destruct (HSp _ _ Hin) as (th0 & H0 & H1 & _). unfold thread_at in *. rewrite Ha in H0. inversion H0; subst. congruence. }
  destruct (e_op e) as [| | | | | | | | |i|i| | |] eqn:Eop;
    try (apply IH; auto; intros t i Hin;
         destruct (Nat.eq_dec t (l_tid l)) as [->|Hne]; [|apply Hkeep; auto];
         destruct (in_span th) eqn:Hsp; [destruct (S1 eq_refl) as ((j & Hj) & _); congruence|exfalso; eapply Hnot; eauto]; fail).
  - (* IssueStart *)
    destruct (Nat.eqb (e_out e) 0) eqn:Eout.
    + apply Nat.eqb_eq in Eout. destruct (S3 _ eq_refl Eout) as (Hin' & Hns & ->).
      apply andb_true_iff. split.
      * apply negb_true_iff. apply not_true_is_false. intros Hex. apply existsb_exists in Hex.
        destruct Hex as ([u j] & Hin & Hj). simpl in Hj. apply Nat.eqb_eq in Hj. subst j.
        assert (Hne : u <> l_tid l) by (intros ->; eapply Hnot; eauto).
        destruct (Hkeep _ _ Hin Hne) as (thu & Hu & Hus & Hui).
        apply Hne. eapply (issue_spans_disjoint cs st s1 u (l_tid l) thu th'); eauto. congruence.
      * apply IH; auto. intros t i0 [Heq|Hin].
        -- inversion Heq; subst. exists th'. rewrite Htid. split; auto. split; auto. congruence.
        -- destruct (Nat.eq_dec t (l_tid l)) as [->|Hne]; [exfalso; eapply Hnot; eauto|apply Hkeep; auto].
    + apply IH; auto. intros t i0 Hin.
      destruct (Nat.eq_dec t (l_tid l)) as [->|Hne]; [|apply Hkeep; auto].
      destruct (in_span th) eqn:Hsp; [destruct (S1 eq_refl) as ((j & Hj) & _); congruence|exfalso; eapply Hnot; eauto].
  - (* IssueEnd *)
    apply IH; auto. intros t j Hin. apply filter_In in Hin. destruct Hin as (Hin & Hf). simpl in Hf.
    apply negb_true_iff in Hf. apply Nat.eqb_neq in Hf. rewrite Htid in Hf. apply Hkeep; auto.
Qed.

(** every trace of the model passes the monitor S1 of the check *)
Theorem model_spans_ok cs st es s :
  agree_on_lock cs -> runs any_label (init_state cs st) es s -> spans_ok_ev [] es = true.
Proof.
  intros Hag R. eapply (spans_ok_runs cs st Hag); eauto.
  - exists []. constructor.
  - intros t i [].
Qed.
