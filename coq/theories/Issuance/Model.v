(** Issuance LTS (DESIGN Appendix A.3): any number of threads, each running one of
    obtainCert / renewCert (sync and async) / manageOne (sync) / CleanStorage / updateARI of
    certmagic against one shared storage with an abstract Locker.  Executable definitions only.

    Every transition is one *visible operation* of a thread on a double (storage call, lock call,
    issuer call, event callback); the in-memory work between two visible operations is fused with
    the preceding one.  The label carries the thread id, the injected fault and one choice bit
    (retry-or-return in doWithRetry's select, more-body-ops in CleanStorage).

    Go code abstracted: config.go obtainCert, renewCert, manageOne, checkStorage,
    storageHasCertResources; crypto.go saveCertResource, loadCertResource; storage.go storeTx,
    acquireLock, releaseLock; async.go doWithRetry; certificates.go CacheManagedCertificate,
    reloadManagedCertificate; maintain.go CleanStorage (lock discipline), updateARI. *)
From Coq Require Import List Bool Arith Lia.
Import ListNotations.

(** * Data *)
Inductive kind := KKey | KCrt | KMeta.

(** storage keys: the bundle of name class [n]; the random rw_test key of thread [t];
    last_clean.json *)
Inductive skey := SK (n : nat) (k : kind) | RW (t : nat) | SLast.

Record cert := Cert { c_id : nat; c_kid : nat; c_due : bool }.

(** [VMetaA]: metadata that carries ACME renewal information (written by updateARI) *)
Inductive value := VKey (k : nat) | VCrt (c : cert) | VMeta (c : nat) | VMetaA (c : nat) | VRaw | VLast (recent : bool).

Inductive result := ROk | RErr | RPanic.
(** how one attempt (the closure f of obtainCert/renewCert) ended: nil, an error that does not
    wrap context.Canceled, an error that does *)
Inductive aerr := EOk | EPlain | ECanc.

Inductive fault := FNone | FErr | FCancel | FPanic.

Inductive prog :=
| PObtain (async : bool)
| PRenew (async : bool)
| PManage
| PClean (interval : bool)
| PAri (newer : bool)
| PAcct (cb : bool).       (* newACMEClientWithAccount; cb: NewAccountFunc configured *)

(** configuration of a request.  [lk], [pk], [vk], [idn] are the classes of: the lock key
    ("issue_cert_"+name, raw), the storage name used by the pre-check and by key reuse
    (Safe(name)), the storage name used by save and load (Safe(idna.ToASCII(name))), and the
    CSR identifier. *)
Record tcfg := TCfg {
  c_prog : prog; c_lk : nat; c_pk : nat; c_vk : nat; c_idn : nat;
  c_reuse : bool;      (* ReusePrivateKeys *)
  c_chk : bool;        (* not DisableStorageCheck *)
  c_force : bool;      (* RenewCert*(force) *)
  c_issdue : bool      (* certificates this request's issuer hands out are already due *)
}.

Inductive opk := OpObtain | OpRenew | OpClean | OpAri | OpAcct.
Inductive phase := Ph0 | PhO | PhR.   (* manage: first load / after obtain / after renew *)

Inductive pc :=
| PPre (j : kind)          (* obtain: pre-check Exists crt,key,meta *)
| PChkS | PChkL | PChkD (r : result)   (* checkStorage: Store, Load, deferred Delete *)
| PLockCall | PLockWait
| PRe (j : kind)           (* obtain: re-check under the lock *)
| PLd (j : kind)           (* renew: load key,crt,meta under the lock *)
| PEmit1                   (* cert_obtaining *)
| PReuse                   (* obtain with ReusePrivateKeys: Load key *)
| PIssS | PIssE            (* Issuer.Issue entry / exit *)
| PEmitF (e : aerr)        (* cert_failed *)
| PSave (j : kind)         (* storeTx: Store key,crt,meta *)
| PRoll (j : kind)         (* storeTx rollback: Delete *)
| PEmit2                   (* cert_obtained *)
| PWait                    (* doWithRetry between attempts *)
| PUnlock (r : result)     (* deferred releaseLock *)
| PMLd (ph : phase) (j : kind) | PMOcsp (ph : phase) | PMEmit (ph : phase)
| PCLoad | PCBody | PCStore
| PALoad1 | PAGet | PALoad2 | PAStore
| PQLd (lk : bool) (j : kind)   (* account: Load registration (KMeta) then key (KKey); before / under the lock *)
| PQCb                          (* NewAccountFunc callback *)
| PQCa (r : nat) (a : nat)      (* request to the CA: 0 directory, 1 newNonce, 2 newAccount; attempt a (acmez retries twice) *)
| PQSv (j : kind)               (* saveAccount = storeTx: Store registration (KMeta) then key (KKey) *)
| PQRb                          (* storeTx rollback: Delete registration *)
| PDone (r : result).

Record thread := Thread {
  cfg : tcfg; tpc : pc; cur : opk;
  canc : bool;              (* the request's context has been cancelled *)
  flt : bool;               (* ghost: a fault was injected into one of its own operations *)
  lkey : option nat;        (* key loaded *)
  lcrt : option cert;       (* certificate loaded *)
  nk : nat;                 (* key of the current attempt *)
  nc : option cert;         (* certificate issued in the current attempt *)
  seen : option cert;       (* manage: certificate put into the cache *)
  recd : bool               (* entry in the process-level [locks] map *)
}.

Inductive op :=
| OExists (k : skey) | OLoad (k : skey) | OStore (k : skey) | ODelete (k : skey)
| OLoadOcsp | OLock (l : nat) | OAcq (l : nat) | OUnlock (l : nat)
| OEmit (e : nat)        (* 0 cert_obtaining 1 cert_obtained 2 cert_failed 3 cached_managed_cert 4 NewAccountFunc *)
| OIssS (i : nat) | OIssE (i : nat) | OAriGet | OOther
| OCa (r : nat).          (* HTTP request to the ACME server (through the issuer's HTTPProxy callback) *)

(** outcome as logged by the double: 0 ok/true, 1 not found/false, 2 error, 3 panic *)
Record ev := Ev { e_tid : nat; e_op : op; e_out : nat }.

Record shared := Shared {
  sto : skey -> option value;
  lks : nat -> option nat;     (* lock table: lock key -> owner *)
  ncid : nat; nkid : nat
}.

Record state := State { thr : list thread; sh : shared }.
Record label := Label { l_tid : nat; l_fault : fault; l_bit : bool }.

(** * Decidable equalities and updates *)
Definition kind_eqb (a b : kind) : bool :=
  match a, b with KKey, KKey | KCrt, KCrt | KMeta, KMeta => true | _, _ => false end.
Definition skey_eqb (a b : skey) : bool :=
  match a, b with
  | SK n k, SK m j => Nat.eqb n m && kind_eqb k j
  | RW t, RW u => Nat.eqb t u
  | SLast, SLast => true
  | _, _ => false
  end.
Definition sput (s : skey -> option value) (k : skey) (v : option value) : skey -> option value :=
  fun k' => if skey_eqb k k' then v else s k'.
Definition lput (l : nat -> option nat) (k : nat) (v : option nat) : nat -> option nat :=
  fun k' => if Nat.eqb k k' then v else l k'.
Fixpoint upd {A} (l : list A) (n : nat) (x : A) : list A :=
  match l, n with
  | [], _ => []
  | _ :: r, O => x :: r
  | a :: r, S m => a :: upd r m x
  end.

Definition isSome {A} (o : option A) : bool := match o with Some _ => true | None => false end.
Definition fault_eqb (a b : fault) : bool :=
  match a, b with FNone, FNone | FErr, FErr | FCancel, FCancel | FPanic, FPanic => true | _, _ => false end.

(** * Thread-local helpers *)
Definition set_pc (th : thread) (p : pc) : thread :=
  Thread (cfg th) p (cur th) (canc th) (flt th) (lkey th) (lcrt th) (nk th) (nc th) (seen th) (recd th).
Definition set_cur (th : thread) (o : opk) : thread :=
  Thread (cfg th) (tpc th) o (canc th) (flt th) (lkey th) (lcrt th) (nk th) (nc th) (seen th) (recd th).
Definition set_lkey (th : thread) (k : option nat) : thread :=
  Thread (cfg th) (tpc th) (cur th) (canc th) (flt th) k (lcrt th) (nk th) (nc th) (seen th) (recd th).
Definition set_lcrt (th : thread) (c : option cert) : thread :=
  Thread (cfg th) (tpc th) (cur th) (canc th) (flt th) (lkey th) c (nk th) (nc th) (seen th) (recd th).
Definition set_nk (th : thread) (k : nat) : thread :=
  Thread (cfg th) (tpc th) (cur th) (canc th) (flt th) (lkey th) (lcrt th) k (nc th) (seen th) (recd th).
Definition set_nc (th : thread) (c : option cert) : thread :=
  Thread (cfg th) (tpc th) (cur th) (canc th) (flt th) (lkey th) (lcrt th) (nk th) c (seen th) (recd th).
Definition set_seen (th : thread) (c : option cert) : thread :=
  Thread (cfg th) (tpc th) (cur th) (canc th) (flt th) (lkey th) (lcrt th) (nk th) (nc th) c (recd th).
Definition set_recd (th : thread) (b : bool) : thread :=
  Thread (cfg th) (tpc th) (cur th) (canc th) (flt th) (lkey th) (lcrt th) (nk th) (nc th) (seen th) b.
(** the label's fault is recorded: cancel is sticky, [flt] is the ghost "own fault" bit *)
Definition mark (th : thread) (f : fault) : thread :=
  Thread (cfg th) (tpc th) (cur th) (canc th || fault_eqb f FCancel) (flt th || negb (fault_eqb f FNone))
         (lkey th) (lcrt th) (nk th) (nc th) (seen th) (recd th).

Definition is_async (c : tcfg) : bool :=
  match c_prog c with PObtain a | PRenew a => a | _ => false end.
Definition force_eff (c : tcfg) : bool :=
  match c_prog c with PRenew _ => c_force c | _ => false end.
Definition res_of (e : aerr) : result := match e with EOk => ROk | _ => RErr end.

Definition key_of (v : value) : nat := match v with VKey k => k | _ => 0 end.
Definition cert_of (v : value) : option cert := match v with VCrt c => Some c | _ => None end.
Definition due_of (o : option cert) : bool := match o with Some c => c_due c | None => true end.
Definition cid_of (o : option cert) : nat := match o with Some c => c_id c | None => 0 end.
Definition kid_matches (k : option nat) (c : option cert) : bool :=
  match k, c with Some k, Some c => Nat.eqb k (c_kid c) | _, _ => false end.

(** first pc of the operations *)
Definition after_pre (c : tcfg) : pc := if c_chk c then PChkS else PLockCall.
Definition entry (c : tcfg) : pc * opk :=
  match c_prog c with
  | PObtain _ => (PPre KCrt, OpObtain)
  | PRenew _ => (after_pre c, OpRenew)
  | PManage => (PMLd Ph0 KKey, OpObtain)
  | PClean _ => (PLockCall, OpClean)
  | PAri _ => (PLockCall, OpAri)
  | PAcct _ => (PQLd false KMeta, OpAcct)
  end.
Definition body_start (th : thread) : pc :=
  match cur th with
  | OpObtain => PRe KCrt
  | OpRenew => PLd KKey
  | OpClean => match c_prog (cfg th) with PClean true => PCLoad | _ => PCBody end
  | OpAri => PALoad1
  | OpAcct => PQLd true KMeta
  end.

(** the obtain/renew/clean/ari operation returns [r] to its caller *)
Definition fin_op (th : thread) (r : result) : thread :=
  match c_prog (cfg th), r with
  | PManage, ROk => set_pc th (PMLd (match cur th with OpObtain => PhO | _ => PhR end) KKey)
  | _, _ => set_pc th (PDone r)
  end.
(** the attempt closure returned [e] (interactive: once; otherwise doWithRetry) *)
Definition after_attempt (th : thread) (e : aerr) : thread :=
  if is_async (cfg th) then
    match e with
    | EOk => set_pc th (PUnlock ROk)
    | ECanc => set_pc th (PUnlock RErr)
    | EPlain => set_pc th PWait
    end
  else set_pc th (PUnlock (res_of e)).

Definition locked (p : pc) : bool :=
  match p with
  | PRe _ | PLd _ | PEmit1 | PReuse | PIssS | PIssE | PEmitF _ | PSave _ | PRoll _ | PEmit2 | PWait
  | PUnlock _ | PCLoad | PCBody | PCStore | PALoad1 | PAGet | PALoad2 | PAStore
  | PQCb | PQCa _ _ | PQSv _ | PQRb => true
  | PQLd lk _ => lk
  | _ => false
  end.

(** a panic raised by the double before the operation takes effect: deferred functions run *)
Definition panic_goto (th : thread) : thread :=
  match tpc th with
  | PChkL => set_pc th (PChkD RPanic)
  | PChkD _ => fin_op th RPanic
  | PUnlock _ => set_pc th (PDone RPanic)
  | p => if locked p then set_pc th (PUnlock RPanic) else set_pc th (PDone RPanic)
  end.

(** resolve the choice bit: doWithRetry's select, CleanStorage's body length *)
Definition norm_pc (th : thread) (b : bool) : option pc :=
  match tpc th with
  | PWait => if b then Some (body_start th) else if canc th then Some (PUnlock RErr) else None
  | PCBody => Some (if b then PCBody else PCStore)
  | p => Some p
  end.

Definition nextk (j : kind) : option kind :=
  match j with KCrt => Some KKey | KKey => Some KMeta | KMeta => None end.   (* Exists order *)
Definition nextl (j : kind) : option kind :=
  match j with KKey => Some KCrt | KCrt => Some KMeta | KMeta => None end.   (* Load/Store order *)

Definition out_of (bad res : bool) : nat := if bad then 2 else if res then 0 else 1.
Definition start_renew (th : thread) : thread := set_pc (set_cur th OpRenew) (after_pre (cfg th)).
Definition start_obtain (th : thread) : thread := set_pc (set_cur th OpObtain) (PPre KCrt).
Definition fresh_key (th : thread) (s : shared) : thread * shared :=
  (set_nk th (nkid s), Shared (sto s) (lks s) (ncid s) (S (nkid s))).
Definition with_sto (s : shared) (f : skey -> option value) : shared := Shared f (lks s) (ncid s) (nkid s).
Definition with_lks (s : shared) (l : nat -> option nat) : shared := Shared (sto s) l (ncid s) (nkid s).

(** account registration: what follows the reload under the lock when the account is still new *)
Definition acct_ca (th : thread) : thread :=
  (* a cancelled context: no request is sent.  The first request is newNonce: acmez caches the
     directory of a CA process-wide (12 h), the harness warms that cache *)
  if canc th then set_pc th (PUnlock RErr) else set_pc th (PQCa 1 0).
Definition acct_register (th : thread) : thread :=
  match c_prog (cfg th) with PAcct true => set_pc th PQCb | _ => acct_ca th end.

(** one non-panicking operation of thread [t] at (normalised) pc [p].
    [th] is already [mark]ed; [ferr] = the double's hook returned an error;
    [bad] = a storage call fails (hook error, or cancelled context honoured by the storage). *)
Definition exec (t : nat) (th : thread) (s : shared) (f : fault) (p : pc) : option (thread * shared * ev) :=
  let c := cfg th in
  let ferr := fault_eqb f FErr in
  let bad := ferr || canc th in
  let E o n := Ev t o n in
  match p with
  | PDone _ => None
  | PPre j =>
      let k := SK (c_pk c) j in
      let r := negb bad && isSome (sto s k) in
      let th' := if r then match nextk j with Some j' => set_pc th (PPre j') | None => fin_op th ROk end
                 else set_pc th (after_pre c) in
      Some (th', s, E (OExists k) (out_of bad r))
  | PChkS =>
      if bad then Some (fin_op th RErr, s, E (OStore (RW t)) 2)
      else Some (set_pc th PChkL, with_sto s (sput (sto s) (RW t) (Some VRaw)), E (OStore (RW t)) 0)
  | PChkL =>
      if bad then Some (set_pc th (PChkD RErr), s, E (OLoad (RW t)) 2)
      else if isSome (sto s (RW t)) then Some (set_pc th (PChkD ROk), s, E (OLoad (RW t)) 0)
      else Some (set_pc th (PChkD RErr), s, E (OLoad (RW t)) 1)
  | PChkD r =>
      (* checkStorage's deferred Delete assigns its error to a local variable after the return
         value has been evaluated: a failing Delete does not fail the check *)
      let th' := match r with ROk => set_pc th PLockCall | _ => fin_op th r end in
      if bad then Some (th', s, E (ODelete (RW t)) 2)
      else Some (th', with_sto s (sput (sto s) (RW t) None), E (ODelete (RW t)) 0)
  | PLockCall =>
      if bad then Some (fin_op th RErr, s, E (OLock (c_lk c)) 2)
      else Some (set_pc th PLockWait, s, E (OLock (c_lk c)) 0)
  | PLockWait =>
      match f with
      | FCancel => Some (fin_op th RErr, s, E (OAcq (c_lk c)) 2)    (* context cancelled while waiting *)
      | FNone =>
          match lks s (c_lk c) with
          | None => let th1 := set_recd th true in
                    Some (set_pc th1 (body_start th1), with_lks s (lput (lks s) (c_lk c) (Some t)), E (OAcq (c_lk c)) 0)
          | Some _ => None                                           (* blocked *)
          end
      | _ => None
      end
  | PRe j =>
      let k := SK (c_pk c) j in
      let r := negb bad && isSome (sto s k) in
      let th' := if r then match nextk j with Some j' => set_pc th (PRe j') | None => after_attempt th EOk end
                 else set_pc th PEmit1 in
      Some (th', s, E (OExists k) (out_of bad r))
  | PLd j =>
      let k := SK (c_vk c) j in
      if bad then Some (after_attempt th (if ferr then EPlain else ECanc), s, E (OLoad k) 2)
      else match sto s k with
           | None => Some (after_attempt th EPlain, s, E (OLoad k) 1)
           | Some v =>
               let th' := match j with
                          | KKey => set_pc (set_lkey th (Some (key_of v))) (PLd KCrt)
                          | KCrt => set_pc (set_lcrt th (cert_of v)) (PLd KMeta)
                          | KMeta => if due_of (lcrt th) || force_eff c then set_pc th PEmit1
                                     else after_attempt th EOk
                          end in
               Some (th', s, E (OLoad k) 0)
           end
  | PEmit1 =>
      if ferr then Some (after_attempt th EPlain, s, E (OEmit 0) 2)
      else match cur th with
           | OpObtain =>
               if c_reuse c then Some (set_pc th PReuse, s, E (OEmit 0) 0)
               else let '(th1, s1) := fresh_key th s in Some (set_pc th1 PIssS, s1, E (OEmit 0) 0)
           | _ =>
               if c_reuse c then Some (set_pc (set_nk th (match lkey th with Some k => k | None => 0 end)) PIssS, s, E (OEmit 0) 0)
               else let '(th1, s1) := fresh_key th s in Some (set_pc th1 PIssS, s1, E (OEmit 0) 0)
           end
  | PReuse =>
      let k := SK (c_pk c) KKey in
      if bad then Some (after_attempt th EPlain, s, E (OLoad k) 2)
      else match sto s k with
           | None => let '(th1, s1) := fresh_key th s in Some (set_pc th1 PIssS, s1, E (OLoad k) 1)
           | Some v => Some (set_pc (set_nk th (key_of v)) PIssS, s, E (OLoad k) 0)
           end
  | PIssS =>
      if ferr then Some (set_pc th (PEmitF EPlain), s, E (OIssS (c_idn c)) 2)
      else Some (set_pc (set_nc th (Some (Cert (ncid s) (nk th) (c_issdue c)))) PIssE,
                 Shared (sto s) (lks s) (S (ncid s)) (nkid s), E (OIssS (c_idn c)) 0)
  | PIssE =>
      if ferr then Some (set_pc (set_nc th None) (PEmitF EPlain), s, E (OIssE (c_idn c)) 2)
      else if canc th then Some (set_pc (set_nc th None) (PEmitF ECanc), s, E (OIssE (c_idn c)) 0)
      else Some (set_pc th (PSave KKey), s, E (OIssE (c_idn c)) 0)
  | PEmitF e => Some (after_attempt th e, s, E (OEmit 2) (if ferr then 2 else 0))
  | PSave j =>
      let k := SK (c_vk c) j in
      if bad then
        Some (match j with KKey => after_attempt th EPlain | KCrt => set_pc th (PRoll KKey) | KMeta => set_pc th (PRoll KCrt) end,
              s, E (OStore k) 2)
      else
        let v := match j with KKey => VKey (nk th) | KCrt => match nc th with Some c => VCrt c | None => VRaw end
                           | KMeta => VMeta (cid_of (nc th)) end in
        Some (set_pc th (match nextl j with Some j' => PSave j' | None => PEmit2 end),
              with_sto s (sput (sto s) k (Some v)), E (OStore k) 0)
  | PRoll j =>
      let k := SK (c_vk c) j in
      let th' := match j with KCrt => set_pc th (PRoll KKey) | _ => after_attempt th EPlain end in
      if bad then Some (th', s, E (ODelete k) 2)
      else Some (th', with_sto s (sput (sto s) k None), E (ODelete k) 0)
  | PEmit2 => Some (after_attempt th EOk, s, E (OEmit 1) (if ferr then 2 else 0))
  | PWait => None    (* normalised away *)
  | PUnlock r =>
      if ferr then Some (fin_op th r, s, E (OUnlock (c_lk c)) 2)      (* Unlock failed: still held, still recorded *)
      else match lks s (c_lk c) with
           | Some u => if Nat.eqb u t
                       then Some (fin_op (set_recd th false) r, with_lks s (lput (lks s) (c_lk c) None), E (OUnlock (c_lk c)) 0)
                       else Some (fin_op th r, s, E (OUnlock (c_lk c)) 2)
           | None => Some (fin_op th r, s, E (OUnlock (c_lk c)) 2)
           end
  | PMLd ph j =>
      let k := SK (c_vk c) j in
      if bad then Some (set_pc th (PDone RErr), s, E (OLoad k) 2)
      else match sto s k with
           | None => Some (match ph with Ph0 => start_obtain th | _ => set_pc th (PDone RErr) end, s, E (OLoad k) 1)
           | Some v =>
               let th' := match j with
                          | KKey => set_pc (set_lkey th (Some (key_of v))) (PMLd ph KCrt)
                          | KCrt => set_pc (set_lcrt th (cert_of v)) (PMLd ph KMeta)
                          | KMeta => if kid_matches (lkey th) (lcrt th) then set_pc th (PMOcsp ph)
                                     else set_pc th (PDone RErr)     (* private key does not match public key *)
                          end in
               Some (th', s, E (OLoad k) 0)
           end
  | PMOcsp ph =>
      let th1 := set_seen th (lcrt th) in
      Some (match ph with PhR => set_pc th1 (PDone ROk) | _ => set_pc th1 (PMEmit ph) end,
            s, E OLoadOcsp (if bad then 2 else 1))
  | PMEmit ph =>
      Some (match ph with
            | Ph0 => if due_of (lcrt th) then start_renew th else set_pc th (PDone ROk)
            | _ => set_pc th (PDone ROk)
            end, s, E (OEmit 3) (if ferr then 2 else 0))
  | PCLoad =>
      if bad then Some (set_pc th (PUnlock RErr), s, E (OLoad SLast) 2)
      else match sto s SLast with
           | None => Some (set_pc th PCBody, s, E (OLoad SLast) 1)
           | Some (VLast true) => Some (set_pc th (PUnlock ROk), s, E (OLoad SLast) 0)
           | Some _ => Some (set_pc th PCBody, s, E (OLoad SLast) 0)
           end
  | PCBody => Some (th, s, E OOther (if bad then 2 else 0))
  | PCStore =>
      if bad then Some (set_pc th (PUnlock RErr), s, E (OStore SLast) 2)
      else Some (set_pc th (PUnlock ROk), with_sto s (sput (sto s) SLast (Some (VLast true))), E (OStore SLast) 0)
  | PALoad1 =>
      let k := SK (c_vk c) KMeta in
      if bad then Some (set_pc th PAGet, s, E (OLoad k) 2)
      else match sto s k with
           | None => Some (set_pc th PAGet, s, E (OLoad k) 1)
           | Some (VMetaA _) => Some (set_pc th (PUnlock ROk), s, E (OLoad k) 0)   (* storage has newer ARI *)
           | Some _ => Some (set_pc th PAGet, s, E (OLoad k) 0)
           end
  | PAGet =>
      if ferr then Some (set_pc th (PUnlock RErr), s, E OAriGet 2)
      else Some (set_pc th PALoad2, s, E OAriGet 0)
  | PALoad2 =>
      let k := SK (c_vk c) KMeta in
      if bad then Some (set_pc th (PUnlock RErr), s, E (OLoad k) 2)
      else match sto s k with
           | None => Some (set_pc th (PUnlock RErr), s, E (OLoad k) 1)
           | Some _ => Some (set_pc th PAStore, s, E (OLoad k) 0)
           end
  | PAStore =>
      let k := SK (c_vk c) KMeta in
      if bad then Some (set_pc th (PUnlock RErr), s, E (OStore k) 2)
      else Some (set_pc th (PUnlock ROk),
                 with_sto s (sput (sto s) k (Some (VMetaA (match sto s k with Some (VMeta x) | Some (VMetaA x) => x | _ => 0 end)))),
                 E (OStore k) 0)
  | PQLd lk j =>
      (* getAccount: loadAccount = Load registration, Load key; not found => a new account (empty status) *)
      let k := SK (c_vk c) j in
      if bad then Some ((if lk then set_pc th (PUnlock RErr) else fin_op th RErr), s, E (OLoad k) 2)
      else match sto s k with
           | None => Some ((if lk then acct_register th else set_pc th PLockCall), s, E (OLoad k) 1)
           | Some _ =>
               Some (match j with
                     | KMeta => set_pc th (PQLd lk KKey)
                     | _ => if lk then set_pc th (PUnlock ROk) else fin_op th ROk     (* already registered *)
                     end, s, E (OLoad k) 0)
           end
  | PQCb =>
      if ferr then Some (set_pc th (PUnlock RErr), s, E (OEmit 4) 2)
      else Some (acct_ca th, s, E (OEmit 4) 0)
  | PQCa r a =>
      if canc th then Some (set_pc th (PUnlock RErr), s, E (OCa r) (if ferr then 2 else 0))   (* cancelled at this request *)
      else if ferr then
        Some (set_pc th (match a with 0 | 1 => PQCa r (S a) | _ => PUnlock RErr end), s, E (OCa r) 2)   (* acmez: 3 attempts *)
      else Some (set_pc th (match r with 0 => PQCa 1 0 | 1 => PQCa 2 0 | _ => PQSv KMeta end), s, E (OCa r) 0)
  | PQSv j =>
      let k := SK (c_vk c) j in
      if bad then Some (set_pc th (match j with KMeta => PUnlock RErr | _ => PQRb end), s, E (OStore k) 2)
      else Some (set_pc th (match j with KMeta => PQSv KKey | _ => PUnlock ROk end),
                 with_sto s (sput (sto s) k (Some (match j with KMeta => VMeta 0 | _ => VKey 0 end))), E (OStore k) 0)
  | PQRb =>
      let k := SK (c_vk c) KMeta in
      if bad then Some (set_pc th (PUnlock RErr), s, E (ODelete k) 2)
      else Some (set_pc th (PUnlock RErr), with_sto s (sput (sto s) k None), E (ODelete k) 0)
  end.

(** the operation a thread performs at pc [p] (for the event of a panicking call) *)
Definition op_at (t : nat) (th : thread) (p : pc) : option op :=
  let c := cfg th in
  match p with
  | PPre j | PRe j => Some (OExists (SK (c_pk c) j))
  | PChkS => Some (OStore (RW t)) | PChkL => Some (OLoad (RW t)) | PChkD _ => Some (ODelete (RW t))
  | PLockCall => Some (OLock (c_lk c))
  | PLockWait => None                       (* no fault is injected at the acquisition itself *)
  | PLd j | PMLd _ j => Some (OLoad (SK (c_vk c) j))
  | PEmit1 => Some (OEmit 0) | PEmit2 => Some (OEmit 1) | PEmitF _ => Some (OEmit 2) | PMEmit _ => Some (OEmit 3)
  | PReuse => Some (OLoad (SK (c_pk c) KKey))
  | PIssS => Some (OIssS (c_idn c)) | PIssE => Some (OIssE (c_idn c))
  | PSave j => Some (OStore (SK (c_vk c) j)) | PRoll j => Some (ODelete (SK (c_vk c) j))
  | PUnlock _ => Some (OUnlock (c_lk c))
  | PMOcsp _ => Some OLoadOcsp
  | PCLoad => Some (OLoad SLast) | PCBody => Some OOther | PCStore => Some (OStore SLast)
  | PALoad1 | PALoad2 => Some (OLoad (SK (c_vk c) KMeta)) | PAGet => Some OAriGet
  | PAStore => Some (OStore (SK (c_vk c) KMeta))
  | PQLd _ j => Some (OLoad (SK (c_vk c) j)) | PQCb => Some (OEmit 4) | PQCa r _ => Some (OCa r)
  | PQSv j => Some (OStore (SK (c_vk c) j)) | PQRb => Some (ODelete (SK (c_vk c) KMeta))
  | PWait | PDone _ => None
  end.

Definition tstep (t : nat) (th0 : thread) (s : shared) (f : fault) (b : bool) : option (thread * shared * ev) :=
  let th := mark th0 f in
  match norm_pc th b with
  | None => None
  | Some p =>
      match f with
      | FPanic =>
          match op_at t th p with
          | Some o => Some (panic_goto (set_pc th p), s, Ev t o 3)
          | None => None
          end
      | _ => exec t th s f p
      end
  end.

Definition step (s : state) (l : label) : option (state * ev) :=
  match nth_error (thr s) (l_tid l) with
  | None => None
  | Some th =>
      match tstep (l_tid l) th (sh s) (l_fault l) (l_bit l) with
      | None => None
      | Some (th', sh', e) => Some (State (upd (thr s) (l_tid l) th') sh', e)
      end
  end.

Fixpoint run (s : state) (ls : list label) : option (state * list ev) :=
  match ls with
  | [] => Some (s, [])
  | l :: r =>
      match step s l with
      | None => None
      | Some (s1, e) => match run s1 r with Some (s2, es) => Some (s2, e :: es) | None => None end
      end
  end.

(** * Initial states *)
Definition init_thread (c : tcfg) : thread :=
  Thread c (fst (entry c)) (snd (entry c)) false false None None 0 None None false.
Definition init_state (cs : list tcfg) (st : skey -> option value) : state :=
  State (map init_thread cs) (Shared st (fun _ => None) 0 0).

Definition final_pc (p : pc) : bool := match p with PDone _ => true | _ => false end.
Definition result_of (th : thread) : option result := match tpc th with PDone r => Some r | _ => None end.

(** span of an issuance: between Issuer.Issue's entry and exit *)
Definition in_span (th : thread) : bool := match tpc th with PIssE => true | _ => false end.

(** assoc-list storage for tests and the wire *)
Fixpoint sto_of_list (l : list (skey * value)) : skey -> option value :=
  match l with
  | [] => fun _ => None
  | (k, v) :: r => sput (sto_of_list r) k (Some v)
  end.
