(** C12: the run-time monitor [Cache.Check.spec_ok] holds of every case the model itself produces
    (so when it fails on an observation of the implementation, the property fails). *)
From CM Require Import Lib.Str Lib.Wire Cache.Model Cache.AMapFacts Cache.Proofs Cache.Check Cache.Sched.
From Coq Require Import Arith.
Open Scope nat_scope.

(** the case the model produces for a history *)
Definition model_case (cap : nat) (pool : list cert) (ops : list op) (queries : list name) : case :=
  Case cap pool (combine (map Some ops) (trace cap init ops))
       (map (fun q => (q, map c_hash (all_matching (run cap init ops) q))) queries).
Definition case_certs_of (pool : list cert) (ops : list op) : list cert :=
  pool ++ flat_map certs_of_op ops.

Lemma flat_map_combine_fst cap ops : forall s,
  flat_map (fun st : option op * state => certs_of_step (fst st)) (combine (map Some ops) (trace cap s ops)) =
  flat_map certs_of_op ops.
Proof. induction ops as [|o ops IH]; intros s; cbn; [reflexivity|]. rewrite IH. reflexivity. Qed.

Lemma case_certs_model cap pool ops queries :
  case_certs (model_case cap pool ops queries) = case_certs_of pool ops.
Proof. unfold case_certs, case_certs_of, model_case. cbn. rewrite flat_map_combine_fst. reflexivity. Qed.

Lemma last_cons {A} (a : A) l d : last (a :: l) d = last l a.
Proof.
  revert a d. induction l as [|b l IH]; intros a d; [reflexivity|].
  change (last (a :: b :: l) d) with (last (b :: l) d). rewrite (IH b d), (IH b a). reflexivity.
Qed.

Lemma final_obs_model cap ops : forall s,
  last (map snd (combine (map Some ops) (trace cap s ops))) s = run cap s ops.
Proof.
  induction ops as [|o ops IH]; intros s; [reflexivity|].
  cbn [trace combine map snd]. rewrite last_cons. apply IH.
Qed.

Lemma incl_b_refl l : incl_b l l = true.
Proof. unfold incl_b. apply forallb_forall. intros x Hx. apply mem_str_In. exact Hx. Qed.
Lemma incl_b_In a b : (forall x, In x a -> In x b) -> incl_b a b = true.
Proof. intros H. unfold incl_b. apply forallb_forall. intros x Hx. apply mem_str_In. auto. Qed.

Lemma amap_eqb_refl {V} (veq : V -> V -> bool) (m : amap V) :
  (forall v, veq v v = true) -> NoDup (akeys m) -> amap_eqb veq m m = true.
Proof.
  intros Hrefl Hnd. unfold amap_eqb. rewrite Nat.eqb_refl. cbn [andb].
  apply forallb_forall. intros [k v] Hin. cbn [fst snd].
  rewrite (In_alookup m k v Hnd Hin). apply Hrefl.
Qed.

Section Spec.
  Variable names_of : hash -> list name.
  Variable cap : nat.
  Notation Inv := (Inv names_of cap).

  Lemma readd_ok_model s c v : Inv s -> readd_ok s c (add_cert cap c v s) = true.
  Proof.
    intros HI. unfold readd_ok. destruct (alookup (c_hash c) (cache s)) as [e|] eqn:E; [|reflexivity].
    destruct (readd_merges_tags cap s c v e E) as (Hix & Hlen & Hkeys & Hother & e' & He' & Heq & Htags & _).
    rewrite He', Hlen, Hkeys, Hix, Nat.eqb_refl, incl_b_refl. cbn [andb].
    rewrite amap_eqb_refl;
      [|intros l; apply strs_eqb_eq; reflexivity | apply (inv_nodup_idx _ _ s HI)].
    cbn [andb]. rewrite <- Heq.
    replace (cert_eqb e' e') with true by (symmetry; apply cert_eqb_eq; reflexivity). cbn [andb].
    rewrite (incl_b_In (c_tags e) (c_tags e')) by (intros x Hx; apply Htags; auto).
    rewrite (incl_b_In (c_tags c) (c_tags e')) by (intros x Hx; apply Htags; auto).
    rewrite (incl_b_In (c_tags e') (c_tags e ++ c_tags c)) by (intros x Hx; apply in_app_iff, Htags, Hx).
    cbn [andb]. apply forallb_forall. intros [k x] Hin. cbn [fst snd].
    destruct (str_eqb_spec k (c_hash c)) as [->|Hne]; [reflexivity|]. cbn [orb].
    rewrite (Hother k Hne), (In_alookup _ k x (inv_nodup _ _ s HI) Hin).
    apply cert_eqb_eq. reflexivity.
  Qed.

  Lemma step_spec_model s o : Inv s -> step_spec_b s (Some o) (step cap s o) = true.
  Proof. intros HI. destruct o; cbn [step_spec_b step]; try reflexivity. apply readd_ok_model, HI. Qed.

  Lemma steps_spec_model ops : forall s,
    Inv s -> Forall (wf_op names_of) ops -> steps_spec s (combine (map Some ops) (trace cap s ops)) = true.
  Proof.
    induction ops as [|o ops IH]; intros s HI Hwf; [reflexivity|].
    inversion Hwf as [|? ? Ho Hops]; subst. cbn [trace combine steps_spec map].
    rewrite step_spec_model by assumption. cbn [andb].
    apply IH; [apply step_inv; assumption | assumption].
  Qed.

  Lemma inv_b_model (U1 : state -> list name) (U2 : state -> list hash) ops : forall s,
    Inv s -> Forall (wf_op names_of) ops ->
    forallb (fun st : option op * state => inv_b names_of cap (U1 (snd st)) (U2 (snd st)) (snd st))
            (combine (map Some ops) (trace cap s ops)) = true.
  Proof.
    induction ops as [|o ops IH]; intros s HI Hwf; [reflexivity|].
    inversion Hwf as [|? ? Ho Hops]; subst. cbn [trace combine forallb snd map].
    assert (HI' : Inv (step cap s o)) by (apply step_inv; assumption).
    rewrite (inv_b_complete names_of cap _ _ _ HI'). cbn [andb]. apply IH; assumption.
  Qed.

  Lemma query_ok_model s q : Inv s -> query_ok s (q, map c_hash (all_matching s q)) = true.
  Proof.
    intros HI. unfold query_ok. cbn [fst snd]. apply andb_true_iff. split.
    - apply forallb_forall. intros h Hin. apply in_map_iff in Hin. destruct Hin as (c & <- & Hc).
      apply (all_matching_exact names_of cap s HI) in Hc. destruct Hc as (Ec & n & Hn & Hin).
      rewrite Ec. unfold covers_query. apply existsb_exists. exists n. split; [exact Hn|].
      apply mem_str_In. exact Hin.
    - apply forallb_forall. intros [k c] Hin. cbn [fst snd].
      destruct (covers_query q c) eqn:Ecov; [|reflexivity]. cbn [negb orb].
      apply mem_str_In. apply In_alookup in Hin; [|apply (inv_nodup _ _ s HI)].
      destruct (inv_cert _ _ s HI k c Hin) as (Hh & _). subst k.
      apply in_map. apply (all_matching_exact names_of cap s HI). split; [exact Hin|].
      unfold covers_query in Ecov. apply existsb_exists in Ecov. destruct Ecov as (n & Hn & Hm).
      exists n. split; [exact Hn | apply mem_str_In; exact Hm].
  Qed.
End Spec.

Theorem spec_ok_of_model cap pool ops queries :
  Forall (wf_op (names_of_pool (case_certs_of pool ops))) ops ->
  spec_ok (model_case cap pool ops queries) = true.
Proof.
  intros Hwf. unfold spec_ok. rewrite case_certs_model.
  set (nm := names_of_pool (case_certs_of pool ops)) in *.
  assert (HI0 : Inv nm cap init) by apply inv_init.
  cbn [k_cap k_steps k_queries model_case].
  repeat (apply andb_true_iff; split).
  - apply (inv_b_model nm cap (state_names _) (state_hashes _)); assumption.
  - apply (steps_spec_model nm cap); assumption.
  - unfold final_obs. cbn [k_steps model_case]. rewrite final_obs_model.
    apply forallb_forall. intros qr Hin. apply in_map_iff in Hin. destruct Hin as (q & <- & _).
    apply (query_ok_model nm cap). apply run_inv; assumption.
Qed.
