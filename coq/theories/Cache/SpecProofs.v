(** C12: the run-time monitor [Cache.Check.spec_ok] holds of every case the model itself produces
    (so when it fails on an observation of the implementation, the property fails). *)
From CM Require Import Lib.Str Lib.Wire Cache.Model Cache.AMapFacts Cache.Proofs Cache.Check Cache.Sched.
From Coq Require Import Arith.
Open Scope nat_scope.

(** the case the model produces for a history *)
Definition wstep_of (d : dstate) (o : dop) : wstep :=
  let d' := dstep d o in
  match o with
  | DOp o => WOp o
  | DSetCap z vs => WSetCap z vs (d_cap d')
  | DQuery q => WQuery q (answer (d_st d') q)
  | DStop => WStop
  | DScan r => WScan r (view_of (scan_view r (d_st d')))
  end.
Fixpoint model_steps (d : dstate) (ops : list dop) : list (wstep * state) :=
  match ops with
  | [] => []
  | o :: r => let d' := dstep d o in (wstep_of d o, d_st d') :: model_steps d' r
  end.
Definition model_case (cap : nat) (pool : list cert) (ops : list dop) (queries : list name) : case :=
  Case cap pool (model_steps (dinit cap) ops)
       (map (fun q => (q, answer (d_st (drun (dinit cap) ops)) q)) queries).
Definition certs_of_dop (o : dop) : list cert := match o with DOp o => certs_of_op o | _ => [] end.
Definition case_certs_of (pool : list cert) (ops : list dop) : list cert :=
  pool ++ flat_map certs_of_dop ops.

Lemma flat_map_model_steps ops : forall d,
  flat_map (fun st : wstep * state => certs_of_step (fst st)) (model_steps d ops) =
  flat_map certs_of_dop ops.
Proof.
  induction ops as [|o ops IH]; intros d; cbn [model_steps flat_map fst]; [reflexivity|].
  rewrite IH. destruct o; reflexivity.
Qed.

Lemma case_certs_model cap pool ops queries :
  case_certs (model_case cap pool ops queries) = case_certs_of pool ops.
Proof. unfold case_certs, case_certs_of, model_case. cbn. rewrite flat_map_model_steps. reflexivity. Qed.

Lemma last_cons {A} (a : A) l d : last (a :: l) d = last l a.
Proof.
  revert a d. induction l as [|b l IH]; intros a d; [reflexivity|].
  change (last (a :: b :: l) d) with (last (b :: l) d). rewrite (IH b d), (IH b a). reflexivity.
Qed.

Lemma final_obs_model ops : forall d,
  last (map snd (model_steps d ops)) (d_st d) = d_st (drun d ops).
Proof.
  induction ops as [|o ops IH]; intros d; [reflexivity|].
  cbn [model_steps map snd]. rewrite last_cons. apply IH.
Qed.

Lemma incl_b_refl l : incl_b l l = true.
Proof. unfold incl_b. apply forallb_forall. intros x Hx. apply mem_str_In. exact Hx. Qed.
Lemma incl_b_In a b : (forall x, In x a -> In x b) -> incl_b a b = true.
Proof. intros H. unfold incl_b. apply forallb_forall. intros x Hx. apply mem_str_In. auto. Qed.

Lemma amap_eqb_refl {V} (veq : V -> V -> bool) (m : amap V) :
  (forall v, veq v v = true) -> NoDup (akeys m) -> amap_eqb veq m m = true.
Proof.
  intros Hrefl Hnd. unfold amap_eqb. rewrite Nat.eqb_refl. cbn [andb].
  apply forallb_forall. intros [k v] Hin. cbn [fst snd].
  rewrite (In_alookup m k v Hnd Hin). apply Hrefl.
Qed.
Lemma cert_eqb_refl c : cert_eqb c c = true.
Proof. apply cert_eqb_eq. reflexivity. Qed.
Lemma strs_eqb_refl l : strs_eqb l l = true.
Proof. apply strs_eqb_eq. reflexivity. Qed.

Lemma NoDup_map_filter {A B} (f : A -> B) (p : A -> bool) l : NoDup (map f l) -> NoDup (map f (filter p l)).
Proof.
  induction l as [|x l IH]; cbn; [auto|]. intros H. inversion H as [|? ? Hnin Hnd]; subst.
  destruct (p x); cbn; [|auto]. constructor; [|auto].
  intros Hin. apply Hnin. apply in_map_iff in Hin. destruct Hin as (y & Hy & Hin).
  apply in_map_iff. exists y. split; [exact Hy|]. apply filter_In in Hin. tauto.
Qed.

Section Spec.
  Variable names_of : hash -> list name.

  Lemma state_eqb_refl cap s : Inv names_of cap s -> state_eqb s s = true.
  Proof.
    intros HI. unfold state_eqb. apply andb_true_iff. split.
    - apply amap_eqb_refl; [apply cert_eqb_refl | apply (inv_nodup _ _ s HI)].
    - apply amap_eqb_refl; [apply strs_eqb_refl | apply (inv_nodup_idx _ _ s HI)].
  Qed.

  Lemma readd_ok_model cap s c v : Inv names_of cap s -> readd_ok s c (add_cert cap c v s) = true.
  Proof.
    intros HI. unfold readd_ok. destruct (alookup (c_hash c) (cache s)) as [e|] eqn:E; [|reflexivity].
    destruct (readd_merges_tags cap s c v e E) as (Hix & Hlen & Hkeys & Hother & e' & He' & Heq & Htags & Hnd).
    rewrite He', Hlen, Hkeys, Hix, Nat.eqb_refl, incl_b_refl. cbn [andb].
    rewrite amap_eqb_refl;
      [|intros l; apply strs_eqb_eq; reflexivity | apply (inv_nodup_idx _ _ s HI)].
    cbn [andb]. rewrite <- Heq.
    replace (cert_eqb e' e') with true by (symmetry; apply cert_eqb_eq; reflexivity). cbn [andb].
    rewrite (incl_b_In (c_tags e) (c_tags e')) by (intros x Hx; apply Htags; auto).
    rewrite (incl_b_In (c_tags c) (c_tags e')) by (intros x Hx; apply Htags; auto).
    rewrite (incl_b_In (c_tags e') (c_tags e ++ c_tags c)) by (intros x Hx; apply in_app_iff, Htags, Hx).
    cbn [andb].
    replace (negb (nodup_b (c_tags e)) || nodup_b (c_tags e')) with true
      by (destruct (nodup_b (c_tags e)) eqn:En; [|reflexivity]; cbn [negb orb]; symmetry;
          apply nodup_b_NoDup, Hnd, nodup_b_true, En).
    cbn [andb]. apply forallb_forall. intros [k x] Hin. cbn [fst snd].
    destruct (str_eqb_spec k (c_hash c)) as [->|Hne]; [reflexivity|]. cbn [orb].
    rewrite (Hother k Hne), (In_alookup _ k x (inv_nodup _ _ s HI) Hin).
    apply cert_eqb_eq. reflexivity.
  Qed.

  (** ---- write-backs: a relation that composes, and implies the boolean clause ---- *)
  Section WriteBack.
    Variable P : cert -> cert -> Prop.
    Variable pb : cert -> cert -> bool.
    Hypothesis P_refl : forall e, P e e.
    Hypothesis P_trans : forall a b c, P a b -> P b c -> P a c.
    Hypothesis P_pb : forall e x, P e x -> pb e x = true.

    Definition wb_rel (hs : list hash) (s s' : state) : Prop :=
      index s' = index s /\ akeys (cache s') = akeys (cache s) /\
      forall h e, alookup h (cache s) = Some e ->
        exists x, alookup h (cache s') = Some x /\ (x = e \/ (In h hs /\ P e x)).

    Lemma wb_rel_refl hs s : wb_rel hs s s.
    Proof. split; [reflexivity|]. split; [reflexivity|]. intros h e E. exists e. auto. Qed.
    Lemma wb_rel_trans hs s1 s2 s3 : wb_rel hs s1 s2 -> wb_rel hs s2 s3 -> wb_rel hs s1 s3.
    Proof.
      intros (Hi1 & Hk1 & H1) (Hi2 & Hk2 & H2). split; [congruence|]. split; [congruence|].
      intros h e E. destruct (H1 h e E) as (x & Ex & Hx). destruct (H2 h x Ex) as (y & Ey & Hy).
      exists y. split; [exact Ey|].
      destruct Hx as [->|[Hin Hp]]; destruct Hy as [->|[Hin' Hp']]; auto.
      right. split; [exact Hin | eapply P_trans; eauto].
    Qed.
    Lemma wb_rel_mono hs hs' s s' : (forall h, In h hs -> In h hs') -> wb_rel hs s s' -> wb_rel hs' s s'.
    Proof.
      intros Hsub (Hi & Hk & H). split; [exact Hi|]. split; [exact Hk|].
      intros h e E. destruct (H h e E) as (x & Ex & [Hx|[Hin Hp]]); exists x; auto.
    Qed.
    Lemma same_but_wb_rel f h s s' :
      (forall e, P e (f e)) -> same_but f h s s' -> wb_rel [h] s s'.
    Proof.
      intros Hf (Hi & Hk & Hother & Hh). split; [exact Hi|]. split; [exact Hk|].
      intros h0 e E. destruct (str_eqb_spec h0 h) as [->|Hne].
      - rewrite E in Hh. exists (f e). split; [exact Hh|]. right. split; [left; reflexivity | apply Hf].
      - exists e. rewrite (Hother h0 Hne). auto.
    Qed.

    Lemma writeback_ok_of_rel cap hs s s' :
      Inv names_of cap s -> wb_rel hs s s' -> writeback_ok pb hs s s' = true.
    Proof.
      intros HI (Hi & Hk & H). unfold writeback_ok. rewrite Hi.
      rewrite amap_eqb_refl; [|apply strs_eqb_refl | apply (inv_nodup_idx _ _ s HI)].
      assert (Hlen : length (cache s') = length (cache s)).
      { unfold akeys in Hk. rewrite <- (map_length fst (cache s')), Hk. apply map_length. }
      rewrite Hlen, Nat.eqb_refl. cbn [andb].
      apply forallb_forall. intros [k e] Hin. cbn [fst snd].
      apply In_alookup in Hin; [|apply (inv_nodup _ _ s HI)].
      destruct (H k e Hin) as (x & Ex & Hx). rewrite Ex.
      destruct Hx as [->|[Hin' Hp]].
      - destruct (mem_str k hs); [apply P_pb, P_refl | apply cert_eqb_refl].
      - assert (Hm : mem_str k hs = true) by (apply mem_str_In; exact Hin'). rewrite Hm. apply P_pb, Hp.
    Qed.
  End WriteBack.

  Definition P_ocsp (e x : cert) : Prop := x = set_ocsp e (c_ocsp x).
  Definition P_ari (e x : cert) : Prop := x = set_ari e (c_ari x).
  Lemma P_ocsp_refl e : P_ocsp e e. Proof. destruct e; reflexivity. Qed.
  Lemma P_ari_refl e : P_ari e e. Proof. destruct e; reflexivity. Qed.
  Lemma P_ocsp_trans a b c : P_ocsp a b -> P_ocsp b c -> P_ocsp a c.
  Proof. unfold P_ocsp. intros -> ->. destruct a; reflexivity. Qed.
  Lemma P_ari_trans a b c : P_ari a b -> P_ari b c -> P_ari a c.
  Proof. unfold P_ari. intros -> ->. destruct a; reflexivity. Qed.
  Lemma P_ocsp_pb e x : P_ocsp e x -> same_but_ocsp e x = true.
  Proof. unfold P_ocsp, same_but_ocsp. intros <-. apply cert_eqb_refl. Qed.
  Lemma P_ari_pb e x : P_ari e x -> same_but_ari e x = true.
  Proof. unfold P_ari, same_but_ari. intros <-. apply cert_eqb_refl. Qed.

  Lemma set_ocsp_fold_rel upd : forall s,
    wb_rel P_ocsp (map fst upd) s (fold_left (fun s hv => set_ocsp_at hv s) upd s).
  Proof.
    induction upd as [|hv upd IH]; intros s; cbn [fold_left map].
    - apply wb_rel_refl.
    - eapply (wb_rel_trans P_ocsp P_ocsp_trans).
      + apply (wb_rel_mono P_ocsp [fst hv]); [intros h [<-|[]]; left; reflexivity|].
        apply (same_but_wb_rel P_ocsp (fun e => set_ocsp e (snd hv))); [|apply set_ocsp_at_effect].
        intros e. destruct e; reflexivity.
      + apply (wb_rel_mono P_ocsp (map fst upd)); [intros h Hh; right; exact Hh | apply IH].
  Qed.

  Lemma setcap_ok_model z vs d :
    DInv names_of d -> setcap_ok (d_st d) (Z.to_nat z) (d_st (set_capacity z vs d)) = true.
  Proof.
    intros HI. destruct (set_capacity_spec names_of z vs d HI) as (HI' & _ & Hlen & Hsub).
    unfold setcap_ok. rewrite Hlen, Nat.eqb_refl, andb_true_r.
    apply forallb_forall. intros [k c] Hin. cbn [fst snd].
    apply In_alookup in Hin; [|apply (inv_nodup _ _ _ HI')].
    rewrite (Hsub k c Hin). apply cert_eqb_refl.
  Qed.

  Lemma query_ok_model cap s q : Inv names_of cap s -> query_ok s (q, answer s q) = true.
  Proof.
    intros HI. unfold query_ok, answer. cbn [fst snd]. apply andb_true_iff. split.
    - apply forallb_forall. intros h Hin. apply in_map_iff in Hin. destruct Hin as (c & <- & Hc).
      apply (all_matching_exact names_of cap s HI) in Hc. destruct Hc as (Ec & n & Hn & Hin).
      rewrite Ec. unfold covers_query. apply existsb_exists. exists n. split; [exact Hn|].
      apply mem_str_In. exact Hin.
    - apply forallb_forall. intros [k c] Hin. cbn [fst snd].
      destruct (covers_query q c) eqn:Ecov; [|reflexivity]. cbn [negb orb].
      apply mem_str_In. apply In_alookup in Hin; [|apply (inv_nodup _ _ s HI)].
      destruct (inv_cert _ _ s HI k c Hin) as (Hh & _). subst k.
      apply in_map. apply (all_matching_exact names_of cap s HI). split; [exact Hin|].
      unfold covers_query in Ecov. apply existsb_exists in Ecov. destruct Ecov as (n & Hn & Hm).
      exists n. split; [exact Hn | apply mem_str_In; exact Hm].
  Qed.

  Lemma cached_hashes_are_keys cap s : Inv names_of cap s -> map c_hash (map snd (cache s)) = akeys (cache s).
  Proof.
    intros HI. unfold akeys. rewrite map_map. apply map_ext_in. intros [k c] Hin. cbn [fst snd].
    apply In_alookup in Hin; [|apply (inv_nodup _ _ s HI)].
    destruct (inv_cert _ _ s HI k c Hin) as (-> & _). reflexivity.
  Qed.

  Lemma scan_ok_model cap r s : Inv names_of cap s -> scan_ok r s (view_of (scan_view r s)) = true.
  Proof.
    intros HI. unfold scan_ok, view_of. rewrite map_map. cbn [fst].
    change (map (fun x : cert => c_hash x) (scan_view r s)) with (map c_hash (scan_view r s)).
    repeat (apply andb_true_iff; split).
    - apply nodup_b_NoDup. unfold scan_view. apply NoDup_map_filter.
      pose proof (inv_nodup _ _ s HI) as Hnd. rewrite <- (cached_hashes_are_keys cap s HI) in Hnd. exact Hnd.
    - apply forallb_forall. intros p Hin. apply in_map_iff in Hin. destruct Hin as (c & <- & Hc). cbn [fst snd].
      apply (scan_view_exact names_of cap s r c HI) in Hc. destruct Hc as [Ec Hsel].
      rewrite Ec, Hsel, strs_eqb_refl. reflexivity.
    - apply forallb_forall. intros [k c] Hin. cbn [fst snd].
      destruct (scan_sel r c) eqn:Hsel; [|reflexivity]. cbn [negb orb].
      apply mem_str_In. apply In_alookup in Hin; [|apply (inv_nodup _ _ s HI)].
      destruct (inv_cert _ _ s HI k c Hin) as (Hh & _). subst k.
      apply in_map. apply (scan_view_exact names_of cap s r c HI). auto.
  Qed.

  (** ---- removals: what disappears from the cache map ---- *)
  Lemma remove_hashes_lookup cap hs : forall s, Inv names_of cap s -> forall k,
    alookup k (cache (remove_hashes hs s)) = if mem_str k hs then None else alookup k (cache s).
  Proof.
    unfold remove_hashes. induction hs as [|h hs IH]; intros s HI k; [reflexivity|].
    cbn [fold_left]. rewrite IH by (apply remove_cached_inv; exact HI).
    rewrite alookup_remove_cert. unfold mem_str at 2. cbn [existsb]. fold (mem_str k hs).
    destruct (mem_str k hs); [rewrite orb_true_r; reflexivity|]. rewrite orb_false_r.
    unfold cache_get. destruct (alookup h (cache s)) as [c|] eqn:E.
    - destruct (inv_cert _ _ s HI h c E) as (Hh & _). rewrite Hh, (str_eqb_sym k h). reflexivity.
    - cbn [zero_cert c_hash].
      assert (Hnil : alookup [] (cache s) = None).
      { pose proof (inv_not_mem_nil names_of cap s HI) as Hn. unfold amem in Hn.
        destruct (alookup [] (cache s)); [discriminate | reflexivity]. }
      destruct (str_eqb_spec [] k) as [<-|Hne].
      + rewrite Hnil. destruct (str_eqb [] h); reflexivity.
      + destruct (str_eqb_spec k h) as [->|Hne']; [exact E | reflexivity].
  Qed.

  Lemma managed_queue_mem cap s sj k c : Inv names_of cap s -> alookup k (cache s) = Some c ->
    mem_str k (managed_queue s sj) = managed_gone sj k c.
  Proof.
    intros HI Ek. destruct (inv_cert _ _ s HI k c Ek) as (Hh & _).
    apply Bool.eq_iff_eq_true. rewrite mem_str_In. unfold managed_queue, managed_gone.
    rewrite in_flat_map, andb_true_iff, existsb_exists. split.
    - intros (p & Hp & Hin). apply in_map_iff in Hin. destruct Hin as (c' & Hc' & Hf).
      apply filter_In in Hf. destruct Hf as [Hg Hsel].
      apply (lookup_exact names_of cap s HI) in Hg. destruct Hg as [Ec' Hn].
      rewrite Hc', Ek in Ec'. injection Ec' as <-.
      apply andb_true_iff in Hsel. destruct Hsel as [Hm Hi]. split; [exact Hm|].
      exists p. split; [exact Hp|]. apply andb_true_iff. split; [apply mem_str_In; exact Hn | exact Hi].
    - intros (Hm & p & Hp & Hsel). apply andb_true_iff in Hsel. destruct Hsel as [Hn Hi].
      exists p. split; [exact Hp|]. apply in_map_iff. exists c. split; [exact Hh|].
      apply filter_In. split.
      + apply (lookup_exact names_of cap s HI). rewrite Hh. split; [exact Ek | apply mem_str_In; exact Hn].
      + apply andb_true_iff. split; assumption.
  Qed.

  Lemma removal_ok_of_lookup cap gone (goneb : hash -> bool) s s' :
    Inv names_of cap s -> NoDup (akeys (cache s')) ->
    (forall k, alookup k (cache s') = if goneb k then None else alookup k (cache s)) ->
    (forall k c, alookup k (cache s) = Some c -> gone k c = goneb k) ->
    removal_ok gone s s' = true.
  Proof.
    intros HI Hnd Hl Hg. unfold removal_ok. apply andb_true_iff. split.
    - apply forallb_forall. intros [k x] Hin. cbn [fst snd].
      apply In_alookup in Hin; [|exact Hnd]. rewrite Hl in Hin.
      destruct (goneb k) eqn:Eg; [discriminate|]. rewrite Hin, cert_eqb_refl, (Hg k x Hin), Eg. reflexivity.
    - apply forallb_forall. intros [k c] Hin. cbn [fst snd].
      apply In_alookup in Hin; [|apply (inv_nodup _ _ s HI)].
      rewrite (Hg k c Hin). destruct (goneb k) eqn:Eg; [reflexivity|]. cbn [orb].
      apply amem_alookup. exists c. rewrite Hl, Eg. exact Hin.
  Qed.

  Lemma step_spec_model d o :
    DInv names_of d -> wf_dop names_of o -> step_spec_b (d_st d) (wstep_of d o) (d_st (dstep d o)) = true.
  Proof.
    intros HI Hwf. destruct o as [o|z vs|q| |r]; cbn [wstep_of step_spec_b dstep d_st].
    - destruct o as [c v|c|old new v|hs|sj|c|upd|h v]; cbn [step].
      + unfold add_ok. rewrite (readd_ok_model (d_cap d)) by exact HI. apply add_cert_cached.
      + (* removeCertificate(copy) *)
        apply (removal_ok_of_lookup (d_cap d) _ (fun k => str_eqb k (c_hash c))); [exact HI | | |reflexivity].
        * apply (inv_nodup names_of (d_cap d)). apply (step_inv names_of (d_cap d) _ (ORemoveCert c)); [exact HI | exact Hwf].
        * intros k. rewrite alookup_remove_cert, (str_eqb_sym k). reflexivity.
      + unfold replace_ok, replace_cert. rewrite add_cert_cached. cbn [andb].
        destruct (str_eqb_spec (c_hash old) (c_hash new)) as [Heq|Hne]; [reflexivity|]. cbn [orb].
        apply negb_true_iff. destruct (amem (c_hash old) (cache (add_cert (d_cap d) new v (remove_cert old (d_st d))))) eqn:Em; [|reflexivity].
        apply add_cert_only_adds in Em. destruct Em as [Em|Em]; [congruence|].
        cbn [remove_cert cache] in Em. rewrite amem_adelete, str_eqb_refl in Em. discriminate.
      + (* Cache.Remove(hashes) *)
        apply (removal_ok_of_lookup (d_cap d) _ (fun k => mem_str k hs)); [exact HI | | |reflexivity].
        * apply (inv_nodup names_of (d_cap d)), remove_hashes_inv, HI.
        * intros k. apply (remove_hashes_lookup (d_cap d)), HI.
      + (* Cache.RemoveManaged(subjects) *)
        unfold remove_managed.
        apply (removal_ok_of_lookup (d_cap d) _ (fun k => mem_str k (managed_queue (d_st d) sj))); [exact HI | | |].
        * apply (inv_nodup names_of (d_cap d)), remove_hashes_inv, HI.
        * intros k. apply (remove_hashes_lookup (d_cap d)), HI.
        * intros k c E. symmetry. apply (managed_queue_mem (d_cap d)); [exact HI | exact E].
      + apply (writeback_ok_of_rel P_ocsp same_but_ocsp P_ocsp_refl P_ocsp_pb (d_cap d)); [exact HI|].
        apply (same_but_wb_rel P_ocsp (fun e => set_ocsp e (c_ocsp c))); [|apply write_back_effect].
        intros e. destruct e; reflexivity.
      + apply (writeback_ok_of_rel P_ocsp same_but_ocsp P_ocsp_refl P_ocsp_pb (d_cap d)); [exact HI|].
        apply set_ocsp_fold_rel.
      + apply (writeback_ok_of_rel P_ari same_but_ari P_ari_refl P_ari_pb (d_cap d)); [exact HI|].
        apply (same_but_wb_rel P_ari (fun e => set_ari e v)); [|apply set_ari_at_effect].
        intros e. destruct e; reflexivity.
    - apply setcap_ok_model, HI.
    - rewrite (state_eqb_refl (d_cap d)) by exact HI. apply (query_ok_model (d_cap d)), HI.
    - apply (state_eqb_refl (d_cap d)), HI.
    - rewrite (state_eqb_refl (d_cap d)) by exact HI. apply (scan_ok_model (d_cap d)), HI.
  Qed.

  Lemma cap_after_model d o : cap_after (d_cap d) (wstep_of d o) = d_cap (dstep d o).
  Proof.
    destruct o as [o|z vs|q| |r]; cbn [wstep_of cap_after dstep d_cap]; try reflexivity.
    unfold set_capacity. cbn [d_cap]. symmetry. apply clamp_cap_eq.
  Qed.

  Lemma steps_spec_model bn bh ops : forall d,
    DInv names_of d -> Forall (wf_dop names_of) ops ->
    steps_spec names_of bn bh (d_cap d) (d_st d) (model_steps d ops) = true.
  Proof.
    induction ops as [|o ops IH]; intros d HI Hwf; [reflexivity|].
    inversion Hwf as [|? ? Ho Hops]; subst. cbn [model_steps steps_spec].
    assert (HI' : DInv names_of (dstep d o)) by (apply dstep_inv; assumption).
    rewrite cap_after_model, (inv_b_complete names_of _ _ _ _ HI'), step_spec_model by assumption.
    cbn [andb]. apply IH; assumption.
  Qed.
End Spec.

Theorem spec_ok_of_model cap pool ops queries :
  Forall (wf_dop (names_of_pool (case_certs_of pool ops))) ops ->
  spec_ok (model_case cap pool ops queries) = true.
Proof.
  intros Hwf. unfold spec_ok. rewrite case_certs_model.
  set (nm := names_of_pool (case_certs_of pool ops)) in *.
  assert (HI0 : DInv nm (dinit cap)) by apply dinv_init.
  cbn [k_cap k_steps k_queries model_case].
  apply andb_true_iff; split.
  - apply (steps_spec_model nm _ _ ops (dinit cap)); assumption.
  - unfold final_obs. cbn [k_steps model_case].
    change init with (d_st (dinit cap)). rewrite final_obs_model.
    apply forallb_forall. intros qr Hin. apply in_map_iff in Hin. destruct Hin as (q & <- & _).
    apply (query_ok_model nm (d_cap (drun (dinit cap) ops))). apply drun_inv; assumption.
Qed.
