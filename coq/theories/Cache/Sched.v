(** C12, schedules.  The composite operations of the code (RemoveManaged, the handshake's OCSP
    refresh, reloadManagedCertificate, the maintenance passes, AllMatchingCertificates) are not
    atomic: they read under the lock, work outside it, and come back with what they read.  Here they
    are programs whose steps are the critical sections of [certCache.mu]; a read hands the values it
    saw to the rest of the program.  Any number of such threads run under an arbitrary scheduler,
    over the state WITH its run-time capacity ([dstate]: SetOptions is one of the steps).  Every
    schedule is a sequential history of the atomic operations of [Cache.Model] carrying (possibly
    stale) copies, and the invariant -- with the capacity configured at that moment -- holds at
    every point of every schedule. *)
From CM Require Import Lib.Str Cache.Model Cache.AMapFacts Cache.Proofs.
From Coq Require Import Arith.
Open Scope nat_scope.

Inductive prog :=
| PDone
| PAct (o : dop) (k : prog)                          (* a critical section of Cache.Model.dop *)
| PReadCert (h : hash) (k : cert -> prog)           (* certCache.cache[h] (zero value if absent) *)
| PReadName (n : name) (k : list cert -> prog)      (* getAllMatchingCerts(n) *)
| PReadAll (k : list cert -> prog)                  (* getAllCerts *)
| PScan (renew : bool) (k : list cert -> prog).     (* the scan of a maintenance pass under RLock:
                                                       the certificates it shows to the ConfigGetter *)

Definition thread_step (d : dstate) (p : prog) : dstate * prog :=
  match p with
  | PDone => (d, PDone)
  | PAct o k => (dstep d o, k)
  | PReadCert h k => (d, k (cache_get (d_st d) h))
  | PReadName n k => (d, k (get_all_matching_certs (d_st d) n))
  | PReadAll k => (d, k (map snd (cache (d_st d))))
  | PScan r k => (d, k (scan_view r (d_st d)))
  end.

Fixpoint set_nth {A} (i : nat) (x : A) (l : list A) {struct l} : list A :=
  match l, i with
  | [], _ => []
  | _ :: r, O => x :: r
  | y :: r, S j => y :: set_nth j x r
  end.

(** the scheduler picks thread [i]; it runs one critical section *)
Definition sched_step (cfg : dstate * list prog) (i : nat) : dstate * list prog :=
  match nth_error (snd cfg) i with
  | Some p => let sp := thread_step (fst cfg) p in (fst sp, set_nth i (snd sp) (snd cfg))
  | None => cfg
  end.
Definition run_sched (sched : list nat) (cfg : dstate * list prog) : dstate * list prog :=
  fold_left sched_step sched cfg.

(** ---- the code paths as programs ---- *)
Definition managed_sel (sj : name * str) (c : cert) : bool :=
  c_managed c && (is_nil (snd sj) || str_eqb (c_issuer c) (snd sj)).
(** Cache.RemoveManaged: one read lock per subject, then Remove(queue) *)
Fixpoint prog_rm_collect (subjects : list (name * str)) (queue : list hash) : prog :=
  match subjects with
  | [] => PAct (DOp (ORemoveHashes queue)) PDone
  | sj :: r => PReadName (fst sj) (fun certs =>
                 prog_rm_collect r (queue ++ map c_hash (filter (managed_sel sj) certs)))
  end.
Definition prog_remove_managed (subjects : list (name * str)) : prog := prog_rm_collect subjects [].
(** handshakeMaintenance: the handshake's copy gets a new staple; under the lock the cached
    certificate is re-read and the staple stored into it *)
Definition prog_handshake_refresh (h : hash) (v : Z) : prog :=
  PReadCert h (fun c => PAct (DOp (OWriteBack (set_ocsp c v))) PDone).
(** reloadManagedCertificate(oldCert) after a renewal: oldCert was read earlier *)
Definition prog_reload (h : hash) (new : cert) (victim : option hash) : prog :=
  PReadCert h (fun old => PAct (DOp (OReplace old new victim)) PDone).
(** updateOCSPStaples: scan (getConfig per certificate), then one short write lock per update *)
Definition prog_ocsp_maintenance (upd : list (hash * Z)) : prog :=
  PScan false (fun _ => fold_right (fun hv k => PAct (DOp (OSetOCSP [hv])) k) PDone upd).
(** updateARI *)
Definition prog_update_ari (h : hash) (v : str) : prog :=
  PReadCert h (fun c => PAct (DOp (OSetARI (c_hash c) v)) PDone).
(** RenewManagedCertificates: scan (getConfig per managed certificate), then updateARI for the
    certificates the scan saw (the renewals / reloads it queues are [prog_reload]s of their own) *)
Definition prog_renew_maintenance (ari_of : hash -> str) : prog :=
  PScan true (fun certs =>
    fold_right (fun c k => PAct (DOp (OSetARI (c_hash c) (ari_of (c_hash c)))) k) PDone certs).
(** cacheCertificate, Cache.Remove *)
Definition prog_cache (c : cert) (victim : option hash) : prog := PAct (DOp (OAdd c victim)) PDone.
Definition prog_remove (hs : list hash) : prog := PAct (DOp (ORemoveHashes hs)) PDone.
(** removal of a copy read earlier (maintenance delete queue, on-demand policy refusal, failed
    renewal of a dynamically loaded certificate, revoked certificate that cannot be replaced) *)
Definition prog_remove_current (h : hash) : prog :=
  PReadCert h (fun c => PAct (DOp (ORemoveCert c)) PDone).
(** Cache.SetOptions, Cache.Stop *)
Definition prog_set_options (z : Z) (victims : list hash) : prog := PAct (DSetCap z victims) PDone.
Definition prog_stop : prog := PAct DStop PDone.
(** Cache.AllMatchingCertificates: one read lock per candidate name, results appended *)
Fixpoint prog_am_collect (names : list name) (acc : list cert) (ret : list cert -> prog) : prog :=
  match names with
  | [] => ret acc
  | n :: r => PReadName n (fun certs => prog_am_collect r (acc ++ certs) ret)
  end.
Definition prog_all_matching (q : name) (ret : list cert -> prog) : prog :=
  prog_am_collect (q :: wildcard_candidates q) [] ret.

Section Sched.
  Variable names_of : hash -> list name.
  Notation DInv := (DInv names_of).
  Notation wf_dop := (wf_dop names_of).
  Notation wf_copy := (wf_copy names_of).

  (** a program is well formed if, whatever (well-formed) values its reads return, the operations
      it performs carry well-formed certificates *)
  Inductive wf_prog : prog -> Prop :=
  | wf_done : wf_prog PDone
  | wf_act o k : wf_dop o -> wf_prog k -> wf_prog (PAct o k)
  | wf_readcert h k : (forall c, wf_copy c -> wf_prog (k c)) -> wf_prog (PReadCert h k)
  | wf_readname n k : (forall l, Forall wf_copy l -> wf_prog (k l)) -> wf_prog (PReadName n k)
  | wf_readall k : (forall l, Forall wf_copy l -> wf_prog (k l)) -> wf_prog (PReadAll k)
  | wf_scan r k : (forall l, Forall wf_copy l -> wf_prog (k l)) -> wf_prog (PScan r k).

  (** what a read returns is well formed *)
  Lemma cache_get_wf cap s h : Inv names_of cap s -> wf_copy (cache_get s h).
  Proof.
    intros HI. unfold cache_get. destruct (alookup h (cache s)) as [c|] eqn:E.
    - left. destruct (inv_cert _ _ s HI h c E) as (-> & -> & _). reflexivity.
    - right. reflexivity.
  Qed.
  Lemma all_cached_wf cap s : Inv names_of cap s -> Forall wf_copy (map snd (cache s)).
  Proof.
    intros HI. apply Forall_forall. intros c Hin. apply in_map_iff in Hin.
    destruct Hin as ([k c'] & <- & Hin). cbn.
    apply In_alookup in Hin; [|apply (inv_nodup _ _ s HI)].
    left. destruct (inv_cert _ _ s HI k c' Hin) as (-> & -> & _). reflexivity.
  Qed.

  Lemma thread_step_inv d p :
    DInv d -> wf_prog p -> DInv (fst (thread_step d p)) /\ wf_prog (snd (thread_step d p)).
  Proof.
    intros HI Hwf. destruct Hwf as [|o k Ho Hk|h k Hk|n k Hk|k Hk|r k Hk]; cbn [thread_step fst snd].
    - split; [exact HI | constructor].
    - split; [apply dstep_inv; assumption | exact Hk].
    - split; [exact HI|]. apply Hk, (cache_get_wf (d_cap d)), HI.
    - split; [exact HI|]. apply Hk. unfold get_all_matching_certs.
      apply Forall_forall. intros c Hin. apply in_map_iff in Hin. destruct Hin as (h & <- & _).
      apply (cache_get_wf (d_cap d)), HI.
    - split; [exact HI|]. apply Hk, (all_cached_wf (d_cap d)), HI.
    - split; [exact HI|]. apply Hk. unfold scan_view.
      pose proof (all_cached_wf (d_cap d) (d_st d) HI) as Hall. rewrite Forall_forall in *.
      intros c Hc. apply filter_In in Hc. apply Hall, Hc.
  Qed.

  Lemma Forall_set_nth {A} (P : A -> Prop) i x l : Forall P l -> P x -> Forall P (set_nth i x l).
  Proof.
    revert i. induction l as [|y l IH]; intros i Hl Hx; cbn; [constructor|].
    inversion Hl; subst. destruct i; constructor; auto.
  Qed.

  Lemma sched_step_inv cfg i :
    DInv (fst cfg) -> Forall wf_prog (snd cfg) ->
    DInv (fst (sched_step cfg i)) /\ Forall wf_prog (snd (sched_step cfg i)).
  Proof.
    intros HI Hwf. unfold sched_step. destruct (nth_error (snd cfg) i) as [p|] eqn:E; [|auto].
    assert (Hp : wf_prog p).
    { apply nth_error_In in E. rewrite Forall_forall in Hwf. auto. }
    destruct (thread_step_inv (fst cfg) p HI Hp) as [H1 H2]. cbn [fst snd].
    split; [exact H1 | apply Forall_set_nth; assumption].
  Qed.

  (** F: the invariant holds after every schedule of every pool of well-formed threads *)
  Theorem sched_inv sched : forall d pool,
    DInv d -> Forall wf_prog pool -> DInv (fst (run_sched sched (d, pool))).
  Proof.
    unfold run_sched.
    assert (H : forall cfg, DInv (fst cfg) -> Forall wf_prog (snd cfg) ->
              DInv (fst (fold_left sched_step sched cfg))).
    { induction sched as [|i sched IH]; intros cfg HI Hwf; cbn [fold_left]; [exact HI|].
      destruct (sched_step_inv cfg i HI Hwf) as [H1 H2]. apply IH; assumption. }
    intros d pool HI Hwf. apply H; assumption.
  Qed.

  (** atomic_ops_serialize: every schedule is a sequential history of well-formed operations *)
  Theorem sched_serializes sched : forall d pool,
    DInv d -> Forall wf_prog pool ->
    exists ops, Forall wf_dop ops /\ fst (run_sched sched (d, pool)) = drun d ops.
  Proof.
    unfold run_sched.
    assert (H : forall cfg, DInv (fst cfg) -> Forall wf_prog (snd cfg) ->
              exists ops, Forall wf_dop ops /\
                fst (fold_left sched_step sched cfg) = drun (fst cfg) ops).
    { induction sched as [|i sched IH]; intros cfg HI Hwf; cbn [fold_left].
      - exists []. split; [constructor | reflexivity].
      - destruct (sched_step_inv cfg i HI Hwf) as [H1 H2].
        destruct (IH _ H1 H2) as (ops & Hops & Heq). rewrite Heq.
        unfold sched_step in *. destruct (nth_error (snd cfg) i) as [p|] eqn:E.
        + assert (Hp : wf_prog p).
          { apply nth_error_In in E. rewrite Forall_forall in Hwf. auto. }
          cbn [fst]. destruct Hp as [|o k Ho Hk|h k Hk|n k Hk|k Hk|r k Hk]; cbn [thread_step fst].
          * exists ops. auto.
          * exists (o :: ops). split; [constructor; assumption | reflexivity].
          * exists ops. auto.
          * exists ops. auto.
          * exists ops. auto.
          * exists ops. auto.
        + exists ops. auto. }
    intros d pool HI Hwf. apply (H (d, pool)); assumption.
  Qed.

  (** ---- the code paths are well-formed programs ---- *)
  Lemma rm_collect_wf subjects : forall queue, wf_prog (prog_rm_collect subjects queue).
  Proof.
    induction subjects as [|sj r IH]; intros queue; cbn [prog_rm_collect].
    - constructor; [exact I | constructor].
    - constructor. intros l _. apply IH.
  Qed.
  Lemma am_collect_wf names ret :
    (forall l, Forall wf_copy l -> wf_prog (ret l)) ->
    forall acc, Forall wf_copy acc -> wf_prog (prog_am_collect names acc ret).
  Proof.
    intros Hret. induction names as [|n r IH]; intros acc Hacc; cbn [prog_am_collect].
    - apply Hret, Hacc.
    - constructor. intros l Hl. apply IH. apply Forall_app. auto.
  Qed.

  Theorem code_paths_wf :
    (forall subjects, wf_prog (prog_remove_managed subjects)) /\
    (forall h v, wf_prog (prog_handshake_refresh h v)) /\
    (forall h new victim, wf_cert names_of new -> wf_prog (prog_reload h new victim)) /\
    (forall upd, wf_prog (prog_ocsp_maintenance upd)) /\
    (forall h v, wf_prog (prog_update_ari h v)) /\
    (forall c victim, wf_cert names_of c -> wf_prog (prog_cache c victim)) /\
    (forall hs, wf_prog (prog_remove hs)) /\
    (forall h, wf_prog (prog_remove_current h)) /\
    (forall z victims, wf_prog (prog_set_options z victims)) /\
    wf_prog prog_stop /\
    (forall ari_of, wf_prog (prog_renew_maintenance ari_of)) /\
    (forall q ret, (forall l, Forall wf_copy l -> wf_prog (ret l)) -> wf_prog (prog_all_matching q ret)).
  Proof.
    repeat split.
    - intros subjects. apply rm_collect_wf.
    - intros h v. constructor. intros c Hc. constructor; [exact Hc | constructor].
    - intros h new victim Hn. constructor. intros c Hc. constructor; [split; assumption | constructor].
    - intros upd. constructor. intros l _. induction upd as [|hv upd IH]; cbn [fold_right].
      + constructor.
      + constructor; [exact I | exact IH].
    - intros h v. constructor. intros c Hc. constructor; [exact I | constructor].
    - intros c victim Hc. constructor; [exact Hc | constructor].
    - intros hs. constructor; [exact I | constructor].
    - intros h. constructor. intros c Hc. constructor; [exact Hc | constructor].
    - intros z victims. constructor; [exact I | constructor].
    - constructor; [exact I | constructor].
    - intros ari_of. constructor. intros l _. induction l as [|c l IH]; cbn [fold_right].
      + constructor.
      + constructor; [exact I | exact IH].
    - intros q ret Hret. apply am_collect_wf; [exact Hret | constructor].
  Qed.
End Sched.

(** RemoveManaged run without interference is the model's [remove_managed] *)
Lemma rm_collect_alone d subjects : forall queue,
  exists n, fst (run_sched (repeat 0 n) (d, [prog_rm_collect subjects queue])) =
            DSt (d_cap d) (remove_hashes (queue ++ managed_queue (d_st d) subjects) (d_st d)).
Proof.
  induction subjects as [|sj r IH]; intros queue.
  - exists 1. cbn. rewrite app_nil_r. reflexivity.
  - destruct (IH (queue ++ map c_hash (filter (managed_sel sj) (get_all_matching_certs (d_st d) (fst sj))))) as [n Hn].
    exists (S n). cbn [repeat run_sched fold_left]. unfold run_sched in Hn.
    cbn [sched_step nth_error snd fst thread_step prog_rm_collect set_nth].
    rewrite Hn. unfold managed_queue. cbn [flat_map]. rewrite <- app_assoc. reflexivity.
Qed.
Theorem remove_managed_alone d subjects :
  exists n, fst (run_sched (repeat 0 n) (d, [prog_remove_managed subjects])) =
            dstep d (DOp (ORemoveManaged subjects)).
Proof. destruct (rm_collect_alone d subjects []) as [n Hn]. exists n. exact Hn. Qed.

(** AllMatchingCertificates run without interference hands the model's [all_matching] to its caller
    and leaves the state alone *)
Lemma am_collect_alone d ret names : forall acc,
  exists n, run_sched (repeat 0 n) (d, [prog_am_collect names acc ret]) =
            (d, [ret (acc ++ flat_map (get_all_matching_certs (d_st d)) names)]).
Proof.
  induction names as [|x r IH]; intros acc.
  - exists 0. cbn. rewrite app_nil_r. reflexivity.
  - destruct (IH (acc ++ get_all_matching_certs (d_st d) x)) as [n Hn].
    exists (S n). cbn [repeat run_sched fold_left]. unfold run_sched in Hn.
    cbn [sched_step nth_error snd fst thread_step prog_am_collect set_nth].
    rewrite Hn. cbn [flat_map]. rewrite <- app_assoc. reflexivity.
Qed.
Theorem all_matching_alone d q ret :
  exists n, run_sched (repeat 0 n) (d, [prog_all_matching q ret]) = (d, [ret (all_matching (d_st d) q)]).
Proof. destruct (am_collect_alone d ret (q :: wildcard_candidates q) []) as [n Hn]. exists n. exact Hn. Qed.
