(** C12, schedules.  The composite operations of the code (RemoveManaged, the handshake's OCSP
    refresh, reloadManagedCertificate, the maintenance passes) are not atomic: they read under the
    lock, work outside it, and come back with what they read.  Here they are programs whose steps
    are the critical sections of [certCache.mu]; a read hands the values it saw to the rest of the
    program.  Any number of such threads run under an arbitrary scheduler.  Every schedule is a
    sequential history of the atomic operations of [Cache.Model] carrying (possibly stale) copies,
    and the invariant holds at every point of every schedule. *)
From CM Require Import Lib.Str Cache.Model Cache.AMapFacts Cache.Proofs.
From Coq Require Import Arith.
Open Scope nat_scope.

Inductive prog :=
| PDone
| PAct (o : op) (k : prog)                          (* a mutating critical section *)
| PReadCert (h : hash) (k : cert -> prog)           (* certCache.cache[h] (zero value if absent) *)
| PReadName (n : name) (k : list cert -> prog)      (* getAllMatchingCerts(n) *)
| PReadAll (k : list cert -> prog).                 (* getAllCerts / the scans of maintain.go *)

Definition thread_step (cap : nat) (s : state) (p : prog) : state * prog :=
  match p with
  | PDone => (s, PDone)
  | PAct o k => (step cap s o, k)
  | PReadCert h k => (s, k (cache_get s h))
  | PReadName n k => (s, k (get_all_matching_certs s n))
  | PReadAll k => (s, k (map snd (cache s)))
  end.

Fixpoint set_nth {A} (i : nat) (x : A) (l : list A) {struct l} : list A :=
  match l, i with
  | [], _ => []
  | _ :: r, O => x :: r
  | y :: r, S j => y :: set_nth j x r
  end.

(** the scheduler picks thread [i]; it runs one critical section *)
Definition sched_step (cap : nat) (cfg : state * list prog) (i : nat) : state * list prog :=
  match nth_error (snd cfg) i with
  | Some p => let sp := thread_step cap (fst cfg) p in (fst sp, set_nth i (snd sp) (snd cfg))
  | None => cfg
  end.
Definition run_sched (cap : nat) (sched : list nat) (cfg : state * list prog) : state * list prog :=
  fold_left (sched_step cap) sched cfg.

(** what one step contributes to the sequential history *)
Definition step_ops (p : prog) : list op := match p with PAct o _ => [o] | _ => [] end.

(** ---- the code paths as programs ---- *)
Definition managed_sel (sj : name * str) (c : cert) : bool :=
  c_managed c && (is_nil (snd sj) || str_eqb (c_issuer c) (snd sj)).
(** Cache.RemoveManaged: one read lock per subject, then Remove(queue) *)
Fixpoint prog_rm_collect (subjects : list (name * str)) (queue : list hash) : prog :=
  match subjects with
  | [] => PAct (ORemoveHashes queue) PDone
  | sj :: r => PReadName (fst sj) (fun certs =>
                 prog_rm_collect r (queue ++ map c_hash (filter (managed_sel sj) certs)))
  end.
Definition prog_remove_managed (subjects : list (name * str)) : prog := prog_rm_collect subjects [].
(** handshakeMaintenance: the handshake's copy gets a new staple and is written back (guarded) *)
Definition prog_handshake_refresh (h : hash) (v : Z) : prog :=
  PReadCert h (fun c => PAct (OWriteBack (set_ocsp c v)) PDone).
(** reloadManagedCertificate(oldCert) after a renewal: oldCert was read earlier *)
Definition prog_reload (h : hash) (new : cert) (victim : option hash) : prog :=
  PReadCert h (fun old => PAct (OReplace old new victim) PDone).
(** updateOCSPStaples: scan, then one short write lock per updated certificate *)
Definition prog_ocsp_maintenance (upd : list (hash * Z)) : prog :=
  PReadAll (fun _ => fold_right (fun hv k => PAct (OSetOCSP [hv]) k) PDone upd).
(** updateARI *)
Definition prog_update_ari (h : hash) (v : str) : prog :=
  PReadCert h (fun c => PAct (OSetARI (c_hash c) v) PDone).
(** cacheCertificate, Cache.Remove *)
Definition prog_cache (c : cert) (victim : option hash) : prog := PAct (OAdd c victim) PDone.
Definition prog_remove (hs : list hash) : prog := PAct (ORemoveHashes hs) PDone.
(** removal of a copy read earlier (maintenance delete queue, on-demand policy refusal, failed
    renewal of a dynamically loaded certificate, revoked certificate that cannot be replaced) *)
Definition prog_remove_current (h : hash) : prog :=
  PReadCert h (fun c => PAct (ORemoveCert c) PDone).

Section Sched.
  Variable names_of : hash -> list name.
  Variable cap : nat.
  Notation Inv := (Inv names_of cap).
  Notation wf_op := (wf_op names_of).
  Notation wf_copy := (wf_copy names_of).

  (** a program is well formed if, whatever (well-formed) values its reads return, the operations
      it performs carry well-formed certificates *)
  Inductive wf_prog : prog -> Prop :=
  | wf_done : wf_prog PDone
  | wf_act o k : wf_op o -> wf_prog k -> wf_prog (PAct o k)
  | wf_readcert h k : (forall c, wf_copy c -> wf_prog (k c)) -> wf_prog (PReadCert h k)
  | wf_readname n k : (forall l, Forall wf_copy l -> wf_prog (k l)) -> wf_prog (PReadName n k)
  | wf_readall k : (forall l, Forall wf_copy l -> wf_prog (k l)) -> wf_prog (PReadAll k).

  (** what a read returns is well formed *)
  Lemma cache_get_wf s h : Inv s -> wf_copy (cache_get s h).
  Proof.
    intros HI. unfold cache_get. destruct (alookup h (cache s)) as [c|] eqn:E.
    - left. destruct (inv_cert _ _ s HI h c E) as (-> & -> & _). reflexivity.
    - right. reflexivity.
  Qed.
  Lemma all_cached_wf s : Inv s -> Forall wf_copy (map snd (cache s)).
  Proof.
    intros HI. apply Forall_forall. intros c Hin. apply in_map_iff in Hin.
    destruct Hin as ([k c'] & <- & Hin). cbn.
    apply In_alookup in Hin; [|apply (inv_nodup _ _ s HI)].
    left. destruct (inv_cert _ _ s HI k c' Hin) as (-> & -> & _). reflexivity.
  Qed.

  Lemma thread_step_inv s p :
    Inv s -> wf_prog p -> Inv (fst (thread_step cap s p)) /\ wf_prog (snd (thread_step cap s p)).
  Proof.
    intros HI Hwf. destruct Hwf as [|o k Ho Hk|h k Hk|n k Hk|k Hk]; cbn [thread_step fst snd].
    - split; [exact HI | constructor].
    - split; [apply step_inv; assumption | exact Hk].
    - split; [exact HI|]. apply Hk, cache_get_wf, HI.
    - split; [exact HI|]. apply Hk. unfold get_all_matching_certs.
      apply Forall_forall. intros c Hin. apply in_map_iff in Hin. destruct Hin as (h & <- & _).
      apply cache_get_wf, HI.
    - split; [exact HI|]. apply Hk, all_cached_wf, HI.
  Qed.

  Lemma Forall_set_nth {A} (P : A -> Prop) i x l : Forall P l -> P x -> Forall P (set_nth i x l).
  Proof.
    revert i. induction l as [|y l IH]; intros i Hl Hx; cbn; [constructor|].
    inversion Hl; subst. destruct i; constructor; auto.
  Qed.

  Lemma sched_step_inv cfg i :
    Inv (fst cfg) -> Forall wf_prog (snd cfg) ->
    Inv (fst (sched_step cap cfg i)) /\ Forall wf_prog (snd (sched_step cap cfg i)).
  Proof.
    intros HI Hwf. unfold sched_step. destruct (nth_error (snd cfg) i) as [p|] eqn:E; [|auto].
    assert (Hp : wf_prog p).
    { apply nth_error_In in E. rewrite Forall_forall in Hwf. auto. }
    destruct (thread_step_inv (fst cfg) p HI Hp) as [H1 H2]. cbn [fst snd].
    split; [exact H1 | apply Forall_set_nth; assumption].
  Qed.

  (** F: the invariant holds after every schedule of every pool of well-formed threads *)
  Theorem sched_inv sched : forall s pool,
    Inv s -> Forall wf_prog pool -> Inv (fst (run_sched cap sched (s, pool))).
  Proof.
    unfold run_sched.
    assert (H : forall cfg, Inv (fst cfg) -> Forall wf_prog (snd cfg) ->
              Inv (fst (fold_left (sched_step cap) sched cfg))).
    { induction sched as [|i sched IH]; intros cfg HI Hwf; cbn [fold_left]; [exact HI|].
      destruct (sched_step_inv cfg i HI Hwf) as [H1 H2]. apply IH; assumption. }
    intros s pool HI Hwf. apply H; assumption.
  Qed.

  (** atomic_ops_serialize: every schedule is a sequential history of well-formed operations *)
  Theorem sched_serializes sched : forall s pool,
    Inv s -> Forall wf_prog pool ->
    exists ops, Forall wf_op ops /\ fst (run_sched cap sched (s, pool)) = run cap s ops.
  Proof.
    unfold run_sched.
    assert (H : forall cfg, Inv (fst cfg) -> Forall wf_prog (snd cfg) ->
              exists ops, Forall wf_op ops /\
                fst (fold_left (sched_step cap) sched cfg) = run cap (fst cfg) ops).
    { induction sched as [|i sched IH]; intros cfg HI Hwf; cbn [fold_left].
      - exists []. split; [constructor | reflexivity].
      - destruct (sched_step_inv cfg i HI Hwf) as [H1 H2].
        destruct (IH _ H1 H2) as (ops & Hops & Heq). rewrite Heq.
        unfold sched_step in *. destruct (nth_error (snd cfg) i) as [p|] eqn:E.
        + assert (Hp : wf_prog p).
          { apply nth_error_In in E. rewrite Forall_forall in Hwf. auto. }
          cbn [fst]. destruct Hp as [|o k Ho Hk|h k Hk|n k Hk|k Hk]; cbn [thread_step fst].
          * exists ops. auto.
          * exists (o :: ops). split; [constructor; assumption | reflexivity].
          * exists ops. auto.
          * exists ops. auto.
          * exists ops. auto.
        + exists ops. auto. }
    intros s pool HI Hwf. apply (H (s, pool)); assumption.
  Qed.

  (** ---- the code paths are well-formed programs ---- *)
  Lemma rm_collect_wf subjects : forall queue, wf_prog (prog_rm_collect subjects queue).
  Proof.
    induction subjects as [|sj r IH]; intros queue; cbn [prog_rm_collect].
    - constructor; [exact I | constructor].
    - constructor. intros l _. apply IH.
  Qed.

  Theorem code_paths_wf :
    (forall subjects, wf_prog (prog_remove_managed subjects)) /\
    (forall h v, wf_prog (prog_handshake_refresh h v)) /\
    (forall h new victim, wf_cert names_of new -> wf_prog (prog_reload h new victim)) /\
    (forall upd, wf_prog (prog_ocsp_maintenance upd)) /\
    (forall h v, wf_prog (prog_update_ari h v)) /\
    (forall c victim, wf_cert names_of c -> wf_prog (prog_cache c victim)) /\
    (forall hs, wf_prog (prog_remove hs)) /\
    (forall h, wf_prog (prog_remove_current h)).
  Proof.
    repeat split.
    - intros subjects. apply rm_collect_wf.
    - intros h v. constructor. intros c Hc. constructor; [exact Hc | constructor].
    - intros h new victim Hn. constructor. intros c Hc. constructor; [split; assumption | constructor].
    - intros upd. constructor. intros l _. induction upd as [|hv upd IH]; cbn [fold_right].
      + constructor.
      + constructor; [exact I | exact IH].
    - intros h v. constructor. intros c Hc. constructor; [exact I | constructor].
    - intros c victim Hc. constructor; [exact Hc | constructor].
    - intros hs. constructor; [exact I | constructor].
    - intros h. constructor. intros c Hc. constructor; [exact Hc | constructor].
  Qed.
End Sched.

(** RemoveManaged run without interference is the model's [remove_managed] *)
Lemma rm_collect_alone cap s subjects : forall queue,
  exists n, fst (run_sched cap (repeat 0 n) (s, [prog_rm_collect subjects queue])) =
            remove_hashes (queue ++ managed_queue s subjects) s.
Proof.
  induction subjects as [|sj r IH]; intros queue.
  - exists 1. cbn. rewrite app_nil_r. reflexivity.
  - destruct (IH (queue ++ map c_hash (filter (managed_sel sj) (get_all_matching_certs s (fst sj))))) as [n Hn].
    exists (S n). cbn [repeat run_sched fold_left]. unfold run_sched in Hn.
    cbn [sched_step nth_error snd fst thread_step prog_rm_collect set_nth].
    rewrite Hn. unfold managed_queue. cbn [flat_map]. rewrite <- app_assoc. reflexivity.
Qed.
Theorem remove_managed_alone cap s subjects :
  exists n, fst (run_sched cap (repeat 0 n) (s, [prog_remove_managed subjects])) = remove_managed subjects s.
Proof. destruct (rm_collect_alone cap s subjects []) as [n Hn]. exists n. exact Hn. Qed.
