(** Correspondence for C12: a case is one operation history run on the real certmagic.Cache:
    capacity, the certificate pool, the operations (with the eviction victim the implementation
    drew) each followed by the full observed contents of both maps, and the answers of
    AllMatchingCertificates at the end.  [check_line] replays the operations on the model and
    compares the states, and -- independently of the model's output -- evaluates the invariant
    and the lookup clauses on the implementation's observations. *)
From CM Require Import Lib.Str Lib.Wire Cache.Model.
Open Scope N_scope.

Record case := Case {
  k_cap : nat;
  k_pool : list cert;
  k_steps : list (option op * state);     (* operation (None: operations ran concurrently,
                                             unordered -- only the quiescent state is observed),
                                             state observed after it *)
  k_queries : list (name * list hash)     (* AllMatchingCertificates(name) -> hashes, at the end *)
}.

(** ---- wire ---- *)
Definition get_cert : dec cert :=
  (h <- get_str ;; ns <- get_list get_str ;; m <- get_bool ;; i <- get_str ;;
   t <- get_list get_str ;; o <- get_z ;; a <- get_str ;; ret (Cert h ns m i t o a))%Z.
Definition get_op : dec op :=
  (tag <- get_z ;;
   if tag =? 0 then c <- get_cert ;; v <- get_opt get_str ;; ret (OAdd c v)
   else if tag =? 1 then c <- get_cert ;; ret (ORemoveCert c)
   else if tag =? 2 then o <- get_cert ;; n <- get_cert ;; v <- get_opt get_str ;; ret (OReplace o n v)
   else if tag =? 3 then hs <- get_list get_str ;; ret (ORemoveHashes hs)
   else if tag =? 4 then sj <- get_list (get_pair get_str get_str) ;; ret (ORemoveManaged sj)
   else if tag =? 5 then c <- get_cert ;; ret (OWriteBack c)
   else if tag =? 6 then u <- get_list (get_pair get_str get_z) ;; ret (OSetOCSP u)
   else if tag =? 7 then h <- get_str ;; v <- get_str ;; ret (OSetARI h v)
   else (fun _ => None))%Z.
(** tag 8: a batch of operations that ran concurrently (free-running goroutines); their order
    is unknown, the model adopts the quiescent state, the specification is evaluated on it *)
Definition get_step_op : dec (option op) :=
  (fun l => match l with
            | 8%Z :: r => Some (None, r)
            | _ => match get_op l with Some (o, r) => Some (Some o, r) | None => None end
            end).
Definition get_state : dec state :=
  (c <- get_list (get_pair get_str get_cert) ;;
   i <- get_list (get_pair get_str (get_list get_str)) ;; ret (St c i))%Z.
Definition get_case : dec case :=
  (cap <- get_nat ;; pool <- get_list get_cert ;;
   steps <- get_list (get_pair get_step_op get_state) ;;
   qs <- get_list (get_pair get_str (get_list get_str)) ;;
   ret (Case cap pool steps qs))%Z.

(** ---- comparison of a model state with an observed one (as maps) ---- *)
Definition amap_eqb {V} (veq : V -> V -> bool) (m obs : amap V) : bool :=
  Nat.eqb (length m) (length obs) &&
  forallb (fun kv => match alookup (fst kv) m with Some v => veq v (snd kv) | None => false end) obs.
Definition state_eqb (m obs : state) : bool :=
  amap_eqb cert_eqb (cache m) (cache obs) && amap_eqb strs_eqb (index m) (index obs).

(** model side: replay, compare after every operation; 0 = agrees *)
Fixpoint replay (cap : nat) (s : state) (steps : list (option op * state)) : list bool * state :=
  match steps with
  | [] => ([], s)
  | (Some o, obs) :: r =>
      let s' := step cap s o in
      let (bs, sf) := replay cap s' r in
      (state_eqb s' obs :: bs, sf)
  | (None, obs) :: r =>
      let (bs, sf) := replay cap obs r in (true :: bs, sf)
  end.

Definition model_agrees (c : case) : bool :=
  let (bs, sf) := replay (k_cap c) init (k_steps c) in
  forallb (fun b => b) bs &&
  forallb (fun q => strs_eqb (map c_hash (all_matching sf (fst q))) (snd q)) (k_queries c).

(** ---- specification side: evaluated on the observations only ---- *)
Definition names_of_pool (pool : list cert) (h : hash) : list name :=
  match find (fun c => str_eqb (c_hash c) h) pool with Some c => c_names c | None => [] end.

Definition certs_of_op (o : op) : list cert :=
  match o with
  | OAdd c _ | ORemoveCert c | OWriteBack c => [c]
  | OReplace a b _ => [a; b]
  | _ => []
  end.

(** the finite universe of names and hashes: those of the certificates the case mentions (pool
    and operations) plus, per observed state, the keys and values of its two maps.  A violation of
    the invariant can only involve such a pair (a hash outside has no names and is not cached). *)
Fixpoint dedup (l : list str) : list str :=
  match l with
  | [] => []
  | x :: r => if mem_str x r then dedup r else x :: dedup r
  end.
Definition certs_of_step (o : option op) : list cert :=
  match o with Some o => certs_of_op o | None => [] end.
Definition case_certs (c : case) : list cert :=
  k_pool c ++ flat_map (fun st => certs_of_step (fst st)) (k_steps c).
Definition base_names (c : case) : list name :=
  dedup (flat_map c_names (case_certs c) ++ map fst (k_queries c)).
Definition base_hashes (c : case) : list hash := dedup ([] :: map c_hash (case_certs c)).
Definition state_names (bn : list name) (s : state) : list name := dedup (bn ++ akeys (index s)).
Definition state_hashes (bh : list hash) (s : state) : list hash :=
  dedup (bh ++ akeys (cache s) ++ flat_map snd (index s)).

(** re-adding a cached certificate: same keys, same index, tags merged, nothing else changed *)
Definition incl_b (a b : list str) : bool := forallb (fun x => mem_str x b) a.
Definition readd_ok (prev : state) (c : cert) (next : state) : bool :=
  match alookup (c_hash c) (cache prev), alookup (c_hash c) (cache next) with
  | Some e, Some e' =>
      Nat.eqb (length (cache next)) (length (cache prev)) &&
      incl_b (akeys (cache next)) (akeys (cache prev)) &&
      amap_eqb strs_eqb (index next) (index prev) &&
      cert_eqb e' (set_tags e (c_tags e')) &&
      incl_b (c_tags e) (c_tags e') && incl_b (c_tags c) (c_tags e') &&
      incl_b (c_tags e') (c_tags e ++ c_tags c) &&
      forallb (fun kv => str_eqb (fst kv) (c_hash c) ||
                         match alookup (fst kv) (cache next) with
                         | Some x => cert_eqb x (snd kv) | None => false end) (cache prev)
  | Some _, None => false
  | None, _ => true
  end.
Definition step_spec_b (prev : state) (o : option op) (next : state) : bool :=
  match o with
  | Some (OAdd c _) => readd_ok prev c next
  | _ => true
  end.

Fixpoint steps_spec (prev : state) (steps : list (option op * state)) : bool :=
  match steps with
  | [] => true
  | (o, obs) :: r => step_spec_b prev o obs && steps_spec obs r
  end.

(** AllMatchingCertificates answered exactly the cached certificates listing the name or one of
    its wildcard candidates (both sides are observations: the public API and the map snapshot) *)
Definition covers_query (q : name) (c : cert) : bool :=
  existsb (fun n => mem_str n (c_names c)) (q :: wildcard_candidates q).
Definition query_ok (final : state) (q : name * list hash) : bool :=
  forallb (fun h => match alookup h (cache final) with
                    | Some c => covers_query (fst q) c | None => false end) (snd q) &&
  forallb (fun kv => negb (covers_query (fst q) (snd kv)) || mem_str (fst kv) (snd q)) (cache final).

Definition final_obs (c : case) : state := last (map snd (k_steps c)) init.

Definition spec_ok (c : case) : bool :=
  let nm := names_of_pool (case_certs c) in
  let bn := base_names c in
  let bh := base_hashes c in
  forallb (fun st => inv_b nm (k_cap c) (state_names bn (snd st)) (state_hashes bh (snd st)) (snd st)) (k_steps c) &&
  steps_spec init (k_steps c) &&
  forallb (query_ok (final_obs c)) (k_queries c).

Definition check_line (l : list Z) : Z :=
  match decode get_case l with
  | Some c => code (model_agrees c) (spec_ok c)
  | None => code_decode_error
  end.

(** diagnostics: per operation 0 = fine, 1 = model state differs, 2 = invariant / step clause
    fails on the observation, 3 = both; then per query 0/1/2/3 likewise *)
Definition explain_line (l : list Z) : list Z :=
  match decode get_case l with
  | Some c =>
      let nm := names_of_pool (case_certs c) in
      let bn := base_names c in
      let bh := base_hashes c in
      let (bs, sf) := replay (k_cap c) init (k_steps c) in
      let fix go (prev : state) (bs : list bool) (steps : list (option op * state)) : list Z :=
        match bs, steps with
        | b :: bs', (o, obs) :: r =>
            code b (inv_b nm (k_cap c) (state_names bn obs) (state_hashes bh obs) obs && step_spec_b prev o obs)
            :: go obs bs' r
        | _, _ => []
        end in
      go init bs (k_steps c) ++ [(-1)%Z] ++
      map (fun q => code (strs_eqb (map c_hash (all_matching sf (fst q))) (snd q))
                         (query_ok (final_obs c) q)) (k_queries c)
  | None => []
  end.
