(** Correspondence for C12: a case is one operation history run on the real certmagic.Cache:
    capacity, the certificate pool, the operations (with the eviction victim the implementation
    drew) each followed by the full observed contents of both maps, and the answers of
    AllMatchingCertificates at the end.  [check_line] replays the operations on the model and
    compares the states, and -- independently of the model's output -- evaluates the invariant
    and the lookup clauses on the implementation's observations. *)
From CM Require Import Lib.Str Lib.Wire Cache.Model.
Open Scope N_scope.

(** one step of a case: what was done, together with what the implementation answered / showed *)
Inductive wstep :=
| WOp (o : op)
| WBatch (cap_after : nat)                 (* operations ran concurrently, unordered: only the quiescent
                                              state (and the capacity then configured) is observed *)
| WSetCap (z : Z) (victims : list hash) (cap_obs : nat)   (* SetOptions(Capacity: z); observed: the
                                              certificates that disappeared, the capacity now in force *)
| WQuery (q : name) (ans : list hash)      (* AllMatchingCertificates(q) -> hashes *)
| WStop                                    (* Cache.Stop returned *)
| WScan (renew : bool) (seen : list (hash * list str)).   (* a maintenance scan: the (hash, tags) the
                                              ConfigGetter was shown *)

Record case := Case {
  k_cap : nat;                             (* the capacity the cache is created with *)
  k_pool : list cert;
  k_steps : list (wstep * state);          (* step, both maps observed after it *)
  k_queries : list (name * list hash)      (* AllMatchingCertificates(name) -> hashes, at the end *)
}.

(** ---- wire ---- *)
Definition get_cert : dec cert :=
  (h <- get_str ;; ns <- get_list get_str ;; m <- get_bool ;; i <- get_str ;;
   t <- get_list get_str ;; o <- get_z ;; a <- get_str ;; ret (Cert h ns m i t o a))%Z.
Definition get_op : dec op :=
  (tag <- get_z ;;
   if tag =? 0 then c <- get_cert ;; v <- get_opt get_str ;; ret (OAdd c v)
   else if tag =? 1 then c <- get_cert ;; ret (ORemoveCert c)
   else if tag =? 2 then o <- get_cert ;; n <- get_cert ;; v <- get_opt get_str ;; ret (OReplace o n v)
   else if tag =? 3 then hs <- get_list get_str ;; ret (ORemoveHashes hs)
   else if tag =? 4 then sj <- get_list (get_pair get_str get_str) ;; ret (ORemoveManaged sj)
   else if tag =? 5 then c <- get_cert ;; ret (OWriteBack c)
   else if tag =? 6 then u <- get_list (get_pair get_str get_z) ;; ret (OSetOCSP u)
   else if tag =? 7 then h <- get_str ;; v <- get_str ;; ret (OSetARI h v)
   else (fun _ => None))%Z.
(** tag 8: a batch of operations that ran concurrently (free-running goroutines); their order
    is unknown, the model adopts the quiescent state, the specification is evaluated on it;
    9 SetOptions, 10 AllMatchingCertificates, 11 Stop, 12 maintenance scan *)
Definition get_wstep : dec wstep :=
  (fun l => match l with
            | 8%Z :: r => (c <- get_nat ;; ret (WBatch c)) r
            | 9%Z :: r => (z <- get_z ;; vs <- get_list get_str ;; c <- get_nat ;; ret (WSetCap z vs c)) r
            | 10%Z :: r => (q <- get_str ;; a <- get_list get_str ;; ret (WQuery q a)) r
            | 11%Z :: r => Some (WStop, r)
            | 12%Z :: r => (b <- get_bool ;; seen <- get_list (get_pair get_str (get_list get_str)) ;; ret (WScan b seen)) r
            | _ => match get_op l with Some (o, r) => Some (WOp o, r) | None => None end
            end).
Definition get_state : dec state :=
  (c <- get_list (get_pair get_str get_cert) ;;
   i <- get_list (get_pair get_str (get_list get_str)) ;; ret (St c i))%Z.
Definition get_case : dec case :=
  (cap <- get_nat ;; pool <- get_list get_cert ;;
   steps <- get_list (get_pair get_wstep get_state) ;;
   qs <- get_list (get_pair get_str (get_list get_str)) ;;
   ret (Case cap pool steps qs))%Z.

(** ---- comparison of a model state with an observed one (as maps) ---- *)
Definition amap_eqb {V} (veq : V -> V -> bool) (m obs : amap V) : bool :=
  Nat.eqb (length m) (length obs) &&
  forallb (fun kv => match alookup (fst kv) m with Some v => veq v (snd kv) | None => false end) obs.
Definition state_eqb (m obs : state) : bool :=
  amap_eqb cert_eqb (cache m) (cache obs) && amap_eqb strs_eqb (index m) (index obs).

(** the (hash, tags) view of a scan *)
Definition view_of (l : list cert) : list (hash * list str) := map (fun c => (c_hash c, c_tags c)) l.
Definition view_eqb (m obs : list (hash * list str)) : bool :=
  Nat.eqb (length m) (length obs) && nodup_b (map fst obs) &&
  forallb (fun p => existsb (fun p' => str_eqb (fst p) (fst p') && strs_eqb (snd p) (snd p')) m) obs.

(** the model's step for a wire step, and what the model answers where the step has an answer *)
Definition dop_of (w : wstep) : dop :=
  match w with
  | WOp o => DOp o
  | WBatch _ => DStop
  | WSetCap z vs _ => DSetCap z vs
  | WQuery q _ => DQuery q
  | WStop => DStop
  | WScan r _ => DScan r
  end.
Definition answer_agrees (w : wstep) (d : dstate) : bool :=
  match w with
  | WSetCap _ _ c => Nat.eqb (d_cap d) c
  | WQuery q ans => strs_eqb (answer (d_st d) q) ans
  | WScan r seen => view_eqb (view_of (scan_view r (d_st d))) seen
  | _ => true
  end.

(** model side: replay, compare after every operation *)
Fixpoint replay (d : dstate) (steps : list (wstep * state)) : list bool * dstate :=
  match steps with
  | [] => ([], d)
  | (WBatch c, obs) :: r =>
      let (bs, df) := replay (DSt c obs) r in (true :: bs, df)
  | (w, obs) :: r =>
      let d' := dstep d (dop_of w) in
      let (bs, df) := replay d' r in
      ((state_eqb (d_st d') obs && answer_agrees w d') :: bs, df)
  end.

Definition model_agrees (c : case) : bool :=
  let (bs, df) := replay (dinit (k_cap c)) (k_steps c) in
  forallb (fun b => b) bs &&
  forallb (fun q => strs_eqb (answer (d_st df) (fst q)) (snd q)) (k_queries c).

(** ---- specification side: evaluated on the observations only ---- *)
Definition names_of_pool (pool : list cert) (h : hash) : list name :=
  match find (fun c => str_eqb (c_hash c) h) pool with Some c => c_names c | None => [] end.

Definition certs_of_op (o : op) : list cert :=
  match o with
  | OAdd c _ | ORemoveCert c | OWriteBack c => [c]
  | OReplace a b _ => [a; b]
  | _ => []
  end.

(** the finite universe of names and hashes: those of the certificates the case mentions (pool
    and operations) plus, per observed state, the keys and values of its two maps.  A violation of
    the invariant can only involve such a pair (a hash outside has no names and is not cached). *)
Fixpoint dedup (l : list str) : list str :=
  match l with
  | [] => []
  | x :: r => if mem_str x r then dedup r else x :: dedup r
  end.
Definition certs_of_step (w : wstep) : list cert :=
  match w with WOp o => certs_of_op o | _ => [] end.
Definition case_certs (c : case) : list cert :=
  k_pool c ++ flat_map (fun st => certs_of_step (fst st)) (k_steps c).
Definition base_names (c : case) : list name :=
  dedup (flat_map c_names (case_certs c) ++ map fst (k_queries c) ++
         flat_map (fun st => match fst st with WQuery q _ => [q] | _ => [] end) (k_steps c)).
Definition base_hashes (c : case) : list hash := dedup ([] :: map c_hash (case_certs c)).
Definition state_names (bn : list name) (s : state) : list name := dedup (bn ++ akeys (index s)).
Definition state_hashes (bh : list hash) (s : state) : list hash :=
  dedup (bh ++ akeys (cache s) ++ flat_map snd (index s)).

(** re-adding a cached certificate: same keys, same index, tags merged, nothing else changed *)
Definition incl_b (a b : list str) : bool := forallb (fun x => mem_str x b) a.
Definition readd_ok (prev : state) (c : cert) (next : state) : bool :=
  match alookup (c_hash c) (cache prev), alookup (c_hash c) (cache next) with
  | Some e, Some e' =>
      Nat.eqb (length (cache next)) (length (cache prev)) &&
      incl_b (akeys (cache next)) (akeys (cache prev)) &&
      amap_eqb strs_eqb (index next) (index prev) &&
      cert_eqb e' (set_tags e (c_tags e')) &&
      incl_b (c_tags e) (c_tags e') && incl_b (c_tags c) (c_tags e') &&
      incl_b (c_tags e') (c_tags e ++ c_tags c) &&
      (negb (nodup_b (c_tags e)) || nodup_b (c_tags e')) &&
      forallb (fun kv => str_eqb (fst kv) (c_hash c) ||
                         match alookup (fst kv) (cache next) with
                         | Some x => cert_eqb x (snd kv) | None => false end) (cache prev)
  | Some _, None => false
  | None, _ => true
  end.
(** AllMatchingCertificates answered exactly the cached certificates listing the name or one of
    its wildcard candidates (both sides are observations: the public API and the map snapshot) *)
Definition covers_query (q : name) (c : cert) : bool :=
  existsb (fun n => mem_str n (c_names c)) (q :: wildcard_candidates q).
Definition query_ok (final : state) (q : name * list hash) : bool :=
  forallb (fun h => match alookup h (cache final) with
                    | Some c => covers_query (fst q) c | None => false end) (snd q) &&
  forallb (fun kv => negb (covers_query (fst q) (snd kv)) || mem_str (fst kv) (snd q)) (cache final).

(** write-backs ([same_but_field] says which field they may change): same index, same keys, every
    entry as it was except that the entries under [hs] may differ in that one field *)
Definition writeback_ok (same_but_field : cert -> cert -> bool) (hs : list hash) (prev next : state) : bool :=
  amap_eqb strs_eqb (index next) (index prev) &&
  Nat.eqb (length (cache next)) (length (cache prev)) &&
  forallb (fun kv => match alookup (fst kv) (cache next) with
                     | Some x => if mem_str (fst kv) hs then same_but_field (snd kv) x else cert_eqb x (snd kv)
                     | None => false end) (cache prev).
Definition same_but_ocsp (e x : cert) : bool := cert_eqb x (set_ocsp e (c_ocsp x)).
Definition same_but_ari (e x : cert) : bool := cert_eqb x (set_ari e (c_ari x)).
(** SetOptions: nothing but evictions, and exactly as many as needed *)
Definition setcap_ok (prev : state) (n : nat) (next : state) : bool :=
  forallb (fun kv => match alookup (fst kv) (cache prev) with
                     | Some x => cert_eqb x (snd kv) | None => false end) (cache next) &&
  Nat.eqb (length (cache next))
          (if (0 <? n)%nat then Nat.min (length (cache prev)) n else length (cache prev)).
(** a maintenance scan showed the ConfigGetter exactly the cached certificates it considers, with
    the tags they have in the cache *)
Definition scan_ok (renew : bool) (s : state) (seen : list (hash * list str)) : bool :=
  nodup_b (map fst seen) &&
  forallb (fun p => match alookup (fst p) (cache s) with
                    | Some c => scan_sel renew c && strs_eqb (c_tags c) (snd p) | None => false end) seen &&
  forallb (fun kv => negb (scan_sel renew (snd kv)) || mem_str (fst kv) (map fst seen)) (cache s).

(** replacing on renewal: afterwards the new certificate is cached and the old one is not (unless
    it is the same certificate) *)
Definition replace_ok (old new : cert) (next : state) : bool :=
  amem (c_hash new) (cache next) && (str_eqb (c_hash old) (c_hash new) || negb (amem (c_hash old) (cache next))).
(** adding: afterwards the certificate is cached *)
Definition add_ok (prev : state) (c : cert) (next : state) : bool :=
  readd_ok prev c next && amem (c_hash c) (cache next).

(** removals (by copy, by hash, by subject): afterwards exactly the cached certificates selected by
    [gone] have disappeared, every other entry is as it was *)
Definition removal_ok (gone : hash -> cert -> bool) (prev next : state) : bool :=
  forallb (fun kv => match alookup (fst kv) (cache prev) with
                     | Some x => cert_eqb x (snd kv) && negb (gone (fst kv) x) | None => false end) (cache next) &&
  forallb (fun kv => gone (fst kv) (snd kv) || amem (fst kv) (cache next)) (cache prev).
(** RemoveManaged(subjects): the managed certificates listing a subject, of that issuer if one is given *)
Definition managed_gone (sj : list (name * str)) (k : hash) (c : cert) : bool :=
  c_managed c &&
  existsb (fun p => mem_str (fst p) (c_names c) && (is_nil (snd p) || str_eqb (c_issuer c) (snd p))) sj.

Definition step_spec_b (prev : state) (w : wstep) (next : state) : bool :=
  match w with
  | WOp (ORemoveCert c) => removal_ok (fun k _ => str_eqb k (c_hash c)) prev next
  | WOp (ORemoveHashes hs) => removal_ok (fun k _ => mem_str k hs) prev next
  | WOp (ORemoveManaged sj) => removal_ok (managed_gone sj) prev next
  | WOp (OAdd c _) => add_ok prev c next
  | WOp (OReplace old new _) => replace_ok old new next
  | WOp (OWriteBack c) => writeback_ok same_but_ocsp [c_hash c] prev next
  | WOp (OSetARI h _) => writeback_ok same_but_ari [h] prev next
  | WOp (OSetOCSP upd) => writeback_ok same_but_ocsp (map fst upd) prev next
  | WSetCap z _ _ => setcap_ok prev (Z.to_nat z) next
  | WQuery q ans => state_eqb prev next && query_ok next (q, ans)
  | WStop => state_eqb prev next
  | WScan r seen => state_eqb prev next && scan_ok r next seen
  | _ => true
  end.

(** the capacity configured after a step *)
Definition cap_after (cap : nat) (w : wstep) : nat :=
  match w with WSetCap z _ _ => Z.to_nat z | WBatch c => c | _ => cap end.

(** every observed state satisfies the invariant with the capacity configured at that moment, and
    every step its own clause *)
Fixpoint steps_spec (nm : hash -> list name) (bn : list name) (bh : list hash)
         (cap : nat) (prev : state) (steps : list (wstep * state)) : bool :=
  match steps with
  | [] => true
  | (w, obs) :: r =>
      let cap' := cap_after cap w in
      inv_b nm cap' (state_names bn obs) (state_hashes bh obs) obs &&
      step_spec_b prev w obs && steps_spec nm bn bh cap' obs r
  end.

Definition final_obs (c : case) : state := last (map snd (k_steps c)) init.

Definition spec_ok (c : case) : bool :=
  let nm := names_of_pool (case_certs c) in
  steps_spec nm (base_names c) (base_hashes c) (k_cap c) init (k_steps c) &&
  forallb (query_ok (final_obs c)) (k_queries c).

Definition check_line (l : list Z) : Z :=
  match decode get_case l with
  | Some c => code (model_agrees c) (spec_ok c)
  | None => code_decode_error
  end.

(** diagnostics: per step 0 = fine, 1 = model state / answer differs, 2 = invariant / step clause
    fails on the observation, 3 = both; then -1; then per final query 0/1/2/3 likewise *)
Definition explain_line (l : list Z) : list Z :=
  match decode get_case l with
  | Some c =>
      let nm := names_of_pool (case_certs c) in
      let bn := base_names c in
      let bh := base_hashes c in
      let (bs, df) := replay (dinit (k_cap c)) (k_steps c) in
      let fix go (cap : nat) (prev : state) (bs : list bool) (steps : list (wstep * state)) : list Z :=
        match bs, steps with
        | b :: bs', (w, obs) :: r =>
            let cap' := cap_after cap w in
            code b (inv_b nm cap' (state_names bn obs) (state_hashes bh obs) obs && step_spec_b prev w obs)
            :: go cap' obs bs' r
        | _, _ => []
        end in
      go (k_cap c) init bs (k_steps c) ++ [(-1)%Z] ++
      map (fun q => code (strs_eqb (answer (d_st df) (fst q)) (snd q))
                         (query_ok (final_obs c) q)) (k_queries c)
  | None => []
  end.
