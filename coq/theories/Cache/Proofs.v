(** C12: the invariant of the certificate cache and its preservation by every operation, for
    all histories (DESIGN appendix A.2). *)
From CM Require Import Lib.Str Gen.Consts Cache.Model Cache.AMapFacts.
From Coq Require Import Arith.
Open Scope nat_scope.
Arguments count_str : simpl never.

(** ---- the comparisons taken from the code (Gen.Consts) are the ones the proofs are about: an
    edit of an operator / literal in cache.go changes the model and breaks these ---- *)
Lemma index_list_empty_eq kl : index_list_empty kl = is_nil kl.
Proof. destruct kl; reflexivity. Qed.
Lemma at_capacity_eq cap s : at_capacity cap s = (0 <? cap) && (cap <=? length (cache s)).
Proof. reflexivity. Qed.
Lemma tags_guard_eq t : tags_guard t = negb (is_nil t).
Proof. destruct t; reflexivity. Qed.
Lemma clamp_cap_eq z : clamp_cap z = Z.to_nat z.
Proof.
  unfold clamp_cap, cmp_z, cache_clamp_cmp, cache_clamp_lit, cache_clamp_value.
  destruct (Z.ltb_spec z 0); lia.
Qed.
Lemma trim_count_eq n s : trim_count n s = if 0 <? n then length (cache s) - n else 0.
Proof.
  unfold trim_count, cmp_nat, countdown_iters, cache_trim_guard_cmp, cache_trim_guard_lit,
    cache_trim_loop_cmp, cache_trim_loop_lit.
  destruct (0 <? n); [lia | reflexivity].
Qed.
(** the statement shapes the model is written after (each is explained in Gen/Consts.v) *)
Lemma code_shape_as_modelled :
  cache_tag_append_if_missing = true /\ cache_tag_writeback_inside_guard = true /\
  cache_evict_calls_remove = true /\ cache_store_then_index = true /\
  cache_remove_drops_every_mention = true /\ cache_remove_deletes_hash = true /\
  cache_replace_shape = [1; 2; 3; 4] /\ cache_add_shape = [1; 2; 3] /\
  cache_remove_api_shape = true /\ cache_remove_managed_shape = true /\ cache_exact_lookup_shape = true /\
  cache_allmatching_shape = true /\ cache_label_sep_char = c_dot /\
  cache_setoptions_atomic = true /\ cache_trim_calls_remove = true /\
  cache_store_guards_add = [true; false] /\ cache_store_guards_handshake = [true] /\
  cache_store_guards_ocsp = [true] /\ cache_store_guards_ari = [true; true] /\
  cache_map_store_sites = 6 /\ cache_map_delete_sites = 1.
Proof. repeat split; reflexivity. Qed.

(** ---- views of the index after the two loops ---- *)
Lemma idx_of_adelete n n' ix : idx_of (adelete n ix) n' = if str_eqb n n' then [] else idx_of ix n'.
Proof. unfold idx_of. rewrite alookup_adelete. destruct (str_eqb n n'); reflexivity. Qed.
Lemma idx_of_ainsert n l n' ix : idx_of (ainsert n l ix) n' = if str_eqb n n' then l else idx_of ix n'.
Proof. unfold idx_of. rewrite alookup_ainsert. destruct (str_eqb n n'); reflexivity. Qed.

Notation drop_hash hc := (filter (fun h => negb (str_eqb h hc))).

Lemma idx_of_unindex hc ix a n :
  idx_of (unindex_name hc ix a) n = if str_eqb a n then drop_hash hc (idx_of ix a) else idx_of ix n.
Proof.
  unfold unindex_name. rewrite index_list_empty_eq. destruct (is_nil _) eqn:E.
  - apply is_nil_true in E. rewrite idx_of_adelete, E. reflexivity.
  - rewrite idx_of_ainsert. reflexivity.
Qed.

Lemma idx_of_fold_unindex hc names ix n :
  idx_of (fold_left (unindex_name hc) names ix) n =
  if mem_str n names then drop_hash hc (idx_of ix n) else idx_of ix n.
Proof.
  revert ix. induction names as [|a names IH]; intros ix; cbn [fold_left]; [reflexivity|].
  rewrite IH, idx_of_unindex. unfold mem_str at 2. cbn [existsb]. fold (mem_str n names).
  rewrite (str_eqb_sym n a).
  destruct (str_eqb_spec a n) as [->|Hne]; cbn [orb].
  - destruct (mem_str n names); [apply filter_ne_idem | reflexivity].
  - reflexivity.
Qed.

Definition no_empty (ix : amap (list hash)) : Prop := forall n, alookup n ix <> Some [].

Lemma no_empty_unindex hc ix a : no_empty ix -> no_empty (unindex_name hc ix a).
Proof.
  intros H n. unfold unindex_name. rewrite index_list_empty_eq. destruct (is_nil _) eqn:E.
  - rewrite alookup_adelete. destruct (str_eqb a n); [discriminate | apply H].
  - rewrite alookup_ainsert. destruct (str_eqb a n); [|apply H].
    intros Heq. injection Heq as Heq. rewrite Heq in E. discriminate.
Qed.
Lemma no_empty_fold_unindex hc names ix : no_empty ix -> no_empty (fold_left (unindex_name hc) names ix).
Proof. revert ix. induction names as [|a names IH]; intros ix H; cbn [fold_left]; [exact H|]. apply IH, no_empty_unindex, H. Qed.

Lemma idx_of_index_name hc ix a n :
  idx_of (index_name hc ix a) n = if str_eqb a n then idx_of ix a ++ [hc] else idx_of ix n.
Proof. unfold index_name. apply idx_of_ainsert. Qed.

Lemma idx_of_fold_index hc names ix n :
  idx_of (fold_left (index_name hc) names ix) n = idx_of ix n ++ repeat hc (count_str n names).
Proof.
  revert ix. induction names as [|a names IH]; intros ix; cbn [fold_left].
  - cbn. rewrite app_nil_r. reflexivity.
  - rewrite IH, idx_of_index_name, count_str_cons.
    destruct (str_eqb_spec a n) as [->|Hne]; [|reflexivity].
    rewrite <- app_assoc. reflexivity.
Qed.

Lemma no_empty_index_name hc ix a : no_empty ix -> no_empty (index_name hc ix a).
Proof.
  intros H n. unfold index_name. rewrite alookup_ainsert. destruct (str_eqb a n); [|apply H].
  intros Heq. injection Heq as Heq. destruct (idx_of ix a); discriminate.
Qed.
Lemma no_empty_fold_index hc names ix : no_empty ix -> no_empty (fold_left (index_name hc) names ix).
Proof. revert ix. induction names as [|a names IH]; intros ix H; cbn [fold_left]; [exact H|]. apply IH, no_empty_index_name, H. Qed.

Lemma nodup_keys_fold_unindex hc names (ix : amap (list hash)) :
  NoDup (akeys ix) -> NoDup (akeys (fold_left (unindex_name hc) names ix)).
Proof.
  revert ix. induction names as [|a names IH]; intros ix H; cbn [fold_left]; [exact H|].
  apply IH. unfold unindex_name. rewrite index_list_empty_eq. destruct (is_nil _); [apply NoDup_akeys_adelete | apply NoDup_akeys_ainsert]; exact H.
Qed.
Lemma nodup_keys_fold_index hc names (ix : amap (list hash)) :
  NoDup (akeys ix) -> NoDup (akeys (fold_left (index_name hc) names ix)).
Proof.
  revert ix. induction names as [|a names IH]; intros ix H; cbn [fold_left]; [exact H|].
  apply IH. unfold index_name. apply NoDup_akeys_ainsert. exact H.
Qed.

(** ---- the invariant ---- *)
Section Inv.
  (** a hash determines its certificate, hence its names: blake3 of the DER chain *)
  Variable names_of : hash -> list name.
  Variable cap : nat.

  Record Inv (s : state) : Prop := {
    inv_nodup : NoDup (akeys (cache s));
    inv_nodup_idx : NoDup (akeys (index s));
    inv_cert : forall h c, alookup h (cache s) = Some c ->
                 c_hash c = h /\ c_names c = names_of h /\ h <> [];
    (** h is listed under n exactly as often as n occurs among the names of the cached h *)
    inv_count : forall n h, count_str h (idx s n) =
                  if amem h (cache s) then count_str n (names_of h) else 0;
    inv_nonempty : no_empty (index s);
    inv_cap : 0 < cap -> length (cache s) <= cap
  }.

  (** certificates carried by operations: names agree with the hash; a hash is never "" *)
  (** a copy read earlier -- or Go's zero value, read for a hash that was not cached *)
  Definition wf_copy (c : cert) : Prop := c_names c = names_of (c_hash c) \/ c_hash c = [].
  Definition wf_cert (c : cert) : Prop := c_names c = names_of (c_hash c) /\ c_hash c <> [].
  Definition wf_op (o : op) : Prop :=
    match o with
    | OAdd c _ => wf_cert c
    | ORemoveCert c => wf_copy c
    | OReplace old new _ => wf_copy old /\ wf_cert new
    | OWriteBack c => wf_copy c
    | ORemoveHashes _ | ORemoveManaged _ | OSetOCSP _ | OSetARI _ _ => True
    end.

  Lemma inv_init : Inv init.
  Proof.
    constructor; cbn.
    - constructor.
    - constructor.
    - discriminate.
    - reflexivity.
    - intros n. cbn. discriminate.
    - lia.
  Qed.

  Lemma inv_not_mem_nil s : Inv s -> amem [] (cache s) = false.
  Proof.
    intros HI. destruct (amem [] (cache s)) eqn:E; [|reflexivity].
    apply amem_alookup in E. destruct E as [c Hc]. apply (inv_cert s HI) in Hc. tauto.
  Qed.

  (** removeCertificate *)
  Lemma alookup_remove_cert c s h :
    alookup h (cache (remove_cert c s)) = if str_eqb (c_hash c) h then None else alookup h (cache s).
  Proof. apply alookup_adelete. Qed.
  Lemma idx_remove_cert c s n :
    idx (remove_cert c s) n =
    if mem_str n (c_names c) then drop_hash (c_hash c) (idx s n) else idx s n.
  Proof. apply idx_of_fold_unindex. Qed.

  Lemma remove_cert_inv s c :
    Inv s -> (amem (c_hash c) (cache s) = true -> c_names c = names_of (c_hash c)) ->
    Inv (remove_cert c s).
  Proof.
    intros HI Hc. constructor.
    - apply NoDup_akeys_adelete, (inv_nodup s HI).
    - apply nodup_keys_fold_unindex, (inv_nodup_idx s HI).
    - intros h c0. rewrite alookup_remove_cert. destruct (str_eqb (c_hash c) h); [discriminate|].
      apply (inv_cert s HI).
    - intros n h. rewrite idx_remove_cert. cbn [remove_cert cache]. rewrite amem_adelete.
      pose proof (inv_count s HI n h) as Hcnt.
      destruct (str_eqb_spec (c_hash c) h) as [<-|Hne]; cbn [negb andb].
      + destruct (mem_str n (c_names c)) eqn:Em.
        * rewrite count_str_filter_ne, str_eqb_refl. reflexivity.
        * rewrite Hcnt. destruct (amem (c_hash c) (cache s)) eqn:Ea; [|reflexivity].
          rewrite <- (Hc eq_refl). apply count_str_zero. apply mem_str_false. exact Em.
      + destruct (mem_str n (c_names c)).
        * rewrite count_str_filter_ne, (str_eqb_neq h (c_hash c)) by congruence. exact Hcnt.
        * exact Hcnt.
    - apply no_empty_fold_unindex, (inv_nonempty s HI).
    - intros Hcap. pose proof (inv_cap s HI Hcap). cbn [remove_cert cache].
      pose proof (length_adelete_le (c_hash c) (cache s)). lia.
  Qed.

  Lemma remove_cached_inv s h : Inv s -> Inv (remove_cert (cache_get s h) s).
  Proof.
    intros HI. apply remove_cert_inv; [exact HI|]. unfold cache_get.
    destruct (alookup h (cache s)) as [c|] eqn:E.
    - intros _. apply (inv_cert s HI) in E. destruct E as (-> & -> & _). reflexivity.
    - cbn. rewrite (inv_not_mem_nil s HI). discriminate.
  Qed.

  Lemma remove_copy_inv s c : Inv s -> wf_copy c -> Inv (remove_cert c s).
  Proof.
    intros HI Hwf. apply remove_cert_inv; [exact HI|]. intros Hm. destruct Hwf as [H|H]; [exact H|].
    rewrite H, (inv_not_mem_nil s HI) in Hm. discriminate.
  Qed.

  Lemma remove_cert_shrinks c s h : amem h (cache (remove_cert c s)) = true -> amem h (cache s) = true.
  Proof. cbn [remove_cert cache]. rewrite amem_adelete. intros H. apply andb_true_iff in H. tauto. Qed.

  Lemma remove_cached_length s h c :
    Inv s -> alookup h (cache s) = Some c -> S (length (cache (remove_cert c s))) = length (cache s).
  Proof.
    intros HI E. cbn [remove_cert cache]. apply length_adelete_mem; [apply (inv_nodup s HI)|].
    pose proof (inv_cert s HI h c E) as (-> & _). apply amem_alookup. eauto.
  Qed.

  (** random eviction *)
  Lemma evict_inv v s :
    Inv s -> Inv (evict v s) /\
    (cache s <> [] -> S (length (cache (evict v s))) = length (cache s)) /\
    (forall h, amem h (cache (evict v s)) = true -> amem h (cache s) = true).
  Proof.
    intros HI. unfold evict.
    assert (Hrm : forall h c, alookup h (cache s) = Some c ->
              Inv (remove_cert c s) /\
              (cache s <> [] -> S (length (cache (remove_cert c s))) = length (cache s)) /\
              (forall h', amem h' (cache (remove_cert c s)) = true -> amem h' (cache s) = true)).
    { intros h c E. split; [|split].
      - replace c with (cache_get s h) by (unfold cache_get; rewrite E; reflexivity).
        apply remove_cached_inv, HI.
      - intros _. eapply remove_cached_length; eauto.
      - apply remove_cert_shrinks. }
    destruct (match v with Some v0 => alookup v0 (cache s) | None => None end) as [vc|] eqn:E.
    - destruct v as [v0|]; [|discriminate]. eapply Hrm; eauto.
    - destruct (cache s) as [|[k vc] r] eqn:Ec.
      + split; [exact HI|]. split; [congruence | intros h; rewrite Ec; auto].
      + apply (Hrm k vc). cbn. rewrite str_eqb_refl. reflexivity.
  Qed.

  (** unsyncedCacheCertificate *)
  Lemma update_cached_inv s h e e' :
    Inv s -> alookup h (cache s) = Some e -> c_hash e' = h -> c_names e' = names_of h ->
    Inv (St (ainsert h e' (cache s)) (index s)).
  Proof.
    intros HI E Hh Hn.
    assert (Hm : amem h (cache s) = true) by (apply amem_alookup; eauto).
    constructor; cbn [cache index].
    - apply NoDup_akeys_ainsert, (inv_nodup s HI).
    - apply (inv_nodup_idx s HI).
    - intros h0 c0. rewrite alookup_ainsert. destruct (str_eqb_spec h h0) as [<-|Hne].
      + intros H; injection H as <-. repeat split; try assumption.
        apply (inv_cert s HI) in E. tauto.
      + apply (inv_cert s HI).
    - intros n h0. unfold idx. cbn [index]. rewrite amem_ainsert.
      pose proof (inv_count s HI n h0) as Hcnt. unfold idx in Hcnt.
      destruct (str_eqb_spec h h0) as [<-|Hne]; cbn [orb]; [rewrite Hm in Hcnt|]; exact Hcnt.
    - apply (inv_nonempty s HI).
    - rewrite length_ainsert_mem by assumption. apply (inv_cap s HI).
  Qed.

  Lemma insert_new_inv s c :
    Inv s -> wf_cert c -> amem (c_hash c) (cache s) = false ->
    (0 < cap -> S (length (cache s)) <= cap) ->
    Inv (St (ainsert (c_hash c) c (cache s)) (fold_left (index_name (c_hash c)) (c_names c) (index s))).
  Proof.
    intros HI [Hn Hh] Hm Hcap. constructor; cbn [cache index].
    - apply NoDup_akeys_ainsert, (inv_nodup s HI).
    - apply nodup_keys_fold_index, (inv_nodup_idx s HI).
    - intros h0 c0. rewrite alookup_ainsert. destruct (str_eqb_spec (c_hash c) h0) as [<-|Hne].
      + intros H; injection H as <-. auto.
      + apply (inv_cert s HI).
    - intros n h0. unfold idx. cbn [index]. rewrite idx_of_fold_index, count_str_app, count_str_repeat, amem_ainsert.
      pose proof (inv_count s HI n h0) as Hcnt. unfold idx in Hcnt. rewrite Hcnt.
      destruct (str_eqb_spec (c_hash c) h0) as [<-|Hne]; cbn [orb].
      + rewrite Hm, Hn. reflexivity.
      + lia.
    - apply no_empty_fold_index, (inv_nonempty s HI).
    - intros H0. rewrite length_ainsert_new by assumption. auto.
  Qed.

  Lemma add_cert_inv s c v : Inv s -> wf_cert c -> Inv (add_cert cap c v s).
  Proof.
    intros HI Hwf. unfold add_cert.
    destruct (alookup (c_hash c) (cache s)) as [e|] eqn:E.
    - destruct (tags_guard (c_tags c)); [|exact HI].
      pose proof (inv_cert s HI _ _ E) as (He1 & He2 & _).
      eapply update_cached_inv; eauto.
    - destruct (at_capacity cap s) eqn:Ecap.
      + destruct (evict_inv v s HI) as (HI1 & Hlen & Hsub).
        rewrite at_capacity_eq in Ecap. apply andb_true_iff in Ecap. destruct Ecap as [E0 E1].
        apply Nat.ltb_lt in E0. apply Nat.leb_le in E1.
        apply insert_new_inv; try assumption.
        * destruct (amem (c_hash c) (cache (evict v s))) eqn:Em; [|reflexivity].
          apply Hsub in Em. apply amem_false_alookup in E. congruence.
        * intros _. rewrite Hlen; [apply (inv_cap s HI E0)|].
          destruct (cache s); [cbn in E1; lia | discriminate].
      + apply insert_new_inv; try assumption.
        * apply amem_false_alookup. exact E.
        * intros H0. rewrite at_capacity_eq in Ecap. apply andb_false_iff in Ecap.
          destruct Ecap as [E0|E1]; [apply Nat.ltb_ge in E0; lia | apply Nat.leb_gt in E1; lia].
  Qed.

  Lemma remove_hashes_inv hs s : Inv s -> Inv (remove_hashes hs s).
  Proof.
    unfold remove_hashes. revert s. induction hs as [|h hs IH]; intros s HI; cbn [fold_left]; [exact HI|].
    apply IH, remove_cached_inv, HI.
  Qed.

  Lemma write_back_whole_copy_inv s c : Inv s -> wf_copy c -> Inv (write_back_whole_copy c s).
  Proof.
    intros HI Hc. unfold write_back_whole_copy. destruct (amem (c_hash c) (cache s)) eqn:E; [|exact HI].
    destruct Hc as [Hc|Hc]; [|rewrite Hc, (inv_not_mem_nil s HI) in E; discriminate].
    apply amem_alookup in E. destruct E as [e E]. eapply update_cached_inv; eauto.
  Qed.
  Lemma set_ocsp_at_inv s hv : Inv s -> Inv (set_ocsp_at hv s).
  Proof.
    intros HI. unfold set_ocsp_at. destruct (alookup (fst hv) (cache s)) as [e|] eqn:E; [|exact HI].
    pose proof (inv_cert s HI _ _ E) as (He1 & He2 & _). eapply update_cached_inv; eauto.
  Qed.
  Lemma write_back_inv s c : Inv s -> wf_copy c -> Inv (write_back c s).
  Proof. intros HI _. apply set_ocsp_at_inv, HI. Qed.
  Lemma set_ari_at_inv s h v : Inv s -> Inv (set_ari_at h v s).
  Proof.
    intros HI. unfold set_ari_at. destruct (alookup h (cache s)) as [e|] eqn:E; [|exact HI].
    pose proof (inv_cert s HI _ _ E) as (He1 & He2 & _). eapply update_cached_inv; eauto.
  Qed.

  (** F: every operation preserves the invariant, whatever (possibly stale) copy it carries *)
  Theorem step_inv s o : Inv s -> wf_op o -> Inv (step cap s o).
  Proof.
    intros HI Hwf. destruct o as [c v|c|old new v|hs|sj|c|upd|h v]; cbn [step wf_op] in *.
    - apply add_cert_inv; assumption.
    - apply remove_copy_inv; assumption.
    - destruct Hwf as [Ho Hn]. unfold replace_cert. apply add_cert_inv; [|assumption].
      apply remove_copy_inv; assumption.
    - apply remove_hashes_inv, HI.
    - apply remove_hashes_inv, HI.
    - apply write_back_inv; assumption.
    - revert s HI. induction upd as [|hv upd IH]; intros s HI; cbn [fold_left]; [exact HI|].
      apply IH, set_ocsp_at_inv, HI.
    - apply set_ari_at_inv, HI.
  Qed.

  Theorem run_inv ops : forall s, Inv s -> Forall wf_op ops -> Inv (run cap s ops).
  Proof.
    unfold run. induction ops as [|o ops IH]; intros s HI Hwf; cbn [fold_left]; [exact HI|].
    inversion Hwf as [|? ? Ho Hops]; subst. apply IH; [apply step_inv; assumption | assumption].
  Qed.

  Theorem trace_inv ops : forall s, Inv s -> Forall wf_op ops -> Forall Inv (trace cap s ops).
  Proof.
    induction ops as [|o ops IH]; intros s HI Hwf; cbn [trace]; [constructor|].
    inversion Hwf as [|? ? Ho Hops]; subst.
    assert (Inv (step cap s o)) by (apply step_inv; assumption).
    constructor; [assumption | apply IH; assumption].
  Qed.

  (** ---- corollaries: the clauses of the property ---- *)

  (** exact lookup returns exactly the cached certificates that list the name *)
  Theorem lookup_exact s : Inv s -> forall n c,
    In c (get_all_matching_certs s n) <->
    (alookup (c_hash c) (cache s) = Some c /\ In n (c_names c)).
  Proof.
    intros HI n c. unfold get_all_matching_certs. rewrite in_map_iff. split.
    - intros (h & <- & Hin). apply count_str_In in Hin. rewrite (inv_count s HI) in Hin.
      destruct (amem h (cache s)) eqn:Em; [|lia].
      apply amem_alookup in Em. destruct Em as [c Ec]. unfold cache_get. rewrite Ec.
      pose proof (inv_cert s HI _ _ Ec) as (Hh & Hn & _). rewrite Hh, Hn. split; [exact Ec|].
      apply count_str_In. exact Hin.
    - intros [Ec Hin]. exists (c_hash c). split.
      + unfold cache_get. rewrite Ec. reflexivity.
      + apply count_str_In. rewrite (inv_count s HI).
        assert (Em : amem (c_hash c) (cache s) = true) by (apply amem_alookup; eauto). rewrite Em.
        pose proof (inv_cert s HI _ _ Ec) as (_ & Hn & _). rewrite <- Hn. apply count_str_In. exact Hin.
  Qed.

  (** AllMatchingCertificates: exactly the cached certificates listing the name or one of its
      wildcard candidates *)
  Theorem all_matching_exact s : Inv s -> forall q c,
    In c (all_matching s q) <->
    (alookup (c_hash c) (cache s) = Some c /\
     exists n, In n (q :: wildcard_candidates q) /\ In n (c_names c)).
  Proof.
    intros HI q c. unfold all_matching. rewrite in_flat_map. split.
    - intros (n & Hn & Hc). apply (lookup_exact s HI) in Hc. destruct Hc. eauto.
    - intros (Ec & n & Hn & Hin). exists n. split; [exact Hn|]. apply (lookup_exact s HI). auto.
  Qed.

  (** a listed hash occurs in an index list exactly as often as the name occurs among the
      certificate's names: once for certificates without repeated names *)
  Theorem no_duplicate_mention s : Inv s -> forall n,
    (forall h, NoDup (names_of h)) -> NoDup (idx s n).
  Proof.
    intros HI n Hnd. apply (NoDup_count_occ (list_eq_dec N.eq_dec)). intros h.
    change (count_str h (idx s n) <= 1). rewrite (inv_count s HI).
    destruct (amem h (cache s)); [|lia].
    apply (proj1 (NoDup_count_occ (list_eq_dec N.eq_dec) (names_of h)) (Hnd h)).
  Qed.

  (** ---- the boolean form of the invariant is implied by it ---- *)
  Lemma nodup_b_NoDup l : NoDup l -> nodup_b l = true.
  Proof.
    induction 1 as [|x l Hnin Hnd IH]; cbn; [reflexivity|]. rewrite IH, andb_true_r.
    apply negb_true_iff, mem_str_false. exact Hnin.
  Qed.

  Theorem inv_b_complete s ns hs : Inv s -> inv_b names_of cap ns hs s = true.
  Proof.
    intros HI. unfold inv_b. repeat (apply andb_true_iff; split).
    - apply nodup_b_NoDup, (inv_nodup s HI).
    - apply forallb_forall. intros k _. destruct (alookup k (cache s)) as [c|] eqn:E; [|reflexivity].
      pose proof (inv_cert s HI _ _ E) as (Hh & Hn & Hk).
      rewrite Hh, Hn, str_eqb_refl. cbn [andb].
      replace (strs_eqb (names_of k) (names_of k)) with true by (symmetry; apply strs_eqb_eq; reflexivity).
      destruct k; [congruence | reflexivity].
    - apply forallb_forall. intros n _. apply forallb_forall. intros h _.
      apply Nat.eqb_eq, (inv_count s HI).
    - apply forallb_forall. intros n _. pose proof (inv_nonempty s HI n) as H.
      destruct (alookup n (index s)) as [[|]|]; congruence.
    - destruct (cap =? 0) eqn:E0; [reflexivity|]. cbn [orb]. apply Nat.eqb_neq in E0.
      apply Nat.leb_le, (inv_cap s HI). lia.
  Qed.
End Inv.

(** re-adding a cached certificate: nothing is stored twice, the tags are merged *)
Lemma merge_tags_In existing new t :
  In t (merge_tags existing new) <-> In t existing \/ In t new.
Proof.
  unfold merge_tags. revert existing. induction new as [|x new IH]; intros existing; cbn [fold_left].
  - cbn. tauto.
  - rewrite IH. destruct (mem_str x existing) eqn:E.
    + apply mem_str_In in E. cbn. split; [tauto|]. intros [H|[<-|H]]; auto.
    + rewrite in_app_iff. cbn. tauto.
Qed.
Lemma merge_tags_NoDup existing new : NoDup existing -> NoDup (merge_tags existing new).
Proof.
  unfold merge_tags. revert existing. induction new as [|x new IH]; intros existing H; cbn [fold_left]; [exact H|].
  apply IH. destruct (mem_str x existing) eqn:E; [exact H|].
  apply mem_str_false in E. apply NoDup_rev in H.
  rewrite <- (rev_involutive (existing ++ [x])). apply NoDup_rev. rewrite rev_app_distr. cbn.
  constructor; [rewrite <- in_rev; exact E | exact H].
Qed.

Theorem readd_merges_tags cap s c v e :
  alookup (c_hash c) (cache s) = Some e ->
  let s' := add_cert cap c v s in
  index s' = index s /\ length (cache s') = length (cache s) /\ akeys (cache s') = akeys (cache s) /\
  (forall h, h <> c_hash c -> alookup h (cache s') = alookup h (cache s)) /\
  exists e', alookup (c_hash c) (cache s') = Some e' /\
             e' = set_tags e (c_tags e') /\
             (forall t, In t (c_tags e') <-> In t (c_tags e) \/ In t (c_tags c)) /\
             (NoDup (c_tags e) -> NoDup (c_tags e')).
Proof.
  intros E s'. subst s'. unfold add_cert. rewrite E, tags_guard_eq.
  assert (Hm : amem (c_hash c) (cache s) = true) by (apply amem_alookup; eauto).
  destruct (c_tags c) as [|t0 ts] eqn:Et; cbn [is_nil negb].
  - repeat split; try reflexivity. exists e. split; [exact E|]. split; [destruct e; reflexivity|].
    split; [cbn; tauto | auto].
  - cbn [cache index]. split; [reflexivity|]. split; [apply length_ainsert_mem, Hm|].
    split; [apply akeys_ainsert_mem, Hm|]. split.
    + intros h Hne. rewrite alookup_ainsert, str_eqb_neq by congruence. reflexivity.
    + eexists. rewrite alookup_ainsert, str_eqb_refl. split; [reflexivity|]. cbn [set_tags c_tags].
      split; [reflexivity|]. split; [apply merge_tags_In | apply merge_tags_NoDup].
Qed.

(** ======== the capacity changes at run time (Cache.SetOptions) ======== *)

(** the structural part of the invariant is [Inv names_of 0] (capacity 0 = unlimited: the
    capacity clause is vacuous) *)
Lemma inv_weaken names_of cap s : Inv names_of cap s -> Inv names_of 0 s.
Proof. intros [H1 H2 H3 H4 H5 H6]. constructor; try assumption. lia. Qed.
Lemma inv_strengthen names_of cap s :
  Inv names_of 0 s -> (0 < cap -> length (cache s) <= cap) -> Inv names_of cap s.
Proof. intros [H1 H2 H3 H4 H5 H6] Hc. constructor; assumption. Qed.

(** unsyncedCacheCertificate preserves the structural invariant whatever the capacity is *)
Lemma add_cert_sinv names_of cap s c v :
  Inv names_of 0 s -> wf_cert names_of c -> Inv names_of 0 (add_cert cap c v s).
Proof.
  intros HI Hwf. unfold add_cert.
  destruct (alookup (c_hash c) (cache s)) as [e|] eqn:E.
  - destruct (tags_guard (c_tags c)); [|exact HI].
    pose proof (inv_cert _ _ s HI _ _ E) as (He1 & He2 & _).
    eapply update_cached_inv; eauto.
  - assert (Hnew : forall s1, Inv names_of 0 s1 ->
              (forall h, amem h (cache s1) = true -> amem h (cache s) = true) ->
              Inv names_of 0 (St (ainsert (c_hash c) c (cache s1))
                                 (fold_left (index_name (c_hash c)) (c_names c) (index s1)))).
    { intros s1 HI1 Hsub. apply insert_new_inv; try assumption; [|lia].
      destruct (amem (c_hash c) (cache s1)) eqn:Em; [|reflexivity].
      apply Hsub in Em. apply amem_false_alookup in E. congruence. }
    destruct (at_capacity cap s).
    + destruct (evict_inv names_of 0 v s HI) as (HI1 & _ & Hsub). apply Hnew; assumption.
    + apply Hnew; auto.
Qed.

(** F: every operation preserves the structural invariant, for EVERY capacity (in particular one
    that is smaller than the current size) *)
Theorem step_sinv names_of cap s o :
  Inv names_of 0 s -> wf_op names_of o -> Inv names_of 0 (step cap s o).
Proof.
  intros HI Hwf. destruct o as [c v|c|old new v|hs|sj|c|upd|h v].
  - apply add_cert_sinv; assumption.
  - exact (step_inv names_of 0 s (ORemoveCert c) HI Hwf).
  - destruct Hwf as [Ho Hn]. cbn [step]. unfold replace_cert. apply add_cert_sinv; [|assumption].
    apply remove_copy_inv; assumption.
  - exact (step_inv names_of 0 s (ORemoveHashes hs) HI Hwf).
  - exact (step_inv names_of 0 s (ORemoveManaged sj) HI Hwf).
  - exact (step_inv names_of 0 s (OWriteBack c) HI Hwf).
  - exact (step_inv names_of 0 s (OSetOCSP upd) HI Hwf).
  - exact (step_inv names_of 0 s (OSetARI h v) HI Hwf).
Qed.

(** sizes *)
Lemma remove_cert_length c s : length (cache (remove_cert c s)) <= length (cache s).
Proof. cbn [remove_cert cache]. apply length_adelete_le. Qed.
Lemma remove_hashes_length hs : forall s, length (cache (remove_hashes hs s)) <= length (cache s).
Proof.
  unfold remove_hashes. induction hs as [|h hs IH]; intros s; cbn [fold_left]; [lia|].
  etransitivity; [apply IH | apply remove_cert_length].
Qed.
Lemma set_ocsp_at_length hv s : length (cache (set_ocsp_at hv s)) = length (cache s).
Proof.
  unfold set_ocsp_at. destruct (alookup (fst hv) (cache s)) eqn:E; [|reflexivity].
  cbn [cache]. apply length_ainsert_mem, amem_alookup. eauto.
Qed.
Lemma set_ari_at_length h v s : length (cache (set_ari_at h v s)) = length (cache s).
Proof.
  unfold set_ari_at. destruct (alookup h (cache s)) eqn:E; [|reflexivity].
  cbn [cache]. apply length_ainsert_mem, amem_alookup. eauto.
Qed.

Lemma add_cert_size names_of cap s c v :
  Inv names_of 0 s -> 0 < cap ->
  length (cache (add_cert cap c v s)) <= Nat.max cap (length (cache s)).
Proof.
  intros HI Hcap. unfold add_cert.
  destruct (alookup (c_hash c) (cache s)) as [e|] eqn:E.
  - destruct (tags_guard (c_tags c)); [|lia]. cbn [cache].
    rewrite length_ainsert_mem by (apply amem_alookup; eauto). lia.
  - apply amem_false_alookup in E.
    destruct (at_capacity cap s) eqn:Ecap; rewrite at_capacity_eq in Ecap.
    + apply andb_true_iff in Ecap. destruct Ecap as [_ E1]. apply Nat.leb_le in E1.
      destruct (evict_inv names_of 0 v s HI) as (_ & Hlen & Hsub). cbn [cache].
      rewrite length_ainsert_new.
      * rewrite Hlen; [lia|]. destruct (cache s); [cbn in E1; lia | discriminate].
      * destruct (amem (c_hash c) (cache (evict v s))) eqn:Em; [|reflexivity].
        apply Hsub in Em. congruence.
    + cbn [cache]. rewrite length_ainsert_new by exact E.
      apply andb_false_iff in Ecap. destruct Ecap as [E0|E1];
        [apply Nat.ltb_ge in E0; lia | apply Nat.leb_gt in E1; lia].
Qed.

(** F: with a positive capacity an operation never makes the cache larger than
    max(capacity, size before): a cache that is over its capacity does not grow *)
Theorem step_size_bound names_of cap s o :
  Inv names_of 0 s -> wf_op names_of o -> 0 < cap ->
  length (cache (step cap s o)) <= Nat.max cap (length (cache s)).
Proof.
  intros HI Hwf Hcap. destruct o as [c v|c|old new v|hs|sj|c|upd|h v]; cbn [step].
  - eapply add_cert_size; eassumption.
  - pose proof (remove_cert_length c s). lia.
  - destruct Hwf as [Ho Hn]. unfold replace_cert.
    assert (HI1 : Inv names_of 0 (remove_cert old s)) by (apply remove_copy_inv; assumption).
    pose proof (add_cert_size names_of cap _ new v HI1 Hcap).
    pose proof (remove_cert_length old s). lia.
  - pose proof (remove_hashes_length hs s). lia.
  - unfold remove_managed. pose proof (remove_hashes_length (managed_queue s sj) s). lia.
  - unfold write_back. rewrite set_ocsp_at_length. lia.
  - assert (H : forall s, length (cache (fold_left (fun s hv => set_ocsp_at hv s) upd s)) = length (cache s)).
    { clear. induction upd as [|hv upd IH]; intros s0; cbn [fold_left]; [reflexivity|].
      rewrite IH. apply set_ocsp_at_length. }
    rewrite H. lia.
  - rewrite set_ari_at_length. lia.
Qed.

(** evictRandomCertificate *)
Lemma evict_lookup v s h c :
  alookup h (cache (evict v s)) = Some c -> alookup h (cache s) = Some c.
Proof.
  assert (Hrm : forall vc, alookup h (cache (remove_cert vc s)) = Some c -> alookup h (cache s) = Some c).
  { intros vc. cbn [remove_cert cache]. rewrite alookup_adelete.
    destruct (str_eqb (c_hash vc) h); [discriminate | auto]. }
  unfold evict.
  destruct (match v with Some v0 => alookup v0 (cache s) | None => None end) as [vc|]; [apply Hrm|].
  intros H. destruct (cache s) as [|[k vc] r] in H; [exact H | eapply Hrm; exact H].
Qed.
Lemma evict_length names_of v s :
  Inv names_of 0 s -> length (cache (evict v s)) = length (cache s) - 1.
Proof.
  intros HI. destruct (evict_inv names_of 0 v s HI) as (_ & Hlen & _).
  destruct (cache s) as [|p r] eqn:Ec.
  - unfold evict. rewrite Ec. destruct v; cbn; rewrite Ec; reflexivity.
  - assert (Hne : p :: r <> []) by discriminate. apply Hlen in Hne. cbn [length] in *. lia.
Qed.
Lemma evict_n_inv names_of k : forall vs s,
  Inv names_of 0 s ->
  Inv names_of 0 (evict_n k vs s) /\
  length (cache (evict_n k vs s)) = length (cache s) - k /\
  (forall h c, alookup h (cache (evict_n k vs s)) = Some c -> alookup h (cache s) = Some c).
Proof.
  induction k as [|k IH]; intros vs s HI; cbn [evict_n].
  - split; [exact HI|]. split; [lia | auto].
  - assert (Hone : forall v r, Inv names_of 0 (evict_n k r (evict v s)) /\
              length (cache (evict_n k r (evict v s))) = length (cache s) - S k /\
              (forall h c, alookup h (cache (evict_n k r (evict v s))) = Some c -> alookup h (cache s) = Some c)).
    { intros v r. destruct (evict_inv names_of 0 v s HI) as (HI1 & _ & _).
      destruct (IH r _ HI1) as (H1 & H2 & H3). split; [exact H1|]. split.
      - rewrite H2, (evict_length names_of v s HI). lia.
      - intros h c Hc. apply H3 in Hc. eapply evict_lookup; eauto. }
    destruct vs as [|v r]; apply Hone.
Qed.

Definition DInv (names_of : hash -> list name) (d : dstate) : Prop := Inv names_of (d_cap d) (d_st d).
Definition wf_dop (names_of : hash -> list name) (o : dop) : Prop :=
  match o with DOp o => wf_op names_of o | _ => True end.

(** SetOptions (fixed): the new capacity holds at once; nothing but evictions happens *)
Theorem set_capacity_spec names_of z vs d :
  DInv names_of d ->
  let d' := set_capacity z vs d in
  DInv names_of d' /\ d_cap d' = Z.to_nat z /\
  length (cache (d_st d')) =
    (if 0 <? Z.to_nat z then Nat.min (length (cache (d_st d))) (Z.to_nat z) else length (cache (d_st d))) /\
  (forall h c, alookup h (cache (d_st d')) = Some c -> alookup h (cache (d_st d)) = Some c).
Proof.
  intros HI d'. subst d'. unfold set_capacity, DInv. cbn [d_cap d_st].
  rewrite clamp_cap_eq, trim_count_eq.
  destruct (evict_n_inv names_of (if 0 <? Z.to_nat z then length (cache (d_st d)) - Z.to_nat z else 0)
              vs (d_st d) (inv_weaken _ _ _ HI)) as (H1 & H2 & H3).
  assert (Hlen : length (cache (evict_n (if 0 <? Z.to_nat z then length (cache (d_st d)) - Z.to_nat z else 0) vs (d_st d))) =
                 (if 0 <? Z.to_nat z then Nat.min (length (cache (d_st d))) (Z.to_nat z) else length (cache (d_st d)))).
  { rewrite H2. destruct (0 <? Z.to_nat z); lia. }
  split; [|split; [reflexivity | split; [exact Hlen | exact H3]]].
  apply inv_strengthen; [exact H1|]. intros Hpos. rewrite Hlen.
  apply Nat.ltb_lt in Hpos. rewrite Hpos. lia.
Qed.

(** F: the full invariant, with the capacity configured at that moment, is preserved by every
    operation including SetOptions *)
Theorem dstep_inv names_of d o : DInv names_of d -> wf_dop names_of o -> DInv names_of (dstep d o).
Proof.
  intros HI Hwf. destruct o as [o|z vs|q| |r]; cbn [dstep]; try exact HI.
  - unfold DInv. cbn [d_cap d_st]. apply step_inv; assumption.
  - apply (set_capacity_spec names_of z vs d HI).
Qed.
Theorem drun_inv names_of ops : forall d,
  DInv names_of d -> Forall (wf_dop names_of) ops -> DInv names_of (drun d ops).
Proof.
  unfold drun. induction ops as [|o ops IH]; intros d HI Hwf; cbn [fold_left]; [exact HI|].
  inversion Hwf as [|? ? Ho Hops]; subst. apply IH; [apply dstep_inv; assumption | assumption].
Qed.
Lemma dinv_init names_of cap : DInv names_of (dinit cap).
Proof. apply inv_init. Qed.

(** ---- SetOptions as it was before the fix ---- *)
(** the capacity is not lowered below the current size by this operation *)
Definition lowering_ok (d : dstate) (o : dop) : Prop :=
  match o with
  | DSetCap z _ => 0 < Z.to_nat z -> length (cache (d_st d)) <= Z.to_nat z
  | _ => True
  end.
Theorem dstep_untrimmed_inv names_of d o :
  DInv names_of d -> wf_dop names_of o -> lowering_ok d o -> DInv names_of (dstep_untrimmed d o).
Proof.
  intros HI Hwf Hlow. destruct o as [o|z vs|q| |r]; cbn [dstep_untrimmed dstep]; try exact HI.
  - unfold DInv. cbn [d_cap d_st]. apply step_inv; assumption.
  - unfold set_capacity_untrimmed, DInv. cbn [d_cap d_st]. rewrite clamp_cap_eq.
    apply inv_strengthen; [apply (inv_weaken _ _ _ HI) | exact Hlow].
Qed.
Fixpoint never_lowered_below_size (d : dstate) (ops : list dop) : Prop :=
  match ops with
  | [] => True
  | o :: r => lowering_ok d o /\ never_lowered_below_size (dstep_untrimmed d o) r
  end.
Theorem drun_untrimmed_inv names_of ops : forall d,
  DInv names_of d -> Forall (wf_dop names_of) ops -> never_lowered_below_size d ops ->
  DInv names_of (drun_untrimmed d ops).
Proof.
  unfold drun_untrimmed. induction ops as [|o ops IH]; intros d HI Hwf Hlow; cbn [fold_left]; [exact HI|].
  inversion Hwf as [|? ? Ho Hops]; subst. destruct Hlow as [Hl Hr].
  apply IH; [apply dstep_untrimmed_inv; assumption | assumption | assumption].
Qed.
(** ... and whatever is done to the capacity, the structural invariant survives *)
Theorem drun_untrimmed_sinv names_of ops : forall d,
  Inv names_of 0 (d_st d) -> Forall (wf_dop names_of) ops -> Inv names_of 0 (d_st (drun_untrimmed d ops)).
Proof.
  unfold drun_untrimmed. induction ops as [|o ops IH]; intros d HI Hwf; cbn [fold_left]; [exact HI|].
  inversion Hwf as [|? ? Ho Hops]; subst. apply IH; [|assumption].
  destruct o as [o|z vs|q| |r]; cbn [dstep_untrimmed dstep set_capacity_untrimmed d_st]; try exact HI.
  apply step_sinv; assumption.
Qed.

(** ======== what a write-back can change ======== *)
(** the three write-backs re-read the entry under the lock and change ONE field of it; the key
    sets, the index, every other entry, and the other fields of the entry stay as they are *)
Definition same_but (f : cert -> cert) (h : hash) (s s' : state) : Prop :=
  index s' = index s /\ akeys (cache s') = akeys (cache s) /\
  (forall h', h' <> h -> alookup h' (cache s') = alookup h' (cache s)) /\
  match alookup h (cache s) with
  | Some e => alookup h (cache s') = Some (f e)
  | None => s' = s
  end.
Lemma update_entry_same_but f h s e :
  alookup h (cache s) = Some e -> same_but f h s (St (ainsert h (f e) (cache s)) (index s)).
Proof.
  intros E. unfold same_but. cbn [cache index]. rewrite E.
  split; [reflexivity|]. split; [apply akeys_ainsert_mem, amem_alookup; eauto|]. split.
  - intros h' Hne. rewrite alookup_ainsert, str_eqb_neq by congruence. reflexivity.
  - rewrite alookup_ainsert, str_eqb_refl. reflexivity.
Qed.
Theorem set_ocsp_at_effect hv s : same_but (fun e => set_ocsp e (snd hv)) (fst hv) s (set_ocsp_at hv s).
Proof.
  unfold set_ocsp_at. destruct (alookup (fst hv) (cache s)) as [e|] eqn:E.
  - apply (update_entry_same_but (fun e => set_ocsp e (snd hv)) (fst hv) s e E).
  - unfold same_but. rewrite E. auto.
Qed.
Theorem set_ari_at_effect h v s : same_but (fun e => set_ari e v) h s (set_ari_at h v s).
Proof.
  unfold set_ari_at. destruct (alookup h (cache s)) as [e|] eqn:E.
  - apply (update_entry_same_but (fun e => set_ari e v) h s e E).
  - unfold same_but. rewrite E. auto.
Qed.
(** the handshake's write-back of a copy [c], however stale: only the staple of the entry under
    c's own hash can change (tags merged since the copy was taken stay) *)
Theorem write_back_effect c s : same_but (fun e => set_ocsp e (c_ocsp c)) (c_hash c) s (write_back c s).
Proof. apply (set_ocsp_at_effect (c_hash c, c_ocsp c)). Qed.

(** ======== maintenance scans ======== *)
(** the ConfigGetter is shown exactly the cached certificates the pass considers, as they are
    cached at the time of the scan (with all the tags merged so far) *)
Theorem scan_view_exact names_of cap s r c :
  Inv names_of cap s ->
  (In c (scan_view r s) <-> alookup (c_hash c) (cache s) = Some c /\ scan_sel r c = true).
Proof.
  intros HI. unfold scan_view. rewrite filter_In, in_map_iff. split.
  - intros [([k c'] & Heq & Hin) Hsel]. cbn in Heq. subst c'. split; [|exact Hsel].
    apply In_alookup in Hin; [|apply (inv_nodup _ _ s HI)].
    destruct (inv_cert _ _ s HI k c Hin) as (-> & _). exact Hin.
  - intros [Hc Hsel]. split; [|exact Hsel]. exists (c_hash c, c). split; [reflexivity|].
    clear Hsel. revert Hc. generalize (c_hash c). intros k. induction (cache s) as [|[k' v] m IH]; cbn; [discriminate|].
    destruct (str_eqb_spec k k') as [->|Hne]; [intros H; injection H as ->; auto | auto].
Qed.

(** ======== adding leaves the certificate cached; nothing else appears ======== *)
Lemma add_cert_cached cap c v s : amem (c_hash c) (cache (add_cert cap c v s)) = true.
Proof.
  unfold add_cert. destruct (alookup (c_hash c) (cache s)) as [e|] eqn:E.
  - destruct (tags_guard (c_tags c)); cbn [cache].
    + rewrite amem_ainsert, str_eqb_refl. reflexivity.
    + apply amem_alookup. eauto.
  - cbn [cache]. rewrite amem_ainsert, str_eqb_refl. reflexivity.
Qed.
Lemma evict_shrinks v s h : amem h (cache (evict v s)) = true -> amem h (cache s) = true.
Proof.
  intros H. apply amem_alookup in H. destruct H as [c Hc]. apply evict_lookup in Hc.
  apply amem_alookup. eauto.
Qed.
Lemma add_cert_only_adds cap c v s h :
  amem h (cache (add_cert cap c v s)) = true -> h = c_hash c \/ amem h (cache s) = true.
Proof.
  unfold add_cert. destruct (alookup (c_hash c) (cache s)) as [e|] eqn:E.
  - destruct (tags_guard (c_tags c)); cbn [cache]; [|auto].
    rewrite amem_ainsert. destruct (str_eqb_spec (c_hash c) h); auto.
  - cbn [cache]. rewrite amem_ainsert. destruct (str_eqb_spec (c_hash c) h) as [->|Hne]; [auto|].
    cbn [orb]. intros H. right. destruct (at_capacity cap s); [eapply evict_shrinks; eauto | exact H].
Qed.
Lemma nodup_b_true l : nodup_b l = true -> NoDup l.
Proof.
  induction l as [|x l IH]; cbn; [constructor|]. intros H. apply andb_true_iff in H. destruct H as [H1 H2].
  constructor; [apply mem_str_false, negb_true_iff, H1 | auto].
Qed.
