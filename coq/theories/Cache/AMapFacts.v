(** Facts about the association-list maps of Cache.Model (Go maps with string keys). *)
From CM Require Import Lib.Str Cache.Model.
From Coq Require Import Arith.
Open Scope nat_scope.
Arguments count_str : simpl never.

Lemma str_eqb_spec a b : reflect (a = b) (str_eqb a b).
Proof. destruct (str_eqb a b) eqn:E; constructor; [apply str_eqb_eq; exact E|]. intro H. apply str_eqb_eq in H. congruence. Qed.
Lemma str_eqb_refl a : str_eqb a a = true.
Proof. apply str_eqb_eq; reflexivity. Qed.
Lemma str_eqb_sym a b : str_eqb a b = str_eqb b a.
Proof. destruct (str_eqb_spec a b), (str_eqb_spec b a); congruence. Qed.
Lemma str_eqb_neq a b : a <> b -> str_eqb a b = false.
Proof. destruct (str_eqb_spec a b); congruence. Qed.

Lemma strs_eqb_eq a b : strs_eqb a b = true <-> a = b.
Proof. unfold strs_eqb. destruct (list_eq_dec (list_eq_dec N.eq_dec) a b); split; congruence. Qed.

Lemma mem_str_In x l : mem_str x l = true <-> In x l.
Proof.
  unfold mem_str. rewrite existsb_exists. split.
  - intros (y & Hy & E). apply str_eqb_eq in E. subst. exact Hy.
  - intros H. exists x. split; [exact H | apply str_eqb_refl].
Qed.
Lemma mem_str_false x l : mem_str x l = false <-> ~ In x l.
Proof. rewrite <- mem_str_In. destruct (mem_str x l); split; congruence. Qed.

Lemma is_nil_true {A} (l : list A) : is_nil l = true <-> l = [].
Proof. destruct l; cbn; split; congruence. Qed.

Lemma cert_eqb_eq a b : cert_eqb a b = true <-> a = b.
Proof.
  unfold cert_eqb. rewrite !andb_true_iff, !str_eqb_eq, !strs_eqb_eq, Bool.eqb_true_iff, Z.eqb_eq.
  destruct a, b; cbn. split.
  - intros ((((((-> & ->) & ->) & ->) & ->) & ->) & ->). reflexivity.
  - intros H; injection H; intros; subst; repeat split.
Qed.

Section Facts.
  Context {V : Type}.
  Implicit Types (m : amap V) (k : str) (v : V).

  Lemma amem_In k m : amem k m = true <-> In k (akeys m).
  Proof.
    unfold amem, akeys. induction m as [|[k' v'] m IH]; cbn.
    - split; [discriminate | tauto].
    - destruct (str_eqb_spec k k') as [->|Hne].
      + split; auto.
      + rewrite IH. split; [auto | intros [H|H]; congruence].
  Qed.
  Lemma amem_false k m : amem k m = false <-> ~ In k (akeys m).
  Proof. rewrite <- amem_In. destruct (amem k m); split; congruence. Qed.
  Lemma amem_alookup k m : amem k m = true <-> exists v, alookup k m = Some v.
  Proof. unfold amem. destruct (alookup k m); split; eauto; try discriminate. intros [v H]; discriminate. Qed.
  Lemma amem_false_alookup k m : amem k m = false <-> alookup k m = None.
  Proof. unfold amem. destruct (alookup k m); split; congruence. Qed.

  Lemma alookup_adelete k k' m :
    alookup k' (adelete k m) = if str_eqb k k' then None else alookup k' m.
  Proof.
    unfold adelete. induction m as [|[k0 v0] m IH]; cbn.
    - destruct (str_eqb k k'); reflexivity.
    - destruct (str_eqb_spec k k0) as [->|Hne]; cbn.
      + rewrite IH. destruct (str_eqb_spec k0 k') as [->|Hne']; [reflexivity|].
        rewrite (str_eqb_neq k' k0) by congruence. reflexivity.
      + rewrite IH. destruct (str_eqb_spec k' k0) as [->|Hne'].
        * rewrite (str_eqb_neq k k0) by assumption. reflexivity.
        * reflexivity.
  Qed.

  Lemma alookup_map_replace k v k' m :
    alookup k' (map (fun p : str * V => if str_eqb k (fst p) then (fst p, v) else p) m) =
    if str_eqb k k' then (if amem k m then Some v else None) else alookup k' m.
  Proof.
    unfold amem. induction m as [|[k0 v0] m IH]; cbn.
    - destruct (str_eqb k k'); reflexivity.
    - destruct (str_eqb_spec k k0) as [->|Hne]; cbn.
      + destruct (str_eqb_spec k' k0) as [->|Hne'].
        * rewrite str_eqb_refl. reflexivity.
        * rewrite IH. rewrite (str_eqb_neq k0 k') by congruence. reflexivity.
      + destruct (str_eqb_spec k' k0) as [->|Hne'].
        * rewrite (str_eqb_neq k k0) by assumption. reflexivity.
        * rewrite IH. reflexivity.
  Qed.

  Lemma alookup_app k m m' :
    alookup k (m ++ m') = match alookup k m with Some v => Some v | None => alookup k m' end.
  Proof. induction m as [|[k0 v0] m IH]; cbn; [reflexivity|]. destruct (str_eqb k k0); auto. Qed.

  Lemma alookup_ainsert k v k' m :
    alookup k' (ainsert k v m) = if str_eqb k k' then Some v else alookup k' m.
  Proof.
    unfold ainsert. destruct (amem k m) eqn:E.
    - rewrite alookup_map_replace, E. reflexivity.
    - rewrite alookup_app. cbn. rewrite (str_eqb_sym k' k).
      destruct (str_eqb_spec k k') as [->|Hne].
      + apply amem_false_alookup in E. rewrite E. reflexivity.
      + destruct (alookup k' m); reflexivity.
  Qed.

  Lemma amem_adelete k k' m : amem k' (adelete k m) = negb (str_eqb k k') && amem k' m.
  Proof. unfold amem. rewrite alookup_adelete. destruct (str_eqb k k'); reflexivity. Qed.
  Lemma amem_ainsert k v k' m : amem k' (ainsert k v m) = str_eqb k k' || amem k' m.
  Proof. unfold amem. rewrite alookup_ainsert. destruct (str_eqb k k'); reflexivity. Qed.

  Lemma akeys_adelete k m : akeys (adelete k m) = filter (fun x => negb (str_eqb k x)) (akeys m).
  Proof.
    unfold akeys, adelete. induction m as [|[k0 v0] m IH]; cbn; [reflexivity|].
    destruct (str_eqb k k0); cbn; rewrite IH; reflexivity.
  Qed.
  Lemma akeys_ainsert_mem k v m : amem k m = true -> akeys (ainsert k v m) = akeys m.
  Proof.
    unfold ainsert, akeys. intros ->. rewrite map_map. apply map_ext.
    intros [k0 v0]; cbn. destruct (str_eqb k k0); reflexivity.
  Qed.
  Lemma akeys_ainsert_new k v m : amem k m = false -> akeys (ainsert k v m) = akeys m ++ [k].
  Proof. unfold ainsert, akeys. intros ->. rewrite map_app. reflexivity. Qed.

  Lemma length_ainsert_mem k v m : amem k m = true -> length (ainsert k v m) = length m.
  Proof. unfold ainsert. intros ->. apply map_length. Qed.
  Lemma length_ainsert_new k v m : amem k m = false -> length (ainsert k v m) = S (length m).
  Proof. unfold ainsert. intros ->. rewrite app_length. cbn. lia. Qed.

  Lemma NoDup_akeys_adelete k m : NoDup (akeys m) -> NoDup (akeys (adelete k m)).
  Proof. rewrite akeys_adelete. apply NoDup_filter. Qed.
  Lemma NoDup_akeys_ainsert k v m : NoDup (akeys m) -> NoDup (akeys (ainsert k v m)).
  Proof.
    intros H. destruct (amem k m) eqn:E.
    - rewrite akeys_ainsert_mem by assumption. exact H.
    - rewrite akeys_ainsert_new by assumption.
      apply amem_false in E.
      apply NoDup_rev in H. rewrite <- (rev_involutive (akeys m ++ [k])). apply NoDup_rev.
      rewrite rev_app_distr. cbn. constructor; [|exact H]. rewrite <- in_rev. exact E.
  Qed.

  Lemma length_adelete_le k m : length (adelete k m) <= length m.
  Proof. unfold adelete. induction m as [|p m IH]; cbn; [lia|]. destruct (negb _); cbn; lia. Qed.

  Lemma adelete_not_mem k m : amem k m = false -> adelete k m = m.
  Proof.
    rewrite amem_false. unfold adelete, akeys. induction m as [|[k0 v0] m IH]; cbn; [reflexivity|].
    intros H. destruct (str_eqb_spec k k0) as [->|Hne]; [tauto|]. cbn. rewrite IH; tauto.
  Qed.

  Lemma length_adelete_mem k m :
    NoDup (akeys m) -> amem k m = true -> S (length (adelete k m)) = length m.
  Proof.
    unfold akeys. induction m as [|[k0 v0] m IH]; cbn; intros Hnd Hm.
    - discriminate.
    - inversion Hnd as [|x l Hnin Hnd']; subst.
      unfold amem in Hm; cbn in Hm.
      destruct (str_eqb_spec k k0) as [->|Hne]; cbn.
      + f_equal. fold (adelete k0 m). rewrite adelete_not_mem; [reflexivity|].
        apply amem_false. exact Hnin.
      + f_equal. apply IH; [exact Hnd'|]. exact Hm.
  Qed.
End Facts.

Lemma In_alookup {V} (m : amap V) k v : NoDup (akeys m) -> In (k, v) m -> alookup k m = Some v.
Proof.
  unfold akeys. induction m as [|[k0 v0] m IH]; cbn; intros Hnd Hin; [tauto|].
  inversion Hnd as [|x l Hnin Hnd']; subst. destruct Hin as [Heq|Hin].
  - injection Heq as -> ->. rewrite str_eqb_refl. reflexivity.
  - destruct (str_eqb_spec k k0) as [->|Hne]; [|auto].
    exfalso. apply Hnin. apply in_map_iff. exists (k0, v). auto.
Qed.

(** counting occurrences of a string *)
Lemma count_str_app x l l' : count_str x (l ++ l') = count_str x l + count_str x l'.
Proof. apply count_occ_app. Qed.
Lemma count_str_cons x y l : count_str x (y :: l) = (if str_eqb y x then 1 else 0) + count_str x l.
Proof.
  unfold count_str. cbn. destruct (list_eq_dec N.eq_dec y x) as [->|Hne].
  - rewrite str_eqb_refl. reflexivity.
  - rewrite str_eqb_neq by assumption. reflexivity.
Qed.
Lemma count_str_In x l : (0 < count_str x l) <-> In x l.
Proof. unfold count_str. split; intros H; apply (count_occ_In (list_eq_dec N.eq_dec)); exact H. Qed.
Lemma count_str_zero x l : count_str x l = 0 <-> ~ In x l.
Proof. unfold count_str. symmetry. apply count_occ_not_In. Qed.
Lemma count_str_filter_ne x hc l :
  count_str x (filter (fun h => negb (str_eqb h hc)) l) = if str_eqb x hc then 0 else count_str x l.
Proof.
  induction l as [|y l IH]; cbn.
  - destruct (str_eqb x hc); reflexivity.
  - destruct (str_eqb_spec y hc) as [->|Hne]; cbn.
    + rewrite IH, count_str_cons. destruct (str_eqb_spec x hc) as [->|Hne']; [reflexivity|].
      rewrite (str_eqb_neq hc x) by congruence. reflexivity.
    + rewrite !count_str_cons, IH. destruct (str_eqb_spec x hc) as [->|Hne'].
      * rewrite (str_eqb_neq y hc) by assumption. reflexivity.
      * reflexivity.
Qed.
Lemma count_str_repeat x y k : count_str x (repeat y k) = if str_eqb y x then k else 0.
Proof.
  induction k as [|k IH]; cbn [repeat].
  - destruct (str_eqb y x); reflexivity.
  - rewrite count_str_cons, IH. destruct (str_eqb y x); lia.
Qed.
Lemma filter_ne_id hc l : ~ In hc l -> filter (fun h => negb (str_eqb h hc)) l = l.
Proof.
  induction l as [|y l IH]; cbn; [reflexivity|]. intros H.
  destruct (str_eqb_spec y hc) as [->|Hne]; [tauto|]. cbn. rewrite IH; tauto.
Qed.
Lemma filter_ne_idem hc l :
  filter (fun h => negb (str_eqb h hc)) (filter (fun h => negb (str_eqb h hc)) l) =
  filter (fun h => negb (str_eqb h hc)) l.
Proof.
  induction l as [|y l IH]; cbn; [reflexivity|].
  destruct (negb (str_eqb y hc)) eqn:E; cbn; [rewrite E, IH; reflexivity | exact IH].
Qed.
