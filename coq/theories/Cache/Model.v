(** Model of the certificate cache (cache.go): the two maps [Cache.cache] (hash -> Certificate)
    and [Cache.cacheIndex] (name -> hashes) and every operation that touches them:
    unsyncedCacheCertificate (dedup + tag merge + random eviction), removeCertificate,
    replaceCertificate, Remove(hashes), RemoveManaged(subjects), AllMatchingCertificates, and the
    write-backs of updated copies in handshake.go (handshakeMaintenance) and maintain.go
    (updateOCSPStaples, updateARI).  Every access in the code is inside [certCache.mu], so each
    operation below is one atomic step; an operation may carry a STALE copy of a certificate
    (a value read from an earlier state).  Executable definitions only. *)
From CM Require Import Lib.Str Gen.Consts.
Open Scope N_scope.

(** comparisons of the code, as emitted by the translator (harness/cmd/consts/c12.go):
    0 <   1 <=   2 >   3 >=   4 ==   5 != *)
Definition cmp_nat (code a b : nat) : bool :=
  match code with
  | 0 => a <? b | 1 => a <=? b | 2 => b <? a | 3 => b <=? a | 4 => a =? b | _ => negb (a =? b)
  end%nat.
Definition cmp_z (code : nat) (a b : Z) : bool :=
  match code with
  | 0 => (a <? b)%Z | 1 => (a <=? b)%Z | 2 => (b <? a)%Z | 3 => (b <=? a)%Z | 4 => (a =? b)%Z | _ => negb (a =? b)%Z
  end%nat.

Definition name := str.
Definition hash := str.

(** the fields of certmagic.Certificate the cache logic reads, plus two markers standing for
    the attached OCSP response and renewal information (what the write-backs update) *)
Record cert := Cert {
  c_hash : hash;
  c_names : list name;
  c_managed : bool;
  c_issuer : str;
  c_tags : list str;
  c_ocsp : Z;
  c_ari : str
}.

(** Go's zero value [Certificate{}]: what [certCache.cache[h]] yields for an unknown hash *)
Definition zero_cert : cert := Cert [] [] false [] [] 0%Z [].

Definition set_tags (c : cert) (t : list str) : cert :=
  Cert (c_hash c) (c_names c) (c_managed c) (c_issuer c) t (c_ocsp c) (c_ari c).
Definition set_ocsp (c : cert) (v : Z) : cert :=
  Cert (c_hash c) (c_names c) (c_managed c) (c_issuer c) (c_tags c) v (c_ari c).
Definition set_ari (c : cert) (v : str) : cert :=
  Cert (c_hash c) (c_names c) (c_managed c) (c_issuer c) (c_tags c) (c_ocsp c) v.

Definition strs_eqb (a b : list str) : bool :=
  if list_eq_dec (list_eq_dec N.eq_dec) a b then true else false.
Definition cert_eqb (a b : cert) : bool :=
  str_eqb (c_hash a) (c_hash b) && strs_eqb (c_names a) (c_names b) &&
  Bool.eqb (c_managed a) (c_managed b) && str_eqb (c_issuer a) (c_issuer b) &&
  strs_eqb (c_tags a) (c_tags b) && Z.eqb (c_ocsp a) (c_ocsp b) && str_eqb (c_ari a) (c_ari b).

Definition mem_str (x : str) (l : list str) : bool := existsb (str_eqb x) l.
Definition is_nil {A} (l : list A) : bool := match l with [] => true | _ => false end.

(** ---- Go maps with string keys, as association lists ---- *)
Section AMap.
  Context {V : Type}.
  Definition amap := list (str * V).

  Fixpoint alookup (k : str) (m : amap) : option V :=
    match m with
    | [] => None
    | (k', v) :: r => if str_eqb k k' then Some v else alookup k r
    end.
  Definition amem (k : str) (m : amap) : bool :=
    match alookup k m with Some _ => true | None => false end.
  (** delete(m, k) *)
  Definition adelete (k : str) (m : amap) : amap :=
    filter (fun p => negb (str_eqb k (fst p))) m.
  (** m[k] = v : replace in place, or append *)
  Definition ainsert (k : str) (v : V) (m : amap) : amap :=
    if amem k m then map (fun p => if str_eqb k (fst p) then (fst p, v) else p) m
    else m ++ [(k, v)].
  Definition akeys (m : amap) : list str := map fst m.
End AMap.
Arguments amap V : clear implicits.

Record state := St {
  cache : amap cert;            (* Cache.cache *)
  index : amap (list hash)      (* Cache.cacheIndex *)
}.
Definition init : state := St [] [].

(** certCache.cacheIndex[n] (nil when absent) *)
Definition idx_of (ix : amap (list hash)) (n : name) : list hash :=
  match alookup n ix with Some l => l | None => [] end.
Definition idx (s : state) (n : name) : list hash := idx_of (index s) n.
(** certCache.cache[h] (zero value when absent) *)
Definition cache_get (s : state) (h : hash) : cert :=
  match alookup h (cache s) with Some c => c | None => zero_cert end.

(** removeCertificate: for every name of the (copy of the) certificate delete all mentions of
    its hash from the index list, deleting the entry when the list becomes empty; then delete
    the hash from the cache map *)
(** [len(keyList) == 0] *)
Definition index_list_empty (kl : list hash) : bool :=
  cmp_nat cache_remove_empty_cmp (length kl) cache_remove_empty_lit.
Definition unindex_name (hc : hash) (ix : amap (list hash)) (n : name) : amap (list hash) :=
  let kl := filter (fun h => negb (str_eqb h hc)) (idx_of ix n) in
  if index_list_empty kl then adelete n ix else ainsert n kl ix.
Definition remove_cert (c : cert) (s : state) : state :=
  St (adelete (c_hash c) (cache s))
     (fold_left (unindex_name (c_hash c)) (c_names c) (index s)).

(** the tag loop of unsyncedCacheCertificate: append every tag the existing cert lacks *)
Definition merge_tags (existing new : list str) : list str :=
  fold_left (fun acc t => if mem_str t acc then acc else acc ++ [t]) new existing.

Definition index_name (hc : hash) (ix : amap (list hash)) (n : name) : amap (list hash) :=
  ainsert n (idx_of ix n ++ [hc]) ix.

(** random eviction: the victim the implementation drew is an input; if it names no cached
    certificate (never observed) the first entry is taken, so that the function is total *)
Definition evict (victim : option hash) (s : state) : state :=
  match (match victim with Some v => alookup v (cache s) | None => None end) with
  | Some vc => remove_cert vc s
  | None => match cache s with
            | (_, vc) :: _ => remove_cert vc s
            | [] => s
            end
  end.

(** [Capacity > 0 && cacheSize >= Capacity], operators and literal as in the code *)
Definition at_capacity (cap : nat) (s : state) : bool :=
  cmp_nat cache_cap_positive_cmp cap cache_cap_positive_lit &&
  cmp_nat cache_full_cmp (length (cache s)) cap.
(** [len(cert.Tags) > 0] *)
Definition tags_guard (t : list str) : bool :=
  cmp_nat cache_tagloop_guard_cmp (length t) cache_tagloop_guard_lit.

(** unsyncedCacheCertificate *)
Definition add_cert (cap : nat) (c : cert) (victim : option hash) (s : state) : state :=
  match alookup (c_hash c) (cache s) with
  | Some e =>
      if tags_guard (c_tags c)
      then St (ainsert (c_hash c) (set_tags e (merge_tags (c_tags e) (c_tags c))) (cache s)) (index s)
      else s
  | None =>
      let s1 := if at_capacity cap s then evict victim s else s in
      St (ainsert (c_hash c) c (cache s1))
         (fold_left (index_name (c_hash c)) (c_names c) (index s1))
  end.

(** replaceCertificate *)
Definition replace_cert (cap : nat) (old new : cert) (victim : option hash) (s : state) : state :=
  add_cert cap new victim (remove_cert old s).

(** Cache.Remove(hashes): removeCertificate(certCache.cache[h]) -- for an unknown hash this is
    removeCertificate of the zero value *)
Definition remove_hashes (hs : list hash) (s : state) : state :=
  fold_left (fun s h => remove_cert (cache_get s h) s) hs s.

(** getAllMatchingCerts (exact index lookup) *)
Definition get_all_matching_certs (s : state) (n : name) : list cert :=
  map (cache_get s) (idx s n).

(** Cache.RemoveManaged(subjects) when nothing interleaves between its reads and its Remove *)
Definition managed_queue (s : state) (subjects : list (name * str)) : list hash :=
  flat_map (fun sj =>
    map c_hash (filter (fun c => c_managed c && (is_nil (snd sj) || str_eqb (c_issuer c) (snd sj)))
                       (get_all_matching_certs s (fst sj)))) subjects.
Definition remove_managed (subjects : list (name * str)) (s : state) : state :=
  remove_hashes (managed_queue s subjects) s.

(** handshake.go handshakeMaintenance as it was after fix 583673e and before fix "stale handshake
    copy": the WHOLE copy with the refreshed staple was stored if its hash was still cached, which
    dropped whatever had been merged into the cached certificate since the copy was taken *)
Definition write_back_whole_copy (c : cert) (s : state) : state :=
  if amem (c_hash c) (cache s) then St (ainsert (c_hash c) c (cache s)) (index s) else s.
(** maintain.go updateOCSPStaples / updateARI: re-read under the lock, update one field *)
Definition set_ocsp_at (hv : hash * Z) (s : state) : state :=
  match alookup (fst hv) (cache s) with
  | Some c => St (ainsert (fst hv) (set_ocsp c (snd hv)) (cache s)) (index s)
  | None => s
  end.
Definition set_ari_at (h : hash) (v : str) (s : state) : state :=
  match alookup h (cache s) with
  | Some c => St (ainsert h (set_ari c v) (cache s)) (index s)
  | None => s
  end.
(** handshake.go handshakeMaintenance (now): under the lock the cached certificate is re-read
    and only the staple of the handshake's copy is stored into it *)
Definition write_back (c : cert) (s : state) : state := set_ocsp_at (c_hash c, c_ocsp c) s.

Inductive op :=
| OAdd (c : cert) (victim : option hash)
| ORemoveCert (c : cert)
| OReplace (old new : cert) (victim : option hash)
| ORemoveHashes (hs : list hash)
| ORemoveManaged (subjects : list (name * str))
| OWriteBack (c : cert)
| OSetOCSP (upd : list (hash * Z))
| OSetARI (h : hash) (v : str).

Definition step (cap : nat) (s : state) (o : op) : state :=
  match o with
  | OAdd c v => add_cert cap c v s
  | ORemoveCert c => remove_cert c s
  | OReplace old new v => replace_cert cap old new v s
  | ORemoveHashes hs => remove_hashes hs s
  | ORemoveManaged sj => remove_managed sj s
  | OWriteBack c => write_back c s
  | OSetOCSP upd => fold_left (fun s hv => set_ocsp_at hv s) upd s
  | OSetARI h v => set_ari_at h v s
  end.

Definition run (cap : nat) (s : state) (ops : list op) : state := fold_left (step cap) ops s.

(** the states after each operation *)
Fixpoint trace (cap : nat) (s : state) (ops : list op) : list state :=
  match ops with
  | [] => []
  | o :: r => let s' := step cap s o in s' :: trace cap s' r
  end.

(** ---- the capacity can be changed at run time: Cache.SetOptions (Caddy calls it on every
    configuration reload).  [dstate] carries the capacity currently configured. ---- *)
Record dstate := DSt { d_cap : nat; d_st : state }.
Definition dinit (cap : nat) : dstate := DSt cap init.

(** SetOptions: [if opts.Capacity < 0 { opts.Capacity = 0 }] *)
Definition clamp_cap (z : Z) : nat :=
  if cmp_z cache_clamp_cmp z cache_clamp_lit then cache_clamp_value else Z.to_nat z.

(** evictRandomCertificate, [k] times; the victims the implementation drew are inputs *)
Fixpoint evict_n (k : nat) (victims : list hash) (s : state) : state :=
  match k with
  | O => s
  | S k' => match victims with
            | v :: r => evict_n k' r (evict (Some v) s)
            | [] => evict_n k' [] (evict None s)
            end
  end.
(** iterations of [for e := E; e > lit; e--] (code 2) / [e >= lit] (code 3) *)
Definition countdown_iters (code lit : nat) (e : Z) : nat :=
  match code with
  | 2 => Z.to_nat (e - Z.of_nat lit)
  | 3 => Z.to_nat (e + 1 - Z.of_nat lit)
  | _ => 0
  end%nat.
(** the trim of SetOptions (fix 4af396d):
    [if Capacity > 0 { for excess := len(cache) - Capacity; excess > 0; excess-- { evict one } }] *)
Definition trim_count (n : nat) (s : state) : nat :=
  if cmp_nat cache_trim_guard_cmp n cache_trim_guard_lit
  then countdown_iters cache_trim_loop_cmp cache_trim_loop_lit (Z.of_nat (length (cache s)) - Z.of_nat n)
  else 0%nat.
Definition set_capacity (z : Z) (victims : list hash) (d : dstate) : dstate :=
  let n := clamp_cap z in DSt n (evict_n (trim_count n (d_st d)) victims (d_st d)).
(** SetOptions as it was before the fix: the options were stored and nothing else happened *)
Definition set_capacity_untrimmed (z : Z) (d : dstate) : dstate := DSt (clamp_cap z) (d_st d).

Inductive dop :=
| DOp (o : op)
| DSetCap (z : Z) (victims : list hash)   (* Cache.SetOptions with Capacity = z *)
| DQuery (q : name)                       (* Cache.AllMatchingCertificates(q): reads only *)
| DStop                                   (* Cache.Stop: ends the maintenance goroutine; the maps are not touched *)
| DScan (renew : bool).                   (* the scan of a maintenance pass, which shows every certificate it
                                             considers to the ConfigGetter: updateOCSPStaples (false),
                                             RenewManagedCertificates (true); reads only *)

Definition dstep (d : dstate) (o : dop) : dstate :=
  match o with
  | DOp o => DSt (d_cap d) (step (d_cap d) (d_st d) o)
  | DSetCap z vs => set_capacity z vs d
  | DQuery _ | DStop | DScan _ => d
  end.
Definition dstep_untrimmed (d : dstate) (o : dop) : dstate :=
  match o with
  | DSetCap z _ => set_capacity_untrimmed z d
  | _ => dstep d o
  end.
Definition drun (d : dstate) (ops : list dop) : dstate := fold_left dstep ops d.
Definition drun_untrimmed (d : dstate) (ops : list dop) : dstate := fold_left dstep_untrimmed ops d.

(** ---- AllMatchingCertificates (cache.go): exact matches, then every candidate obtained by
    replacing the labels of the name by "*" progressively from the left ---- *)
Definition c_star : N := cache_wildcard_char.   (* labels[i] = "*" *)
Fixpoint star_prefixes (done todo : list str) : list (list str) :=
  match todo with
  | [] => []
  | _ :: r => let done' := done ++ [[c_star]] in (done' ++ r) :: star_prefixes done' r
  end.
Definition wildcard_candidates (n : name) : list name :=
  map (join_with c_dot) (star_prefixes [] (split_on c_dot n)).
Definition all_matching (s : state) (n : name) : list cert :=
  flat_map (get_all_matching_certs s) (n :: wildcard_candidates n).

(** what AllMatchingCertificates answers, as hashes *)
Definition answer (s : state) (q : name) : list hash := map c_hash (all_matching s q).

(** the certificates a maintenance scan shows to the ConfigGetter (CacheOptions.GetConfigForCert,
    which typically chooses the Config by [cert.Tags]): updateOCSPStaples every cached certificate
    (with a leaf, not expired), RenewManagedCertificates the managed ones that have names *)
Definition scan_sel (renew : bool) (c : cert) : bool :=
  negb renew || (c_managed c && negb (is_nil (c_names c))).
Definition scan_view (renew : bool) (s : state) : list cert :=
  filter (scan_sel renew) (map snd (cache s)).

(** ---- the invariant, as a boolean over a finite universe of names and hashes
    ([names_of] : the names of the certificate with a given hash) ---- *)
Definition count_str (x : str) (l : list str) : nat := count_occ (list_eq_dec N.eq_dec) l x.

Fixpoint nodup_b (l : list str) : bool :=
  match l with
  | [] => true
  | x :: r => negb (mem_str x r) && nodup_b r
  end.

Definition inv_b (names_of : hash -> list name) (cap : nat) (ns : list name) (hs : list hash) (s : state) : bool :=
  nodup_b (akeys (cache s)) &&
  forallb (fun k => match alookup k (cache s) with
                    | Some c => str_eqb (c_hash c) k && strs_eqb (c_names c) (names_of k) && negb (is_nil k)
                    | None => true end) (akeys (cache s)) &&
  forallb (fun n => forallb (fun h =>
             Nat.eqb (count_str h (idx s n))
                     (if amem h (cache s) then count_str n (names_of h) else 0%nat)) hs) ns &&
  forallb (fun n => match alookup n (index s) with Some [] => false | _ => true end) (akeys (index s)) &&
  ((cap =? 0)%nat || (length (cache s) <=? cap)%nat).
