(** C12, final round: consequences of the model's value semantics for the index lists (an operation
    on one certificate changes only the lists of that certificate's own names -- the lists of a
    multi-SAN certificate are independent of each other), replacing a certificate by itself, and
    SetOptions going from "unlimited" to a limit. *)
From CM Require Import Lib.Str Lib.Wire Gen.Consts Cache.Model Cache.AMapFacts Cache.Proofs Cache.Check Cache.SpecProofs.
From Coq Require Import Arith.
Open Scope nat_scope.
Arguments count_str : simpl never.

(** the state an insertion starts from: the cache itself, or the cache after the eviction *)
Definition before_insert (cap : nat) (c : cert) (victim : option hash) (s : state) : state :=
  match alookup (c_hash c) (cache s) with
  | Some _ => s
  | None => if at_capacity cap s then evict victim s else s
  end.

(** F: adding a certificate appends its hash to the index list of each of its names -- once per
    occurrence -- and leaves every other list as it was (before the insertion proper, i.e. after the
    eviction if there was one); re-adding a cached certificate changes no list at all *)
Theorem add_changes_only_own_lists cap c v s n :
  idx (add_cert cap c v s) n =
  match alookup (c_hash c) (cache s) with
  | Some _ => idx s n
  | None => idx (before_insert cap c v s) n ++ repeat (c_hash c) (count_str n (c_names c))
  end.
Proof.
  unfold add_cert, before_insert. destruct (alookup (c_hash c) (cache s)) as [e|].
  - destruct (tags_guard (c_tags c)); reflexivity.
  - unfold idx. cbn [index]. apply idx_of_fold_index.
Qed.

Corollary add_leaves_other_names cap c v s n :
  ~ In n (c_names c) -> idx (add_cert cap c v s) n = idx (before_insert cap c v s) n.
Proof.
  intros Hn. rewrite add_changes_only_own_lists. unfold before_insert.
  destruct (alookup (c_hash c) (cache s)); [reflexivity|].
  rewrite (proj2 (count_str_zero n (c_names c)) Hn). cbn [repeat]. apply app_nil_r.
Qed.

(** F: removing a certificate filters its hash out of the lists of its own names and leaves every
    other list -- and every other hash in its own lists -- as it was *)
Theorem remove_changes_only_own_lists c s n :
  idx (remove_cert c s) n =
  if mem_str n (c_names c) then filter (fun h => negb (str_eqb h (c_hash c))) (idx s n) else idx s n.
Proof. apply idx_remove_cert. Qed.

Corollary remove_keeps_other_hashes c s n h :
  h <> c_hash c -> count_str h (idx (remove_cert c s) n) = count_str h (idx s n).
Proof.
  intros Hne. rewrite remove_changes_only_own_lists. destruct (mem_str n (c_names c)); [|reflexivity].
  rewrite count_str_filter_ne. rewrite (str_eqb_neq h (c_hash c)) by exact Hne. reflexivity.
Qed.

(** no aliasing between the lists of one multi-SAN certificate: after it has been added, removing
    ANOTHER certificate that shares only the name [a] with it leaves its mention under every other
    name [b] untouched, and its mention under [a] as well *)
Theorem lists_of_a_multi_san_certificate_are_independent c other s b :
  c_hash other <> c_hash c ->
  count_str (c_hash c) (idx (remove_cert other s) b) = count_str (c_hash c) (idx s b).
Proof. intros Hne. apply remove_keeps_other_hashes. congruence. Qed.

(** F: replacing a certificate by itself (a renewal that yields the same chain, or a reload) keeps
    it: afterwards it is cached as the new copy says (the tags are the new copy's, not merged), it is
    listed under each of its names exactly as before, every other entry is untouched, and nothing is
    evicted when the cache is within its capacity *)
Theorem replace_by_itself_keeps names_of cap c c' v s :
  Inv names_of cap s -> wf_cert names_of c' -> c_hash c = c_hash c' -> wf_copy names_of c ->
  alookup (c_hash c') (cache s) <> None ->
  let s' := replace_cert cap c c' v s in
  Inv names_of cap s' /\
  alookup (c_hash c') (cache s') = Some c' /\
  (forall h, h <> c_hash c' -> alookup h (cache s') = alookup h (cache s)) /\
  (forall n h, count_str h (idx s' n) = count_str h (idx s n)).
Proof.
  intros HI Hwf Hh Hcopy Hcached s'.
  assert (HI1 : Inv names_of cap (remove_cert c s)) by (apply remove_copy_inv; assumption).
  assert (HI' : Inv names_of cap s') by (apply add_cert_inv; assumption).
  assert (Hgone : alookup (c_hash c') (cache (remove_cert c s)) = None).
  { rewrite alookup_remove_cert, Hh, str_eqb_refl. reflexivity. }
  assert (Hlen : length (cache (remove_cert c s)) < length (cache s)).
  { destruct (alookup (c_hash c') (cache s)) as [e|] eqn:E; [|congruence].
    pose proof (inv_cert _ _ s HI _ _ E) as (He & _).
    assert (Hc : remove_cert c s = remove_cert e s).
    { unfold remove_cert. destruct Hcopy as [Hn|Hn].
      - pose proof (inv_cert _ _ s HI _ _ E) as (_ & Hen & _). rewrite Hn, Hen, He, Hh. reflexivity.
      - exfalso. destruct Hwf as [_ Hne]. apply Hne. rewrite <- Hh. exact Hn. }
    rewrite Hc. pose proof (remove_cached_length names_of cap s _ e HI E). lia. }
  assert (Hnocap : at_capacity cap (remove_cert c s) = false).
  { rewrite at_capacity_eq. destruct (0 <? cap) eqn:E0; [|reflexivity]. cbn [andb].
    apply Nat.ltb_lt in E0. pose proof (inv_cap _ _ s HI E0). apply Nat.leb_gt. lia. }
  split; [exact HI'|].
  unfold s', replace_cert, add_cert. rewrite Hgone, Hnocap. cbn [cache index].
  split; [rewrite alookup_ainsert, str_eqb_refl; reflexivity|]. split.
  - intros h Hne. rewrite alookup_ainsert, (str_eqb_neq (c_hash c') h) by congruence.
    rewrite alookup_remove_cert, Hh, (str_eqb_neq (c_hash c') h) by congruence. reflexivity.
  - intros n h. rewrite (inv_count _ _ _ HI n h).
    fold (add_cert cap c' v (remove_cert c s)) in *.
    assert (Hs' : s' = St (ainsert (c_hash c') c' (cache (remove_cert c s)))
                        (fold_left (index_name (c_hash c')) (c_names c') (index (remove_cert c s)))).
    { unfold s', replace_cert, add_cert. rewrite Hgone, Hnocap. reflexivity. }
    rewrite <- Hs'. rewrite (inv_count _ _ _ HI' n h). rewrite Hs'. cbn [cache].
    rewrite amem_ainsert. cbn [remove_cert cache]. rewrite amem_adelete, Hh.
    destruct (str_eqb_spec (c_hash c') h) as [<-|Hne]; cbn [orb negb andb].
    + destruct (amem (c_hash c') (cache s)) eqn:Em; [reflexivity|].
      apply amem_false_alookup in Em. congruence.
    + reflexivity.
Qed.

(** F: SetOptions from "unlimited" (capacity 0) to a limit trims at once: afterwards the cache
    holds exactly min(size, limit) certificates, all of them certificates it held before, the new
    capacity is in force and the whole invariant holds *)
Theorem set_options_from_unlimited_trims names_of n vs d :
  DInv names_of d -> d_cap d = 0 -> 0 < n ->
  let d' := set_capacity (Z.of_nat n) vs d in
  DInv names_of d' /\ d_cap d' = n /\
  length (cache (d_st d')) = Nat.min (length (cache (d_st d))) n /\
  length (cache (d_st d')) <= n /\
  (forall h c, alookup h (cache (d_st d')) = Some c -> alookup h (cache (d_st d)) = Some c).
Proof.
  intros HI _ Hn. cbv zeta.
  destruct (set_capacity_spec names_of (Z.of_nat n) vs d HI) as (HI' & Hcap & Hlen & Hsub).
  rewrite Nat2Z.id in Hcap, Hlen.
  assert (E : (0 <? n) = true) by (apply Nat.ltb_lt; exact Hn). rewrite E in Hlen.
  split; [exact HI'|]. split; [exact Hcap|]. split; [exact Hlen|].
  split; [rewrite Hlen; apply Nat.le_min_r | exact Hsub].
Qed.

(** ---- the whole of [check_line]'s verdict on what the model produces: the replay agrees with
    itself (states, SetOptions' capacity, query answers, scan views) and [spec_ok] holds: code 0 ---- *)
Lemma dop_of_wstep_of d o : dop_of (wstep_of d o) = o.
Proof. destruct o; reflexivity. Qed.

Lemma view_eqb_refl v : nodup_b (map fst v) = true -> view_eqb v v = true.
Proof.
  intros Hnd. unfold view_eqb. apply andb_true_iff. split; [apply andb_true_iff; split; [apply Nat.eqb_refl | exact Hnd]|].
  apply forallb_forall. intros p Hp. apply existsb_exists. exists p. split; [exact Hp|].
  rewrite str_eqb_refl, strs_eqb_refl. reflexivity.
Qed.

Lemma answer_agrees_model names_of d o :
  DInv names_of (dstep d o) -> answer_agrees (wstep_of d o) (dstep d o) = true.
Proof.
  intros HI. destruct o as [o|z vs|q| |r]; cbn [wstep_of answer_agrees]; try reflexivity.
  - apply Nat.eqb_refl.
  - apply strs_eqb_refl.
  - apply view_eqb_refl.
    pose proof (scan_ok_model names_of (d_cap (dstep d (DScan r))) r (d_st (dstep d (DScan r))) HI) as H.
    unfold scan_ok in H. apply andb_true_iff in H. destruct H as [H _].
    apply andb_true_iff in H. destruct H as [H _]. exact H.
Qed.

Lemma replay_model names_of ops : forall d,
  DInv names_of d -> Forall (wf_dop names_of) ops ->
  exists bs, replay d (model_steps d ops) = (bs, drun d ops) /\ forallb (fun b => b) bs = true.
Proof.
  induction ops as [|o ops IH]; intros d HI Hwf; [exists []; split; reflexivity|].
  inversion Hwf as [|? ? Ho Hops]; subst.
  assert (HI' : DInv names_of (dstep d o)) by (apply dstep_inv; assumption).
  destruct (IH (dstep d o) HI' Hops) as (bs & Hr & Hall).
  exists ((state_eqb (d_st (dstep d o)) (d_st (dstep d o)) && answer_agrees (wstep_of d o) (dstep d o)) :: bs).
  split.
  - cbn [model_steps].
    assert (Hstep : forall w, w = wstep_of d o ->
              replay d ((w, d_st (dstep d o)) :: model_steps (dstep d o) ops) =
              ((state_eqb (d_st (dstep d o)) (d_st (dstep d o)) && answer_agrees w (dstep d o)) :: bs, drun (dstep d o) ops)).
    { intros w Hw. assert (Hd : dop_of w = o) by (rewrite Hw; apply dop_of_wstep_of).
      destruct w; try (cbn [replay]; rewrite Hd, Hr; reflexivity).
      destruct o; discriminate. }
    rewrite (Hstep _ eq_refl). reflexivity.
  - cbn [forallb]. rewrite (state_eqb_refl names_of (d_cap (dstep d o))) by exact HI'.
    rewrite (answer_agrees_model names_of d o HI'), Hall. reflexivity.
Qed.

Theorem check_of_model cap pool ops queries :
  Forall (wf_dop (names_of_pool (case_certs_of pool ops))) ops ->
  code (model_agrees (model_case cap pool ops queries)) (spec_ok (model_case cap pool ops queries)) = 0%Z.
Proof.
  intros Hwf. rewrite (spec_ok_of_model cap pool ops queries Hwf).
  set (nm := names_of_pool (case_certs_of pool ops)) in *.
  unfold model_agrees, model_case. cbn [k_cap k_steps k_queries].
  destruct (replay_model nm ops (dinit cap) (dinv_init nm cap) Hwf) as (bs & Hr & Hall).
  rewrite Hr. cbv beta iota. rewrite Hall. cbn [andb].
  match goal with |- code ?X true = _ => replace X with true; [reflexivity|symmetry] end.
  apply forallb_forall. intros qr Hin. apply in_map_iff in Hin. destruct Hin as (q & <- & _).
  cbn [fst snd]. apply strs_eqb_refl.
Qed.

(** ---- removals remove exactly what they name ---- *)
(** F: Cache.Remove(hashes): afterwards a hash is cached iff it was cached and is not listed;
    every remaining certificate is unchanged (unknown, empty or repeated hashes do no harm) *)
Theorem remove_exact names_of cap hs s k :
  Inv names_of cap s ->
  alookup k (cache (remove_hashes hs s)) = if mem_str k hs then None else alookup k (cache s).
Proof. intros HI. apply (remove_hashes_lookup names_of cap hs s HI). Qed.

(** F: Cache.RemoveManaged(subjects) run without interference: afterwards a cached certificate is
    gone iff it is managed and lists one of the subjects EXACTLY (no wildcard expansion), of the
    given issuer if one is given; the others are unchanged *)
Theorem remove_managed_exact names_of cap sj s k c :
  Inv names_of cap s -> alookup k (cache s) = Some c ->
  alookup k (cache (remove_managed sj s)) =
  if c_managed c && existsb (fun p => mem_str (fst p) (c_names c) && (is_nil (snd p) || str_eqb (c_issuer c) (snd p))) sj
  then None else Some c.
Proof.
  intros HI E. unfold remove_managed. rewrite (remove_hashes_lookup names_of cap _ s HI).
  rewrite (managed_queue_mem names_of cap s sj k c HI E). unfold managed_gone. rewrite E. reflexivity.
Qed.

(** F: replacing on renewal: afterwards the new certificate is cached -- as the new copy says if it
    was not cached before -- and the old one is gone unless it is the same certificate; the
    invariant holds whatever stale copy of the old certificate the caller held *)
Theorem replace_effect names_of cap old new v s :
  Inv names_of cap s -> wf_copy names_of old -> wf_cert names_of new ->
  let s' := replace_cert cap old new v s in
  Inv names_of cap s' /\ amem (c_hash new) (cache s') = true /\
  (c_hash old <> c_hash new -> amem (c_hash old) (cache s') = false).
Proof.
  intros HI Ho Hn s'. split; [apply add_cert_inv; [apply remove_copy_inv|]; assumption|].
  split; [apply add_cert_cached|]. intros Hne.
  destruct (amem (c_hash old) (cache s')) eqn:Em; [|reflexivity]. exfalso.
  apply add_cert_only_adds in Em. destruct Em as [Em|Em]; [congruence|].
  cbn [remove_cert cache] in Em. rewrite amem_adelete, str_eqb_refl in Em. discriminate.
Qed.
