(** acmeclient.go newACMEClient: which challenge solvers an issuer configuration gets, how they are
    layered and where the listener solvers listen (getHTTPPort / getTLSALPNPort, net.JoinHostPort).
    Executable definitions only. *)
From Coq Require Import ZArith.
From CM Require Import Lib.Str Gen.Consts Safe.Model Challenge.Model.
Open Scope Z_scope.

Record icfg := ICfg {
  i_dns : bool;            (* ACMEIssuer.DNS01Solver != nil *)
  i_dis_http : bool;       (* DisableHTTPChallenge *)
  i_dis_alpn : bool;       (* DisableTLSALPNChallenge *)
  i_host : str;            (* ListenHost *)
  i_alt_http : Z;          (* AltHTTPPort *)
  i_alt_alpn : Z;          (* AltTLSALPNPort *)
  g_http : Z;              (* package variable HTTPPort *)
  g_https : Z;             (* package variable HTTPSPort *)
  i_ik : str               (* IssuerKey() *)
}.

Definition pick_port (base glob alt : Z) : Z :=
  let use := if (0 <? glob) && negb (glob =? base) then glob else base in
  if 0 <? alt then alt else use.
Definition http_port (c : icfg) : Z := pick_port http_challenge_port (g_http c) (i_alt_http c).
Definition alpn_port (c : icfg) : Z := pick_port tlsalpn_challenge_port (g_https c) (i_alt_alpn c).

(** strconv.Itoa for a non-negative number *)
Fixpoint dec_fuel (fuel : nat) (n : N) (acc : str) : str :=
  match fuel with
  | O => acc
  | S k => let acc' := (48 + n mod 10)%N :: acc in
           if (n <? 10)%N then acc' else dec_fuel k (n / 10)%N acc'
  end.
Definition itoa (z : Z) : str :=
  if z <? 0 then 45%N :: dec_fuel 20 (Z.to_N (- z)) [] else dec_fuel 20 (Z.to_N z) [].

(** net.JoinHostPort: a host containing ':' (or '%') is bracketed *)
Definition join_host_port (h : str) (port : str) : str :=
  if contains 58%N h || contains 37%N h then (91%N :: h) ++ (93%N :: 58%N :: port) else h ++ (58%N :: port).

(** one configured solver: always inside a solverWrapper; [sd_dist]: inside a distributedSolver
    with this issuer prefix; listener address for http / tls-alpn *)
Record sdesc := SDesc { sd_type : ctype; sd_dist : bool; sd_prefix : str; sd_addr : str }.

Section Keys.
  Variable lower : N -> N.
  Variable is_space : N -> bool.
  Definition solver_set (c : icfg) : list sdesc :=
    if i_dns c then [SDesc TDns false [] []]
    else
      (if i_dis_http c then [] else [SDesc THttp true (ca_prefix lower is_space (i_ik c)) (join_host_port (i_host c) (itoa (http_port c)))]) ++
      (if i_dis_alpn c then [] else [SDesc TTlsAlpn true (ca_prefix lower is_space (i_ik c)) (join_host_port (i_host c) (itoa (alpn_port c)))]).
End Keys.

(** the challenge types an issuer configuration enables *)
Definition enabled (c : icfg) (t : ctype) : bool :=
  match t with
  | TDns => i_dns c
  | THttp => negb (i_dns c) && negb (i_dis_http c)
  | TTlsAlpn => negb (i_dns c) && negb (i_dis_alpn c)
  | TOther => false
  end.

Definition sdesc_eqb (a b : sdesc) : bool :=
  ctype_eqb (sd_type a) (sd_type b) && Bool.eqb (sd_dist a) (sd_dist b) &&
  str_eqb (sd_prefix a) (sd_prefix b) && str_eqb (sd_addr a) (sd_addr b).

(** what the check demands of an observed solver set: exactly one solver per enabled type, the
    listener solvers distributed under the issuer's own prefix (where getChallengeInfo of every
    instance looks) and listening on the configured host and port *)
Section Spec.
  Variable lower : N -> N.
  Variable is_space : N -> bool.
  Definition cfg_spec (c : icfg) (obs : list sdesc) : bool :=
    forallb (fun t => Nat.eqb (length (filter (fun d => ctype_eqb (sd_type d) t) obs)) (if enabled c t then 1 else 0))
            [THttp; TTlsAlpn; TDns; TOther] &&
    forallb (fun d => match sd_type d with
                      | THttp => sd_dist d && str_eqb (sd_prefix d) (ca_prefix lower is_space (i_ik c)) &&
                                 str_eqb (sd_addr d) (join_host_port (i_host c) (itoa (http_port c)))
                      | TTlsAlpn => sd_dist d && str_eqb (sd_prefix d) (ca_prefix lower is_space (i_ik c)) &&
                                    str_eqb (sd_addr d) (join_host_port (i_host c) (itoa (alpn_port c)))
                      | _ => true
                      end) obs.
End Spec.
