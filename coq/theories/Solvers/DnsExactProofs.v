From Coq Require Import ZArith Lia.
From CM Require Import Lib.Str Solvers.DnsExact.
Open Scope Z_scope.

Lemma str_eqb_rfl s : str_eqb s s = true.
Proof. apply str_eqb_eq. reflexivity. Qed.
Lemma nv_eqb_spec a b : nv_eqb a b = true <-> a = b.
Proof.
  destruct a as [a1 a2], b as [b1 b2]. unfold nv_eqb. cbn [fst snd]. rewrite andb_true_iff, !str_eqb_eq.
  split; [intros [-> ->]; reflexivity|intros H; injection H; auto].
Qed.
Lemma same_nv_nvof n v r : same_nv n v r = nv_eqb (nvof r) (n, v).
Proof. reflexivity. Qed.

Lemma remove_first_map {A B} (f : A -> B) (p : A -> bool) (q : B -> bool) l :
  (forall x, p x = q (f x)) -> map f (remove_first p l) = remove_first q (map f l).
Proof.
  intros H. induction l as [|x l IH]; cbn; [reflexivity|]. rewrite <- H. destruct (p x); cbn; [reflexivity|f_equal; exact IH].
Qed.
Lemma remove_first_none {A} (p : A -> bool) l : existsb p l = false -> remove_first p l = l.
Proof.
  induction l as [|x l IH]; cbn; [reflexivity|]. rewrite orb_false_iff. intros [-> H]. f_equal. exact (IH H).
Qed.
Lemma find_none_existsb {A} (p : A -> bool) l : find p l = None -> existsb p l = false.
Proof. induction l as [|x l IH]; cbn; [reflexivity|]. destruct (p x); [discriminate|exact IH]. Qed.
Lemma remove_first_in {A} (p : A -> bool) l x : In x (remove_first p l) -> In x l.
Proof.
  induction l as [|y l IH]; cbn; [intros []|]. destruct (p y); [intros H; right; exact H|].
  intros [->|H]; [left; reflexivity|right; exact (IH H)].
Qed.
Lemma remove_first_nodup {A} (p : A -> bool) l : NoDup l -> NoDup (remove_first p l).
Proof.
  induction 1 as [|y l Hn Hd IH]; cbn; [constructor|]. destruct (p y); [exact Hd|].
  constructor; [intros H; apply Hn; exact (remove_first_in _ _ _ H)|exact IH].
Qed.
Lemma nodup_remove_first_eq (l : list nv) x : NoDup l -> ~ In x (remove_first (fun y => nv_eqb y x) l).
Proof.
  induction 1 as [|y l Hn Hd IH]; cbn; [intros []|]. destruct (nv_eqb y x) eqn:E.
  - apply nv_eqb_spec in E. subst y. exact Hn.
  - intros [->|H]; [|exact (IH H)]. rewrite (proj2 (nv_eqb_spec x x) eq_refl) in E. discriminate.
Qed.

Lemma NoDup_app_snoc {A} (l : list A) x : NoDup l -> ~ In x l -> NoDup (l ++ [x]).
Proof.
  induction 1 as [|y l Hn Hd IH]; cbn; intros Hx; [constructor; [intros []|constructor]|].
  constructor.
  - intros H. apply in_app_or in H. destruct H as [H|[->|[]]]; [exact (Hn H)|apply Hx; left; reflexivity].
  - apply IH. intros H. apply Hx. right. exact H.
Qed.

(** with at most one element satisfying [p] (names/values are unique), deleting all matches is
    deleting the first *)
Lemma filter_is_remove_first (l : list drec) n v : NoDup (map nvof l) ->
  filter (fun r => negb (same_nv n v r)) l = remove_first (same_nv n v) l.
Proof.
  induction l as [|x l IH]; cbn [map filter remove_first]; [reflexivity|]. intros H. inversion H as [|? ? Hn Hd]; subst.
  destruct (same_nv n v x) eqn:E; cbn [negb].
  - rewrite same_nv_nvof in E. apply nv_eqb_spec in E.
    clear IH H. induction l as [|y l IHl]; cbn [filter]; [reflexivity|].
    destruct (same_nv n v y) eqn:Ey.
    + exfalso. rewrite same_nv_nvof in Ey. apply nv_eqb_spec in Ey. apply Hn. left. congruence.
    + cbn [negb]. f_equal. apply IHl; [intros Hin; apply Hn; right; exact Hin|inversion Hd; assumption].
  - f_equal. exact (IH Hd).
Qed.

(** the exact pattern of the FIRST record with this name and value removes that very record *)
Lemma exact_is_remove_first (l : list drec) n v m : find (same_nv n v) l = Some m ->
  remove_first (drec_eqb m) l = remove_first (same_nv n v) l.
Proof.
  induction l as [|x l IH]; cbn [find remove_first]; [discriminate|].
  destruct (same_nv n v x) eqn:E.
  - intros H; injection H; intros ->.
    assert (drec_eqb m m = true) as ->; [|reflexivity].
    unfold drec_eqb, same_nv. rewrite !str_eqb_rfl, Z.eqb_refl. reflexivity.
  - intros H. assert (drec_eqb m x = false) as ->; [|f_equal; exact (IH H)].
    destruct (drec_eqb m x) eqn:D; [|reflexivity]. exfalso.
    apply find_some in H. destruct H as [_ Hm]. unfold drec_eqb in D. apply andb_true_iff in D. destruct D as [D _].
    unfold same_nv in *. apply andb_true_iff in D, Hm. destruct D as [D1 D2], Hm as [M1 M2].
    apply str_eqb_eq in D1, D2, M1, M2. rewrite D1, D2, M1, M2, !str_eqb_rfl in E. discriminate.
Qed.

Section Created.
  Variable ttl minttl : Z.
  Notation dstep := (dstep ttl minttl true).
  Notation drun := (drun ttl minttl true).

  Definition DInv (s : dstate) (p : list nv) : Prop :=
    zone s = dmem s /\ map nvof (dmem s) = p /\ NoDup p.

  Lemma dinv_step s p o : DInv s p -> dfresh_from p [o] = true -> DInv (dstep s o) (dpstep p o).
  Proof.
    intros (Hz & Hm & Hn) Hf. destruct o as [n v|n v]; cbn [dstep dpstep].
    - cbn in Hf. rewrite andb_true_r in Hf. apply negb_true_iff in Hf.
      repeat split; cbn [zone dmem].
      + rewrite Hz. reflexivity.
      + rewrite map_app, Hm. reflexivity.
      + apply NoDup_app_snoc; [exact Hn|]. intros Hin.
        assert (existsb (fun x => nv_eqb x (n, v)) p = true); [|congruence].
        apply existsb_exists. exists (n, v). split; [exact Hin|apply nv_eqb_spec; reflexivity].
    - destruct (find (same_nv n v) (dmem s)) as [m|] eqn:Ef.
      + repeat split; cbn [zone dmem].
        * rewrite Hz. unfold delete_records. destruct (d_ttl m =? 0).
          -- apply find_some in Ef. destruct Ef as [_ Em]. unfold same_nv in Em. apply andb_true_iff in Em.
             destruct Em as [E1 E2]. apply str_eqb_eq in E1, E2. rewrite E1, E2.
             apply filter_is_remove_first. rewrite Hm. exact Hn.
          -- exact (exact_is_remove_first _ _ _ _ Ef).
        * rewrite <- Hm. apply remove_first_map. intros x. reflexivity.
        * apply remove_first_nodup. exact Hn.
      + repeat split; try assumption.
        * rewrite remove_first_none; [exact Hm|]. rewrite <- Hm.
          apply find_none_existsb in Ef. clear -Ef. induction (dmem s) as [|x l IH]; cbn in *; [reflexivity|].
          apply orb_false_iff in Ef. destruct Ef as [E1 E2]. rewrite <- same_nv_nvof, E1. exact (IH E2).
        * rewrite remove_first_none; [exact Hn|]. rewrite <- Hm.
          apply find_none_existsb in Ef. clear -Ef. induction (dmem s) as [|x l IH]; cbn in *; [reflexivity|].
          apply orb_false_iff in Ef. destruct Ef as [E1 E2]. rewrite <- same_nv_nvof, E1. exact (IH E2).
  Qed.

  Lemma dinv_fold ops : forall s p, DInv s p -> dfresh_from p ops = true ->
    DInv (fold_left dstep ops s) (fold_left dpstep ops p).
  Proof.
    induction ops as [|o r IH]; intros s p H Hf; cbn [fold_left]; [exact H|].
    cbn [dfresh_from] in Hf. apply andb_true_iff in Hf. destruct Hf as [H1 H2].
    apply IH; [apply dinv_step; [exact H|cbn [dfresh_from]; rewrite H1; reflexivity]|exact H2].
  Qed.

  Lemma dinv ops : dfresh ops = true -> DInv (drun ops) (dpending ops).
  Proof. intros H. apply dinv_fold; [repeat split; constructor|exact H]. Qed.

  (** what is in the zone is exactly what is remembered, and that is one record per pending challenge *)
  Theorem zone_is_memory ops : dfresh ops = true ->
    zone (drun ops) = dmem (drun ops) /\ map nvof (zone (drun ops)) = dpending ops.
  Proof. intros H. destruct (dinv ops H) as (A & B & _). rewrite A. split; [reflexivity|exact B]. Qed.

  (** every record the provider reported as created is deleted by its CleanUp: for every TTL and clamp *)
  Theorem cleanup_deletes_created ops n v : dfresh (ops ++ [DClean n v]) = true ->
    forall r, In r (zone (drun (ops ++ [DClean n v]))) -> nvof r <> (n, v).
  Proof.
    intros H r Hr E. destruct (dinv _ H) as (A & B & C).
    assert (In (n, v) (dpending (ops ++ [DClean n v]))) as Hin.
    { rewrite <- B, <- A, <- E. apply in_map. exact Hr. }
    unfold dpending in Hin. rewrite fold_left_app in Hin. cbn [fold_left dpstep] in Hin.
    apply (nodup_remove_first_eq _ (n, v)) in Hin; [exact Hin|].
    assert (dfresh ops = true) as Ho.
    { unfold dfresh in *. clear -H. revert H. generalize (@nil nv). induction ops as [|o r IH]; intros p; cbn; [reflexivity|].
      rewrite !andb_true_iff. intros [H1 H2]. split; [exact H1|exact (IH _ H2)]. }
    destruct (dinv _ Ho) as (_ & _ & Hn). exact Hn.
  Qed.

  (** a created record stays until its own clean-up *)
  Theorem created_stays_while_pending ops n v : dfresh ops = true -> In (n, v) (dpending ops) ->
    exists r, In r (zone (drun ops)) /\ nvof r = (n, v).
  Proof.
    intros H Hin. destruct (zone_is_memory ops H) as [_ B]. rewrite <- B in Hin.
    apply in_map_iff in Hin. destruct Hin as [r [E Hr]]. exists r. split; assumption.
  Qed.

  (** when every challenge has been cleaned up the zone is empty *)
  Theorem quiescent_zone_empty ops : dfresh ops = true -> dpending ops = [] -> zone (drun ops) = [].
  Proof.
    intros H Hp. destruct (zone_is_memory ops H) as [_ B]. rewrite Hp in B.
    destruct (zone (drun ops)); [reflexivity|discriminate].
  Qed.
End Created.

(** remembering the record AS REQUESTED is the same thing when the provider does not clamp ... *)
Theorem requested_same_when_not_clamped ttl minttl ops : norm minttl ttl = ttl ->
  drun ttl minttl false ops = drun ttl minttl true ops.
Proof.
  intros H. unfold drun. generalize dinit. induction ops as [|o r IH]; intros s; cbn [fold_left]; [reflexivity|].
  assert (dstep ttl minttl false s o = dstep ttl minttl true s o) as ->; [|apply IH].
  destruct o; cbn [dstep]; [rewrite H|]; reflexivity.
Qed.

(** ... and leaves the record in the zone when it does: TTL 10 s, minimum 60 s, one challenge
    presented and cleaned up (CleanUp finds its memory and DeleteRecords ignores the pattern) *)
Theorem requested_leaves_record_refuted : exists ttl minttl ops,
  dfresh ops = true /\ dpending ops = [] /\ dmem (drun ttl minttl false ops) = [] /\
  zone (drun ttl minttl false ops) <> [].
Proof.
  exists 10, 60, [DPresent [110%N] [118%N]; DClean [110%N] [118%N]]. vm_compute. repeat split; discriminate.
Qed.
