(** Model of the challenge solvers (C16), at the level of the acmez.Solver interface:
      solvers.go  httpSolver / tlsALPNSolver (package-level [solvers] map: address -> count, listener),
                  distributedSolver (token file), solverWrapper (activeChallenges),
                  DNS01Solver / DNSManager (provider records + presenter memory)
    under acmez's discipline (client.go solveChallenges: every authorization whose solver was
    chosen gets Present once and then CleanUp exactly once, also after a failed Present).
    Executable definitions only. *)
From Coq Require Import ZArith.
From CM Require Import Lib.Str Challenge.Assoc Challenge.Model.
Open Scope Z_scope.

Inductive skind := KHttp | KTlsAlpn | KDns.
(** robustTryListen: (listener, nil) | (nil, nil): address in use by someone else | (nil, err) *)
Inductive bind_res := BOk | BInUse | BErr.

Record order := Order {
  o_kind : skind;
  o_addr : str;          (* listener address of the http / tls-alpn solver *)
  o_ik : str;            (* issuer key the token is stored under *)
  o_chal : chal;
  o_name : str;          (* DNS01TXTRecordName (oracle) *)
  o_val : str            (* DNS01KeyAuthorization (oracle) *)
}.

(** what the environment does to one call *)
Record faults := Faults {
  f_cancel : bool;       (* the context is already cancelled *)
  f_storage : bool;      (* the storage operation of this call fails (injected) *)
  f_provider : bool;     (* the DNS provider operation of this call fails (injected) *)
  f_bind : bind_res      (* result of the bind, if one is attempted *)
}.

Inductive sop := SPresent (o : order) (f : faults) | SClean (o : order) (f : faults).

Definition rec := (str * str)%type.                 (* (record name, TXT value) *)
Definition rec_eqb (a b : rec) : bool := str_eqb (fst a) (fst b) && str_eqb (snd a) (snd b).

Record sstate := SState {
  solvers : list (str * (Z * bool));   (* address -> (count, listener != nil) *)
  s_mem : list (str * (chal * bool));  (* activeChallenges *)
  s_store : list (skey * sval);        (* challenge token files *)
  dns_recs : list rec;                 (* the provider's records *)
  dns_mem : list rec                   (* DNSManager.records, flattened *)
}.
Definition sinit : sstate := SState [] [] [] [] [].

Definition is_listener (k : skind) : bool := match k with KDns => false | _ => true end.

(** remove the first element equal to x *)
Fixpoint remove_one {A} (eqb : A -> A -> bool) (x : A) (l : list A) : list A :=
  match l with
  | [] => []
  | y :: r => if eqb y x then r else y :: remove_one eqb x r
  end.
Definition mem_b {A} (eqb : A -> A -> bool) (x : A) (l : list A) : bool := existsb (fun y => eqb y x) l.

Section Sys.
  Variable sf : str -> str.      (* KeyBuilder.Safe *)
  Variable honour : bool.        (* the storage honours context cancellation *)
  Variable kstr : skey -> str.   (* rendering of a token key as the storage key string (Safe.Model.challenge_tokens_key) *)

  Definition tk (o : order) : skey := (sf (o_ik o), sf (challenge_key (o_chal o))).
  Definition ck (o : order) : str := challenge_key (o_chal o).
  Definition orec (o : order) : rec := (o_name o, o_val o).

  (** httpSolver.Present / tlsALPNSolver.Present on the solvers map; returns (map, failed) *)
  Definition listen_present (a : str) (b : bind_res) (m : list (str * (Z * bool))) : list (str * (Z * bool)) * bool :=
    let '(n, l) := match aget str_eqb a m with Some x => x | None => (0, false) end in
    if l then (aset str_eqb a (n + 1, true) m, false)
    else match b with
         | BOk => (aset str_eqb a (n + 1, true) m, false)
         | BInUse => (aset str_eqb a (n + 1, false) m, false)
         | BErr => (aset str_eqb a (n + 1, false) m, true)
         end.
  (** CleanUp: count--, at zero close and delete *)
  Definition listen_clean (a : str) (m : list (str * (Z * bool))) : list (str * (Z * bool)) :=
    let '(n, l) := match aget str_eqb a m with Some x => x | None => (0, false) end in
    if n - 1 =? 0 then adel str_eqb a m else aset str_eqb a (n - 1, l) m.

  (** one call; the boolean is "returned an error" *)
  Definition sstep (s : sstate) (op : sop) : sstate * bool :=
    match op with
    | SPresent o f =>
        match o_kind o with
        | KDns =>
            let m := aset str_eqb (ck o) (o_chal o, false) (s_mem s) in                 (* solverWrapper *)
            if f_cancel f || f_provider f
            then (SState (solvers s) m (s_store s) (dns_recs s) (dns_mem s), true)
            else (SState (solvers s) m (s_store s) (dns_recs s ++ [orec o]) (dns_mem s ++ [orec o]), false)
        | k =>
            let store_fails := f_storage f || (f_cancel f && honour) in
            let m := aset str_eqb (ck o) (o_chal o, match k with KTlsAlpn => true | _ => false end) (s_mem s) in
            let st := if store_fails then s_store s else aset skey_eqb (tk o) (SChal (o_chal o)) (s_store s) in
            let '(sv, bind_failed) := listen_present (o_addr o) (f_bind f) (solvers s) in
            (SState sv m st (dns_recs s) (dns_mem s), store_fails || bind_failed)
        end
    | SClean o f =>
        let m := adel str_eqb (ck o) (s_mem s) in                                        (* solverWrapper *)
        match o_kind o with
        | KDns =>
            if mem_b rec_eqb (orec o) (dns_mem s) then
              let dm := remove_one rec_eqb (orec o) (dns_mem s) in
              if f_provider f then (SState (solvers s) m (s_store s) (dns_recs s) dm, true)
              else (SState (solvers s) m (s_store s) (remove_one rec_eqb (orec o) (dns_recs s)) dm, false)
            else (SState (solvers s) m (s_store s) (dns_recs s) (dns_mem s), true)
        | _ =>
            (* the token is deleted with a context that is not cancelled; the embedded solver is
               cleaned up whether or not that worked *)
            let st := if f_storage f then s_store s else adel skey_eqb (tk o) (s_store s) in
            (SState (listen_clean (o_addr o) (solvers s)) m st (dns_recs s) (dns_mem s), f_storage f)
        end
    end.

  Definition srun (ops : list sop) : sstate := fold_left (fun s op => fst (sstep s op)) ops sinit.

  (** * Vocabulary of the specification *)
  Definition ctype_of (k : skind) : ctype := match k with KHttp => THttp | KTlsAlpn => TTlsAlpn | KDns => TDns end.
  Definition skind_eqb (a b : skind) : bool :=
    match a, b with KHttp, KHttp | KTlsAlpn, KTlsAlpn | KDns, KDns => true | _, _ => false end.
  Definition order_eqb (a b : order) : bool :=
    skind_eqb (o_kind a) (o_kind b) && str_eqb (o_addr a) (o_addr b) && str_eqb (o_ik a) (o_ik b) &&
    chal_eqb (o_chal a) (o_chal b) && str_eqb (o_name a) (o_name b) && str_eqb (o_val a) (o_val b).

  (** presented and not yet cleaned up, with the faults of the Present call *)
  Definition pentry := (order * faults)%type.
  Fixpoint premove (o : order) (p : list pentry) : list pentry :=
    match p with
    | [] => []
    | e :: r => if order_eqb (fst e) o then r else e :: premove o r
    end.
  Definition ppstep (p : list pentry) (op : sop) : list pentry :=
    match op with
    | SPresent o f => (o, f) :: p
    | SClean o _ => premove o p
    end.
  Definition spending (ops : list sop) : list pentry := fold_left ppstep ops [].

  (** acmez's discipline: CleanUp only for (and after) a Present *)
  Fixpoint disc_from (p : list pentry) (ops : list sop) : bool :=
    match ops with
    | [] => true
    | op :: r =>
        match op with
        | SPresent _ _ => true
        | SClean o _ => existsb (fun e => order_eqb (fst e) o) p
        end && disc_from (ppstep p op) r
    end.
  Definition disc (ops : list sop) : bool := disc_from [] ops.

  Definition uses (a : str) (e : pentry) : bool := is_listener (o_kind (fst e)) && str_eqb (o_addr (fst e)) a.
  Definition npend (a : str) (p : list pentry) : Z := Z.of_nat (length (filter (uses a) p)).

  Definition storage_delete_fault (ops : list sop) : bool :=
    existsb (fun op => match op with SClean o f => is_listener (o_kind o) && f_storage f | _ => false end) ops.
  Definition provider_delete_fault (ops : list sop) : bool :=
    existsb (fun op => match op with SClean o f => negb (is_listener (o_kind o)) && f_provider f | _ => false end) ops.
  Definition present_ok_dns (e : pentry) : bool :=
    negb (is_listener (o_kind (fst e))) && negb (f_cancel (snd e) || f_provider (snd e)).
  Definition count_rec (x : rec) (l : list rec) : nat := length (filter (rec_eqb x) l).
  (** DNS challenges are presented only while no pending DNS challenge has the same record name
      AND value (tokens are unique; a shared name with different values is the normal case) *)
  Definition is_dns (e : pentry) : bool := negb (is_listener (o_kind (fst e))).
  Fixpoint dns_fresh_from (p : list pentry) (ops : list sop) : bool :=
    match ops with
    | [] => true
    | op :: r =>
        match op with
        | SPresent o _ => is_listener (o_kind o) ||
                          negb (existsb (fun e => is_dns e && rec_eqb (orec (fst e)) (orec o)) p)
        | SClean _ _ => true
        end && dns_fresh_from (ppstep p op) r
    end.
  Definition dns_fresh (ops : list sop) : bool := dns_fresh_from [] ops.

  (** ** what is observed of a state *)
  Record snap := Snap {
    sn_solvers : list (str * (Z * bool));
    sn_mem : list (str * bool);
    sn_store : list str;
    sn_recs : list rec;
    sn_dmem : list rec
  }.
  Definition snap_of (s : sstate) : snap :=
    Snap (solvers s) (map (fun e => (fst e, snd (snd e))) (s_mem s)) (map (fun e => kstr (fst e)) (s_store s)) (dns_recs s) (dns_mem s).

  Definition is_nil {A} (l : list A) : bool := match l with [] => true | _ => false end.

  (** the property at one point of a history: [ops] so far, [o] what is observed *)
  Definition spec_at (ops : list sop) (o : snap) : bool :=
    let p := spending ops in
    negb (disc ops) ||
    ( (* a solver entry exists exactly while its address is in use, and counts the uses *)
      forallb (fun e : str * (Z * bool) =>
                 match aget str_eqb (fst e) (sn_solvers o) with
                 | Some (n, _) => (n =? npend (fst e) p) && (0 <? n)
                 | None => false
                 end) (sn_solvers o) &&
      forallb (fun e : pentry => negb (is_listener (o_kind (fst e))) ||
                                 match aget str_eqb (o_addr (fst e)) (sn_solvers o) with Some _ => true | None => false end) p &&
      (* a listener that was opened stays open while any challenge uses the address *)
      forallb (fun e : pentry => negb (is_listener (o_kind (fst e))) ||
                                 match f_bind (snd e) with
                                 | BOk => match aget str_eqb (o_addr (fst e)) (sn_solvers o) with Some (_, l) => l | None => false end
                                 | _ => true
                                 end) p &&
      (* memory, token files, presenter memory only for pending challenges *)
      forallb (fun k : str * bool => existsb (fun e : pentry => str_eqb (ck (fst e)) (fst k)) p) (sn_mem o) &&
      (storage_delete_fault ops ||
       forallb (fun k : str => existsb (fun e : pentry => is_listener (o_kind (fst e)) && str_eqb (kstr (tk (fst e))) k) p) (sn_store o)) &&
      forallb (fun r : rec => existsb (fun e : pentry => negb (is_listener (o_kind (fst e))) && rec_eqb (orec (fst e)) r) p) (sn_dmem o) &&
      (provider_delete_fault ops ||
       forallb (fun r : rec => existsb (fun e : pentry => negb (is_listener (o_kind (fst e))) && rec_eqb (orec (fst e)) r) p) (sn_recs o)) &&
      (* a created record stays until its own clean-up, also next to others of the same name *)
      (negb (dns_fresh ops) ||
       forallb (fun e : pentry => negb (present_ok_dns e) ||
                                  (mem_b rec_eqb (orec (fst e)) (sn_recs o) && mem_b rec_eqb (orec (fst e)) (sn_dmem o))) p) ).

  (** nothing is left when no challenge is pending *)
  Definition quiescent_clean_b (ops : list sop) (o : snap) : bool :=
    negb (disc ops) || negb (is_nil (spending ops)) ||
    (is_nil (sn_solvers o) && is_nil (sn_mem o) && is_nil (sn_dmem o) &&
     (storage_delete_fault ops || is_nil (sn_store o)) &&
     (provider_delete_fault ops || is_nil (sn_recs o))).
End Sys.
