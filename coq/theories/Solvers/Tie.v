(** What the Solvers model hard-codes about the shape of the code, stated against the facts the
    translator reads from the source on every run (harness/cmd/consts/c16.go, item emitC16Order).
    If the code changes shape, this file stops compiling and the check reports it. *)
From Coq Require Import ZArith.
From CM Require Import Lib.Str Gen.Consts Solvers.Model Solvers.Config.

(** [sstep]: solverWrapper writes / deletes the memory entry and then calls the wrapped solver;
    distributedSolver stores / deletes the token and then calls the embedded solver, both calls
    unconditional, the Delete with a context that is not cancelled *)
Example tie_wrappers :
  c16_wrapper_present_order = [0; 1]%nat /\ c16_wrapper_cleanup_order = [0; 1]%nat /\
  c16_dist_present_order = [0; 1]%nat /\ c16_dist_cleanup_order = [0; 1]%nat /\
  c16_dist_cleanup_fresh_ctx = true.
Proof. repeat split; reflexivity. Qed.

(** [listen_present]: count++, then "already listening" returns, then the bind;
    [listen_clean]: count--, and at zero the listener is closed and the entry deleted *)
Example tie_listeners :
  c16_listen_present_order_http = [0; 1; 2]%nat /\ c16_listen_present_order_tlsalpn = [0; 1; 2]%nat /\
  c16_close_at_count_http = 0%Z /\ c16_close_at_count_tlsalpn = 0%Z.
Proof. repeat split; reflexivity. Qed.

(** DNS: the record is created, then remembered; CleanUp forgets (deferred), recalls, deletes with a
    fresh context *)
Example tie_dns :
  c16_dns_present_order = [0; 1]%nat /\ c16_dns_cleanup_order = [0; 1; 2]%nat /\ c16_dns_cleanup_fresh_ctx = true.
Proof. repeat split; reflexivity. Qed.

(** [pick_port]: getHTTPPort / getTLSALPNPort have the shape  base; package port if > 0 and different;
    alternate port if > 0  ([http_port] / [alpn_port] use the translated base ports) *)
Example tie_ports : c16_http_port_shape = true /\ c16_tlsalpn_port_shape = true.
Proof. split; reflexivity. Qed.
