(** End-to-end vocabulary for C16: what a conforming CA's validation request sees in a solver
    state, and when an order is expected to succeed.  The answering side is the C15 model
    (Challenge.Model: [http_handle], [alpn_get]) run on the challenge memory and the token store
    of the solver state; the listener side is the [solvers] table.  Executable definitions only. *)
From Coq Require Import ZArith.
From CM Require Import Lib.Str Gen.Consts Challenge.Assoc Challenge.Model Solvers.Model.
Open Scope N_scope.

(** certmagic serialises orders per identifier (C01): a challenge is presented only while no
    pending challenge has the same memory key — except that several DNS-01 challenges of one
    identifier (example.com and *.example.com) may be pending together: they do not use the memory *)
Definition ckfresh (p : list pentry) (op : sop) : bool :=
  match op with
  | SPresent o _ =>
      forallb (fun e => negb (str_eqb (ck (fst e)) (ck o)) ||
                        (negb (is_listener (o_kind o)) && negb (is_listener (o_kind (fst e))))) p
  | SClean _ _ => true
  end.
Fixpoint key_fresh_from (p : list pentry) (ops : list sop) : bool :=
  match ops with
  | [] => true
  | op :: r => ckfresh p op && key_fresh_from (ppstep p op) r
  end.
Definition key_fresh (ops : list sop) : bool := key_fresh_from [] ops.

(** the order is one a CA hands out: the challenge has the solver's type; an HTTP-01 identifier is
    a DNS name (no colon: the Host header is the identifier itself); the TLS-ALPN-01 SNI is not empty *)
Definition good_order_b (o : order) : bool :=
  ctype_eqb (c_type (o_chal o)) (ctype_of (o_kind o)) &&
  match o_kind o with
  | KHttp => negb (contains c_colon (c_ident (o_chal o)))
  | KTlsAlpn => negb (is_nil (challenge_key (o_chal o)))
  | KDns => true
  end.

Section E2E.
  Variable sf : str -> str.
  Variable feq : N -> N -> bool.

  (** the answering process sees this memory and this token store *)
  Definition cstate_of (s : sstate) : cstate := CState (s_mem s) (s_store s).
  Definition listening_at (a : str) (s : sstate) : bool :=
    match aget str_eqb a (solvers s) with Some (_, l) => l | None => false end.

  (** the validation request of RFC 8555 8.3 for the challenge of [o] (DNS-name identifier: the
      Host header is the identifier) *)
  Definition http_validation_req (o : order) : hreq :=
    HReq m_get (resource_path (o_chal o)) (c_ident (o_chal o)).

  (** does the CA's validation of [o] succeed in state [s]?  [other]: the address is held by
      another server of the same cluster (same memory / storage), which answers *)
  Definition validates (other : bool) (s : sstate) (o : order) : bool :=
    match o_kind o with
    | KHttp =>
        (listening_at (o_addr o) s || other) &&
        ostr_eqb (http_handle sf feq [o_ik o] false false (cstate_of s) (http_validation_req o))
                 (Some (c_keyauth (o_chal o)))
    | KTlsAlpn =>
        (listening_at (o_addr o) s || other) &&
        match alpn_get sf feq [o_ik o] false (cstate_of s) (challenge_key (o_chal o)) [acme_tls1_protocol] with
        | AChal c => chal_eqb c (o_chal o)
        | _ => false
        end
    | KDns => mem_b rec_eqb (orec o) (dns_recs s)
    end.

  (** a Present call on which nothing was injected and whose bind gave a listener (or found the
      address held by an answering server) *)
  Definition clean_present (other : bool) (f : faults) : bool :=
    negb (f_cancel f) && negb (f_storage f) && negb (f_provider f) &&
    match f_bind f with BOk => true | BInUse => other | BErr => false end.

  (** what the check demands of an observed validation result [obs] for [o] after [ops]: a
      pending challenge whose Present went through is answered; an order that is over gets nothing
      (C15: key material only for a pending challenge, tokens being unique) *)
  Definition validation_spec (ops : list sop) (o : order) (other obs : bool) : bool :=
    match find (fun e => order_eqb (fst e) o) (spending ops) with
    | Some e => negb (disc ops && key_fresh ops && dns_fresh ops && good_order_b o && clean_present other (snd e)) || obs
    | None => negb obs
    end.
End E2E.
