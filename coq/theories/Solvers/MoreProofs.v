(** C16: clauses the monitor checks, proved for all histories: a CleanUp forgets the challenge
    under every fault; acmez's observed calling discipline as the explicit hypothesis of "nothing
    is left"; an order that is not pending (and shares no key with a pending one) is not validated. *)
From Coq Require Import ZArith Lia.
From CM Require Import Lib.Str Gen.Consts Challenge.Assoc Challenge.Model Challenge.Proofs
  Solvers.Model Solvers.Proofs Solvers.E2E Solvers.E2EProofs.

Section Sys.
  Variable sf : str -> str.
  Variable honour : bool.
  Notation nxt := (nxt sf honour).
  Notation srun := (srun sf honour).

  (** whatever the call reports — context cancelled, Storage.Delete fails, DeleteRecords fails —
      the challenge is no longer in this process's memory afterwards: it is over *)
  Theorem cleanup_forgets_under_every_fault s o f : aget str_eqb (ck o) (s_mem (nxt s (SClean o f))) = None.
  Proof. rewrite (mem_clean sf honour). apply (aget_adel_same str_eqb). Qed.

  (** acmez's discipline, as observed on the recording solver in the real orders: each challenge
      gets the program [Present; CleanUp] (CleanUp exactly once, also after a failed Present),
      the programs of concurrent orders interleave arbitrarily.  THAT is the hypothesis under which
      nothing is left *)
  Theorem acmez_discipline_leaves_nothing ts ops : merge (map prog ts) ops ->
    let s := srun ops in
    disc ops = true /\ spending ops = [] /\
    solvers s = [] /\ s_mem s = [] /\ dns_mem s = [] /\
    (storage_delete_fault ops = false -> s_store s = []) /\
    (provider_delete_fault ops = false -> dns_recs s = []).
  Proof.
    intros Hm. destruct (all_interleavings_disciplined ts ops Hm) as [Hd Hp].
    split; [exact Hd|]. split; [exact Hp|]. exact (quiescent_clean sf honour ops Hd Hp).
  Qed.

  Variable feq : N -> N -> bool.

  (** an order that is not pending and shares no memory key, token key or record with a pending
      one gets nothing from a validation request *)
  Theorem unrelated_order_not_validated ops o :
    disc ops = true -> storage_delete_fault ops = false -> provider_delete_fault ops = false ->
    good_order o ->
    (forall e, In e (spending ops) ->
       (is_listener (o_kind o) = true -> ck (fst e) <> ck o /\ tk sf (fst e) <> tk sf o) /\
       (o_kind o = KDns -> orec (fst e) <> orec o)) ->
    validates sf feq false (srun ops) o = false.
  Proof.
    intros Hd Hsf Hpf [Hty [Hhttp Halpn]] Hun.
    destruct (only_pending_leaves_traces sf honour ops Hd) as (Hmem & Hsto & _ & Hrec).
    specialize (Hsto Hsf). specialize (Hrec Hpf).
    assert (Ginfo : is_listener (o_kind o) = true ->
                    get_challenge_info sf feq [o_ik o] (cstate_of (srun ops)) false (ck o) = None).
    { intros Hl.
      assert (Mnone : aget str_eqb (ck o) (s_mem (srun ops)) = None).
      { destruct (aget str_eqb (ck o) (s_mem (srun ops))) as [v|] eqn:E; [|reflexivity].
        destruct (Hmem _ _ E) as [e [Hin Hk]]. destruct (Hun e Hin) as [A _]. destruct (A Hl). contradiction. }
      assert (Snone : aget skey_eqb (tk sf o) (s_store (srun ops)) = None).
      { destruct (aget skey_eqb (tk sf o) (s_store (srun ops))) as [v|] eqn:E; [|reflexivity].
        destruct (Hsto _ _ E) as [e (Hin & _ & Hk)]. destruct (Hun e Hin) as [A _]. destruct (A Hl). contradiction. }
      unfold get_challenge_info, cstate_of. cbn [mem]. rewrite Mnone. cbn [first_stored store].
      change (tkey sf (o_ik o) (ck o)) with (tk sf o). rewrite Snone. reflexivity. }
    unfold validates. destruct (o_kind o) eqn:Ek.
    - assert (Hck : ck o = c_ident (o_chal o)) by (unfold ck, challenge_key; rewrite Hty; reflexivity).
      unfold http_handle, http_validation_req. cbn [h_host].
      rewrite (challenge_host_plain _ (Hhttp eq_refl)), <- Hck, (Ginfo eq_refl).
      destruct (looks_like_challenge _); cbn; apply andb_false_r.
    - unfold alpn_get. fold (ck o). rewrite (Ginfo eq_refl). destruct (alpn_branch _ _); apply andb_false_r.
    - destruct (mem_b rec_eqb (orec o) (dns_recs (srun ops))) eqn:E; [|reflexivity].
      apply mem_b_in in E. destruct (Hrec _ E) as [e (Hin & _ & Hr)]. destruct (Hun e Hin) as [_ C]. exfalso. exact (C eq_refl Hr).
  Qed.
End Sys.
