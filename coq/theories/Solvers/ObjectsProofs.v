From Coq Require Import ZArith Lia.
From CM Require Import Lib.Str Challenge.Assoc Challenge.Proofs Solvers.Model Solvers.Objects.
Open Scope Z_scope.

Lemma forget_get a s : aget str_eqb a (forget s) =
  option_map (fun e => (le_count e, le_listening e)) (aget str_eqb a (l_solvers s)).
Proof.
  unfold forget. induction (l_solvers s) as [|[k e] l IH]; cbn; [reflexivity|].
  destruct (str_eqb k a); [reflexivity|exact IH].
Qed.
Lemma forget_adel a l : map (fun x : str * lentry => (fst x, (le_count (snd x), le_listening (snd x)))) (adel str_eqb a l) =
  adel str_eqb a (map (fun x : str * lentry => (fst x, (le_count (snd x), le_listening (snd x)))) l).
Proof.
  unfold adel. induction l as [|[k e] l IH]; cbn; [reflexivity|]. destruct (str_eqb k a); cbn; [exact IH|f_equal; exact IH].
Qed.
Lemma forget_aset a e l : map (fun x : str * lentry => (fst x, (le_count (snd x), le_listening (snd x)))) (aset str_eqb a e l) =
  aset str_eqb a (le_count e, le_listening e) (map (fun x : str * lentry => (fst x, (le_count (snd x), le_listening (snd x)))) l).
Proof. unfold aset. cbn. f_equal. apply forget_adel. Qed.

(** the table (count, listener) does not depend on which objects make the calls, nor on where the
    flag lives: it is the table of Solvers.Model *)
Theorem state_is_per_address place s op : forget (fst (ostep place s op)) = plain_step (forget s) op.
Proof.
  destruct op as [obj a b|obj a]; cbn [ostep plain_step].
  - unfold listen_present, lget. rewrite forget_get.
    destruct (aget str_eqb a (l_solvers s)) as [[n l o]|]; cbn [option_map le_count le_listening le_opener].
    + destruct l; [|destruct b]; cbn [fst]; unfold forget; cbn [l_solvers]; rewrite forget_aset; reflexivity.
    + destruct b; cbn [fst]; unfold forget; cbn [l_solvers]; rewrite forget_aset; reflexivity.
  - unfold listen_clean, lget. rewrite forget_get.
    destruct (aget str_eqb a (l_solvers s)) as [[n l o]|]; cbn [option_map le_count le_listening le_opener].
    + destruct (n - 1 =? 0); cbn [fst]; unfold forget; cbn [l_solvers]; [apply forget_adel|rewrite forget_aset; reflexivity].
    + destruct (0 - 1 =? 0); cbn [fst]; unfold forget; cbn [l_solvers]; [apply forget_adel|rewrite forget_aset; reflexivity].
Qed.

(** flag per address (the code): every call of every history returns, whatever objects are used *)
Theorem per_address_always_returns ops : forall s, snd (orun PerAddress s ops) = true.
Proof.
  induction ops as [|op r IH]; intros s; cbn [orun]; [reflexivity|].
  destruct (ostep PerAddress s op) as [s' ok] eqn:E. specialize (IH s').
  destruct (orun PerAddress s' r) as [s'' ok']. cbn [snd] in *. rewrite IH, andb_true_r.
  destruct op as [obj a b|obj a]; cbn [ostep] in E.
  - injection E; intros; subst; reflexivity.
  - destruct (le_count (lget a s) - 1 =? 0); injection E; intros; subst; [apply orb_true_r|reflexivity].
Qed.

(** flag per solver object: two orders with their own objects on one address, the one that did not
    open the listener cleans up last — its CleanUp never returns *)
Theorem per_object_flag_refuted : exists ops,
  snd (orun PerObject linit ops) = false /\ snd (orun PerAddress linit ops) = true /\
  fst (orun PerObject linit ops) = LState [] (l_obj_closed (fst (orun PerObject linit ops))).
Proof.
  exists [OPresent 1 [97%N] BOk; OPresent 2 [97%N] BOk; OClean 1 [97%N]; OClean 2 [97%N]]. vm_compute. repeat split.
Qed.

(** ... which a harness that drives all orders of an address through ONE object cannot see *)
Theorem per_object_one_object_returns obj ops : (forall op, In op ops -> match op with OPresent o _ _ | OClean o _ => o = obj end) ->
  forall s, (forall a e, aget str_eqb a (l_solvers s) = Some e -> le_listening e = true -> le_opener e = obj) ->
  snd (orun PerObject s ops) = true.
Proof.
  induction ops as [|op r IH]; intros Hall s Hs; cbn [orun]; [reflexivity|].
  destruct (ostep PerObject s op) as [s' ok] eqn:E.
  assert (Hop : match op with OPresent o _ _ | OClean o _ => o = obj end) by (apply Hall; left; reflexivity).
  assert (Hs' : forall a e, aget str_eqb a (l_solvers s') = Some e -> le_listening e = true -> le_opener e = obj).
  { destruct op as [o a b|o a]; cbn [ostep] in E; subst o.
    - injection E; intros _ <-. cbn [l_solvers]. intros a' e'.
      destruct (list_eq_dec N.eq_dec a a') as [<-|Hne].
      + rewrite (aget_aset_same str_eqb str_eqb_eq). intros He; injection He; intros <-.
        unfold lget. destruct (aget str_eqb a (l_solvers s)) as [e0|] eqn:E0.
        * destruct (le_listening e0) eqn:L0; cbn [le_listening le_opener]; [intros _; exact (Hs _ _ E0 L0)|].
          destruct b; cbn [le_listening le_opener]; [reflexivity|discriminate|discriminate].
        * cbn [le_listening le_opener]. destruct b; cbn [le_listening le_opener]; [reflexivity|discriminate|discriminate].
      + rewrite (aget_aset_other str_eqb str_eqb_eq) by exact Hne. apply Hs.
    - destruct (le_count (lget a s) - 1 =? 0); injection E; intros _ <-; cbn [l_solvers]; intros a' e'.
      + intros He. apply (aget_adel_some str_eqb str_eqb_eq) in He. destruct He as [_ He]. exact (Hs _ _ He).
      + destruct (list_eq_dec N.eq_dec a a') as [<-|Hne].
        * rewrite (aget_aset_same str_eqb str_eqb_eq). intros He; injection He; intros <-. cbn [le_listening le_opener].
          unfold lget. destruct (aget str_eqb a (l_solvers s)) as [e0|] eqn:E0; [exact (Hs _ _ E0)|cbn; discriminate].
        * rewrite (aget_aset_other str_eqb str_eqb_eq) by exact Hne. apply Hs. }
  specialize (IH (fun op' H => Hall op' (or_intror H)) s' Hs').
  destruct (orun PerObject s' r) as [s'' ok']. cbn [snd] in *. rewrite IH, andb_true_r.
  destruct op as [o a b|o a]; cbn [ostep] in E; subst o.
  - injection E; intros; subst; reflexivity.
  - destruct (le_count (lget a s) - 1 =? 0); injection E; intros <- _; [|reflexivity].
    unfold lget. destruct (aget str_eqb a (l_solvers s)) as [e0|] eqn:E0; [|reflexivity].
    destruct (le_listening e0) eqn:L0; [|reflexivity]. cbn [negb orb existsb].
    rewrite (Hs _ _ E0 L0), Nat.eqb_refl. reflexivity.
Qed.
