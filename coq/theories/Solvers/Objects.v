(** Where the listener state lives.  Every issuance builds its own solver OBJECTS
    (newACMEClient: fresh httpSolver / tlsALPNSolver values); orders on one address meet only in
    the package-level table [solvers] keyed by ADDRESS.  Solvers.Model has no object identities at
    all: count, listener, the [done] channel and the flag that lets the TLS-ALPN accept loop end
    ([solverInfo.closed]) are per address.  This file refines the listener part with object
    identities to state what that buys: with the flag per address the CleanUp that closes the
    listener always returns, whichever object opened it; with the flag per solver object (the
    accept loop polls the flag of the object that OPENED the listener, the closing CleanUp sets the
    flag of the object that CLOSES) it blocks on [<-si.done] as soon as the two differ.
    (httpSolver.closed IS per object in the code, but it only silences a log line: http.Server.Serve
    returns when the listener is closed, whatever the flag says.)  Executable definitions only. *)
From Coq Require Import ZArith.
From CM Require Import Lib.Str Challenge.Assoc Solvers.Model.
Open Scope Z_scope.

Inductive flag_place := PerAddress | PerObject.

Record lentry := LEntry { le_count : Z; le_listening : bool; le_opener : nat }.
Record lstate := LState {
  l_solvers : list (str * lentry);
  l_obj_closed : list nat            (* solver objects whose own closed flag is set *)
}.
Definition linit : lstate := LState [] [].

Inductive oop := OPresent (obj : nat) (a : str) (b : bind_res) | OClean (obj : nat) (a : str).

Definition lget (a : str) (s : lstate) : lentry :=
  match aget str_eqb a (l_solvers s) with Some e => e | None => LEntry 0 false 0 end.

(** one call; the boolean is "the call returns" (false: it blocks forever on <-si.done) *)
Definition ostep (place : flag_place) (s : lstate) (op : oop) : lstate * bool :=
  match op with
  | OPresent obj a b =>
      let e := lget a s in
      let e' := if le_listening e then LEntry (le_count e + 1) true (le_opener e)
                else match b with
                     | BOk => LEntry (le_count e + 1) true obj         (* this object's goroutine accepts *)
                     | _ => LEntry (le_count e + 1) false (le_opener e)
                     end in
      (LState (aset str_eqb a e' (l_solvers s)) (l_obj_closed s), true)
  | OClean obj a =>
      let e := lget a s in
      if le_count e - 1 =? 0 then
        (* last one out: set the flag, close the listener, wait for the accept loop to end *)
        let closed := match place with PerAddress => l_obj_closed s | PerObject => obj :: l_obj_closed s end in
        let loop_ends := match place with
                         | PerAddress => true                                     (* the loop reads si.closed, just set *)
                         | PerObject => existsb (Nat.eqb (le_opener e)) closed    (* the loop reads its OWN object's flag *)
                         end in
        (LState (adel str_eqb a (l_solvers s)) closed, negb (le_listening e) || loop_ends)
      else (LState (aset str_eqb a (LEntry (le_count e - 1) (le_listening e) (le_opener e)) (l_solvers s)) (l_obj_closed s), true)
  end.

(** run a history; all calls returned? *)
Fixpoint orun (place : flag_place) (s : lstate) (ops : list oop) : lstate * bool :=
  match ops with
  | [] => (s, true)
  | op :: r => let '(s', ok) := ostep place s op in
               let '(s'', ok') := orun place s' r in (s'', ok && ok')
  end.

(** forgetting the object identities gives the table of Solvers.Model *)
Definition forget (s : lstate) : list (str * (Z * bool)) :=
  map (fun x => (fst x, (le_count (snd x), le_listening (snd x)))) (l_solvers s).
Definition plain_step (m : list (str * (Z * bool))) (op : oop) : list (str * (Z * bool)) :=
  match op with
  | OPresent _ a b => fst (listen_present a b m)
  | OClean _ a => listen_clean a m
  end.
