(** C16, "issuance succeeds with each enabled challenge type": in every history of the
    discipline, the validation request of a conforming CA for a pending challenge whose Present
    went through is answered (HTTP-01: the exact GET gets the key authorization from a listener
    that is open; TLS-ALPN-01: the acme-tls/1 hello gets the challenge certificate; DNS-01: the
    TXT record is in the zone) — whatever other orders do meanwhile. *)
From Coq Require Import ZArith Lia.
From CM Require Import Lib.Str Gen.Consts Challenge.Assoc Challenge.Model Challenge.Proofs
  Solvers.Model Solvers.Proofs Solvers.E2E.

Lemma key_fresh_hist p ops : key_fresh_from p ops = hist_ok ckfresh p ops.
Proof. revert p; induction ops as [|op r IH]; intros p; cbn; [reflexivity|]. rewrite IH. reflexivity. Qed.

Definition good_order (o : order) : Prop :=
  c_type (o_chal o) = ctype_of (o_kind o) /\
  (o_kind o = KHttp -> contains c_colon (c_ident (o_chal o)) = false) /\
  (o_kind o = KTlsAlpn -> challenge_key (o_chal o) <> []).
Lemma good_order_b_spec o : good_order_b o = true -> good_order o.
Proof.
  unfold good_order_b, good_order. rewrite andb_true_iff. intros [Ht Hk]. apply ctype_eqb_spec in Ht.
  split; [exact Ht|]. split; intros Ek; rewrite Ek in Hk.
  - apply negb_true_iff in Hk. exact Hk.
  - apply negb_true_iff in Hk. intros E. rewrite E in Hk. discriminate.
Qed.

Definition kcount (k : str) (p : list pentry) : nat :=
  length (filter (fun e => str_eqb (ck (fst e)) k) p).

Lemma kcount_ext k (e e' : pentry) : fst e = fst e' -> str_eqb (ck (fst e)) k = str_eqb (ck (fst e')) k.
Proof. intros ->. reflexivity. Qed.
Lemma kcount_cons k e p : kcount k (e :: p) = (kcount k p + (if str_eqb (ck (fst e)) k then 1 else 0))%nat.
Proof. unfold kcount. cbn [filter]. destruct (str_eqb (ck (fst e)) k); cbn [length]; lia. Qed.
Lemma kcount_pos_of_in k e p : In e p -> ck (fst e) = k -> (1 <= kcount k p)%nat.
Proof.
  intros Hin Hk. unfold kcount.
  assert (In e (filter (fun e => str_eqb (ck (fst e)) k) p)) as H.
  { apply filter_In. split; [exact Hin|]. rewrite Hk. apply str_eqb_refl. }
  destruct (filter _ p); [contradiction|cbn [length]; lia].
Qed.
Lemma kcount_zero k p : forallb (fun e => negb (str_eqb (ck (fst e)) k)) p = true -> kcount k p = 0%nat.
Proof.
  unfold kcount. induction p as [|e p IH]; cbn [forallb filter]; [reflexivity|].
  rewrite andb_true_iff. intros [H1 H2]. destruct (str_eqb (ck (fst e)) k); [discriminate|exact (IH H2)].
Qed.

Section Sys.
  Variable sf : str -> str.
  Variable honour : bool.
  Variable feq : N -> N -> bool.
  Hypothesis feq_refl : forall x, feq x x = true.

  Notation nxt := (nxt sf honour).
  Notation srun := (srun sf honour).

  (** pending listener challenges have a memory key of their own, and their memory entry is theirs *)
  Definition InvK (s : sstate) (p : list pentry) : Prop :=
    forall e, In e p -> is_listener (o_kind (fst e)) = true ->
      kcount (ck (fst e)) p = 1%nat /\
      exists d, aget str_eqb (ck (fst e)) (s_mem s) = Some (o_chal (fst e), d).

  Lemma kcount_premove k o p (f0 : faults) : existsb (fun e => order_eqb (fst e) o) p = true ->
    kcount k (premove o p) = (kcount k p - (if str_eqb (ck o) k then 1 else 0))%nat.
  Proof.
    intros Hex. unfold kcount.
    exact (filter_premove (fun e => str_eqb (ck (fst e)) k) o p (kcount_ext k) Hex f0).
  Qed.

  Lemma invK_step s p op : InvK s p -> cdisc p op && ckfresh p op = true -> InvK (nxt s op) (ppstep p op).
  Proof.
    intros H Hc. apply andb_true_iff in Hc. destruct Hc as [Hd Hf].
    destruct op as [o f|o f]; cbn [ppstep cdisc ckfresh] in *.
    - (* Present *)
      destruct (mem_present sf honour s o f) as [d Hmem].
      assert (Hfr : forall e, In e p -> is_listener (o_kind (fst e)) = true \/ is_listener (o_kind o) = true ->
                               ck (fst e) <> ck o).
      { intros e Hin Hl Heq. rewrite forallb_forall in Hf. specialize (Hf e Hin).
        rewrite Heq, str_eqb_refl in Hf. cbn [negb orb] in Hf. apply andb_true_iff in Hf. destruct Hf as [A B].
        destruct Hl as [Hl|Hl]; rewrite Hl in *; discriminate. }
      intros e [<-|Hin] Hl; cbn [fst] in *.
      + split.
        * rewrite kcount_cons. cbn [fst]. rewrite str_eqb_refl.
          rewrite kcount_zero; [reflexivity|]. apply forallb_forall. intros e' Hin'.
          apply negb_true_iff. apply str_eqb_false. apply Hfr; [exact Hin'|right; exact Hl].
        * exists d. rewrite Hmem. apply (aget_aset_same str_eqb str_eqb_eq).
      + destruct (H e Hin Hl) as [Hu [d0 Hm]].
        assert (Hne : ck (fst e) <> ck o) by (apply Hfr; [exact Hin|left; exact Hl]).
        split.
        * rewrite kcount_cons. cbn [fst].
          assert (str_eqb (ck o) (ck (fst e)) = false) as -> by (apply str_eqb_false; congruence). lia.
        * exists d0. rewrite Hmem. rewrite (aget_aset_other str_eqb str_eqb_eq) by congruence. exact Hm.
    - (* Clean *)
      intros e Hin Hl. pose proof (premove_subset _ _ _ Hin) as Hin0.
      destruct (H e Hin0 Hl) as [Hu [d0 Hm]].
      pose proof (kcount_premove (ck (fst e)) o p f Hd) as Hk.
      pose proof (kcount_pos_of_in (ck (fst e)) e (premove o p) Hin eq_refl) as Hpos.
      destruct (str_eqb (ck o) (ck (fst e))) eqn:E; [lia|].
      split; [lia|].
      exists d0. rewrite (mem_clean sf honour). rewrite (aget_adel_other str_eqb str_eqb_eq); [exact Hm|].
      apply str_eqb_false. exact E.
  Qed.

  Lemma invK ops : disc ops = true -> key_fresh ops = true -> InvK (srun ops) (spending ops).
  Proof.
    intros Hd Hf. unfold disc in Hd. rewrite disc_from_hist in Hd. unfold key_fresh in Hf. rewrite key_fresh_hist in Hf.
    rewrite (srun_fold sf honour).
    apply (hist_rule sf honour (fun p op => cdisc p op && ckfresh p op) InvK invK_step).
    - intros e [].
    - apply hist_ok_and; assumption.
  Qed.

  Lemma clean_present_spec f : clean_present false f = true ->
    f_cancel f = false /\ f_storage f = false /\ f_provider f = false /\ f_bind f = BOk.
  Proof.
    unfold clean_present. rewrite !andb_true_iff, !negb_true_iff. intros [[[A B] C] D].
    repeat split; try assumption. destruct (f_bind f); [reflexivity|discriminate|discriminate].
  Qed.

  (** the theorem: a pending challenge whose Present went through validates *)
  Theorem pending_validates ops e :
    disc ops = true -> key_fresh ops = true -> dns_fresh ops = true ->
    In e (spending ops) -> clean_present false (snd e) = true -> good_order (fst e) ->
    validates sf feq false (srun ops) (fst e) = true.
  Proof.
    intros Hd Hk Hfr Hin Hcp [Hty [Hhttp Halpn]].
    destruct (clean_present_spec _ Hcp) as (Hc & Hs & Hp & Hb).
    destruct e as [o f]. cbn [fst snd] in *.
    unfold validates. destruct (o_kind o) eqn:Ek.
    - (* http *)
      assert (Hl : is_listener (o_kind (fst (o, f))) = true) by (cbn [fst]; rewrite Ek; reflexivity).
      pose proof (listener_stays_while_pending sf honour ops (o, f) Hd Hin Hl Hb) as Hopen.
      unfold listening in Hopen. cbn [fst] in Hopen. unfold listening_at. rewrite Hopen. cbn [orb andb].
      destruct (invK ops Hd Hk (o, f) Hin Hl) as [_ [d Hm]]. cbn [fst] in Hm.
      assert (Hck : ck o = c_ident (o_chal o)).
      { unfold ck, challenge_key. rewrite Hty. reflexivity. }
      unfold http_handle, http_validation_req, looks_like_challenge. cbn [h_method h_path h_host negb].
      rewrite str_eqb_refl. unfold resource_path. rewrite has_prefix_app. cbn [andb negb].
      pose proof (challenge_host_plain _ (Hhttp eq_refl)) as Hch. rewrite Hch.
      unfold get_challenge_info, cstate_of. cbn [mem]. rewrite <- Hck, Hm.
      unfold solve_http. cbn [h_method h_path h_host]. rewrite !str_eqb_refl.
      rewrite Hck, Hch, (equal_fold_refl feq feq_refl). cbn [andb].
      cbn [ostr_eqb]. apply str_eqb_refl.
    - (* tls-alpn *)
      assert (Hl : is_listener (o_kind (fst (o, f))) = true) by (cbn [fst]; rewrite Ek; reflexivity).
      pose proof (listener_stays_while_pending sf honour ops (o, f) Hd Hin Hl Hb) as Hopen.
      unfold listening in Hopen. cbn [fst] in Hopen. unfold listening_at. rewrite Hopen. cbn [orb andb].
      destruct (invK ops Hd Hk (o, f) Hin Hl) as [_ [d Hm]]. cbn [fst] in Hm. unfold ck in Hm.
      unfold alpn_get, alpn_branch. rewrite str_eqb_refl.
      destruct (challenge_key (o_chal o)) as [|x r] eqn:Ekey; [exfalso; exact (Halpn eq_refl eq_refl)|].
      cbn [negb andb]. unfold get_challenge_info, cstate_of. cbn [mem]. rewrite Hm.
      apply chal_eqb_spec. reflexivity.
    - (* dns *)
      assert (Hok : present_ok_dns (o, f) = true).
      { unfold present_ok_dns. cbn [fst snd]. rewrite Ek, Hc, Hp. reflexivity. }
      destruct (record_stays_until_own_cleanup sf honour ops (o, f) Hd Hfr Hin Hok) as [Hrec _].
      cbn [fst] in Hrec. apply mem_b_in. exact Hrec.
  Qed.

  (** the boolean form the check evaluates on the implementation's observation holds of the model *)
  Theorem validation_spec_holds ops o :
    existsb (fun e => order_eqb (fst e) o) (spending ops) = true ->
    validation_spec ops o false (validates sf feq false (srun ops) o) = true.
  Proof.
    intros Hex. unfold validation_spec.
    destruct (find (fun e => order_eqb (fst e) o) (spending ops)) as [e|] eqn:Ef.
    - apply find_some in Ef. destruct Ef as [Hin He]. apply order_eqb_spec in He.
      destruct (disc ops && key_fresh ops && dns_fresh ops && good_order_b o && clean_present false (snd e)) eqn:G; [|reflexivity].
      cbn [negb orb]. repeat (apply andb_true_iff in G; destruct G as [G ?]).
      rewrite <- He. apply pending_validates; try assumption. rewrite He. apply good_order_b_spec. assumption.
    - exfalso. apply existsb_exists in Hex. destruct Hex as [e [Hin He]].
      pose proof (find_none _ _ Ef e Hin) as Hn. cbn beta in Hn. congruence.
  Qed.

  (** conversely nothing validates any more once every order is over (no failed delete) *)
  Theorem finished_validates_nothing ops o :
    disc ops = true -> spending ops = [] -> provider_delete_fault ops = false ->
    validates sf feq false (srun ops) o = false.
  Proof.
    intros Hd Hp Hpf.
    destruct (quiescent_clean sf honour ops Hd Hp) as (Hsol & Hmem & _ & _ & Hrec).
    unfold validates, listening_at. rewrite Hsol. cbn [aget orb andb].
    destruct (o_kind o); try reflexivity. rewrite (Hrec Hpf). reflexivity.
  Qed.
End Sys.
