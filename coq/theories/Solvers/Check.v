(** Correspondence for C16: a case is a history of Present / CleanUp calls made on the real
    solver stacks (real TCP listeners, storage double, DNS provider double) with the faults that
    were injected and, after every call, what was observed: error or not, the [solvers] map,
    connect probes, activeChallenges, token keys, provider records, DNSManager memory.
    [check_line] replays the history on the model and compares after every call; independently
    it evaluates the specification ([spec_at], [quiescent_clean_b], probe = listener) on the
    observations. *)
From Coq Require Import ZArith.
From CM Require Import Lib.Str Lib.Wire Gen.Consts Safe.Model Challenge.Assoc Challenge.Model Challenge.Check Solvers.Model Solvers.E2E Solvers.Config.
Open Scope N_scope.

Record obs := Obs {
  ob_err : bool;
  ob_solvers : list (str * (Z * bool));
  ob_probes : list (str * bool);
  ob_mem : list (str * bool);
  ob_store : list str;
  ob_recs : list rec;
  ob_dmem : list rec
}.
Record stepc := StepC { st_clean : bool; st_order : nat; st_faults : faults; st_obs : obs }.
(** end-to-end observations (orders driven through the real ACMEIssuer against the mock CA):
    what the CA's real validation request got at this point of the history, and how the order ended *)
Inductive e2e_item :=
| EValidation (i : nat) (other observed : bool)
| EOutcome (i : nat) (validated ca_rejects cancelled observed : bool).
Record case := Case {
  k_lt : list (N * N); k_st : list N;
  k_honour : bool;
  k_orders : list order;
  k_occupied : list str;
  k_final_only : bool;
  k_steps : list stepc;
  k_e2e : list e2e_item;
  k_cfgs : list (icfg * list sdesc)   (* issuer configurations and the solver sets newACMEClient built for them *)
}.

Definition get_skind : dec skind :=
  t <- get_n ;; ret (match t with 0 => KHttp | 1 => KTlsAlpn | _ => KDns end).
Definition get_order : dec order :=
  k <- get_skind ;; a <- get_str ;; ik <- get_str ;; c <- get_chal ;; n <- get_str ;; v <- get_str ;;
  ret (Order k a ik c n v).
Definition get_faults : dec faults :=
  c <- get_bool ;; s <- get_bool ;; p <- get_bool ;; b <- get_n ;;
  ret (Faults c s p (match b with 0 => BOk | 1 => BInUse | _ => BErr end)).
Definition get_rec : dec rec := get_pair get_str get_str.
Definition get_obs : dec obs :=
  e <- get_bool ;;
  sv <- get_list (a <- get_str ;; n <- get_z ;; l <- get_bool ;; ret (a, (n, l))) ;;
  pr <- get_list (get_pair get_str get_bool) ;;
  m <- get_list (get_pair get_str get_bool) ;;
  s <- get_list get_str ;; r <- get_list get_rec ;; d <- get_list get_rec ;;
  ret (Obs e sv pr m s r d).
Definition get_step : dec stepc :=
  t <- get_bool ;; i <- get_nat ;; f <- get_faults ;; o <- get_obs ;; ret (StepC t i f o).
Definition get_item : dec e2e_item :=
  t <- get_n ;; i <- get_nat ;;
  match t with
  | 0 => o <- get_bool ;; b <- get_bool ;; ret (EValidation i o b)
  | _ => v <- get_bool ;; r <- get_bool ;; c <- get_bool ;; b <- get_bool ;; ret (EOutcome i v r c b)
  end.
Definition get_sdesc : dec sdesc :=
  t <- get_ctype ;; d <- get_bool ;; p <- get_str ;; a <- get_str ;; ret (SDesc t d p a).
Definition get_cfg : dec (icfg * list sdesc) :=
  dn <- get_bool ;; dh <- get_bool ;; da <- get_bool ;; h <- get_str ;; ah <- get_z ;; aa <- get_z ;;
  gh <- get_z ;; gs <- get_z ;; ik <- get_str ;; obs <- get_list get_sdesc ;;
  ret (ICfg dn dh da h ah aa gh gs ik, obs).
Definition get_case : dec case :=
  lt <- get_list (get_pair get_n get_n) ;; st <- get_list get_n ;; h <- get_bool ;;
  os <- get_list get_order ;; oc <- get_list get_str ;; fo <- get_bool ;; ss <- get_list get_step ;;
  es <- get_list get_item ;; cs <- get_list get_cfg ;;
  ret (Case lt st h os oc fo ss es cs).

Section Run.
  Variable c : case.
  Let lower := tbl_lower (k_lt c).
  Let is_space := tbl_space (k_st c).
  Let sf := safe lower is_space.
  Definition kstr (k : skey) : str := challenge_tokens_key lower is_space (fst k) (snd k).
  Definition dummy_order : order := Order KDns [] [] (Chal TOther [] [] false [] None) [] [].
  Definition op_of (st : stepc) : sop :=
    let o := nth (st_order st) (k_orders c) dummy_order in
    if st_clean st then SClean o (st_faults st) else SPresent o (st_faults st).

  Definition sv_eqb (a b : str * (Z * bool)) : bool :=
    str_eqb (fst a) (fst b) && Z.eqb (fst (snd a)) (fst (snd b)) && Bool.eqb (snd (snd a)) (snd (snd b)).
  Definition perm_b (a b : list rec) : bool :=
    Nat.eqb (length a) (length b) && forallb (fun x => Nat.eqb (count_rec x a) (count_rec x b)) a.
  Definition listening (m : list (str * (Z * bool))) (a : str) : bool :=
    match aget str_eqb a m with Some (_, l) => l | None => false end.
  Definition occupied (a : str) : bool := existsb (str_eqb a) (k_occupied c).

  Definition snap_of_obs (o : obs) : snap :=
    Snap (ob_solvers o) (ob_mem o) (ob_store o) (ob_recs o) (ob_dmem o).

  (** model state after the call vs. observation *)
  Definition agrees (s : sstate) (err : bool) (o : obs) : bool :=
    let m := snap_of kstr s in
    Bool.eqb err (ob_err o) &&
    same_set sv_eqb (sn_solvers m) (ob_solvers o) &&
    forallb (fun p : str * bool => Bool.eqb (snd p) (listening (solvers s) (fst p) || occupied (fst p))) (ob_probes o) &&
    same_set pair_eqb (sn_mem m) (ob_mem o) &&
    same_set str_eqb (sn_store m) (ob_store o) &&
    perm_b (sn_recs m) (ob_recs o) && perm_b (sn_dmem m) (ob_dmem o).

  (** the property on the observation: the model's state is not used *)
  Definition spec_obs (ops : list sop) (o : obs) : bool :=
    spec_at sf kstr ops (snap_of_obs o) &&
    quiescent_clean_b ops (snap_of_obs o) &&
    (* the listener of the solvers map is a real one: connectable exactly when open (or the
       address is held by someone else) *)
    forallb (fun p : str * bool => Bool.eqb (snd p) (listening (ob_solvers o) (fst p) || occupied (fst p))) (ob_probes o).

  (** returns (model agrees everywhere, spec holds everywhere, index of the first failing call) *)
  Fixpoint replay (steps : list stepc) (s : sstate) (ops : list sop) (i : nat) : bool * bool * nat :=
    match steps with
    | [] => (true, true, i)
    | st :: r =>
        let op := op_of st in
        let '(s', err) := sstep sf (k_honour c) s op in
        let ops' := ops ++ [op] in
        let last := match r with [] => true | _ => false end in
        let look := negb (k_final_only c) || last in
        let a := negb look || agrees s' (if k_final_only c then ob_err (st_obs st) else err) (st_obs st) in
        let sp := negb look || spec_obs ops' (st_obs st) in
        let '(a', sp', j) := replay r s' ops' (S i) in
        (a && a', sp && sp', if a && sp then j else i)
    end.

  (** ** end-to-end items, judged at the end of the history *)
  Definition all_ops : list sop := map op_of (k_steps c).
  Definition final_state : sstate := srun sf (k_honour c) all_ops.
  Definition feq0 : N -> N -> bool := tbl_feq [].
  Definition order_at (i : nat) : order := nth i (k_orders c) dummy_order.
  (** did the (first) Present of order [i] return an error in the model? *)
  Fixpoint present_failed (i : nat) (steps : list stepc) (s : sstate) : bool :=
    match steps with
    | [] => true
    | st :: r =>
        let '(s', err) := sstep sf (k_honour c) s (op_of st) in
        if negb (st_clean st) && Nat.eqb (st_order st) i then err else present_failed i r s'
    end.
  Definition item_agrees (it : e2e_item) : bool :=
    match it with
    | EValidation i other obs => Bool.eqb (validates sf feq0 other final_state (order_at i)) obs
    | EOutcome _ _ _ _ _ => true
    end.
  Definition item_spec (it : e2e_item) : bool :=
    match it with
    | EValidation i other obs => validation_spec all_ops (order_at i) other obs
    | EOutcome i validated ca_rejects cancelled obs =>
        (* against a conforming server the order succeeds exactly when nothing was made to fail *)
        Bool.eqb obs (negb (present_failed i (k_steps c) sinit) && validated && negb ca_rejects && negb cancelled)
    end.

  Definition result : bool * bool * nat :=
    let '(a, sp, j) := replay (k_steps c) sinit [] O in
    (a && forallb item_agrees (k_e2e c) &&
     forallb (fun x : icfg * list sdesc => same_set sdesc_eqb (solver_set lower is_space (fst x)) (snd x)) (k_cfgs c),
     sp && forallb item_spec (k_e2e c) &&
     forallb (fun x : icfg * list sdesc => cfg_spec lower is_space (fst x) (snd x)) (k_cfgs c), j).
End Run.

Definition check_line (l : list Z) : Z :=
  match decode get_case l with
  | Some c => let '(a, sp, _) := result c in code a sp
  | None => code_decode_error
  end.

(** diagnostics: [agrees; spec; first failing call; then for that call: model error flag, model
    solvers (address length, count, listening) ...] *)
Definition explain_line (l : list Z) : list Z :=
  match decode get_case l with
  | Some c =>
      let '(a, sp, j) := result c in
      let b2z (b : bool) : Z := if b then 1%Z else 0%Z in
      let sf := safe (tbl_lower (k_lt c)) (tbl_space (k_st c)) in
      let ops := map (op_of c) (firstn (S j) (k_steps c)) in
      let s := srun sf (k_honour c) ops in
      [b2z a; b2z sp; Z.of_nat j; (-1)%Z] ++
      concat (map (fun e : str * (Z * bool) => [Z.of_nat (length (fst e)); fst (snd e); b2z (snd (snd e))]) (solvers s)) ++
      [(-2)%Z; Z.of_nat (length (s_mem s)); Z.of_nat (length (s_store s)); Z.of_nat (length (dns_recs s)); Z.of_nat (length (dns_mem s));
       b2z (disc ops); Z.of_nat (length (spending ops))]
  | None => []
  end.
