(** DNS-01 records against a provider that keeps the libdns contract to the letter:
    - AppendRecords may normalise: a TTL below the provider's minimum [minttl] is stored, and
      REPORTED, as the minimum;
    - DeleteRecords deletes only what matches the input exactly in name, value and TTL, a zero
      TTL in the input matching any TTL; input that matches nothing is silently ignored.
    solvers.go: DNSManager.createRecord remembers the record AS CREATED (results[0].RR()),
    DNS01Solver.CleanUp recalls the first memory with the challenge's name and value and hands the
    remembered record to DeleteRecords.  [as_created = false] is the variant that remembers the
    record as requested (rr): it is refuted below.
    This refines the DNS part of Solvers.Model, where a record is its (name, value) and a delete
    always hits: the theorems below are what justifies that abstraction for every DNSManager.TTL
    and every clamp. *)
From Coq Require Import ZArith Lia.
From CM Require Import Lib.Str.
Open Scope Z_scope.

Definition drec := (str * str * Z)%type.                  (* record name, TXT value, TTL *)
Definition d_name (r : drec) : str := fst (fst r).
Definition d_val (r : drec) : str := snd (fst r).
Definition d_ttl (r : drec) : Z := snd r.
Definition same_nv (n v : str) (r : drec) : bool := str_eqb (d_name r) n && str_eqb (d_val r) v.
Definition drec_eqb (a b : drec) : bool := same_nv (d_name a) (d_val a) b && (d_ttl a =? d_ttl b).

Inductive dop := DPresent (n v : str) | DClean (n v : str).

Record dstate := DState { zone : list drec; dmem : list drec }.
Definition dinit : dstate := DState [] [].

Fixpoint remove_first {A} (p : A -> bool) (l : list A) : list A :=
  match l with
  | [] => []
  | x :: r => if p x then r else x :: remove_first p r
  end.

Section Sys.
  Variable ttl : Z.          (* DNSManager.TTL *)
  Variable minttl : Z.       (* the provider's minimum TTL (0: none) *)
  Variable as_created : bool.

  Definition norm (t : Z) : Z := Z.max t minttl.

  (** libdns DeleteRecords with the pattern [p] *)
  Definition delete_records (p : drec) (z : list drec) : list drec :=
    if d_ttl p =? 0 then filter (fun r => negb (same_nv (d_name p) (d_val p) r)) z
    else remove_first (drec_eqb p) z.

  Definition dstep (s : dstate) (o : dop) : dstate :=
    match o with
    | DPresent n v =>
        let created := (n, v, norm ttl) in
        DState (zone s ++ [created]) (dmem s ++ [if as_created then created else (n, v, ttl)])
    | DClean n v =>
        match find (same_nv n v) (dmem s) with
        | Some m => DState (delete_records m (zone s)) (remove_first (same_nv n v) (dmem s))
        | None => s                                       (* "no memory of presenting": nothing is deleted *)
        end
    end.
  Definition drun (ops : list dop) : dstate := fold_left dstep ops dinit.
End Sys.

(** presented and not yet cleaned up *)
Definition nv := (str * str)%type.
Definition nv_eqb (a b : nv) : bool := str_eqb (fst a) (fst b) && str_eqb (snd a) (snd b).
Definition nvof (r : drec) : nv := (d_name r, d_val r).
Definition dpstep (p : list nv) (o : dop) : list nv :=
  match o with
  | DPresent n v => p ++ [(n, v)]
  | DClean n v => remove_first (fun x => nv_eqb x (n, v)) p
  end.
Definition dpending (ops : list dop) : list nv := fold_left dpstep ops [].

(** tokens are unique: a challenge is presented only while no pending one has the same record
    name AND value (a shared name with different values is the normal case) *)
Fixpoint dfresh_from (p : list nv) (ops : list dop) : bool :=
  match ops with
  | [] => true
  | o :: r =>
      match o with
      | DPresent n v => negb (existsb (fun x => nv_eqb x (n, v)) p)
      | DClean _ _ => true
      end && dfresh_from (dpstep p o) r
  end.
Definition dfresh (ops : list dop) : bool := dfresh_from [] ops.
