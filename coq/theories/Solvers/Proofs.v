(** Proofs about the Solvers model (C16). *)
From Coq Require Import ZArith Lia.
From CM Require Import Lib.Str Challenge.Assoc Challenge.Model Challenge.Proofs Solvers.Model.
Open Scope Z_scope.

(** * Boolean equalities *)
Lemma skind_eqb_spec a b : skind_eqb a b = true <-> a = b.
Proof. destruct a, b; cbn; split; congruence. Qed.
Lemma order_eqb_spec a b : order_eqb a b = true <-> a = b.
Proof.
  destruct a as [k1 a1 i1 c1 n1 v1], b as [k2 a2 i2 c2 n2 v2]. unfold order_eqb; cbn.
  rewrite !andb_true_iff, skind_eqb_spec, !str_eqb_eq, chal_eqb_spec. split.
  - intros (((((-> & ->) & ->) & ->) & ->) & ->). reflexivity.
  - intros H; injection H; intros; subst; repeat split; reflexivity.
Qed.
Lemma order_eqb_refl o : order_eqb o o = true.
Proof. apply order_eqb_spec; reflexivity. Qed.
Lemma rec_eqb_spec a b : rec_eqb a b = true <-> a = b.
Proof.
  destruct a as [a1 a2], b as [b1 b2]. unfold rec_eqb; cbn. rewrite andb_true_iff, !str_eqb_eq.
  split; [intros [-> ->]; reflexivity|intros H; injection H; auto].
Qed.
Lemma rec_eqb_refl r : rec_eqb r r = true.
Proof. apply rec_eqb_spec; reflexivity. Qed.
Lemma rec_eqb_sym a b : rec_eqb a b = rec_eqb b a.
Proof.
  destruct (rec_eqb a b) eqn:E1, (rec_eqb b a) eqn:E2; try reflexivity.
  - apply rec_eqb_spec in E1; subst. rewrite rec_eqb_refl in E2; discriminate.
  - apply rec_eqb_spec in E2; subst. rewrite rec_eqb_refl in E1; discriminate.
Qed.
Lemma rec_eqb_neq a b : a <> b -> rec_eqb a b = false.
Proof. intros H. destruct (rec_eqb a b) eqn:E; [apply rec_eqb_spec in E; contradiction|reflexivity]. Qed.

(** * Counting records *)
Lemma count_rec_app r l x : count_rec r (l ++ [x]) = (count_rec r l + (if rec_eqb r x then 1 else 0))%nat.
Proof.
  unfold count_rec. rewrite filter_app, app_length. cbn. destruct (rec_eqb r x); reflexivity.
Qed.
Lemma count_rec_remove_one r x l :
  count_rec r (remove_one rec_eqb x l) = if rec_eqb r x then pred (count_rec r l) else count_rec r l.
Proof.
  unfold count_rec. induction l as [|y l IH]; cbn [remove_one filter].
  - destruct (rec_eqb r x); reflexivity.
  - destruct (rec_eqb y x) eqn:Eyx.
    + apply rec_eqb_spec in Eyx; subst y. destruct (rec_eqb r x); cbn [length]; reflexivity.
    + cbn [filter]. destruct (rec_eqb r y) eqn:Ery; cbn [length]; [|exact IH].
      rewrite IH. destruct (rec_eqb r x) eqn:Erx; [|reflexivity].
      apply rec_eqb_spec in Ery, Erx. subst. rewrite rec_eqb_refl in Eyx. discriminate.
Qed.
Lemma count_rec_pos_in r l : In r l -> (1 <= count_rec r l)%nat.
Proof.
  unfold count_rec. induction l as [|y l IH]; [intros []|]. intros [->|Hin]; cbn [filter].
  - rewrite rec_eqb_refl. cbn. lia.
  - destruct (rec_eqb r y); cbn [length]; [lia|exact (IH Hin)].
Qed.
Lemma count_rec_in r l : (1 <= count_rec r l)%nat -> In r l.
Proof.
  unfold count_rec. induction l as [|y l IH]; cbn [filter length]; [lia|].
  destruct (rec_eqb r y) eqn:E; [apply rec_eqb_spec in E; subst; left; reflexivity|].
  intros H; right; exact (IH H).
Qed.
Lemma all_count_zero_nil (l : list rec) : (forall r, count_rec r l = 0%nat) -> l = [].
Proof.
  destruct l as [|x l]; [reflexivity|]. intros H. specialize (H x).
  pose proof (count_rec_pos_in x (x :: l) (or_introl eq_refl)). lia.
Qed.
Lemma mem_b_in r l : mem_b rec_eqb r l = true <-> In r l.
Proof.
  unfold mem_b. rewrite existsb_exists. split.
  - intros [y [Hin E]]. apply rec_eqb_spec in E; subst. exact Hin.
  - intros Hin. exists r. split; [exact Hin|apply rec_eqb_refl].
Qed.
Lemma in_remove_one_other (x y : rec) l : x <> y -> In x l -> In x (remove_one rec_eqb y l).
Proof.
  intros Hne. induction l as [|z l IH]; [intros []|]. cbn [remove_one].
  destruct (rec_eqb z y) eqn:E.
  - apply rec_eqb_spec in E; subst z. intros [Heq|Hin]; [congruence|exact Hin].
  - intros [->|Hin]; [left; reflexivity|right; exact (IH Hin)].
Qed.

Lemma remove_one_not_in (x : rec) l : ~ In x l -> remove_one rec_eqb x l = l.
Proof.
  induction l as [|y l IH]; [reflexivity|]. intros Hnin. cbn [remove_one].
  destruct (rec_eqb y x) eqn:E.
  - apply rec_eqb_spec in E. exfalso. apply Hnin. left; exact E.
  - f_equal. apply IH. intros Hin. apply Hnin. right; exact Hin.
Qed.

Lemma aget_of_in {V} (k : str) (v : V) l : In (k, v) l -> exists v', aget str_eqb k l = Some v'.
Proof.
  induction l as [|[k0 v0] l IH]; [intros []|]. cbn. intros [Heq|Hin].
  - injection Heq; intros -> ->. rewrite str_eqb_refl. eexists; reflexivity.
  - destruct (str_eqb k0 k); [eexists; reflexivity|exact (IH Hin)].
Qed.
Lemma sget_of_in {V} (k : skey) (v : V) l : In (k, v) l -> exists v', aget skey_eqb k l = Some v'.
Proof.
  induction l as [|[k0 v0] l IH]; [intros []|]. cbn. intros [Heq|Hin].
  - injection Heq; intros -> ->. rewrite (eqb_refl skey_eqb skey_eqb_spec). eexists; reflexivity.
  - destruct (skey_eqb k0 k); [eexists; reflexivity|exact (IH Hin)].
Qed.

Section Sys.
  Variable sf : str -> str.
  Variable honour : bool.

  Notation sstep := (sstep sf honour).
  Notation srun := (srun sf honour).
  Notation tk := (tk sf).
  Notation sv_get := (aget str_eqb).

  Definition nxt (s : sstate) (op : sop) : sstate := fst (sstep s op).

  (** * Pending lists *)
  Lemma premove_subset o p e : In e (premove o p) -> In e p.
  Proof.
    induction p as [|x p IH]; cbn [premove]; [intros []|].
    destruct (order_eqb (fst x) o); [intros H; right; exact H|].
    intros [->|H]; [left; reflexivity|right; exact (IH H)].
  Qed.
  Lemma premove_keep o p e : In e p -> fst e <> o -> In e (premove o p).
  Proof.
    intros Hin Hne. induction p as [|x p IH]; [destruct Hin|]. cbn [premove].
    destruct (order_eqb (fst x) o) eqn:E.
    - apply order_eqb_spec in E. destruct Hin as [->|Hin]; [contradiction|exact Hin].
    - destruct Hin as [->|Hin]; [left; reflexivity|right; exact (IH Hin)].
  Qed.

  (** length of a filter after removing the first entry of order [o] *)
  Lemma filter_premove (g : pentry -> bool) o p :
    (forall e e', fst e = fst e' -> g e = g e') ->
    existsb (fun e => order_eqb (fst e) o) p = true ->
    forall f0, length (filter g (premove o p)) = (length (filter g p) - (if g (o, f0) then 1 else 0))%nat.
  Proof.
    intros Hg Hex f0. induction p as [|x p IH]; [discriminate|]. cbn [premove existsb] in *.
    destruct (order_eqb (fst x) o) eqn:E.
    - apply order_eqb_spec in E. cbn [filter]. rewrite (Hg x (o, f0) E).
      destruct (g (o, f0)); cbn [length]; lia.
    - cbn [orb] in Hex. cbn [filter]. destruct (g x); cbn [length]; rewrite (IH Hex); [|reflexivity].
      destruct (g (o, f0)) eqn:Eg; [|lia].
      (* at least one entry of order o remains in p and satisfies g *)
      assert (1 <= length (filter g p))%nat.
      { clear IH. induction p as [|y p IHp]; [discriminate|]. cbn [existsb] in Hex. cbn [filter].
        destruct (order_eqb (fst y) o) eqn:Ey.
        - apply order_eqb_spec in Ey. rewrite (Hg y (o, f0) Ey), Eg. cbn; lia.
        - cbn [orb] in Hex. destruct (g y); cbn [length]; [lia|exact (IHp Hex)]. }
      lia.
  Qed.

  Lemma uses_ext a e e' : fst e = fst e' -> uses a e = uses a e'.
  Proof. unfold uses. intros ->. reflexivity. Qed.

  Lemma npend_cons a e p : npend a (e :: p) = npend a p + (if uses a e then 1 else 0).
  Proof. unfold npend. cbn [filter]. destruct (uses a e); cbn [length]; lia. Qed.
  Lemma npend_nonneg a p : 0 <= npend a p.
  Proof. unfold npend. lia. Qed.
  Lemma npend_premove a o p f0 : existsb (fun e => order_eqb (fst e) o) p = true ->
    npend a (premove o p) = npend a p - (if uses a (o, f0) then 1 else 0).
  Proof.
    intros Hex. unfold npend. rewrite (filter_premove (uses a) o p (uses_ext a) Hex f0).
    destruct (uses a (o, f0)) eqn:E; [|lia].
    assert (1 <= length (filter (uses a) p))%nat.
    { clear -Hex E. induction p as [|y p IH]; [discriminate|]. cbn [existsb] in Hex. cbn [filter].
      destruct (order_eqb (fst y) o) eqn:Ey.
      - apply order_eqb_spec in Ey. rewrite (uses_ext a y (o, f0) Ey), E. cbn; lia.
      - cbn [orb] in Hex. destruct (uses a y); cbn [length]; [lia|exact (IH Hex)]. }
    lia.
  Qed.
  Lemma npend_pos_of_in a e p : In e p -> uses a e = true -> 1 <= npend a p.
  Proof.
    intros Hin Hu. unfold npend. assert (In e (filter (uses a) p)) by (apply filter_In; auto).
    destruct (filter (uses a) p); [contradiction|cbn [length]; lia].
  Qed.
  Lemma npend_pos_ex a p : 0 < npend a p -> exists e, In e p /\ uses a e = true.
  Proof.
    unfold npend. destruct (filter (uses a) p) as [|e l] eqn:E; cbn [length]; [lia|]. intros _.
    exists e. apply filter_In. rewrite E. left; reflexivity.
  Qed.

  (** * Histories *)
  Fixpoint hist_ok (c : list pentry -> sop -> bool) (p : list pentry) (ops : list sop) : bool :=
    match ops with
    | [] => true
    | op :: r => c p op && hist_ok c (ppstep p op) r
    end.
  Definition cdisc (p : list pentry) (op : sop) : bool :=
    match op with SPresent _ _ => true | SClean o _ => existsb (fun e => order_eqb (fst e) o) p end.
  Definition cfresh (p : list pentry) (op : sop) : bool :=
    match op with
    | SPresent o _ => is_listener (o_kind o) || negb (existsb (fun e => is_dns e && rec_eqb (orec (fst e)) (orec o)) p)
    | SClean _ _ => true
    end.
  Definition bad_sdel (op : sop) : bool :=
    match op with SClean o f => is_listener (o_kind o) && f_storage f | _ => false end.
  Definition bad_pdel (op : sop) : bool :=
    match op with SClean o f => negb (is_listener (o_kind o)) && f_provider f | _ => false end.

  Lemma disc_from_hist p ops : disc_from p ops = hist_ok cdisc p ops.
  Proof. revert p; induction ops as [|op r IH]; intros p; cbn; [reflexivity|]. rewrite IH. destruct op; reflexivity. Qed.
  Lemma fresh_from_hist p ops : dns_fresh_from p ops = hist_ok cfresh p ops.
  Proof. revert p; induction ops as [|op r IH]; intros p; cbn; [reflexivity|]. rewrite IH. destruct op; reflexivity. Qed.
  Lemma no_fault_hist bad ops : existsb bad ops = false -> forall p, hist_ok (fun _ op => negb (bad op)) p ops = true.
  Proof.
    induction ops as [|op r IH]; cbn; [reflexivity|]. rewrite orb_false_iff. intros [H1 H2] p.
    rewrite H1, (IH H2). reflexivity.
  Qed.
  Lemma hist_ok_and c1 c2 p ops :
    hist_ok c1 p ops = true -> hist_ok c2 p ops = true -> hist_ok (fun p op => c1 p op && c2 p op) p ops = true.
  Proof.
    revert p; induction ops as [|op r IH]; intros p; cbn; [reflexivity|].
    rewrite !andb_true_iff. intros [A1 A2] [B1 B2]. repeat split; auto.
  Qed.

  Lemma hist_rule (c : list pentry -> sop -> bool) (P : sstate -> list pentry -> Prop) :
    (forall s p op, P s p -> c p op = true -> P (nxt s op) (ppstep p op)) ->
    forall ops s p, P s p -> hist_ok c p ops = true ->
    P (fold_left nxt ops s) (fold_left ppstep ops p).
  Proof.
    intros Hstep. induction ops as [|op r IH]; intros s p HP Hok; cbn [fold_left]; [exact HP|].
    cbn [hist_ok] in Hok. apply andb_true_iff in Hok. destruct Hok as [H1 H2].
    apply IH; [apply Hstep; assumption|exact H2].
  Qed.
  Lemma srun_fold ops : srun ops = fold_left nxt ops sinit.
  Proof. reflexivity. Qed.

  (** * Invariant 1: the solvers map counts the pending challenges per address *)
  Definition Inv1 (s : sstate) (p : list pentry) : Prop :=
    forall a, match sv_get a (solvers s) with
              | Some (n, _) => n = npend a p /\ 0 < n
              | None => npend a p = 0
              end.
  (** Invariant 2: a listener that was opened for a pending challenge is open *)
  Definition Inv2 (s : sstate) (p : list pentry) : Prop :=
    forall e, In e p -> is_listener (o_kind (fst e)) = true -> f_bind (snd e) = BOk ->
    exists n, sv_get (o_addr (fst e)) (solvers s) = Some (n, true).

  Lemma solvers_present_dns s o f : o_kind o = KDns -> solvers (nxt s (SPresent o f)) = solvers s.
  Proof. unfold nxt. cbn. intros ->. destruct (f_cancel f || f_provider f); reflexivity. Qed.
  Lemma solvers_clean_dns s o f : o_kind o = KDns -> solvers (nxt s (SClean o f)) = solvers s.
  Proof.
    unfold nxt. cbn. intros ->. destruct (mem_b rec_eqb (orec o) (dns_mem s)); [|reflexivity].
    destruct (f_provider f); reflexivity.
  Qed.
  Lemma solvers_present_listener s o f : is_listener (o_kind o) = true ->
    solvers (nxt s (SPresent o f)) = fst (listen_present (o_addr o) (f_bind f) (solvers s)).
  Proof.
    unfold nxt. cbn. destruct (o_kind o); try discriminate; intros _;
      destruct (listen_present (o_addr o) (f_bind f) (solvers s)); reflexivity.
  Qed.
  Lemma solvers_clean_listener s o f : is_listener (o_kind o) = true ->
    solvers (nxt s (SClean o f)) = listen_clean (o_addr o) (solvers s).
  Proof. unfold nxt. cbn. destruct (o_kind o); try discriminate; reflexivity. Qed.

  (** effect of listen_present / listen_clean on lookups *)
  Lemma listen_present_get a b m :
    let '(n, l) := match sv_get a m with Some x => x | None => (0, false) end in
    (forall a', a' <> a -> sv_get a' (fst (listen_present a b m)) = sv_get a' m) /\
    exists l', sv_get a (fst (listen_present a b m)) = Some (n + 1, l') /\
               (l = true -> l' = true) /\ (b = BOk -> l' = true).
  Proof.
    unfold listen_present. destruct (match sv_get a m with Some x => x | None => (0, false) end) as [n l].
    assert (Hset : forall v a', a' <> a -> sv_get a' (aset str_eqb a v m) = sv_get a' m).
    { intros v a' Hne. apply (aget_aset_other str_eqb str_eqb_eq). congruence. }
    destruct l; [|destruct b]; cbn [fst]; (split; [intros a' Hne; apply Hset; exact Hne|]);
      eexists; (split; [apply (aget_aset_same str_eqb str_eqb_eq)|]); split; congruence.
  Qed.

  Lemma is_listener_dns k : is_listener k = false -> k = KDns.
  Proof. destruct k; cbn; congruence. Qed.

  Lemma inv12_step s p op : Inv1 s p /\ Inv2 s p -> cdisc p op = true -> Inv1 (nxt s op) (ppstep p op) /\ Inv2 (nxt s op) (ppstep p op).
  Proof.
    intros [H1 H2] Hc. destruct op as [o f|o f]; cbn [ppstep cdisc] in *.
    - (* Present *)
      destruct (is_listener (o_kind o)) eqn:Ek.
      + pose proof (listen_present_get (o_addr o) (f_bind f) (solvers s)) as HL.
        pose proof (H1 (o_addr o)) as H1a.
        destruct (sv_get (o_addr o) (solvers s)) as [[n l]|] eqn:Eg;
          destruct HL as [Hoth (l' & Hnew & Hl & Hb)].
        * split.
          -- intros a. rewrite solvers_present_listener by exact Ek. rewrite npend_cons. unfold uses. cbn [fst]. rewrite Ek.
             destruct (str_eqb (o_addr o) a) eqn:Ea.
             ++ apply str_eqb_eq in Ea; subst a. rewrite Hnew. cbn [andb]. cbv iota. destruct H1a as [-> Hpos]. lia.
             ++ cbn [andb]. cbv iota. rewrite Hoth by (intros ->; rewrite str_eqb_refl in Ea; discriminate).
                specialize (H1 a). destruct (sv_get a (solvers s)) as [[n' ?]|]; lia.
          -- intros e [<-|Hin] Hk Hbind; cbn [fst snd] in *; rewrite solvers_present_listener by exact Ek.
             ++ exists (n + 1). rewrite Hnew. rewrite (Hb Hbind). reflexivity.
             ++ destruct (H2 e Hin Hk Hbind) as [n0 Hn0].
                destruct (list_eq_dec N.eq_dec (o_addr (fst e)) (o_addr o)) as [Heq|Hne].
                ** rewrite Heq in *. rewrite Eg in Hn0. injection Hn0; intros -> ->.
                   exists (n0 + 1). rewrite Hnew, (Hl eq_refl). reflexivity.
                ** exists n0. rewrite Hoth by exact Hne. exact Hn0.
        * split.
          -- intros a. rewrite solvers_present_listener by exact Ek. rewrite npend_cons. unfold uses. cbn [fst]. rewrite Ek.
             destruct (str_eqb (o_addr o) a) eqn:Ea.
             ++ apply str_eqb_eq in Ea; subst a. rewrite Hnew. cbn [andb]. cbv iota. lia.
             ++ cbn [andb]. cbv iota. rewrite Hoth by (intros ->; rewrite str_eqb_refl in Ea; discriminate).
                specialize (H1 a). destruct (sv_get a (solvers s)) as [[n' ?]|]; lia.
          -- intros e [<-|Hin] Hk Hbind; cbn [fst snd] in *; rewrite solvers_present_listener by exact Ek.
             ++ exists (0 + 1). rewrite Hnew. rewrite (Hb Hbind). reflexivity.
             ++ destruct (H2 e Hin Hk Hbind) as [n0 Hn0].
                destruct (list_eq_dec N.eq_dec (o_addr (fst e)) (o_addr o)) as [Heq|Hne].
                ** rewrite Heq in *. congruence.
                ** exists n0. rewrite Hoth by exact Hne. exact Hn0.
      + apply is_listener_dns in Ek. split.
        * intros a. rewrite (solvers_present_dns _ _ _ Ek), npend_cons. unfold uses. cbn [fst]. rewrite Ek. cbn.
          specialize (H1 a). destruct (sv_get a (solvers s)) as [[n' ?]|]; lia.
        * intros e [<-|Hin] Hk Hbind; cbn [fst] in *; [rewrite Ek in Hk; discriminate|].
          rewrite (solvers_present_dns _ _ _ Ek). exact (H2 e Hin Hk Hbind).
    - (* Clean *)
      destruct (is_listener (o_kind o)) eqn:Ek.
      + assert (Hpos : 1 <= npend (o_addr o) p).
        { apply existsb_exists in Hc. destruct Hc as [e [Hin He]]. apply order_eqb_spec in He.
          apply (npend_pos_of_in _ e); [exact Hin|]. unfold uses. rewrite He, Ek, str_eqb_refl. reflexivity. }
        pose proof (H1 (o_addr o)) as H1a.
        destruct (sv_get (o_addr o) (solvers s)) as [[n l]|] eqn:Eg; [|lia]. destruct H1a as [Hn Hnpos].
        assert (Hnp : forall a, npend a (premove o p) = npend a p - (if str_eqb (o_addr o) a then 1 else 0)).
        { intros a. rewrite (npend_premove a o p f Hc). unfold uses. cbn [fst]. rewrite Ek. reflexivity. }
        assert (Hsolv : solvers (nxt s (SClean o f)) =
                        if n - 1 =? 0 then adel str_eqb (o_addr o) (solvers s) else aset str_eqb (o_addr o) (n - 1, l) (solvers s)).
        { rewrite solvers_clean_listener by exact Ek. unfold listen_clean. rewrite Eg. reflexivity. }
        split.
        * intros a. rewrite Hsolv, Hnp. destruct (str_eqb (o_addr o) a) eqn:Ea.
          -- apply str_eqb_eq in Ea; subst a. destruct (n - 1 =? 0) eqn:Ez.
             ++ rewrite (aget_adel_same str_eqb). apply Z.eqb_eq in Ez. lia.
             ++ rewrite (aget_aset_same str_eqb str_eqb_eq). apply Z.eqb_neq in Ez. lia.
          -- assert (Hne : o_addr o <> a) by (intros <-; rewrite str_eqb_refl in Ea; discriminate).
             destruct (n - 1 =? 0).
             ++ rewrite (aget_adel_other str_eqb str_eqb_eq) by exact Hne. specialize (H1 a).
                destruct (sv_get a (solvers s)) as [[n' ?]|]; lia.
             ++ rewrite (aget_aset_other str_eqb str_eqb_eq) by exact Hne. specialize (H1 a).
                destruct (sv_get a (solvers s)) as [[n' ?]|]; lia.
        * intros e Hin Hk Hbind. pose proof (premove_subset _ _ _ Hin) as Hin0.
          destruct (H2 e Hin0 Hk Hbind) as [n0 Hn0]. rewrite Hsolv.
          destruct (list_eq_dec N.eq_dec (o_addr (fst e)) (o_addr o)) as [Heq|Hne].
          -- rewrite Heq in *. rewrite Eg in Hn0. injection Hn0; intros -> ->.
             assert (1 <= npend (o_addr o) (premove o p)).
             { apply (npend_pos_of_in _ e); [exact Hin|]. unfold uses. rewrite Hk, Heq, str_eqb_refl. reflexivity. }
             rewrite Hnp, str_eqb_refl in H.
             destruct (n0 - 1 =? 0) eqn:Ez; [apply Z.eqb_eq in Ez; lia|].
             exists (n0 - 1). apply (aget_aset_same str_eqb str_eqb_eq).
          -- exists n0. destruct (n - 1 =? 0).
             ++ rewrite (aget_adel_other str_eqb str_eqb_eq) by congruence. exact Hn0.
             ++ rewrite (aget_aset_other str_eqb str_eqb_eq) by congruence. exact Hn0.
      + apply is_listener_dns in Ek. split.
        * intros a. rewrite (solvers_clean_dns _ _ _ Ek), (npend_premove a o p f Hc). unfold uses. cbn [fst]. rewrite Ek. cbn.
          specialize (H1 a). destruct (sv_get a (solvers s)) as [[n' ?]|]; lia.
        * intros e Hin Hk Hbind. rewrite (solvers_clean_dns _ _ _ Ek). exact (H2 e (premove_subset _ _ _ Hin) Hk Hbind).
  Qed.

  Lemma inv12 ops : disc ops = true -> Inv1 (srun ops) (spending ops) /\ Inv2 (srun ops) (spending ops).
  Proof.
    intros Hd. unfold disc in Hd. rewrite disc_from_hist in Hd. rewrite srun_fold.
    apply (hist_rule cdisc (fun s p => Inv1 s p /\ Inv2 s p) inv12_step); [|exact Hd].
    split; [intros a; reflexivity|intros e []].
  Qed.

  (** * Invariant 3: memory entries belong to pending challenges *)
  Definition Inv3 (s : sstate) (p : list pentry) : Prop :=
    forall k v, aget str_eqb k (s_mem s) = Some v -> exists e, In e p /\ ck (fst e) = k.

  Lemma mem_present s o f : exists d, s_mem (nxt s (SPresent o f)) = aset str_eqb (ck o) (o_chal o, d) (s_mem s).
  Proof.
    unfold nxt. cbn. destruct (o_kind o).
    - destruct (listen_present (o_addr o) (f_bind f) (solvers s)). eexists; reflexivity.
    - destruct (listen_present (o_addr o) (f_bind f) (solvers s)). eexists; reflexivity.
    - destruct (f_cancel f || f_provider f); eexists; reflexivity.
  Qed.
  Lemma mem_clean s o f : s_mem (nxt s (SClean o f)) = adel str_eqb (ck o) (s_mem s).
  Proof.
    unfold nxt. cbn. destruct (o_kind o); try reflexivity.
    destruct (mem_b rec_eqb (orec o) (dns_mem s)); [destruct (f_provider f)|]; reflexivity.
  Qed.

  Lemma inv3_step s p op : Inv3 s p -> Inv3 (nxt s op) (ppstep p op).
  Proof.
    intros H k v. destruct op as [o f|o f]; cbn [ppstep].
    - destruct (mem_present s o f) as [d ->].
      destruct (list_eq_dec N.eq_dec (ck o) k) as [<-|Hne].
      + intros _. exists (o, f). split; [left; reflexivity|reflexivity].
      + rewrite (aget_aset_other str_eqb str_eqb_eq) by exact Hne. intros Hg.
        destruct (H _ _ Hg) as [e [Hin Hk]]. exists e. split; [right; exact Hin|exact Hk].
    - rewrite mem_clean. intros Hg. apply (aget_adel_some str_eqb str_eqb_eq) in Hg. destruct Hg as [Hne Hg].
      destruct (H _ _ Hg) as [e [Hin Hk]]. exists e. split; [|exact Hk].
      apply premove_keep; [exact Hin|]. intros Heq. apply Hne. rewrite <- Heq. exact Hk.
  Qed.
  Lemma inv3 ops : Inv3 (srun ops) (spending ops).
  Proof.
    rewrite srun_fold. apply (hist_rule (fun _ _ => true) Inv3); [intros; apply inv3_step; assumption| |].
    - intros k v H; discriminate.
    - induction ops as [|op r IH] in |- *; [reflexivity|]. cbn. clear IH.
      generalize (ppstep [] op). induction r as [|op' r IH]; intros p; cbn; [reflexivity|apply IH].
  Qed.

  (** * Invariant 4: token files belong to pending challenges (unless a delete was made to fail) *)
  Definition Inv4 (s : sstate) (p : list pentry) : Prop :=
    forall k v, aget skey_eqb k (s_store s) = Some v ->
    exists e, In e p /\ is_listener (o_kind (fst e)) = true /\ tk (fst e) = k.

  Lemma store_present_listener s o f : is_listener (o_kind o) = true ->
    s_store (nxt s (SPresent o f)) =
      if f_storage f || (f_cancel f && honour) then s_store s else aset skey_eqb (tk o) (SChal (o_chal o)) (s_store s).
  Proof.
    unfold nxt. cbn. destruct (o_kind o); try discriminate; intros _;
      destruct (listen_present (o_addr o) (f_bind f) (solvers s)); reflexivity.
  Qed.
  Lemma store_dns s op : is_listener (o_kind (match op with SPresent o _ | SClean o _ => o end)) = false ->
    s_store (nxt s op) = s_store s.
  Proof.
    intros Hk. destruct op as [o f|o f]; apply is_listener_dns in Hk; unfold nxt; cbn; rewrite Hk.
    - destruct (f_cancel f || f_provider f); reflexivity.
    - destruct (mem_b rec_eqb (orec o) (dns_mem s)); [destruct (f_provider f)|]; reflexivity.
  Qed.
  Lemma store_clean_listener s o f : is_listener (o_kind o) = true ->
    s_store (nxt s (SClean o f)) = if f_storage f then s_store s else adel skey_eqb (tk o) (s_store s).
  Proof. unfold nxt. cbn. destruct (o_kind o); try discriminate; reflexivity. Qed.

  Lemma inv4_step s p op : Inv4 s p -> negb (bad_sdel op) = true -> Inv4 (nxt s op) (ppstep p op).
  Proof.
    intros H Hgood k v. destruct op as [o f|o f]; cbn [ppstep bad_sdel] in *.
    - destruct (is_listener (o_kind o)) eqn:Ek.
      + rewrite store_present_listener by exact Ek.
        assert (Hold : aget skey_eqb k (s_store s) = Some v -> exists e, In e ((o, f) :: p) /\ is_listener (o_kind (fst e)) = true /\ tk (fst e) = k).
        { intros Hg. destruct (H _ _ Hg) as [e (Hin & He & Hk)]. exists e. repeat split; auto. right; exact Hin. }
        destruct (f_storage f || (f_cancel f && honour)); [exact Hold|].
        destruct (skey_eqb (tk o) k) eqn:E.
        * apply skey_eqb_spec in E. intros _. exists (o, f). repeat split; auto. left; reflexivity.
        * assert (Hne : tk o <> k) by (intros Hk; rewrite Hk, (eqb_refl skey_eqb skey_eqb_spec) in E; discriminate).
          rewrite (aget_aset_other skey_eqb skey_eqb_spec) by exact Hne. exact Hold.
      + rewrite (store_dns s (SPresent o f)) by exact Ek. intros Hg.
        destruct (H _ _ Hg) as [e (Hin & He & Hk)]. exists e. repeat split; auto. right; exact Hin.
    - destruct (is_listener (o_kind o)) eqn:Ek.
      + cbn [andb negb] in Hgood. rewrite store_clean_listener by exact Ek.
        destruct (f_storage f); [discriminate|]. intros Hg.
        apply (aget_adel_some skey_eqb skey_eqb_spec) in Hg. destruct Hg as [Hne Hg].
        destruct (H _ _ Hg) as [e (Hin & He & Hk)]. exists e. repeat split; auto.
        apply premove_keep; [exact Hin|]. intros Heq. apply Hne. rewrite <- Heq. exact Hk.
      + rewrite (store_dns s (SClean o f)) by exact Ek. intros Hg.
        destruct (H _ _ Hg) as [e (Hin & He & Hk)]. exists e. repeat split; auto.
        apply premove_keep; [exact Hin|]. intros Heq. rewrite Heq, Ek in He. discriminate.
  Qed.
  Lemma inv4 ops : storage_delete_fault ops = false -> Inv4 (srun ops) (spending ops).
  Proof.
    intros Hf. rewrite srun_fold.
    apply (hist_rule (fun _ op => negb (bad_sdel op)) Inv4); [intros; apply inv4_step; assumption| |].
    - intros k v H; discriminate.
    - apply (no_fault_hist bad_sdel). exact Hf.
  Qed.

  (** * Invariants 5-7: DNS records and presenter memory *)
  Definition pcount (r : rec) (p : list pentry) : nat :=
    length (filter (fun e => is_dns e && rec_eqb (orec (fst e)) r) p).
  Lemma pcount_ext r e e' : fst e = fst e' ->
    (is_dns e && rec_eqb (orec (fst e)) r) = (is_dns e' && rec_eqb (orec (fst e')) r).
  Proof. unfold is_dns. intros ->. reflexivity. Qed.

  Definition Inv5 (s : sstate) (p : list pentry) : Prop := forall r, (count_rec r (dns_mem s) <= pcount r p)%nat.
  Definition Inv6 (s : sstate) (p : list pentry) : Prop := forall r, count_rec r (dns_recs s) = count_rec r (dns_mem s).
  Definition Inv7 (s : sstate) (p : list pentry) : Prop :=
    (forall r, (pcount r p <= 1)%nat) /\
    forall e, In e p -> present_ok_dns e = true -> In (orec (fst e)) (dns_recs s) /\ In (orec (fst e)) (dns_mem s).

  Lemma dns_listener s op : is_listener (o_kind (match op with SPresent o _ | SClean o _ => o end)) = true ->
    dns_recs (nxt s op) = dns_recs s /\ dns_mem (nxt s op) = dns_mem s.
  Proof.
    intros Hk. destruct op as [o f|o f]; unfold nxt; cbn; destruct (o_kind o); try discriminate;
      try (destruct (listen_present (o_addr o) (f_bind f) (solvers s))); split; reflexivity.
  Qed.
  Lemma dns_present s o f : o_kind o = KDns ->
    (f_cancel f || f_provider f = true -> dns_recs (nxt s (SPresent o f)) = dns_recs s /\ dns_mem (nxt s (SPresent o f)) = dns_mem s) /\
    (f_cancel f || f_provider f = false -> dns_recs (nxt s (SPresent o f)) = dns_recs s ++ [orec o] /\
                                           dns_mem (nxt s (SPresent o f)) = dns_mem s ++ [orec o]).
  Proof. intros Hk. unfold nxt. cbn. rewrite Hk. split; intros ->; split; reflexivity. Qed.
  Lemma dns_clean s o f : o_kind o = KDns ->
    dns_mem (nxt s (SClean o f)) = remove_one rec_eqb (orec o) (dns_mem s) /\
    (dns_recs (nxt s (SClean o f)) = dns_recs s \/
     (f_provider f = false /\ dns_recs (nxt s (SClean o f)) = remove_one rec_eqb (orec o) (dns_recs s))).
  Proof.
    intros Hk. unfold nxt. cbn. rewrite Hk. destruct (mem_b rec_eqb (orec o) (dns_mem s)) eqn:Em.
    - destruct (f_provider f); cbn; split; auto.
    - cbn. split; [|left; reflexivity].
      (* not remembered: removing changes nothing *)
      symmetry. apply remove_one_not_in. intros Hin. apply mem_b_in in Hin. congruence.
  Qed.

  Lemma pcount_cons r e p : pcount r (e :: p) = (pcount r p + (if is_dns e && rec_eqb (orec (fst e)) r then 1 else 0))%nat.
  Proof. unfold pcount. cbn [filter]. destruct (is_dns e && rec_eqb (orec (fst e)) r); cbn [length]; lia. Qed.
  Lemma pcount_premove r o p f0 : existsb (fun e => order_eqb (fst e) o) p = true ->
    pcount r (premove o p) = (pcount r p - (if is_dns (o, f0) && rec_eqb (orec o) r then 1 else 0))%nat.
  Proof. intros Hex. unfold pcount. apply (filter_premove _ o p (pcount_ext r) Hex f0). Qed.

  Lemma inv5_step s p op : Inv5 s p -> cdisc p op = true -> Inv5 (nxt s op) (ppstep p op).
  Proof.
    intros H Hc r. specialize (H r). destruct op as [o f|o f]; cbn [ppstep cdisc] in *.
    - rewrite pcount_cons. cbn [fst]. destruct (is_listener (o_kind o)) eqn:Ek.
      + destruct (dns_listener s (SPresent o f) Ek) as [_ ->]. lia.
      + pose proof (is_listener_dns _ Ek) as Ekd. destruct (dns_present s o f Ekd) as [Hfail Hok].
        unfold is_dns. cbn [fst]. rewrite Ek. cbn [negb andb].
        destruct (f_cancel f || f_provider f).
        * destruct (Hfail eq_refl) as [_ ->]. lia.
        * destruct (Hok eq_refl) as [_ ->]. rewrite count_rec_app, (rec_eqb_sym r). lia.
    - rewrite (pcount_premove r o p f Hc). unfold is_dns. cbn [fst]. destruct (is_listener (o_kind o)) eqn:Ek.
      + destruct (dns_listener s (SClean o f) Ek) as [_ ->]. cbn. lia.
      + pose proof (is_listener_dns _ Ek) as Ekd. destruct (dns_clean s o f Ekd) as [-> _].
        rewrite count_rec_remove_one, (rec_eqb_sym r). cbn [negb andb]. destruct (rec_eqb (orec o) r); lia.
  Qed.
  Lemma inv5 ops : disc ops = true -> Inv5 (srun ops) (spending ops).
  Proof.
    intros Hd. unfold disc in Hd. rewrite disc_from_hist in Hd. rewrite srun_fold.
    apply (hist_rule cdisc Inv5 inv5_step); [|exact Hd]. intros r. cbn. lia.
  Qed.

  Lemma inv6_step s p op : Inv6 s p -> negb (bad_pdel op) = true -> Inv6 (nxt s op) (ppstep p op).
  Proof.
    intros H Hgood r. specialize (H r). destruct op as [o f|o f]; cbn [bad_pdel] in *.
    - destruct (is_listener (o_kind o)) eqn:Ek.
      + destruct (dns_listener s (SPresent o f) Ek) as [-> ->]. exact H.
      + pose proof (is_listener_dns _ Ek) as Ekd. destruct (dns_present s o f Ekd) as [Hfail Hok].
        destruct (f_cancel f || f_provider f).
        * destruct (Hfail eq_refl) as [-> ->]. exact H.
        * destruct (Hok eq_refl) as [-> ->]. rewrite !count_rec_app, H. reflexivity.
    - destruct (is_listener (o_kind o)) eqn:Ek.
      + destruct (dns_listener s (SClean o f) Ek) as [-> ->]. exact H.
      + pose proof (is_listener_dns _ Ek) as Ekd. cbn [negb andb] in Hgood.
        destruct (f_provider f) eqn:Ef; [discriminate|].
        (* without a provider fault the record is removed exactly when it is remembered *)
        unfold nxt. cbn. rewrite Ekd. destruct (mem_b rec_eqb (orec o) (dns_mem s)) eqn:Em; rewrite ?Ef; cbn [fst dns_recs dns_mem].
        * rewrite !count_rec_remove_one, H. reflexivity.
        * exact H.
  Qed.
  Lemma inv6 ops : provider_delete_fault ops = false -> Inv6 (srun ops) (spending ops).
  Proof.
    intros Hf. rewrite srun_fold.
    apply (hist_rule (fun _ op => negb (bad_pdel op)) Inv6); [intros; apply inv6_step; assumption| |].
    - intros r; reflexivity.
    - apply (no_fault_hist bad_pdel). exact Hf.
  Qed.

  Lemma pcount_zero_fresh p o :
    negb (existsb (fun e => is_dns e && rec_eqb (orec (fst e)) (orec o)) p) = true -> pcount (orec o) p = 0%nat.
  Proof.
    intros H. apply negb_true_iff in H. unfold pcount.
    destruct (filter (fun e => is_dns e && rec_eqb (orec (fst e)) (orec o)) p) as [|e l] eqn:E; [reflexivity|].
    assert (Hin : In e (filter (fun e => is_dns e && rec_eqb (orec (fst e)) (orec o)) p)) by (rewrite E; left; reflexivity).
    apply filter_In in Hin. destruct Hin as [Hin He].
    assert (existsb (fun e => is_dns e && rec_eqb (orec (fst e)) (orec o)) p = true) by (apply existsb_exists; exists e; auto).
    congruence.
  Qed.
  Lemma pcount_pos_of_in r e p : In e p -> is_dns e = true -> orec (fst e) = r -> (1 <= pcount r p)%nat.
  Proof.
    intros Hin Hd Hr. unfold pcount.
    assert (In e (filter (fun e => is_dns e && rec_eqb (orec (fst e)) r) p)).
    { apply filter_In. split; [exact Hin|]. rewrite Hd, Hr, rec_eqb_refl. reflexivity. }
    destruct (filter (fun e => is_dns e && rec_eqb (orec (fst e)) r) p); [contradiction|cbn; lia].
  Qed.
  Lemma present_ok_is_dns e : present_ok_dns e = true -> is_dns e = true.
  Proof. unfold present_ok_dns, is_dns. rewrite andb_true_iff. tauto. Qed.

  Lemma inv7_step s p op : Inv7 s p -> cdisc p op && cfresh p op = true -> Inv7 (nxt s op) (ppstep p op).
  Proof.
    intros [HU HI] Hc. apply andb_true_iff in Hc. destruct Hc as [Hd Hf]. unfold Inv7.
    destruct op as [o f|o f]; cbn [ppstep cdisc cfresh] in *.
    - destruct (is_listener (o_kind o)) eqn:Ek.
      + destruct (dns_listener s (SPresent o f) Ek) as [-> ->]. split.
        * intros r. rewrite pcount_cons. unfold is_dns. cbn [fst]. rewrite Ek. cbn. specialize (HU r). lia.
        * intros e [<-|Hin] Hok; [apply present_ok_is_dns in Hok; unfold is_dns in Hok; cbn [fst] in Hok; rewrite Ek in Hok; discriminate|].
          exact (HI e Hin Hok).
      + cbn [orb] in Hf. pose proof (pcount_zero_fresh _ _ Hf) as Hz.
        pose proof (is_listener_dns _ Ek) as Ekd. destruct (dns_present s o f Ekd) as [Hfail Hok]. split.
        * intros r. rewrite pcount_cons. cbn [fst]. destruct (is_dns (o, f) && rec_eqb (orec o) r) eqn:E; [|specialize (HU r); lia].
          apply andb_true_iff in E. destruct E as [_ E]. apply rec_eqb_spec in E. subst r. lia.
        * intros e [<-|Hin] Hpok.
          -- unfold present_ok_dns in Hpok. cbn [fst snd] in Hpok. apply andb_true_iff in Hpok. destruct Hpok as [_ Hpok].
             apply negb_true_iff in Hpok. destruct (Hok Hpok) as [-> ->]. cbn [fst]. split; apply in_or_app; right; left; reflexivity.
          -- destruct (HI e Hin Hpok) as [A B]. destruct (f_cancel f || f_provider f).
             ++ destruct (Hfail eq_refl) as [-> ->]. split; assumption.
             ++ destruct (Hok eq_refl) as [-> ->]. split; apply in_or_app; left; assumption.
    - destruct (is_listener (o_kind o)) eqn:Ek.
      + destruct (dns_listener s (SClean o f) Ek) as [-> ->]. split.
        * intros r. rewrite (pcount_premove r o p f Hd). specialize (HU r). lia.
        * intros e Hin Hok. exact (HI e (premove_subset _ _ _ Hin) Hok).
      + pose proof (is_listener_dns _ Ek) as Ekd. destruct (dns_clean s o f Ekd) as [Hm Hr]. split.
        * intros r. rewrite (pcount_premove r o p f Hd). specialize (HU r). lia.
        * intros e Hin Hok. destruct (HI e (premove_subset _ _ _ Hin) Hok) as [A B].
          assert (Hne : orec (fst e) <> orec o).
          { intros Heq. pose proof (pcount_pos_of_in (orec o) e _ Hin (present_ok_is_dns _ Hok) Heq) as Hpos.
            rewrite (pcount_premove (orec o) o p f Hd) in Hpos. unfold is_dns in Hpos. cbn [fst] in Hpos.
            rewrite Ek, rec_eqb_refl in Hpos. cbn in Hpos. specialize (HU (orec o)). lia. }
          split.
          -- destruct Hr as [->|[_ ->]]; [exact A|apply in_remove_one_other; assumption].
          -- rewrite Hm. apply in_remove_one_other; assumption.
  Qed.
  Lemma inv7 ops : disc ops = true -> dns_fresh ops = true -> Inv7 (srun ops) (spending ops).
  Proof.
    intros Hd Hf. unfold disc in Hd. rewrite disc_from_hist in Hd. unfold dns_fresh in Hf. rewrite fresh_from_hist in Hf.
    rewrite srun_fold. apply (hist_rule (fun p op => cdisc p op && cfresh p op) Inv7 inv7_step).
    - split; [intros r; cbn; lia|intros e []].
    - apply hist_ok_and; assumption.
  Qed.

  (** * The theorems *)
  Definition listening (s : sstate) (a : str) : bool :=
    match sv_get a (solvers s) with Some (_, l) => l | None => false end.

  (** the use count is the number of pending challenges on the address, and an entry (hence a
      listener of ours) exists only while that number is positive *)
  Theorem count_is_pending ops a : disc ops = true ->
    match sv_get a (solvers (srun ops)) with
    | Some (n, _) => n = npend a (spending ops) /\ 0 < n
    | None => npend a (spending ops) = 0
    end.
  Proof. intros Hd. exact (proj1 (inv12 ops Hd) a). Qed.

  Theorem listener_only_while_in_use ops a : disc ops = true ->
    listening (srun ops) a = true -> 0 < npend a (spending ops).
  Proof.
    intros Hd. unfold listening. pose proof (count_is_pending ops a Hd) as H.
    destruct (sv_get a (solvers (srun ops))) as [[n l]|]; [intros _; lia|discriminate].
  Qed.

  (** a listener opened for a challenge stays open while that challenge is pending, whatever
      else is presented or cleaned up on the address *)
  Theorem listener_stays_while_pending ops e : disc ops = true ->
    In e (spending ops) -> is_listener (o_kind (fst e)) = true -> f_bind (snd e) = BOk ->
    listening (srun ops) (o_addr (fst e)) = true.
  Proof.
    intros Hd Hin Hk Hb. destruct (proj2 (inv12 ops Hd) e Hin Hk Hb) as [n Hn]. unfold listening. rewrite Hn. reflexivity.
  Qed.

  (** when every bind succeeds (nobody else holds the address): open iff in use *)
  Theorem listener_open_iff_in_use ops a : disc ops = true ->
    (forall e, In e (spending ops) -> is_listener (o_kind (fst e)) = true -> f_bind (snd e) = BOk) ->
    (listening (srun ops) a = true <-> 0 < npend a (spending ops)).
  Proof.
    intros Hd Hall. split; [apply listener_only_while_in_use; exact Hd|].
    intros Hpos. destruct (npend_pos_ex _ _ Hpos) as [e [Hin Hu]]. unfold uses in Hu.
    apply andb_true_iff in Hu. destruct Hu as [Hk Ha]. apply str_eqb_eq in Ha. subst a.
    apply listener_stays_while_pending; auto.
  Qed.

  (** nothing is left behind: every interleaving, every failure point *)
  Theorem quiescent_clean ops : disc ops = true -> spending ops = [] ->
    let s := srun ops in
    solvers s = [] /\ s_mem s = [] /\ dns_mem s = [] /\
    (storage_delete_fault ops = false -> s_store s = []) /\
    (provider_delete_fault ops = false -> dns_recs s = []).
  Proof.
    intros Hd Hq s. subst s.
    assert (Hdm : dns_mem (srun ops) = []).
    { apply all_count_zero_nil. intros r. pose proof (inv5 ops Hd r) as H. rewrite Hq in H. cbn in H. lia. }
    repeat split.
    - apply (aget_all_none str_eqb str_eqb_eq). intros a. pose proof (count_is_pending ops a Hd) as H. rewrite Hq in H.
      destruct (sv_get a (solvers (srun ops))) as [[n l]|]; [|reflexivity]. cbn in H. lia.
    - apply (aget_all_none str_eqb str_eqb_eq). intros k. destruct (aget str_eqb k (s_mem (srun ops))) as [v|] eqn:E; [|reflexivity].
      destruct (inv3 ops _ _ E) as [e [Hin _]]. rewrite Hq in Hin. destruct Hin.
    - exact Hdm.
    - intros Hf. apply (aget_all_none skey_eqb skey_eqb_spec). intros k.
      destruct (aget skey_eqb k (s_store (srun ops))) as [v|] eqn:E; [|reflexivity].
      destruct (inv4 ops Hf _ _ E) as [e [Hin _]]. rewrite Hq in Hin. destruct Hin.
    - intros Hf. apply all_count_zero_nil. intros r. rewrite (inv6 ops Hf r), Hdm. reflexivity.
  Qed.

  (** cleaning up one DNS challenge touches no record with another name or another value *)
  Theorem shared_record_name_distinguished_by_value s o f r : r <> orec o ->
    count_rec r (dns_recs (nxt s (SClean o f))) = count_rec r (dns_recs s) /\
    count_rec r (dns_mem (nxt s (SClean o f))) = count_rec r (dns_mem s).
  Proof.
    intros Hne. destruct (is_listener (o_kind o)) eqn:Ek.
    - destruct (dns_listener s (SClean o f) Ek) as [-> ->]. split; reflexivity.
    - destruct (dns_clean s o f (is_listener_dns _ Ek)) as [-> Hr]. split.
      + destruct Hr as [->|[_ ->]]; [reflexivity|]. rewrite count_rec_remove_one, (rec_eqb_neq _ _ Hne). reflexivity.
      + rewrite count_rec_remove_one, (rec_eqb_neq _ _ Hne). reflexivity.
  Qed.

  (** ... so a record that was created stays, in the zone and in the presenter's memory, until
      its own clean-up *)
  Theorem record_stays_until_own_cleanup ops e : disc ops = true -> dns_fresh ops = true ->
    In e (spending ops) -> present_ok_dns e = true ->
    In (orec (fst e)) (dns_recs (srun ops)) /\ In (orec (fst e)) (dns_mem (srun ops)).
  Proof. intros Hd Hf Hin Hok. exact (proj2 (inv7 ops Hd Hf) e Hin Hok). Qed.

  (** memory, token files, presenter memory, records: only for pending challenges *)
  Theorem only_pending_leaves_traces ops : disc ops = true ->
    let s := srun ops in let p := spending ops in
    (forall k v, aget str_eqb k (s_mem s) = Some v -> exists e, In e p /\ ck (fst e) = k) /\
    (storage_delete_fault ops = false ->
       forall k v, aget skey_eqb k (s_store s) = Some v -> exists e, In e p /\ is_listener (o_kind (fst e)) = true /\ tk (fst e) = k) /\
    (forall r, In r (dns_mem s) -> exists e, In e p /\ is_dns e = true /\ orec (fst e) = r) /\
    (provider_delete_fault ops = false ->
       forall r, In r (dns_recs s) -> exists e, In e p /\ is_dns e = true /\ orec (fst e) = r).
  Proof.
    intros Hd s p. subst s p.
    assert (Hdm : forall r, In r (dns_mem (srun ops)) -> exists e, In e (spending ops) /\ is_dns e = true /\ orec (fst e) = r).
    { intros r Hin. pose proof (count_rec_pos_in _ _ Hin) as H1. pose proof (inv5 ops Hd r) as H2.
      unfold pcount in H2. destruct (filter (fun e => is_dns e && rec_eqb (orec (fst e)) r) (spending ops)) as [|e l] eqn:E; [cbn in H2; lia|].
      assert (Hie : In e (filter (fun e => is_dns e && rec_eqb (orec (fst e)) r) (spending ops))) by (rewrite E; left; reflexivity).
      apply filter_In in Hie. destruct Hie as [Hie He]. apply andb_true_iff in He. destruct He as [He1 He2].
      apply rec_eqb_spec in He2. exists e. auto. }
    repeat split.
    - exact (inv3 ops).
    - intros Hf. exact (inv4 ops Hf).
    - exact Hdm.
    - intros Hf r Hin. apply Hdm. apply count_rec_in. rewrite <- (inv6 ops Hf r). apply count_rec_pos_in. exact Hin.
  Qed.

  (** * The boolean specification holds of the model *)
  Variable kstr : skey -> str.
  Theorem spec_at_holds ops : spec_at sf kstr ops (snap_of kstr (srun ops)) = true.
  Proof.
    unfold spec_at. destruct (disc ops) eqn:Hd; [|reflexivity]. cbn [negb orb].
    destruct (only_pending_leaves_traces ops Hd) as (HM & HS & HD & HR).
    destruct (inv12 ops Hd) as [I1 I2].
    cbn [snap_of sn_solvers sn_mem sn_store sn_recs sn_dmem].
    repeat (apply andb_true_iff; split).
    - apply forallb_forall. intros [a [n l]] Hin. cbn [fst].
      destruct (aget_of_in a (n, l) _ Hin) as [[n' l'] Hg]. rewrite Hg.
      pose proof (I1 a) as H. rewrite Hg in H. destruct H as [-> Hpos].
      rewrite Z.eqb_refl. apply Z.ltb_lt. exact Hpos.
    - apply forallb_forall. intros e Hin. destruct (is_listener (o_kind (fst e))) eqn:Ek; [|reflexivity]. cbn [negb orb].
      pose proof (I1 (o_addr (fst e))) as H.
      destruct (sv_get (o_addr (fst e)) (solvers (srun ops))); [reflexivity|].
      assert (1 <= npend (o_addr (fst e)) (spending ops)).
      { apply (npend_pos_of_in _ e); [exact Hin|]. unfold uses. rewrite Ek, str_eqb_refl. reflexivity. }
      lia.
    - apply forallb_forall. intros e Hin. destruct (is_listener (o_kind (fst e))) eqn:Ek; [|reflexivity]. cbn [negb orb].
      destruct (f_bind (snd e)) eqn:Eb; try reflexivity.
      destruct (I2 e Hin Ek Eb) as [n Hn]. rewrite Hn. reflexivity.
    - apply forallb_forall. intros k Hin. apply in_map_iff in Hin. destruct Hin as [[k0 v0] [<- Hin]]. cbn [fst].
      destruct (aget_of_in k0 v0 _ Hin) as [v' Hg]. destruct (HM _ _ Hg) as [e [He Hk]].
      apply existsb_exists. exists e. split; [exact He|]. rewrite Hk. apply str_eqb_refl.
    - destruct (storage_delete_fault ops) eqn:Hf; [reflexivity|]. cbn [orb].
      apply forallb_forall. intros k Hin. apply in_map_iff in Hin. destruct Hin as [[k0 v0] [<- Hin]]. cbn [fst].
      destruct (sget_of_in k0 v0 _ Hin) as [v' Hg]. destruct (HS eq_refl _ _ Hg) as [e (He & Hl & Hk)].
      apply existsb_exists. exists e. split; [exact He|]. rewrite Hl, Hk. apply str_eqb_refl.
    - apply forallb_forall. intros r Hin. destruct (HD r Hin) as [e (He & Hdns & Hr)].
      apply existsb_exists. exists e. split; [exact He|]. unfold is_dns in Hdns. rewrite Hdns, Hr. apply rec_eqb_refl.
    - destruct (provider_delete_fault ops) eqn:Hf; [reflexivity|]. cbn [orb].
      apply forallb_forall. intros r Hin. destruct (HR eq_refl r Hin) as [e (He & Hdns & Hr)].
      apply existsb_exists. exists e. split; [exact He|]. unfold is_dns in Hdns. rewrite Hdns, Hr. apply rec_eqb_refl.
    - destruct (dns_fresh ops) eqn:Hf; [|reflexivity]. cbn [negb orb].
      apply forallb_forall. intros e Hin. destruct (present_ok_dns e) eqn:Hok; [|reflexivity]. cbn [negb orb].
      destruct (record_stays_until_own_cleanup ops e Hd Hf Hin Hok) as [A B].
      apply andb_true_iff. split; apply mem_b_in; assumption.
  Qed.

  Theorem quiescent_clean_b_holds ops : quiescent_clean_b ops (snap_of kstr (srun ops)) = true.
  Proof.
    unfold quiescent_clean_b. destruct (disc ops) eqn:Hd; [|reflexivity]. cbn [negb orb].
    destruct (spending ops) as [|e p] eqn:Hq; [|reflexivity]. cbn [is_nil negb orb].
    destruct (quiescent_clean ops Hd Hq) as (H1 & H2 & H3 & H4 & H5).
    cbn [snap_of sn_solvers sn_mem sn_store sn_recs sn_dmem]. rewrite H1, H2, H3. cbn [map is_nil andb].
    destruct (storage_delete_fault ops); [|rewrite (H4 eq_refl)]; cbn [map is_nil orb andb];
      (destruct (provider_delete_fault ops); [|rewrite (H5 eq_refl)]; reflexivity).
  Qed.
End Sys.

(** * Every interleaving of the orders' Present; CleanUp programs is a history of the discipline
      and ends with nothing pending (acmez: client.go solveChallenges, one program per chosen
      authorization; orders run concurrently) *)
Inductive merge {A} : list (list A) -> list A -> Prop :=
| merge_nil ls : Forall (fun l => l = []) ls -> merge ls []
| merge_step ls1 x l ls2 r : merge (ls1 ++ l :: ls2) r -> merge (ls1 ++ (x :: l) :: ls2) (x :: r).

Definition prog (t : order * faults * faults) : list sop :=
  let '(o, fp, fc) := t in [SPresent o fp; SClean o fc].

Definition wf_thread (l : list sop) : Prop :=
  l = [] \/ (exists o fc, l = [SClean o fc]) \/ (exists o fp fc, l = [SPresent o fp; SClean o fc]).
Definition owes (o : order) (l : list sop) : nat :=
  match l with [SClean o' _] => if order_eqb o' o then 1 else 0 | _ => 0 end.
Definition owed (o : order) (ls : list (list sop)) : nat := list_sum (map (owes o) ls).
Definition cnt (o : order) (p : list pentry) : nat := length (filter (fun e => order_eqb (fst e) o) p).

Lemma owed_mid o ls1 l ls2 : owed o (ls1 ++ l :: ls2) = (owed o ls1 + owes o l + owed o ls2)%nat.
Proof. unfold owed. rewrite map_app, list_sum_app. cbn [map list_sum fold_right]. unfold list_sum. cbn [fold_right]. lia. Qed.

Lemma cnt_ext o (e e' : pentry) : fst e = fst e' -> order_eqb (fst e) o = order_eqb (fst e') o.
Proof. intros ->. reflexivity. Qed.
Lemma cnt_pos_exists o p : (1 <= cnt o p)%nat -> existsb (fun e => order_eqb (fst e) o) p = true.
Proof.
  unfold cnt. induction p as [|e p IH]; cbn [filter length existsb]; [lia|].
  destruct (order_eqb (fst e) o); [reflexivity|]. intros H. cbn [orb]. exact (IH H).
Qed.
Lemma cnt_all_zero_nil p : (forall o, cnt o p = 0%nat) -> p = [].
Proof.
  destruct p as [|e p]; [reflexivity|]. intros H. specialize (H (fst e)). unfold cnt in H. cbn [filter] in H.
  rewrite order_eqb_refl in H. cbn in H. lia.
Qed.
Lemma order_eqb_sym a b : order_eqb a b = order_eqb b a.
Proof.
  destruct (order_eqb a b) eqn:E1, (order_eqb b a) eqn:E2; try reflexivity.
  - apply order_eqb_spec in E1; subst. rewrite order_eqb_refl in E2; discriminate.
  - apply order_eqb_spec in E2; subst. rewrite order_eqb_refl in E1; discriminate.
Qed.

Lemma merge_disciplined ls ops : merge ls ops -> Forall wf_thread ls ->
  forall p, (forall o, cnt o p = owed o ls) -> disc_from p ops = true /\ fold_left ppstep ops p = [].
Proof.
  induction 1 as [ls Hnil|ls1 x l ls2 r Hm IH]; intros Hwf p Hcnt.
  - split; [reflexivity|]. cbn. apply cnt_all_zero_nil. intros o. rewrite Hcnt. unfold owed.
    clear -Hnil. induction Hnil as [|l ls Hl _ IH]; [reflexivity|]. subst l. cbn. exact IH.
  - assert (Hx : wf_thread (x :: l)).
    { rewrite Forall_forall in Hwf. apply Hwf. apply in_or_app. right. left. reflexivity. }
    assert (Hwf' : forall l', wf_thread l' -> Forall wf_thread (ls1 ++ l' :: ls2)).
    { intros l' Hl'. rewrite Forall_forall in *. intros y Hy. apply in_app_or in Hy. destruct Hy as [Hy|[<-|Hy]].
      - apply Hwf. apply in_or_app. left; exact Hy.
      - exact Hl'.
      - apply Hwf. apply in_or_app. right. right. exact Hy. }
    destruct Hx as [Hx|[(o & fc & Hx)|(o & fp & fc & Hx)]]; [discriminate| |]; injection Hx; intros -> ->.
    + (* the thread cleans up *)
      assert (Hex : existsb (fun e => order_eqb (fst e) o) p = true).
      { apply cnt_pos_exists. rewrite Hcnt, owed_mid. cbn [owes]. rewrite order_eqb_refl. lia. }
      cbn [disc_from fold_left ppstep]. rewrite Hex. cbn [andb].
      apply IH; [apply Hwf'; left; reflexivity|].
      intros o'. pose proof (filter_premove (fun e : pentry => order_eqb (fst e) o') o p (cnt_ext o') Hex fc) as Hfp.
      cbn [fst] in Hfp. specialize (Hcnt o'). rewrite owed_mid in Hcnt. cbn [owes] in Hcnt.
      rewrite owed_mid. cbn [owes]. unfold cnt in *. unfold pentry in *.
      destruct (order_eqb o o'); lia.
    + (* the thread presents *)
      cbn [disc_from fold_left ppstep andb].
      apply IH; [apply Hwf'; right; left; exists o, fc; reflexivity|].
      intros o'. unfold cnt. cbn [filter fst].
      rewrite !owed_mid. cbn [owes]. specialize (Hcnt o'). rewrite owed_mid in Hcnt. cbn [owes] in Hcnt.
      unfold cnt in Hcnt. unfold pentry in *.
      destruct (order_eqb o o'); cbn [length]; lia.
Qed.

Theorem all_interleavings_disciplined ts ops : merge (map prog ts) ops -> disc ops = true /\ spending ops = [].
Proof.
  intros Hm. apply (merge_disciplined _ _ Hm).
  - apply Forall_forall. intros l Hl. apply in_map_iff in Hl. destruct Hl as [[[o fp] fc] [<- _]].
    right. right. exists o, fp, fc. reflexivity.
  - intros o. cbn. unfold owed. clear. induction ts as [|[[o' fp] fc] ts IH]; [reflexivity|]. cbn. exact IH.
Qed.

(** whatever the interleaving and the faults, the orders leave the solver state as they found
    it (token files / provider records: unless a delete itself was made to fail) *)
Theorem interleavings_leave_nothing sf honour ts ops : merge (map prog ts) ops ->
  storage_delete_fault ops = false -> provider_delete_fault ops = false ->
  srun sf honour ops = sinit.
Proof.
  intros Hm Hs Hp. destruct (all_interleavings_disciplined ts ops Hm) as [Hd Hq].
  destruct (quiescent_clean sf honour ops Hd Hq) as (H1 & H2 & H3 & H4 & H5).
  destruct (srun sf honour ops) as [a b c d e]. cbn in *. rewrite H1, H2, H3, (H4 Hs), (H5 Hp). reflexivity.
Qed.
