From Coq Require Import ZArith Lia.
From CM Require Import Lib.Str Gen.Consts Safe.Model Challenge.Model Challenge.Proofs Solvers.Config.
Open Scope Z_scope.

Section P.
  Variable lower : N -> N.
  Variable is_space : N -> bool.
  Notation solver_set := (solver_set lower is_space).

  (** a solver exists exactly for the enabled challenge types, one each *)
  Theorem solver_per_enabled_type c t :
    length (filter (fun d => ctype_eqb (sd_type d) t) (solver_set c)) = if enabled c t then 1%nat else 0%nat.
  Proof.
    unfold solver_set, enabled. destruct (i_dns c), (i_dis_http c), (i_dis_alpn c), t; reflexivity.
  Qed.

  (** the listener solvers are distributed under the issuer's own prefix and listen on the
      configured host and port *)
  Theorem listener_solvers_distributed c d : In d (solver_set c) -> sd_type d <> TDns ->
    sd_dist d = true /\ sd_prefix d = ca_prefix lower is_space (i_ik c) /\
    sd_addr d = join_host_port (i_host c) (itoa (match sd_type d with THttp => http_port c | _ => alpn_port c end)).
  Proof.
    unfold solver_set. destruct (i_dns c), (i_dis_http c), (i_dis_alpn c); cbn;
      intros H Hn; repeat (destruct H as [<-|H]; [cbn in *; try congruence; repeat split|]); try contradiction.
  Qed.

  Theorem cfg_spec_holds c : cfg_spec lower is_space c (solver_set c) = true.
  Proof.
    unfold cfg_spec. apply andb_true_iff. split.
    - apply forallb_forall. intros t _. rewrite solver_per_enabled_type. destruct (enabled c t); reflexivity.
    - apply forallb_forall. intros d Hd. destruct (sd_type d) eqn:Et; try reflexivity.
      + destruct (listener_solvers_distributed c d Hd) as (A & B & C); [congruence|].
        rewrite A, B, C, Et, !str_eqb_refl. reflexivity.
      + destruct (listener_solvers_distributed c d Hd) as (A & B & C); [congruence|].
        rewrite A, B, C, Et, !str_eqb_refl. reflexivity.
  Qed.
End P.

(** the alternate port wins; otherwise a changed package port; otherwise the standard port *)
Theorem pick_port_spec base glob alt :
  (0 < alt -> pick_port base glob alt = alt) /\
  (alt <= 0 -> 0 < glob -> glob <> base -> pick_port base glob alt = glob) /\
  (alt <= 0 -> (glob <= 0 \/ glob = base) -> pick_port base glob alt = base).
Proof.
  unfold pick_port. repeat split; intros.
  - destruct (Z.ltb_spec 0 alt); [reflexivity|lia].
  - destruct (Z.ltb_spec 0 alt); [lia|]. destruct (Z.ltb_spec 0 glob); [|lia].
    destruct (Z.eqb_spec glob base); [contradiction|reflexivity].
  - destruct (Z.ltb_spec 0 alt); [lia|]. destruct (Z.ltb_spec 0 glob); cbn; [|reflexivity].
    destruct (Z.eqb_spec glob base); cbn; [reflexivity|lia].
Qed.
