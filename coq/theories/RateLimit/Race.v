(** C17 — the top of [loop] and the setters.

    In the code as it is now (after the fix "rate limiter loop reads its configuration under
    the mutex") the limit [len(r.ring)], the window and the oldest stamp are read in ONE
    critical section of [r.mu]: that is the single [Compute] step of Model.v.  Here:

    (1) for that code the loop never dies and always comes to offer a ticket, whatever the
        setters do in between (every history of the transition system);
    (2) the code as it was: [len(r.ring)] and [r.window] were read WITHOUT the mutex, and only
        then the mutex was taken to read [r.ring[r.cursor]].  This is the transition system
        [pstep] below: [Peek] (unlocked read of the length), [PeekWin] (unlocked read of the
        window, only after an empty ring was seen), [Lock] (index the ring under the mutex).
        A setter between [Peek] and [Lock] makes the loop index an empty ring — it panics
        while HOLDING the mutex (the unlock is not deferred), so the limiter never admits
        again and every later call that takes the mutex blocks for ever — or makes it see
        (0, W<>0), the configuration no setter ever establishes, and panic on that. *)
From Coq Require Import List ZArith Bool Lia.
From CM Require Import RateLimit.Model RateLimit.Proofs.
Import ListNotations.
Open Scope Z_scope.

(** a configuration the constructors and setters accept: no events allowed only with no window *)
Definition valid_cfg (s : state) : Prop := ring s = [] -> window s = 0.

Lemma resize_gen_nil : forall f n rg c, fst (resize_gen f n rg c) = [] -> n = 0%nat.
Proof.
  intros f n rg c H. unfold resize_gen in H. destruct rg as [|x rg].
  - cbn in H. destruct n; [reflexivity|discriminate].
  - destruct n as [|n]; [reflexivity|]. exfalso.
    remember (copy_loop (S n) (x :: rg) _ _) as r. destruct r as [vs full]. cbn [fst] in H.
    cbn [copy_loop] in Heqr.
    destruct (advance _ _ =? _)%nat.
    + inversion Heqr; subst. discriminate.
    + destruct (copy_loop n (x :: rg) _ _) as [vs' b']. inversion Heqr; subst. discriminate.
Qed.

Lemma set_max_events_valid : forall f n s, valid_cfg s -> valid_cfg (set_max_events_gen f n s).
Proof.
  intros f n s V. unfold set_max_events_gen.
  destruct (negb (window s =? 0) && (n =? 0)%nat) eqn:G; [exact V|].
  destruct (n =? length (ring s))%nat; [exact V|].
  destruct (resize_gen f n (ring s) (cursor s)) as [r' c'] eqn:R.
  unfold valid_cfg; cbn. intro E.
  assert (n = 0%nat) by (apply (resize_gen_nil f n (ring s) (cursor s)); rewrite R; exact E).
  subst n. cbn in G. rewrite andb_true_r in G. apply negb_false_iff in G. lia.
Qed.

Lemma set_window_valid : forall w s, valid_cfg s -> valid_cfg (set_window w s).
Proof.
  intros w s V. unfold set_window.
  destruct (negb (w =? 0) && (length (ring s) =? 0)%nat) eqn:G; [exact V|].
  unfold valid_cfg; cbn. intro E. rewrite E in G. cbn in G. rewrite andb_true_r in G.
  apply negb_false_iff in G. lia.
Qed.

Lemma set_nth_nil : forall i v l, set_nth i v l = [] -> l = [].
Proof. intros i v l. revert i. destruct l; intros [|i]; cbn; congruence. Qed.

(** the generic proof: every label either keeps ring/window or is a setter *)
Lemma step_valid : forall f s l s', valid_cfg s -> step_gen f s l = Some s' -> valid_cfg s'.
Proof.
  intros f s l s' V H. unfold step_gen in H.
  destruct (time_of l <? now s); [discriminate|].
  assert (K : forall p t, valid_cfg (with_ph s p t)) by (intros; exact V).
  destruct l.
  - destruct (ph s); try discriminate. destruct (ring s) eqn:R; inversion H; subst; apply K.
  - destruct (ph s); try discriminate. destruct (until <=? t); inversion H; subst; apply K.
  - destruct (ph s); try discriminate. inversion H; subst; apply K.
  - destruct (ph s); try discriminate. inversion H; subst. unfold record.
    destruct (ring s) eqn:R; [apply K|]. unfold valid_cfg; cbn. intro E. apply set_nth_nil in E. discriminate.
  - inversion H; subst. pose proof (set_max_events_valid f n s V) as V'. exact V'.
  - inversion H; subst. pose proof (set_window_valid w s V) as V'. exact V'.
  - inversion H; subst. apply K.
  - destruct (ph s); try discriminate; inversion H; subst; apply K.
  - destruct (ph s); try discriminate; inversion H; subst; apply K.
Qed.

Lemma step_alive : forall f s l s', valid_cfg s -> ph s <> Dead -> step_gen f s l = Some s' -> ph s' <> Dead.
Proof.
  intros f s l s' V A H. unfold step_gen in H.
  destruct (time_of l <? now s); [discriminate|].
  destruct l.
  - destruct (ph s); try discriminate. destruct (ring s) eqn:R; inversion H; subst; cbn; [|congruence].
    rewrite (V R). cbn. congruence.
  - destruct (ph s); try discriminate. destruct (until <=? t); inversion H; subst; cbn; congruence.
  - destruct (ph s); try discriminate. inversion H; subst; cbn; congruence.
  - destruct (ph s); try discriminate. inversion H; subst. rewrite record_ph. congruence.
  - inversion H; subst. cbn. destruct (set_max_events_ph f n s) as [E _]. rewrite E. exact A.
  - inversion H; subst. cbn. rewrite set_window_ph. exact A.
  - inversion H; subst. exact A.
  - destruct (ph s) eqn:P; try discriminate; inversion H; subst; cbn; congruence.
  - destruct (ph s) eqn:P; try discriminate; inversion H; subst; cbn; congruence.
Qed.

Lemma init_valid : forall n w t0, (n = 0%nat -> w = 0) -> valid_cfg (init n w t0).
Proof. intros n w t0 H. unfold valid_cfg, init; cbn. destruct n; [auto|discriminate]. Qed.

Lemma run_valid_alive : forall f ls s s', valid_cfg s -> ph s <> Dead -> run_gen f s ls = Some s' ->
  valid_cfg s' /\ ph s' <> Dead.
Proof.
  intros f ls. induction ls as [|l ls IH]; intros s s' V A H; cbn in H.
  - inversion H; subst; auto.
  - destruct (step_gen f s l) as [s1|] eqn:E; [|discriminate].
    apply (IH s1 s'); [eapply step_valid; eauto|eapply step_alive; eauto|exact H].
Qed.

(** (1a) The loop never dies: from a limiter created with a configuration NewRateLimiter
    accepts, after any history — any interleaving of loop steps, admissions, cancellations and
    SetMaxEvents / SetWindow calls in any phase, including the ones that panic in the caller —
    the scheduling goroutine has not panicked and the configuration is still a valid one. *)
Theorem loop_never_dies : forall n w t0 ls s, (n = 0%nat -> w = 0) ->
  run (init n w t0) ls = Some s -> ph s <> Dead /\ valid_cfg s.
Proof.
  intros n w t0 ls s H R.
  destruct (run_valid_alive true ls (init n w t0) s) as [V A]; auto.
  - apply init_valid; exact H.
  - cbn; congruence.
Qed.

(** (1b) ... and it always comes to offer a ticket: from any reachable state in which the loop
    is neither stopped nor in the middle of a hand-over, the loop's own steps (at most two)
    lead to [Offering] without touching the ring — so a waiter that stays is admitted, also
    after the limit and the window have been changed (in particular: after SetWindow(0),
    SetMaxEvents(0) the limiter is the unlimited one). *)
Theorem live_loop_offers : forall n w t0 ls s, (n = 0%nat -> w = 0) ->
  run (init n w t0) ls = Some s -> ph s <> Stopped -> (forall th, ph s <> Recording th) ->
  exists ls' s', run s ls' = Some s' /\ ph s' = Offering /\ (length ls' <= 2)%nat /\
                 ring s' = ring s /\ cursor s' = cursor s /\ window s' = window s /\
                 handovers ls' = [] /\ stable ls' = true.
Proof.
  intros n w t0 ls s H R NS NR.
  destruct (loop_never_dies n w t0 ls s H R) as [A V].
  assert (T : forall u, exists t, (u <=? t) = true /\ (t <? now s) = false /\ now s <= t).
  { intro u. exists (Z.max u (now s)). repeat split; lia. }
  destruct (ph s) eqn:P.
  - (* Computing *)
    destruct (ring s) eqn:Rg.
    + exists [Compute (now s)]. eexists. cbn. unfold step, step_gen. cbn.
      rewrite Z.ltb_irrefl, P, Rg, (V Rg). cbn. split; [reflexivity|]. cbn. rewrite Rg. repeat split; auto.
    + destruct (T (nth (cursor s) (ring s) 0 + window s)) as [t [T1 [T2 T3]]].
      exists [Compute (now s); TimerFire t]. eexists. cbn. unfold step, step_gen. cbn.
      rewrite Z.ltb_irrefl, P, Rg. cbn.
      replace (t <? now s) with false by (symmetry; exact T2).
      rewrite Rg in T1. cbn in T1. rewrite T1. split; [reflexivity|]. cbn. rewrite Rg. repeat split; auto.
  - destruct (T until) as [t [T1 [T2 T3]]].
    exists [TimerFire t]. eexists. cbn. unfold step, step_gen. cbn. rewrite T2, P, T1.
    split; [reflexivity|]. cbn. repeat split; auto.
  - exists []. exists s. cbn. repeat split; auto.
  - exfalso. apply (NR th). reflexivity.
  - congruence.
  - congruence.
Qed.

(** * (2) the loop as it was: unlocked reads before the critical section *)

Inductive peek := NoPeek | SawSome | SawNone | SawNoneWin (w : Z).

Record pstate := PSt {
  base : state;
  pk : peek;
  mutex_stuck : bool    (* the loop panicked between Lock and Unlock *)
}.

Inductive plabel :=
| Peek (t : Z)          (* if len(r.ring) == 0 — no lock *)
| PeekWin (t : Z)       (* if r.window == 0 — no lock *)
| Lock (t : Z)          (* r.mu.Lock(); then := r.ring[r.cursor].Add(r.window); r.mu.Unlock() — or the decision on (0, w) *)
| Other (l : label).    (* everything else as in Model.v; a [Compute] label is not used *)

Definition takes_mutex (l : label) : bool :=
  match l with SetMaxEvents _ _ | SetWindow _ _ | Rec _ => true | _ => false end.

Definition pstep (p : pstate) (l : plabel) : option pstate :=
  let s := base p in
  match l with
  | Peek t =>
      if t <? now s then None else
      match ph s, pk p with
      | Computing, NoPeek =>
          Some (PSt (with_ph s Computing t) (match ring s with [] => SawNone | _ => SawSome end) (mutex_stuck p))
      | _, _ => None
      end
  | PeekWin t =>
      if t <? now s then None else
      match ph s, pk p with
      | Computing, SawNone => Some (PSt (with_ph s Computing t) (SawNoneWin (window s)) (mutex_stuck p))
      | _, _ => None
      end
  | Lock t =>
      if t <? now s then None else
      match ph s, pk p with
      | Computing, SawSome =>
          match ring s with
          | [] => Some (PSt (with_ph s Dead t) NoPeek true)       (* index out of range, mutex held *)
          | _ => Some (PSt (with_ph s (Sleeping (nth (cursor s) (ring s) 0 + window s)) t) NoPeek (mutex_stuck p))
          end
      | Computing, SawNoneWin w =>
          Some (PSt (with_ph s (if w =? 0 then Offering else Dead) t) NoPeek (mutex_stuck p))
      | _, _ => None
      end
  | Other (Compute _) => None
  | Other l' =>
      if mutex_stuck p && takes_mutex l' then None       (* blocks for ever *)
      else match step s l' with
           | Some s' => Some (PSt s' (pk p) (mutex_stuck p))
           | None => None
           end
  end.

Fixpoint prun (p : pstate) (ls : list plabel) : option pstate :=
  match ls with
  | [] => Some p
  | l :: r => match pstep p l with Some p' => prun p' r | None => None end
  end.

Definition pinit (n : nat) (w t0 : Z) : pstate := PSt (init n w t0) NoPeek false.

(** every call the histories below make is one the API accepts (it does not panic in the
    caller): the limit is set to 0 only when the window is 0, the window to non-zero only when
    the limit is not 0 *)
Fixpoint calls_accepted (p : pstate) (ls : list plabel) : bool :=
  match ls with
  | [] => true
  | l :: r =>
      (match l with
       | Other (SetMaxEvents _ n) => negb (negb (window (base p) =? 0) && (n =? 0)%nat)
       | Other (SetWindow _ w) => negb (negb (w =? 0) && (length (ring (base p)) =? 0)%nat)
       | _ => true
       end) &&
      match pstep p l with Some p' => calls_accepted p' r | None => false end
  end.

(** (2a) limit 2, window 0 (limiting disabled by the window): one admission, and SetMaxEvents(0)
    arrives between the loop's unlocked look at the length and its critical section.  The loop
    dies holding the mutex: no further admission is possible, and a later SetMaxEvents /
    SetWindow never returns. *)
Theorem unlocked_peek_kills_loop_orig_refuted :
  exists ls p, prun (pinit 2 0 1000) ls = Some p /\ calls_accepted (pinit 2 0 1000) ls = true /\
    ph (base p) = Dead /\ mutex_stuck p = true /\ valid_cfg (base p) /\
    (forall t, pstep p (Other (Handover t)) = None) /\
    (forall t n, pstep p (Other (SetMaxEvents t n)) = None) /\
    (forall t w, pstep p (Other (SetWindow t w)) = None).
Proof.
  exists [Peek 1000; Lock 1000; Other (TimerFire 1000); Other (Handover 1001); Other (Rec 1001);
          Peek 1002; Other (SetMaxEvents 1002 0); Lock 1003].
  eexists. split; [vm_compute; reflexivity|]. split; [vm_compute; reflexivity|].
  split; [reflexivity|]. split; [reflexivity|]. split; [intro; reflexivity|].
  split; [|split].
  - intro t. cbn. unfold step, step_gen. cbn. destruct (t <? 1003); reflexivity.
  - intros t n. reflexivity.
  - intros t w. reflexivity.
Qed.

(** (2b) the other direction: an unlimited limiter (0, 0) is given a limit and then a window
    (the only order the API accepts) between the loop's two unlocked reads: it sees (0, 100),
    which no setter ever established, and panics on "invalid configuration". *)
Theorem unlocked_peek_sees_invalid_config_orig_refuted :
  exists ls p, prun (pinit 0 0 1000) ls = Some p /\ calls_accepted (pinit 0 0 1000) ls = true /\
    ph (base p) = Dead /\ valid_cfg (base p) /\ length (ring (base p)) = 2%nat /\ window (base p) = 100.
Proof.
  exists [Peek 1000; PeekWin 1000; Lock 1000; Other (Handover 1001); Other (Rec 1001);
          Peek 1002; Other (SetMaxEvents 1002 2); Other (SetWindow 1003 100); PeekWin 1003; Lock 1003].
  eexists. split; [vm_compute; reflexivity|]. split; [vm_compute; reflexivity|].
  split; [reflexivity|]. split; [intro H; discriminate H|]. split; reflexivity.
Qed.

(** the same two interleavings in the code as it is: [Compute] is one critical section, the
    setter comes before or after it, and the loop lives *)
Example fixed_loop_survives_the_same_calls :
  (exists s, run (init 2 0 1000) [Compute 1000; TimerFire 1000; Handover 1001; Rec 1001;
                                   SetMaxEvents 1002 0; Compute 1003] = Some s /\ ph s = Offering) /\
  (exists s, run (init 0 0 1000) [Compute 1000; Handover 1001; Rec 1001; SetMaxEvents 1002 2;
                                   SetWindow 1003 100; Compute 1003; TimerFire 1003] = Some s /\ ph s = Offering).
Proof. split; eexists; (split; [vm_compute; reflexivity|reflexivity]). Qed.

(** * A burst: all waiters arrive at or after the limiter's creation instant [t0].  The j-th
      admission (0-based) is not before t0 + (j / n) * w — at most n in the first window, at most
      2n in the first two, ...  This is the form in which the bound is observed at the CA for
      first attempts through the ACME issuer (class e2e-throttle). *)
Theorem burst_lower_bound : forall (n : nat) (w t0 : Z) ls s', (0 < n)%nat -> 0 <= w ->
  stable ls = true -> run (init n w t0) ls = Some s' ->
  forall j, (j < length (handovers ls))%nat ->
    t0 + Z.of_nat (j / n) * w <= nth j (handovers ls) 0.
Proof.
  intros n w t0 ls s' Hn Hw Hst Hrun j.
  induction j as [j IH] using lt_wf_ind. intro Hj.
  destruct (Nat.lt_ge_cases j n) as [Hlt|Hge].
  - rewrite Nat.div_small by exact Hlt. cbn. rewrite Z.add_0_r.
    pose proof (handovers_ge_now true ls (init n w t0) s' Hrun) as G.
    assert (In (nth j (handovers ls) 0) (handovers ls)) by (apply nth_In; exact Hj).
    rewrite Forall_forall in G. specialize (G _ H). cbn in G. exact G.
  - assert (Hdiv : (j / n = (j - n) / n + 1)%nat).
    { replace j with ((j - n) + 1 * n)%nat at 1 by lia. rewrite Nat.div_add by lia. reflexivity. }
    rewrite Hdiv.
    pose proof (at_most_n_per_window n w t0 ls s' Hn Hst Hrun (j - n)%nat j ltac:(lia)) as A.
    pose proof (IH (j - n)%nat ltac:(lia) ltac:(lia)) as B.
    rewrite Nat2Z.inj_add. cbn [Z.of_nat Pos.of_succ_nat]. lia.
Qed.
