(** C17 — proofs about the rate limiter model. *)
From Coq Require Import List ZArith Bool Lia Arith Sorted.
From CM Require Import RateLimit.Model.
Import ListNotations.
Open Scope Z_scope.

(** * Lists: rotation and indices *)

Lemma nth_skipn : forall (l : list Z) c j, nth j (skipn c l) 0 = nth (c + j) l 0.
Proof.
  induction l as [|x l IH]; intros c j.
  - rewrite skipn_nil. destruct j, (c + 0)%nat, c; reflexivity.
  - destruct c as [|c]; [reflexivity|]. cbn [skipn Nat.add nth]. apply IH.
Qed.

Lemma nth_firstn : forall (l : list Z) c j, (j < c)%nat -> nth j (firstn c l) 0 = nth j l 0.
Proof.
  induction l as [|x l IH]; intros c j H.
  - rewrite firstn_nil. reflexivity.
  - destruct c as [|c]; [lia|]. destruct j as [|j]; [reflexivity|]. cbn [firstn nth]. apply IH. lia.
Qed.

Definition rot (c : nat) (l : list Z) : list Z := skipn c l ++ firstn c l.
Definition pos (L c j : nat) : nat := if (c + j <? L)%nat then (c + j)%nat else (c + j - L)%nat.

Lemma rot_length : forall c l, (c <= length l)%nat -> length (rot c l) = length l.
Proof. intros c l H. unfold rot. rewrite app_length, skipn_length, firstn_length. lia. Qed.

Lemma nth_rot : forall l c j, (c <= length l)%nat -> (j < length l)%nat ->
  nth j (rot c l) 0 = nth (pos (length l) c j) l 0.
Proof.
  intros l c j Hc Hj. unfold rot, pos.
  destruct (c + j <? length l)%nat eqn:E.
  - apply Nat.ltb_lt in E. rewrite app_nth1 by (rewrite skipn_length; lia). apply nth_skipn.
  - apply Nat.ltb_ge in E. rewrite app_nth2 by (rewrite skipn_length; lia).
    rewrite skipn_length. rewrite nth_firstn by lia. f_equal. lia.
Qed.

Lemma view_rot : forall s, view s = rot (cursor s) (ring s).
Proof. reflexivity. Qed.

Lemma advance_pos : forall L c j, (c < L)%nat -> (j < L)%nat ->
  advance L (pos L c j) = pos L c (S j).
Proof.
  intros L c j Hc Hj. unfold advance, pos.
  destruct (c + j <? L)%nat eqn:E1; destruct (c + S j <? L)%nat eqn:E2;
    [apply Nat.ltb_lt in E1|apply Nat.ltb_lt in E1|apply Nat.ltb_ge in E1|apply Nat.ltb_ge in E1];
    [apply Nat.ltb_lt in E2|apply Nat.ltb_ge in E2|apply Nat.ltb_lt in E2|apply Nat.ltb_ge in E2];
    try lia.
  - replace (S (c + j) <? L)%nat with true by (symmetry; apply Nat.ltb_lt; lia). lia.
  - replace (S (c + j) <? L)%nat with false by (symmetry; apply Nat.ltb_ge; lia). lia.
  - replace (S (c + j - L) <? L)%nat with true by (symmetry; apply Nat.ltb_lt; lia). lia.
Qed.

Lemma pos_0 : forall L c, (c < L)%nat -> pos L c 0 = c.
Proof. intros L c H. unfold pos. replace (c + 0 <? L)%nat with true by (symmetry; apply Nat.ltb_lt; lia). lia. Qed.

Lemma pos_lt : forall L c j, (c < L)%nat -> (j <= L)%nat -> (pos L c j < L)%nat.
Proof. intros L c j Hc Hj. unfold pos. destruct (c + j <? L)%nat eqn:E; [apply Nat.ltb_lt in E|apply Nat.ltb_ge in E]; lia. Qed.

Lemma pos_lt' : forall L c j, (c <= L)%nat -> (j < L)%nat -> (pos L c j < L)%nat.
Proof. intros L c j Hc Hj. unfold pos. destruct (c + j <? L)%nat eqn:E; [apply Nat.ltb_lt in E|apply Nat.ltb_ge in E]; lia. Qed.

Lemma pos_eq_start : forall L c j, (c < L)%nat -> (j <= L)%nat -> (pos L c j = c <-> j = 0%nat \/ j = L).
Proof.
  intros L c j Hc Hj. unfold pos.
  destruct (c + j <? L)%nat eqn:E; [apply Nat.ltb_lt in E|apply Nat.ltb_ge in E]; lia.
Qed.

Lemma iter_advance : forall L c d, (c < L)%nat -> (d <= L)%nat -> iter d (advance L) c = pos L c d.
Proof.
  intros L c d Hc. revert c Hc. induction d as [|d IH]; intros c Hc Hd.
  - cbn [iter]. symmetry. apply pos_0, Hc.
  - cbn [iter]. assert (H1 : advance L c = pos L c 1).
    { rewrite <- (pos_0 L c Hc) at 1. apply advance_pos; lia. }
    rewrite H1. rewrite IH by (try apply pos_lt; lia).
    unfold pos.
    destruct (c + 1 <? L)%nat eqn:E1; [apply Nat.ltb_lt in E1|apply Nat.ltb_ge in E1];
    destruct (c + S d <? L)%nat eqn:E2; [apply Nat.ltb_lt in E2|apply Nat.ltb_ge in E2| apply Nat.ltb_lt in E2|apply Nat.ltb_ge in E2]; try lia.
    + replace (c + 1 + d <? L)%nat with true by (symmetry; apply Nat.ltb_lt; lia). lia.
    + replace (c + 1 + d <? L)%nat with false by (symmetry; apply Nat.ltb_ge; lia). lia.
    + replace (c + 1 - L + d <? L)%nat with true by (symmetry; apply Nat.ltb_lt; lia). lia.
Qed.

Lemma skipn_cons_nth : forall (l : list Z) j, (j < length l)%nat -> skipn j l = nth j l 0 :: skipn (S j) l.
Proof.
  induction l as [|x l IH]; intros j H; [cbn in H; lia|].
  destruct j as [|j]; [reflexivity|]. cbn [skipn nth]. rewrite IH by (cbn in H; lia). reflexivity.
Qed.

(** the copy loop, started [j] slots after [start], copies the rest of the rotated ring *)
Lemma copy_loop_spec : forall old start k j,
  (start < length old)%nat -> (j < length old)%nat ->
  copy_loop k old start (pos (length old) start j) =
    if (length old - j <=? k)%nat then (skipn j (rot start old), true)
    else (firstn k (skipn j (rot start old)), false).
Proof.
  intros old start k. induction k as [|k IH]; intros j Hs Hj.
  - cbn [copy_loop]. replace (length old - j <=? 0)%nat with false by (symmetry; apply Nat.leb_gt; lia).
    reflexivity.
  - cbn [copy_loop]. rewrite advance_pos by assumption.
    assert (HL : length (rot start old) = length old) by (apply rot_length; lia).
    rewrite (skipn_cons_nth (rot start old) j) by lia.
    rewrite nth_rot by lia.
    destruct (pos (length old) start (S j) =? start)%nat eqn:E.
    + apply Nat.eqb_eq in E. apply pos_eq_start in E; [|lia|lia]. destruct E as [E|E]; [lia|].
      replace (length old - j <=? S k)%nat with true by (symmetry; apply Nat.leb_le; lia).
      rewrite skipn_all2 by lia. reflexivity.
    + apply Nat.eqb_neq in E.
      assert (Hj' : (S j < length old)%nat).
      { destruct (Nat.eq_dec (S j) (length old)) as [Q|Q]; [|lia].
        exfalso. apply E. apply pos_eq_start; lia. }
      rewrite IH by assumption.
      destruct (length old - S j <=? k)%nat eqn:E1; [apply Nat.leb_le in E1|apply Nat.leb_gt in E1].
      * replace (length old - j <=? S k)%nat with true by (symmetry; apply Nat.leb_le; lia). reflexivity.
      * replace (length old - j <=? S k)%nat with false by (symmetry; apply Nat.leb_gt; lia). reflexivity.
Qed.

Lemma rot_rot : forall l c d, (c < length l)%nat -> (d <= length l)%nat ->
  rot (pos (length l) c d) l = skipn d (rot c l) ++ firstn d (rot c l).
Proof.
  intros l c d Hc Hd.
  assert (HL : length (rot c l) = length l) by (apply rot_length; lia).
  change (skipn d (rot c l) ++ firstn d (rot c l)) with (rot d (rot c l)).
  assert (Hp := pos_lt (length l) c d Hc Hd).
  apply nth_ext with (d := 0) (d' := 0).
  - rewrite !rot_length; lia.
  - intros j Hj. rewrite rot_length in Hj by lia.
    rewrite nth_rot by lia. rewrite nth_rot by lia. rewrite HL.
    rewrite nth_rot by (try apply pos_lt'; lia). f_equal.
    unfold pos.
    repeat match goal with |- context [(?a <? ?b)%nat] =>
      let E := fresh "E" in destruct (a <? b)%nat eqn:E; [apply Nat.ltb_lt in E|apply Nat.ltb_ge in E] end; lia.
Qed.

(** * SetMaxEvents keeps the newest stamps (repaired code) *)

Lemma resize_view : forall n rg c, (c < length rg)%nat -> n <> length rg ->
  let (r', c') := resize_gen true n rg c in
  rot c' r' = keep_newest n (rot c rg) /\ length r' = n /\ ((c' < n)%nat \/ (n = 0%nat /\ c' = 0%nat)).
Proof.
  intros n rg c Hc Hn. unfold resize_gen.
  destruct rg as [|x0 rg0] eqn:Erg; [cbn in Hc; lia|]. rewrite <- Erg in *.
  assert (HL : length (rot c rg) = length rg) by (apply rot_length; lia).
  unfold keep_newest. rewrite HL.
  destruct (Nat.lt_ge_cases n (length rg)) as [Hlt|Hge].
  - (* shrink *)
    set (d := (length rg - n)%nat).
    rewrite iter_advance by lia.
    assert (Hp : (pos (length rg) c d < length rg)%nat) by (apply pos_lt; lia).
    pose proof (copy_loop_spec rg (pos (length rg) c d) n 0%nat Hp ltac:(lia)) as Hcl.
    rewrite (pos_0 _ _ Hp) in Hcl. rewrite Hcl. clear Hcl.
    replace (length rg - 0 <=? n)%nat with false by (symmetry; apply Nat.leb_gt; lia).
    cbn [skipn andb]. rewrite rot_rot by lia.
    assert (Hsk : length (skipn d (rot c rg)) = n) by (rewrite skipn_length; lia).
    rewrite firstn_app. rewrite Hsk. rewrite Nat.sub_diag. cbn [firstn]. rewrite app_nil_r.
    rewrite firstn_all2 by lia. rewrite Hsk. rewrite Nat.sub_diag. cbn [repeat]. rewrite app_nil_r.
    replace (n - length rg)%nat with 0%nat by lia. cbn [repeat app].
    split; [|split]; [| exact Hsk | destruct n; [right; split; reflexivity | left; lia]].
    unfold rot. cbn [skipn firstn]. rewrite app_nil_r. reflexivity.
  - (* grow *)
    replace (length rg - n)%nat with 0%nat by lia. cbn [iter].
    pose proof (copy_loop_spec rg c n 0%nat Hc ltac:(lia)) as Hcl.
    rewrite (pos_0 _ _ Hc) in Hcl. rewrite Hcl. clear Hcl.
    replace (length rg - 0 <=? n)%nat with true by (symmetry; apply Nat.leb_le; lia).
    cbn [skipn andb]. rewrite HL.
    split; [|split]; [| rewrite app_length, repeat_length, HL; lia | left; lia].
    unfold rot at 1.
    rewrite skipn_app, firstn_app. rewrite HL, Nat.sub_diag. cbn [skipn firstn].
    rewrite skipn_all2 by lia. rewrite firstn_all2 by lia. rewrite app_nil_r. cbn [app].
    reflexivity.
Qed.

Lemma set_max_events_view : forall n s, wf s ->
  let s' := set_max_events_gen true n s in
  wf s' /\
  (s' = s \/ (length (ring s') = n /\ n <> length (ring s) /\ view s' = keep_newest n (view s) /\
              window s' = window s /\ ph s' = ph s /\ now s' = now s)).
Proof.
  intros n s Hwf. unfold set_max_events_gen.
  destruct (negb (window s =? 0) && (n =? 0)%nat); [auto|].
  destruct (n =? length (ring s))%nat eqn:En; [auto|]. apply Nat.eqb_neq in En.
  destruct Hwf as [Hc|[Hr Hc]].
  - pose proof (resize_view n (ring s) (cursor s) Hc En) as H.
    destruct (resize_gen true n (ring s) (cursor s)) as [r' c']. destruct H as (Hv & Hl & Hc').
    split.
    + unfold wf. cbn [ring cursor]. destruct Hc' as [Hc'|[Hn0 Hc']]; [left; lia|right].
      split; [|exact Hc']. destruct r'; [reflexivity|cbn in Hl; lia].
    + right. cbn [ring cursor window ph now]. repeat split; assumption.
  - unfold resize_gen. rewrite Hr. cbn [length Nat.sub iter].
    split.
    + unfold wf. cbn [ring cursor]. rewrite repeat_length.
      destruct n; [right; split; reflexivity|left; lia].
    + right. cbn [ring cursor window ph now]. rewrite repeat_length.
      repeat split; try (rewrite Hr in En; exact En).
      unfold view, keep_newest. cbn [ring cursor]. rewrite Hr, Hc. cbn [skipn firstn app length].
      rewrite Nat.sub_0_r, app_nil_r. cbn [skipn]. rewrite app_nil_r. reflexivity.
Qed.

(** * Steps: clock, well-formedness *)

Lemma step_time : forall f s l s', step_gen f s l = Some s' -> now s <= time_of l /\ now s' = time_of l.
Proof.
  intros f s l s' H. unfold step_gen in H.
  destruct (time_of l <? now s) eqn:E; [discriminate|]. apply Z.ltb_ge in E. split; [exact E|].
  destruct l; destruct (ph s); cbn [time_of] in *;
    repeat match type of H with
    | context [match ring s with _ => _ end] => destruct (ring s)
    | context [if ?b then _ else _] => destruct b
    end; try discriminate; injection H as <-; try reflexivity;
    unfold record; try (destruct (ring s); reflexivity).
Qed.

Lemma set_nth_length : forall i v l, length (set_nth i v l) = length l.
Proof. intros i v l. revert i. induction l as [|x l IH]; intros [|i]; cbn; auto. Qed.

Lemma advance_lt : forall L c, (0 < L)%nat -> (advance L c < L)%nat.
Proof. intros L c H. unfold advance. destruct (S c <? L)%nat eqn:E; [apply Nat.ltb_lt in E|]; lia. Qed.

Lemma record_wf : forall t s, wf s -> wf (record t s) /\ length (ring (record t s)) = length (ring s) /\
  window (record t s) = window s /\ ph (record t s) = Computing /\ now (record t s) = t.
Proof.
  intros t s H. unfold record. destruct (ring s) as [|x r] eqn:E.
  - unfold wf, with_ph. cbn. rewrite E. destruct H as [H|H]; [rewrite E in H; cbn in H; lia|].
    repeat split; auto. right. split; [reflexivity|apply H].
  - unfold wf. cbn [ring cursor window ph now]. rewrite set_nth_length.
    repeat split; auto. left. apply advance_lt. cbn. lia.
Qed.

Lemma set_window_wf : forall w s, wf s -> wf (set_window w s).
Proof. intros w s H. unfold set_window. destruct (negb (w =? 0) && (length (ring s) =? 0)%nat); exact H. Qed.

Lemma with_ph_wf : forall s p t, wf s -> wf (with_ph s p t).
Proof. intros s p t H. exact H. Qed.

Lemma step_wf : forall s l s', wf s -> step s l = Some s' -> wf s'.
Proof.
  intros s l s' Hwf H. unfold step, step_gen in H.
  destruct (time_of l <? now s); [discriminate|].
  destruct l; destruct (ph s);
    repeat match type of H with
    | context [match ring s with _ => _ end] => destruct (ring s) eqn:?
    | context [if ?b then _ else _] => destruct b
    end; try discriminate; injection H as <-;
    try (apply with_ph_wf; first [exact Hwf | apply set_window_wf, Hwf | apply set_max_events_view, Hwf]);
    try apply record_wf, Hwf.
Qed.

Lemma run_app : forall f ls1 ls2 s, run_gen f s (ls1 ++ ls2) =
  match run_gen f s ls1 with Some s1 => run_gen f s1 ls2 | None => None end.
Proof.
  intros f ls1. induction ls1 as [|l ls1 IH]; intros ls2 s; [reflexivity|].
  cbn [run_gen app]. destruct (step_gen f s l); [apply IH|reflexivity].
Qed.

Lemma init_wf : forall n w t0, wf (init n w t0).
Proof.
  intros n w t0. unfold wf, init. cbn [ring cursor]. rewrite repeat_length.
  destruct n; [right; split; reflexivity|left; lia].
Qed.

Lemma run_wf : forall ls s s', wf s -> run s ls = Some s' -> wf s'.
Proof.
  induction ls as [|l ls IH]; intros s s' Hwf H; cbn in H.
  - injection H as <-. exact Hwf.
  - unfold run in *. cbn [run_gen] in H. destruct (step_gen true s l) as [s1|] eqn:E; [|discriminate].
    apply (IH s1); [apply (step_wf s l); assumption|exact H].
Qed.

Lemma handovers_ge_now : forall f ls s s', run_gen f s ls = Some s' ->
  Forall (fun a => now s <= a) (handovers ls).
Proof.
  intros f ls. induction ls as [|l ls IH]; intros s s' H; [constructor|].
  cbn [run_gen] in H. destruct (step_gen f s l) as [s1|] eqn:E; [|discriminate].
  apply step_time in E. destruct E as [E1 E2]. specialize (IH s1 s' H).
  assert (IH' : Forall (fun a => now s <= a) (handovers ls)).
  { eapply Forall_impl; [|exact IH]. cbn. intros a Ha. lia. }
  destruct l; cbn [handovers]; try exact IH'. constructor; [exact E1|exact IH'].
Qed.

Lemma records_ge_now : forall f ls s s', run_gen f s ls = Some s' ->
  Forall (fun a => now s <= a) (records ls).
Proof.
  intros f ls. induction ls as [|l ls IH]; intros s s' H; [constructor|].
  cbn [run_gen] in H. destruct (step_gen f s l) as [s1|] eqn:E; [|discriminate].
  apply step_time in E. destruct E as [E1 E2]. specialize (IH s1 s' H).
  assert (IH' : Forall (fun a => now s <= a) (records ls)).
  { eapply Forall_impl; [|exact IH]. cbn. intros a Ha. lia. }
  destruct l; cbn [records]; try exact IH'. constructor; [exact E1|exact IH'].
Qed.

(** * Recording a stamp shifts the view by one *)

Lemma ring_split : forall (r : list Z) c, (c < length r)%nat ->
  exists a x b, r = a ++ x :: b /\ length a = c.
Proof.
  intros r c H. exists (firstn c r).
  destruct (skipn c r) as [|x b] eqn:E.
  - assert (length (skipn c r) = 0%nat) by (rewrite E; reflexivity). rewrite skipn_length in *. lia.
  - exists x, b. split; [rewrite <- E; symmetry; apply firstn_skipn|]. rewrite firstn_length. lia.
Qed.

Lemma set_nth_app : forall a x b t, set_nth (length a) t (a ++ x :: b) = a ++ t :: b.
Proof. induction a as [|y a IH]; intros x b t; cbn; [reflexivity|]. rewrite IH. reflexivity. Qed.

Lemma rot_split : forall a x b, rot (length a) (a ++ x :: b) = (x :: b) ++ a.
Proof.
  intros a x b. unfold rot. rewrite skipn_app, firstn_app. rewrite Nat.sub_diag. cbn [skipn firstn].
  rewrite skipn_all, firstn_all. rewrite app_nil_r. reflexivity.
Qed.

Lemma view_record : forall t s, (cursor s < length (ring s))%nat ->
  view (record t s) = tl (view s) ++ [t].
Proof.
  intros t s Hc. destruct (ring_split _ _ Hc) as (a & x & b & Er & Ea).
  unfold record, view. rewrite Er. destruct (a ++ x :: b) eqn:E0; [destruct a; discriminate|]. rewrite <- E0.
  cbn [ring cursor]. rewrite <- Ea. rewrite set_nth_app.
  change (skipn (length a) (a ++ x :: b) ++ firstn (length a) (a ++ x :: b)) with (rot (length a) (a ++ x :: b)).
  rewrite rot_split. cbn [tl app].
  unfold advance. rewrite !app_length. cbn [length].
  destruct (S (length a) <? length a + S (length b))%nat eqn:E; [apply Nat.ltb_lt in E|apply Nat.ltb_ge in E].
  - replace (a ++ t :: b) with ((a ++ [t]) ++ b) by (rewrite <- app_assoc; reflexivity).
    replace (S (length a)) with (length (a ++ [t])) by (rewrite app_length; cbn; lia).
    destruct b as [|y b]; [cbn in E; lia|].
    change (skipn (length (a ++ [t])) ((a ++ [t]) ++ y :: b) ++ firstn (length (a ++ [t])) ((a ++ [t]) ++ y :: b))
      with (rot (length (a ++ [t])) ((a ++ [t]) ++ y :: b)).
    rewrite rot_split. rewrite <- app_assoc. reflexivity.
  - destruct b as [|y b]; [|cbn in E; lia]. cbn [skipn firstn app]. rewrite app_nil_r. reflexivity.
Qed.

Lemma view_hd : forall s, (cursor s < length (ring s))%nat -> nth 0 (view s) 0 = nth (cursor s) (ring s) 0.
Proof.
  intros s Hc. rewrite view_rot, nth_rot by lia. rewrite pos_0 by exact Hc. reflexivity.
Qed.

Lemma view_length : forall s, (cursor s <= length (ring s))%nat -> length (view s) = length (ring s).
Proof. intros s H. apply rot_length, H. Qed.

(** * Spacing: every admission whose offer is computed in a reconfiguration-free stretch comes
      at least one window after the stamp it overwrites *)

Definition first_ge (A : list Z) (u : Z) : Prop := match A with [] => True | a :: _ => u <= a end.

Definition spaced (s : state) (ls : list label) : Prop :=
  forall j, (inflight s <= j < length (handovers ls))%nat ->
    nth j (mem s ++ records ls) 0 + window s <= nth j (handovers ls) 0.

Definition first_ok (s : state) (ls : list label) : Prop :=
  match ph s with Sleeping u => first_ge (handovers ls) u | _ => True end.

Lemma dead_no_handover : forall f ls s s', ph s = Dead \/ ph s = Stopped ->
  run_gen f s ls = Some s' -> handovers ls = [].
Proof.
  intros f ls. induction ls as [|l ls IH]; intros s s' Hp H; [reflexivity|].
  cbn [run_gen] in H. destruct (step_gen f s l) as [s1|] eqn:E; [|discriminate].
  unfold step_gen in E. destruct (time_of l <? now s); [discriminate|].
  assert (Hp1 : ph s1 = Dead \/ ph s1 = Stopped /\ handovers (l :: ls) = handovers ls).
  { destruct Hp as [Hp|Hp]; rewrite Hp in E; destruct l; try discriminate; injection E as <-; cbn [handovers];
      unfold set_max_events_gen, set_window;
      repeat match goal with |- context [if ?b then _ else _] => destruct b end;
      try destruct (resize_gen f n (ring s) (cursor s)); cbn [with_ph ph]; rewrite ?Hp; auto. }
  destruct Hp1 as [Hp1|[Hp1 Hh]].
  - destruct l; cbn [handovers]; try (apply (IH s1 s'); auto).
    destruct Hp as [Hp|Hp]; rewrite Hp in E; discriminate.
  - rewrite Hh. apply (IH s1 s'); auto.
Qed.

Lemma spacing_gen : forall f ls s s',
  (cursor s < length (ring s))%nat -> stable ls = true -> run_gen f s ls = Some s' ->
  spaced s ls /\ first_ok s ls.
Proof.
  intros f ls. induction ls as [|l ls IH]; intros s s' Hc Hst Hrun.
  - split; [intros j Hj; cbn in Hj; lia|]. unfold first_ok. destruct (ph s); exact I.
  - cbn [stable forallb] in Hst. apply andb_true_iff in Hst. destruct Hst as [Hl Hst].
    cbn [run_gen] in Hrun. destruct (step_gen f s l) as [s1|] eqn:E; [|discriminate].
    pose proof (step_time f s l s1 E) as [Ht1 Ht2].
    pose proof (handovers_ge_now f ls s1 s' Hrun) as Hge.
    unfold step_gen in E. destruct (time_of l <? now s); [discriminate|].
    destruct l; try discriminate Hl; cbn [time_of] in *.
    + (* Compute *)
      destruct (ph s) eqn:P; try discriminate.
      destruct (ring s) as [|x0 r0] eqn:Er; [cbn in Hc; lia|]. rewrite <- Er in *.
      injection E as <-.
      destruct (IH (with_ph s (Sleeping (nth (cursor s) (ring s) 0 + window s)) t) s') as [IH1 IH2]; auto.
      split; [|unfold first_ok; rewrite P; exact I].
      intros j Hj. cbn [handovers records] in *. unfold mem. rewrite P.
      destruct j as [|j].
      * unfold first_ok in IH2. cbn [with_ph ph] in IH2.
        destruct (handovers ls) as [|a A]; [cbn in Hj; lia|]. cbn [first_ge nth] in *.
        rewrite app_nth1 by (rewrite view_length; lia). rewrite view_hd by exact Hc. exact IH2.
      * specialize (IH1 (S j)). unfold mem in IH1. cbn [with_ph ph inflight window] in IH1.
        apply IH1. lia.
    + (* TimerFire *)
      destruct (ph s) eqn:P; try discriminate.
      destruct (until <=? t) eqn:Eu; [|discriminate]. apply Z.leb_le in Eu. injection E as <-.
      destruct (IH (with_ph s Offering t) s') as [IH1 IH2]; auto.
      split.
      * intros j Hj. cbn [handovers records] in *. unfold inflight in Hj. rewrite P in Hj.
        unfold mem. rewrite P. specialize (IH1 j). unfold mem in IH1. cbn [with_ph ph inflight window] in IH1.
        apply IH1. exact Hj.
      * unfold first_ok. rewrite P. cbn [handovers]. destruct (handovers ls) as [|a A]; [exact I|].
        cbn [first_ge]. inversion Hge as [|? ? Ha _]. cbn [with_ph now] in Ha. lia.
    + (* Handover *)
      destruct (ph s) eqn:P; try discriminate. injection E as <-.
      destruct (IH (with_ph s (Recording t) t) s') as [IH1 IH2]; auto.
      split; [|unfold first_ok; rewrite P; exact I].
      intros j Hj. cbn [handovers records length] in *. unfold inflight in Hj. rewrite P in Hj.
      destruct j as [|j]; [lia|]. cbn [nth]. unfold mem. rewrite P.
      specialize (IH1 j). unfold mem in IH1. cbn [with_ph ph inflight window] in IH1.
      change (view (with_ph s (Recording t) t)) with (view s) in IH1.
      destruct (view s) as [|v0 V] eqn:EV.
      { assert (length (view s) = length (ring s)) by (apply view_length; lia). rewrite EV in *. cbn in *; lia. }
      cbn [tl app nth] in *. apply IH1. lia.
    + (* Rec *)
      destruct (ph s) eqn:P; try discriminate. injection E as <-.
      pose proof (view_record t s Hc) as Hv.
      pose proof (record_wf t s (or_introl Hc)) as (Hw1 & Hw2 & Hw3 & Hw4 & Hw5).
      assert (Hc1 : (cursor (record t s) < length (ring (record t s)))%nat).
      { destruct Hw1 as [Hw1|[Hw1 _]]; [exact Hw1|]. rewrite Hw1 in Hw2. cbn in Hw2. lia. }
      destruct (IH (record t s) s') as [IH1 IH2]; auto.
      split; [|unfold first_ok; rewrite P; exact I].
      intros j Hj. cbn [handovers records] in *. unfold mem. rewrite P.
      specialize (IH1 j). unfold mem, inflight in IH1. rewrite Hw4, Hv, Hw3 in IH1.
      rewrite <- app_assoc in IH1. cbn [app] in IH1. apply IH1. lia.
    + (* WaiterCancel *)
      injection E as <-.
      destruct (IH (with_ph s (ph s) t) s') as [IH1 IH2]; [exact Hc|exact Hst|exact Hrun|].
      split; [|exact IH2]. intros j Hj. apply (IH1 j). exact Hj.
    + (* AllowFail *)
      assert (E' : Some (with_ph s (ph s) t) = Some s1) by (destruct (ph s); try discriminate; exact E).
      injection E' as <-.
      destruct (IH (with_ph s (ph s) t) s') as [IH1 IH2]; [exact Hc|exact Hst|exact Hrun|].
      split; [|exact IH2]. intros j Hj. apply (IH1 j). exact Hj.
    + (* Stop *)
      assert (E' : Some (with_ph s Stopped t) = Some s1) by (destruct (ph s); try discriminate; exact E).
      injection E' as <-.
      assert (Hn : handovers ls = []) by (apply (dead_no_handover f ls (with_ph s Stopped t) s'); auto).
      split.
      * intros j Hj. cbn [handovers] in Hj. rewrite Hn in Hj. cbn in Hj. lia.
      * unfold first_ok. cbn [handovers]. rewrite Hn. destruct (ph s); exact I.
Qed.

(** * Admissions are ordered in time, and each is followed by its stamp *)

Lemma handovers_sorted : forall f ls s s', run_gen f s ls = Some s' -> StronglySorted Z.le (handovers ls).
Proof.
  intros f ls. induction ls as [|l ls IH]; intros s s' H; [constructor|].
  cbn [run_gen] in H. destruct (step_gen f s l) as [s1|] eqn:E; [|discriminate].
  pose proof (handovers_ge_now f ls s1 s' H) as Hge. apply step_time in E. destruct E as [_ E].
  specialize (IH s1 s' H). destruct l; cbn [handovers time_of] in *; try exact IH.
  constructor; [exact IH|]. rewrite E in Hge. exact Hge.
Qed.

Lemma sorted_nth : forall (A : list Z), StronglySorted Z.le A ->
  forall i j, (i <= j < length A)%nat -> nth i A 0 <= nth j A 0.
Proof.
  intros A H. induction H as [|a A HS IH HF]; intros i j Hij; [cbn in Hij; lia|].
  destruct j as [|j]; [assert (i = 0%nat) by lia; subst; lia|].
  destruct i as [|i].
  - cbn [nth]. rewrite Forall_forall in HF. apply HF. apply nth_In. cbn in Hij. lia.
  - cbn [nth]. apply IH. cbn in Hij. lia.
Qed.

Definition pairs_ok (A T : list Z) : Prop :=
  forall i, (i < length T)%nat -> (i < length A)%nat /\ nth i A 0 <= nth i T 0.

Definition rec_ok (s : state) : Prop := match ph s with Recording th => th <= now s | _ => True end.

Lemma set_max_events_ph : forall f n s, ph (set_max_events_gen f n s) = ph s /\ now (set_max_events_gen f n s) = now s.
Proof.
  intros f n s. unfold set_max_events_gen.
  repeat match goal with |- context [if ?b then _ else _] => destruct b end; try (split; reflexivity).
  destruct (resize_gen f n (ring s) (cursor s)); split; reflexivity.
Qed.

Lemma set_window_ph : forall w s, ph (set_window w s) = ph s.
Proof. intros w s. unfold set_window. destruct (negb (w =? 0) && (length (ring s) =? 0)%nat); reflexivity. Qed.

Lemma record_ph : forall t s, ph (record t s) = Computing.
Proof. intros t s. unfold record. destruct (ring s); reflexivity. Qed.

Lemma rec_ok_step : forall f s l s', rec_ok s -> step_gen f s l = Some s' -> rec_ok s'.
Proof.
  intros f s l s' Hr E. pose proof (step_time f s l s' E) as [Ht1 Ht2].
  unfold step_gen in E. destruct (time_of l <? now s); [discriminate|]. unfold rec_ok in *.
  destruct l; cbn [time_of] in *.
  - destruct (ph s); try discriminate. destruct (ring s); [destruct (window s =? 0)|]; injection E as <-; exact I.
  - destruct (ph s); try discriminate. destruct (until <=? t); [|discriminate]. injection E as <-; exact I.
  - destruct (ph s); try discriminate. injection E as <-. cbn [with_ph ph now]. lia.
  - destruct (ph s); try discriminate. injection E as <-. rewrite record_ph. exact I.
  - injection E as <-. cbn [with_ph ph now]. rewrite (proj1 (set_max_events_ph f n s)).
    destruct (ph s); try exact I. lia.
  - injection E as <-. cbn [with_ph ph now]. rewrite set_window_ph. destruct (ph s); try exact I. lia.
  - injection E as <-. cbn [with_ph ph now]. destruct (ph s); try exact I. lia.
  - destruct (ph s); try discriminate; injection E as <-; cbn [with_ph ph now]; try exact I. lia.
  - destruct (ph s); try discriminate; injection E as <-; exact I.
Qed.

Lemma handovers_records : forall f ls s s', rec_ok s -> run_gen f s ls = Some s' ->
  match ph s with
  | Recording th => pairs_ok (th :: handovers ls) (records ls) /\ (length (handovers ls) <= length (records ls))%nat
  | _ => pairs_ok (handovers ls) (records ls) /\ (length (handovers ls) <= S (length (records ls)))%nat
  end.
Proof.
  intros f ls. induction ls as [|l ls IH]; intros s s' Hr H.
  - cbn [handovers records length]. destruct (ph s); (split; [intros i Hi; cbn in Hi; lia|lia]).
  - cbn [run_gen] in H. destruct (step_gen f s l) as [s1|] eqn:E; [|discriminate].
    pose proof (rec_ok_step f s l s1 Hr E) as Hr1.
    specialize (IH s1 s' Hr1 H).
    pose proof (step_time f s l s1 E) as [Ht1 Ht2].
    unfold step_gen in E. destruct (time_of l <? now s); [discriminate|].
    assert (Hsame : forall p, ph s = p -> ph s1 = p -> handovers (l :: ls) = handovers ls ->
                    records (l :: ls) = records ls ->
      match p with
      | Recording th => pairs_ok (th :: handovers (l :: ls)) (records (l :: ls)) /\ (length (handovers (l :: ls)) <= length (records (l :: ls)))%nat
      | _ => pairs_ok (handovers (l :: ls)) (records (l :: ls)) /\ (length (handovers (l :: ls)) <= S (length (records (l :: ls))))%nat
      end).
    { intros p P P1 -> ->. rewrite P1 in IH. exact IH. }
    destruct l; cbn [time_of] in *.
    + (* Compute *) destruct (ph s) eqn:P; try discriminate.
      assert (P1 : exists q, ph s1 = q /\ match q with Recording _ => False | _ => True end).
      { destruct (ring s); [destruct (window s =? 0)|]; injection E as <-; cbn [with_ph ph]; eexists; split; try reflexivity; exact I. }
      destruct P1 as (q & P1 & Hq). rewrite P1 in IH. cbn [handovers records]. destruct q; try contradiction; exact IH.
    + (* TimerFire *) destruct (ph s) eqn:P; try discriminate. destruct (until <=? t); [|discriminate].
      injection E as <-. cbn [with_ph ph handovers records] in *. exact IH.
    + (* Handover *) destruct (ph s) eqn:P; try discriminate. injection E as <-.
      cbn [with_ph ph handovers records length] in *. destruct IH as [IH1 IH2]. split; [exact IH1|lia].
    + (* Rec *) destruct (ph s) eqn:P; try discriminate. injection E as <-.
      pose proof (record_wf t s) as Hw. assert (P1 : ph (record t s) = Computing).
      { unfold record. destruct (ring s); reflexivity. }
      rewrite P1 in IH. cbn [handovers records length]. destruct IH as [IH1 IH2]. split; [|lia].
      intros i Hi. destruct i as [|i].
      * cbn [nth length]. split; [lia|]. unfold rec_ok in Hr. rewrite P in Hr. lia.
      * cbn [nth length]. cbn [length] in Hi. destruct (IH1 i ltac:(lia)) as [I1 I2]. split; [lia|exact I2].
    + (* SetMaxEvents *) injection E as <-.
      assert (P1 : ph (with_ph (set_max_events_gen f n s) (ph (set_max_events_gen f n s)) t) = ph s).
      { cbn [with_ph ph]. unfold set_max_events_gen.
        repeat match goal with |- context [if ?b then _ else _] => destruct b end; try reflexivity.
        destruct (resize_gen f n (ring s) (cursor s)); reflexivity. }
      apply (Hsame (ph s)); auto.
    + (* SetWindow *) injection E as <-.
      assert (P1 : ph (with_ph (set_window w s) (ph (set_window w s)) t) = ph s).
      { cbn [with_ph ph]. unfold set_window. destruct (negb (w =? 0) && (length (ring s) =? 0)%nat); reflexivity. }
      apply (Hsame (ph s)); auto.
    + (* WaiterCancel *) injection E as <-. apply (Hsame (ph s)); auto.
    + (* AllowFail *)
      assert (E' : Some (with_ph s (ph s) t) = Some s1) by (destruct (ph s); try discriminate; exact E).
      injection E' as <-. apply (Hsame (ph s)); auto.
    + (* Stop *)
      assert (E' : Some (with_ph s Stopped t) = Some s1) by (destruct (ph s); try discriminate; exact E).
      injection E' as <-. cbn [with_ph ph handovers records] in *.
      destruct (ph s) eqn:P; try exact IH. discriminate.
Qed.

(** * The theorems *)

(** fixed configuration, all traces: any n+1 admissions span at least one window *)
Theorem at_most_n_per_window : forall (n : nat) (w t0 : Z) ls s',
  (0 < n)%nat -> stable ls = true -> run (init n w t0) ls = Some s' ->
  forall i j, (i + n <= j < length (handovers ls))%nat ->
    nth i (handovers ls) 0 + w <= nth j (handovers ls) 0.
Proof.
  intros n w t0 ls s' Hn Hst Hrun i j Hij.
  assert (Hc : (cursor (init n w t0) < length (ring (init n w t0)))%nat).
  { cbn [init cursor ring]. rewrite repeat_length. exact Hn. }
  destruct (spacing_gen true ls _ s' Hc Hst Hrun) as [Hsp _].
  pose proof (handovers_records true ls (init n w t0) s' I Hrun) as [Hp Hlen]. cbn [init ph] in Hp, Hlen.
  pose proof (handovers_sorted true ls _ s' Hrun) as Hso.
  specialize (Hsp (i + n)%nat). cbn [inflight init ph window mem] in Hsp.
  assert (Hv : view (init n w t0) = repeat 0 n).
  { unfold view, init. cbn [ring cursor skipn firstn]. apply app_nil_r. }
  unfold mem in Hsp. cbn [init ph] in Hsp. fold (init n w t0) in Hsp. rewrite Hv in Hsp.
  rewrite app_nth2 in Hsp by (rewrite repeat_length; lia). rewrite repeat_length in Hsp.
  replace (i + n - n)%nat with i in Hsp by lia.
  destruct (Hp i ltac:(lia)) as [_ Hp2].
  pose proof (sorted_nth _ Hso (i + n)%nat j ltac:(lia)).
  specialize (Hsp ltac:(lia)). lia.
Qed.

(** any reachable state, then a reconfiguration-free stretch: every admission whose offer is
    computed in the stretch keeps one window's distance from the stamp it replaces *)
Theorem spacing_after_last_change : forall n0 w0 t0 ls1 s ls2 s',
  run (init n0 w0 t0) ls1 = Some s -> (0 < length (ring s))%nat ->
  stable ls2 = true -> run s ls2 = Some s' ->
  forall j, (inflight s <= j < length (handovers ls2))%nat ->
    nth j (mem s ++ records ls2) 0 + window s <= nth j (handovers ls2) 0.
Proof.
  intros n0 w0 t0 ls1 s ls2 s' H1 Hn Hst H2.
  pose proof (run_wf ls1 _ s (init_wf n0 w0 t0) H1) as Hwf.
  assert (Hc : (cursor s < length (ring s))%nat).
  { destruct Hwf as [Hc|[Hr _]]; [exact Hc|]. rewrite Hr in Hn. cbn in Hn. lia. }
  exact (proj1 (spacing_gen true ls2 s s' Hc Hst H2)).
Qed.

(** a cancelled waiter changes nothing but the clock *)
Theorem cancel_consumes_nothing : forall s t s', step s (WaiterCancel t) = Some s' ->
  ring s' = ring s /\ cursor s' = cursor s /\ window s' = window s /\ ph s' = ph s.
Proof.
  intros s t s' H. unfold step, step_gen in H. destruct (time_of (WaiterCancel t) <? now s); [discriminate|].
  injection H as <-. repeat split.
Qed.

(** it is enabled in every state, at every instant that is not in the past *)
Theorem cancel_always_enabled : forall s t, now s <= t -> exists s', step s (WaiterCancel t) = Some s'.
Proof.
  intros s t H. unfold step, step_gen. cbn [time_of]. replace (t <? now s) with false by (symmetry; apply Z.ltb_ge; lia).
  eexists; reflexivity.
Qed.

(** * A zero window disables limiting *)

Definition stamps_le (s : state) : Prop := 0 <= now s /\ Forall (fun x => x <= now s) (ring s).

Lemma Forall_set_nth : forall (P : Z -> Prop) i v l, Forall P l -> P v -> Forall P (set_nth i v l).
Proof.
  intros P i v l H Hv. revert i. induction H as [|x l Hx Hl IH]; intros [|i]; cbn [set_nth]; auto.
Qed.

Lemma Forall_nth0 : forall (P : Z -> Prop) l c, Forall P l -> P 0 -> P (nth c l 0).
Proof.
  intros P l c H H0. destruct (Nat.lt_ge_cases c (length l)) as [Hc|Hc].
  - rewrite Forall_forall in H. apply H, nth_In, Hc.
  - rewrite nth_overflow by exact Hc. exact H0.
Qed.

Lemma copy_loop_Forall : forall (P : Z -> Prop) k old start c, Forall P old -> P 0 ->
  Forall P (fst (copy_loop k old start c)).
Proof.
  intros P k. induction k as [|k IH]; intros old start c H H0; cbn [copy_loop]; [constructor|].
  destruct (advance (length old) c =? start)%nat.
  - cbn [fst]. constructor; [apply Forall_nth0; assumption|constructor].
  - specialize (IH old start (advance (length old) c) H H0).
    destruct (copy_loop k old start (advance (length old) c)) as [vs b]. cbn [fst] in *.
    constructor; [apply Forall_nth0; assumption|exact IH].
Qed.

Lemma Forall_repeat : forall (P : Z -> Prop) x n, P x -> Forall P (repeat x n).
Proof. intros P x n H. induction n; cbn; constructor; auto. Qed.

Lemma resize_Forall : forall (P : Z -> Prop) f n rg c, Forall P rg -> P 0 ->
  Forall P (fst (resize_gen f n rg c)).
Proof.
  intros P f n rg c H H0. unfold resize_gen. destruct rg as [|x r] eqn:E.
  - cbn [fst]. apply Forall_repeat, H0.
  - rewrite <- E in *.
    pose proof (copy_loop_Forall P n rg (iter (length rg - n) (advance (length rg)) c)
                  (iter (length rg - n) (advance (length rg)) c) H H0) as Hc.
    destruct (copy_loop n rg _ _) as [vs b]. cbn [fst] in *.
    apply Forall_app. split; [exact Hc|apply Forall_repeat, H0].
Qed.

Lemma stamps_le_step : forall f s l s', stamps_le s -> step_gen f s l = Some s' -> stamps_le s'.
Proof.
  intros f s l s' [H0 HF] E. pose proof (step_time f s l s' E) as [Ht1 Ht2].
  assert (HF' : forall r, Forall (fun x => x <= now s) r -> Forall (fun x => x <= now s') r).
  { intros r Hr. eapply Forall_impl; [|exact Hr]. cbn. intros; lia. }
  unfold step_gen in E. destruct (time_of l <? now s); [discriminate|]. unfold stamps_le.
  split; [lia|].
  destruct l; cbn [time_of] in *.
  - destruct (ph s); try discriminate. destruct (ring s) eqn:Er; [destruct (window s =? 0)|]; injection E as <-;
      cbn [with_ph ring now] in *; rewrite Er; apply HF'; exact HF.
  - destruct (ph s); try discriminate. destruct (until <=? t); [|discriminate]. injection E as <-. apply HF', HF.
  - destruct (ph s); try discriminate. injection E as <-. apply HF', HF.
  - destruct (ph s); try discriminate. injection E as <-. unfold record in *.
    destruct (ring s) eqn:Er; cbn [with_ph ring now] in *; [rewrite Er; constructor|].
    apply Forall_set_nth; [apply HF', HF|lia].
  - injection E as <-. cbn [with_ph ring now] in *. unfold set_max_events_gen.
    repeat match goal with |- context [if ?b then _ else _] => destruct b end; try (apply HF', HF).
    pose proof (resize_Forall (fun x => x <= t) f n (ring s) (cursor s)) as Hr.
    destruct (resize_gen f n (ring s) (cursor s)) as [r' c']. cbn [fst ring] in *. apply Hr; [apply HF', HF|lia].
  - injection E as <-. cbn [with_ph ring now] in *. unfold set_window.
    destruct (negb (w =? 0) && (length (ring s) =? 0)%nat); apply HF', HF.
  - injection E as <-. apply HF', HF.
  - destruct (ph s); try discriminate; injection E as <-; apply HF', HF.
  - destruct (ph s); try discriminate; injection E as <-; apply HF', HF.
Qed.

Lemma stamps_le_run : forall f ls s s', stamps_le s -> run_gen f s ls = Some s' -> stamps_le s'.
Proof.
  intros f ls. induction ls as [|l ls IH]; intros s s' H E; cbn [run_gen] in E.
  - injection E as <-. exact H.
  - destruct (step_gen f s l) as [s1|] eqn:E1; [|discriminate]. apply (IH s1); [|exact E].
    apply (stamps_le_step f s l); assumption.
Qed.

Lemma init_stamps_le : forall n w t0, 0 <= t0 -> stamps_le (init n w t0).
Proof.
  intros n w t0 H. split; [exact H|]. cbn [init ring now]. apply Forall_repeat. exact H.
Qed.

(** one admission at instant [t], starting from the top of the loop *)
Definition admit_at (s : state) (t : Z) : list label :=
  match ring s with
  | [] => [Compute t; Handover t; Rec t]
  | _ => [Compute t; TimerFire t; Handover t; Rec t]
  end.

Lemma admit_at_zero_window : forall s t, window s = 0 -> ph s = Computing -> stamps_le s -> now s <= t ->
  exists s', run s (admit_at s t) = Some s' /\ window s' = 0 /\ ph s' = Computing /\ now s' = t /\
             length (ring s') = length (ring s) /\ handovers (admit_at s t) = [t].
Proof.
  intros s t Hw Hp [H0 HF] Ht. unfold admit_at, run.
  assert (Hlt : (t <? now s) = false) by (apply Z.ltb_ge; lia).
  assert (Htt : (t <? t) = false) by (apply Z.ltb_ge; lia).
  destruct (ring s) as [|x r] eqn:Er.
  - cbn [run_gen]. unfold step_gen at 1. cbn [time_of]. rewrite Hlt, Hp, Er, Hw. cbn [Z.eqb].
    unfold step_gen at 1. cbn [time_of with_ph now ph]. rewrite Htt.
    unfold step_gen at 1. cbn [time_of with_ph now ph]. rewrite Htt.
    eexists. split; [reflexivity|]. unfold record. cbn [with_ph ring]. rewrite Er.
    cbn [with_ph window ph now ring handovers]. rewrite Er. repeat split; auto.
  - cbn [run_gen]. unfold step_gen at 1. cbn [time_of]. rewrite Hlt, Hp, Er. rewrite <- Er.
    unfold step_gen at 1. cbn [time_of with_ph now ph]. rewrite Htt.
    assert (Hu : (nth (cursor s) (ring s) 0 + window s <=? t) = true).
    { rewrite <- Er in HF. apply Z.leb_le. rewrite Hw. assert (nth (cursor s) (ring s) 0 <= now s); [|lia].
      apply (Forall_nth0 (fun x => x <= now s)); [exact HF|exact H0]. }
    rewrite Hu.
    unfold step_gen at 1. cbn [time_of with_ph now ph]. rewrite Htt.
    unfold step_gen at 1. cbn [time_of with_ph now ph]. rewrite Htt.
    eexists. split; [reflexivity|]. unfold record. cbn [with_ph ring]. rewrite Er.
    cbn [with_ph window ph now ring handovers cursor]. rewrite set_nth_length. repeat split; auto.
Qed.

(** with a zero window any number of admissions can happen at one and the same instant *)
Theorem zero_window_unlimited : forall k s t, window s = 0 -> ph s = Computing -> stamps_le s -> now s <= t ->
  exists ls s', run s ls = Some s' /\ handovers ls = repeat t k /\ stable ls = true.
Proof.
  induction k as [|k IH]; intros s t Hw Hp Hs Ht.
  - exists [], s. repeat split.
  - destruct (admit_at_zero_window s t Hw Hp Hs Ht) as (s1 & H1 & Hw1 & Hp1 & Hn1 & _ & Hh).
    assert (Hs1 : stamps_le s1) by (apply (stamps_le_run true (admit_at s t) s); assumption).
    destruct (IH s1 t Hw1 Hp1 Hs1 ltac:(lia)) as (ls & s' & H2 & Hh2 & Hst).
    exists (admit_at s t ++ ls), s'. split; [|split].
    + unfold run in *. rewrite run_app, H1. exact H2.
    + assert (Happ : forall a b, handovers (a ++ b) = handovers a ++ handovers b).
      { induction a as [|x a IHa]; intros b; [reflexivity|]. destruct x; cbn [app handovers]; rewrite ?IHa; reflexivity. }
      rewrite Happ, Hh, Hh2. reflexivity.
    + unfold stable in *. rewrite forallb_app, Hst. unfold admit_at. destruct (ring s); reflexivity.
Qed.

(** * The ring remembers the newest stamps, whatever the reconfiguration history *)

Definition newest (k : nat) (T : list Z) : list Z := skipn (length T - k) T.

Definition remembers (s : state) (T : list Z) : Prop :=
  exists k, (k <= length T)%nat /\ (k <= length (ring s))%nat /\
            view s = repeat 0 (length (ring s) - k) ++ newest k T.

Lemma tl_skipn : forall (l : list Z) n, tl (skipn n l) = skipn (S n) l.
Proof.
  induction l as [|x l IH]; intros n; [destruct n; reflexivity|].
  destruct n as [|n]; [reflexivity|]. cbn [skipn]. rewrite IH. reflexivity.
Qed.

Lemma skipn_repeat : forall (x : Z) a b, skipn a (repeat x b) = repeat x (b - a).
Proof.
  intros x a. induction a as [|a IH]; intros b; [rewrite Nat.sub_0_r; reflexivity|].
  destruct b as [|b]; [reflexivity|]. cbn [repeat skipn Nat.sub]. apply IH.
Qed.

Lemma skipn_skipn' : forall (l : list Z) a b, skipn a (skipn b l) = skipn (b + a) l.
Proof.
  induction l as [|x l IH]; intros a b; [rewrite !skipn_nil; reflexivity|].
  destruct b as [|b]; [reflexivity|]. cbn [skipn Nat.add]. apply IH.
Qed.

Lemma newest_snoc : forall k T t, (k <= length T)%nat -> newest (S k) (T ++ [t]) = newest k T ++ [t].
Proof.
  intros k T t Hk. unfold newest. rewrite app_length. cbn [length].
  replace (length T + 1 - S k)%nat with (length T - k)%nat by lia.
  rewrite skipn_app. replace (length T - k - length T)%nat with 0%nat by lia. reflexivity.
Qed.

Lemma records_app : forall a b, records (a ++ b) = records a ++ records b.
Proof. induction a as [|x a IH]; intros b; [reflexivity|]. destruct x; cbn [app records]; rewrite ?IH; reflexivity. Qed.
Lemma handovers_app : forall a b, handovers (a ++ b) = handovers a ++ handovers b.
Proof. induction a as [|x a IH]; intros b; [reflexivity|]. destruct x; cbn [app handovers]; rewrite ?IH; reflexivity. Qed.

Lemma remembers_step : forall s l s' T, wf s -> step s l = Some s' -> remembers s T ->
  remembers s' (T ++ records [l]).
Proof.
  intros s l s' T Hwf H (k & Hk1 & Hk2 & Hv).
  assert (Hsame : forall s1, ring s1 = ring s -> cursor s1 = cursor s -> records [l] = [] ->
                              remembers s1 (T ++ records [l])).
  { intros s1 Hr Hc Hrec. rewrite Hrec, app_nil_r. exists k. unfold view in *. rewrite Hr, Hc. auto. }
  unfold step, step_gen in H. destruct (time_of l <? now s); [discriminate|].
  destruct l; cbn [time_of] in *.
  - destruct (ph s); try discriminate. destruct (ring s) eqn:Er; [destruct (window s =? 0)|];
      injection H as <-; apply Hsame; cbn [with_ph ring cursor]; auto.
  - destruct (ph s); try discriminate. destruct (until <=? t); [|discriminate]. injection H as <-. apply Hsame; auto.
  - destruct (ph s); try discriminate. injection H as <-. apply Hsame; auto.
  - (* Rec *)
    destruct (ph s); try discriminate. injection H as <-. cbn [records].
    destruct Hwf as [Hc|[Hr Hc]].
    + pose proof (view_record t s Hc) as Hvr.
      pose proof (record_wf t s (or_introl Hc)) as (_ & Hlen & _).
      destruct (Nat.eq_dec k (length (ring s))) as [E|E].
      * (* full ring: the oldest stamp is replaced *)
        exists k. rewrite app_length. cbn [length]. rewrite Hlen. split; [lia|]. split; [lia|].
        rewrite Hvr, Hv. rewrite E, Nat.sub_diag. cbn [repeat app].
        unfold newest. rewrite tl_skipn. rewrite app_length. cbn [length].
        rewrite skipn_app. replace (length T + 1 - length (ring s) - length T)%nat with 0%nat by lia.
        rewrite skipn_O. f_equal. f_equal. lia.
      * (* an empty slot is filled *)
        exists (S k). rewrite app_length. cbn [length]. rewrite Hlen. split; [lia|]. split; [lia|].
        rewrite Hvr, Hv. rewrite newest_snoc by lia.
        destruct (length (ring s) - k)%nat as [|z] eqn:Ez; [lia|].
        replace (length (ring s) - S k)%nat with z by lia. cbn [repeat app tl]. rewrite app_assoc. reflexivity.
    + unfold record. rewrite Hr. exists 0%nat. cbn [with_ph ring]. rewrite Hr. cbn [length].
      split; [lia|]. split; [lia|]. unfold view, newest. cbn [with_ph ring cursor]. rewrite Hr.
      rewrite skipn_nil, firstn_nil, !Nat.sub_0_r, skipn_all. reflexivity.
  - (* SetMaxEvents *)
    injection H as <-. cbn [records]. rewrite app_nil_r.
    destruct (set_max_events_view n s Hwf) as [_ [Heq|(Hl & Hne & Hview & _)]].
    + exists k. unfold view in *. cbn [with_ph ring cursor]. rewrite Heq. auto.
    + assert (Hv' : view (with_ph (set_max_events_gen true n s) (ph (set_max_events_gen true n s)) t) =
                    keep_newest n (view s)) by exact Hview.
      assert (Hl' : length (ring (with_ph (set_max_events_gen true n s) (ph (set_max_events_gen true n s)) t)) = n) by exact Hl.
      unfold remembers. rewrite Hv', Hl'. unfold keep_newest.
      assert (HL : length (view s) = length (ring s)).
      { apply view_length. destruct Hwf as [Hc|[Hr Hc]]; [lia|rewrite Hc; lia]. }
      rewrite HL, Hv.
      destruct (Nat.le_gt_cases k n) as [Hkn|Hkn].
      * exists k. split; [exact Hk1|]. split; [exact Hkn|].
        rewrite skipn_app, skipn_repeat, repeat_length.
        replace (length (ring s) - n - (length (ring s) - k))%nat with 0%nat by lia. rewrite skipn_O.
        rewrite app_assoc, <- repeat_app. f_equal. f_equal. lia.
      * exists n. split; [lia|]. split; [lia|].
        rewrite skipn_app, skipn_repeat, repeat_length.
        replace (length (ring s) - k - (length (ring s) - n))%nat with 0%nat by lia.
        replace (n - length (ring s))%nat with 0%nat by lia. rewrite Nat.sub_diag. cbn [repeat app].
        unfold newest. rewrite skipn_skipn'. f_equal. lia.
  - injection H as <-. apply Hsame; cbn [with_ph ring cursor]; auto;
      unfold set_window; destruct (negb (w =? 0) && (length (ring s) =? 0)%nat); reflexivity.
  - injection H as <-. apply Hsame; auto.
  - destruct (ph s); try discriminate; injection H as <-; apply Hsame; auto.
  - destruct (ph s); try discriminate; injection H as <-; apply Hsame; auto.
Qed.

Lemma remembers_run : forall ls s s' T, wf s -> remembers s T -> run s ls = Some s' ->
  remembers s' (T ++ records ls).
Proof.
  induction ls as [|l ls IH]; intros s s' T Hwf Hr H.
  - cbn in H. injection H as <-. cbn [records]. rewrite app_nil_r. exact Hr.
  - unfold run in *. cbn [run_gen] in H. destruct (step_gen true s l) as [s1|] eqn:E; [|discriminate].
    change (l :: ls) with ([l] ++ ls). rewrite records_app, app_assoc.
    apply (IH s1); [apply (step_wf s l); assumption|apply (remembers_step s l); assumption|exact H].
Qed.

(** Whatever has happened — admissions, cancellations, SetMaxEvents and SetWindow in any
    phase of the loop — the ring, read from the cursor, is some empty slots followed by the
    newest stamps stored so far, in the order they were stored. *)
Theorem ring_remembers_newest : forall n0 w0 t0 ls s, run (init n0 w0 t0) ls = Some s ->
  exists k, (k <= length (records ls))%nat /\ (k <= length (ring s))%nat /\
            view s = repeat 0 (length (ring s) - k) ++ newest k (records ls).
Proof.
  intros n0 w0 t0 ls s H.
  apply (remembers_run ls (init n0 w0 t0) s [] (init_wf n0 w0 t0)); [|exact H].
  exists 0%nat. cbn [length]. split; [lia|]. split; [lia|].
  unfold view, init, newest. cbn [ring cursor skipn firstn length]. rewrite Nat.sub_0_r, !app_nil_r, repeat_length. reflexivity.
Qed.

(** SetMaxEvents with the current limit is the no-op the code says it is *)
Lemma noop_set_max_events : forall s t, step s (SetMaxEvents t (length (ring s))) = step s (WaiterCancel t).
Proof.
  intros s t. unfold step, step_gen. cbn [time_of]. destruct (t <? now s); [reflexivity|].
  unfold set_max_events_gen. rewrite Nat.eqb_refl.
  destruct (negb (window s =? 0) && (length (ring s) =? 0)%nat); reflexivity.
Qed.

(** * Counting form: no window contains more than n admissions *)

Definition in_window (a w x : Z) : bool := (a <=? x) && (x <? a + w).

Lemma filter_none : forall (f : Z -> bool) l, (forall y, In y l -> f y = false) -> filter f l = [].
Proof.
  intros f l. induction l as [|x l IH]; intros H; [reflexivity|]. cbn [filter].
  rewrite (H x (or_introl eq_refl)). apply IH. intros y Hy. apply H. right. exact Hy.
Qed.

Lemma filter_length_le : forall (f : Z -> bool) l, (length (filter f l) <= length l)%nat.
Proof. intros f l. induction l as [|x l IH]; [cbn; lia|]. cbn [filter]. destruct (f x); cbn [length]; lia. Qed.

Lemma window_count : forall (n : nat) (w : Z) (A : list Z), (0 < n)%nat ->
  (forall i j, (i + n <= j < length A)%nat -> nth i A 0 + w <= nth j A 0) ->
  forall a, (length (filter (in_window a w) A) <= n)%nat.
Proof.
  intros n w A Hn. induction A as [|x A IH]; intros H a; [cbn; lia|].
  assert (H' : forall i j, (i + n <= j < length A)%nat -> nth i A 0 + w <= nth j A 0).
  { intros i j Hij. apply (H (S i) (S j)). cbn [length]. lia. }
  cbn [filter]. destruct (in_window a w x) eqn:E; [|apply IH; exact H'].
  unfold in_window in E. apply andb_true_iff in E. destruct E as [E1 E2]. apply Z.leb_le in E1. apply Z.ltb_lt in E2.
  rewrite <- (firstn_skipn (n - 1) A). rewrite filter_app.
  rewrite (filter_none _ (skipn (n - 1) A)).
  - rewrite app_nil_r. cbn [length]. pose proof (filter_length_le (in_window a w) (firstn (n - 1) A)).
    rewrite firstn_length in *. lia.
  - intros y Hy. destruct (In_nth _ _ 0 Hy) as (i & Hi & <-). rewrite skipn_length in Hi.
    rewrite nth_skipn. specialize (H 0%nat (S (n - 1 + i))). cbn [nth length] in H.
    specialize (H ltac:(lia)). unfold in_window. apply andb_false_iff. right. apply Z.ltb_ge. lia.
Qed.

Theorem at_most_n_in_any_window : forall (n : nat) (w t0 : Z) ls s',
  (0 < n)%nat -> stable ls = true -> run (init n w t0) ls = Some s' ->
  forall a, (length (filter (in_window a w) (handovers ls)) <= n)%nat.
Proof.
  intros n w t0 ls s' Hn Hst Hrun a. apply window_count; [exact Hn|].
  intros i j Hij. exact (at_most_n_per_window n w t0 ls s' Hn Hst Hrun i j Hij).
Qed.

(** * What is not true *)

(** the code before the fix: after growing and shrinking back to 3 events / 600, the admission
    at 10606 — whose offer was computed under that configuration — is the fourth within 199 *)
Theorem grow_shrink_forgets_live_stamp_orig_refuted :
  exists ls1 s ls2 s',
    run_orig (init 3 600 10000) ls1 = Some s /\ stable ls2 = true /\ run_orig s ls2 = Some s' /\
    length (ring s) = 3%nat /\ window s = 600 /\
    let A := handovers (ls1 ++ ls2) in
    (length (handovers ls1) + inflight s <= 5)%nat /\ nth 5 A 0 - nth 2 A 0 < 600 /\
    view s = [0; 0; 10600].
Proof.
  exists [Compute 10000; TimerFire 10000; Handover 10000; Rec 10000;
          Compute 10000; TimerFire 10000; Handover 10003; Rec 10003;
          Compute 10003; TimerFire 10003; Handover 10407; Rec 10407;
          Compute 10407; SetMaxEvents 10440 6; TimerFire 10600; Handover 10600; Rec 10600;
          Compute 10600; SetMaxEvents 10601 3].
  eexists.
  exists [TimerFire 10603; Handover 10603; Rec 10603; Compute 10603; TimerFire 10603; Handover 10606; Rec 10606].
  eexists. split; [vm_compute; reflexivity|]. split; [reflexivity|]. split; [vm_compute; reflexivity|].
  vm_compute. repeat split; try lia; discriminate.
Qed.

(** the code as it is: the same history keeps the three newest stamps *)
Example grow_shrink_fixed :
  exists s, run (init 3 600 10000)
         [Compute 10000; TimerFire 10000; Handover 10000; Rec 10000;
          Compute 10000; TimerFire 10000; Handover 10003; Rec 10003;
          Compute 10003; TimerFire 10003; Handover 10407; Rec 10407;
          Compute 10407; SetMaxEvents 10440 6; TimerFire 10600; Handover 10600; Rec 10600;
          Compute 10600; SetMaxEvents 10601 3] = Some s /\ view s = [10003; 10407; 10600].
Proof. eexists. split; vm_compute; reflexivity. Qed.

(** The unconditional reading of "also after the limit has been changed" does not hold, by
    design: (1) an offer computed before the change is honoured after it (SetWindow documents
    this for waiters already blocked); here limit 1 is in force from 10550 and admissions
    happen at 10500 and 10600, window 600. *)
Theorem offer_before_change_is_honoured_refuted :
  exists ls1 s ls2 s',
    run (init 2 600 10000) ls1 = Some s /\ stable ls2 = true /\ run s ls2 = Some s' /\
    length (ring s) = 1%nat /\ window s = 600 /\
    last (handovers ls1) 0 = 10500 /\ handovers ls2 = [10600] /\ inflight s = 1%nat.
Proof.
  exists [Compute 10000; TimerFire 10000; Handover 10000; Rec 10000;
          Compute 10000; TimerFire 10000; Handover 10500; Rec 10500;
          Compute 10500; SetMaxEvents 10550 1].
  eexists. exists [TimerFire 10600; Handover 10600; Rec 10600]. eexists.
  split; [vm_compute; reflexivity|]. split; [reflexivity|]. split; [vm_compute; reflexivity|].
  vm_compute. repeat split.
Qed.

(** (2) lowering the limit forgets the oldest stamps ("the oldest events will be forgotten"),
    so raising it again at once gives room although those events are still inside the window:
    limit 3 / window 600 in force, admissions 10400, 10401, 10600, 10600 — the last one
    computed under that configuration. *)
Theorem shrink_then_grow_forgets_refuted :
  exists ls1 s ls2 s',
    run (init 3 600 10000) ls1 = Some s /\ stable ls2 = true /\ run s ls2 = Some s' /\
    length (ring s) = 3%nat /\ window s = 600 /\
    let A := handovers (ls1 ++ ls2) in
    (length (handovers ls1) + inflight s <= 4)%nat /\ nth 4 A 0 - nth 1 A 0 < 600.
Proof.
  exists [Compute 10000; TimerFire 10000; Handover 10000; Rec 10000;
          Compute 10000; TimerFire 10000; Handover 10400; Rec 10400;
          Compute 10400; TimerFire 10400; Handover 10401; Rec 10401;
          Compute 10401; SetMaxEvents 10450 1; SetMaxEvents 10451 3].
  eexists. exists [TimerFire 10600; Handover 10600; Rec 10600; Compute 10600; TimerFire 10600; Handover 10600; Rec 10600].
  eexists. split; [vm_compute; reflexivity|]. split; [reflexivity|]. split; [vm_compute; reflexivity|].
  vm_compute. repeat split; try lia; discriminate.
Qed.

(** * One limiter per key *)
From CM Require Import Lib.Str.

Lemma klookup_cons_other : forall key k l m, key <> k -> klookup key ((k, l) :: m) = klookup key m.
Proof.
  intros key k l m H. cbn [klookup]. destruct (str_eqb key k) eqn:E; [apply str_eqb_eq in E; contradiction|reflexivity].
Qed.

Lemma klookup_cons_same : forall key l m, klookup key ((key, l) :: m) = Some l.
Proof. intros key l m. cbn [klookup]. replace (str_eqb key key) with true by (symmetry; apply str_eqb_eq; reflexivity). reflexivity. Qed.

Lemma krun_atomic_inv : forall ls s s' evs, krun kstep_atomic s ls = Some (s', evs) ->
  (forall k l, klookup k (kmap s) = Some l -> klookup k (kmap s') = Some l) /\
  (forall k l, In (k, l) evs -> klookup k (kmap s') = Some l).
Proof.
  induction ls as [|lb ls IH]; intros s s' evs H.
  - cbn in H. injection H as <- <-. split; [auto|intros k l []].
  - cbn [krun] in H. destruct (kstep_atomic s lb) as [[s1 ev]|] eqn:E; [|discriminate].
    destruct (krun kstep_atomic s1 ls) as [[s2 evs2]|] eqn:R; [|discriminate]. injection H as <- <-.
    destruct (IH _ _ _ R) as [I1 I2].
    destruct lb as [tid key| |]; try discriminate. cbn [kstep_atomic] in E.
    destruct (klookup key (kmap s)) as [lim|] eqn:L; injection E as <- <-.
    + split; [exact I1|]. intros k l [Q|Q]; [injection Q as <- <-; apply I1; exact L|apply I2; exact Q].
    + split.
      * intros k l Hk. apply I1. cbn [kmap]. rewrite klookup_cons_other; [exact Hk|]. intros ->. congruence.
      * intros k l [Q|Q]; [injection Q as <- <-; apply I1; cbn [kmap]; apply klookup_cons_same|apply I2; exact Q].
Qed.

(** For every interleaving of any number of callers: all callers of one key are handed the
    same limiter (at most one limiter per key is ever in use), because the look-up and the
    insertion are one critical section. *)
Theorem one_limiter_per_key : forall ls s evs, krun kstep_atomic kinit ls = Some (s, evs) ->
  forall k l1 l2, In (k, l1) evs -> In (k, l2) evs -> l1 = l2.
Proof.
  intros ls s evs H k l1 l2 H1 H2. destruct (krun_atomic_inv ls kinit s evs H) as [_ I].
  pose proof (I k l1 H1) as Q1. pose proof (I k l2 H2) as Q2. congruence.
Qed.

(** every caller is served, whatever the interleaving *)
Theorem every_throttle_gets_a_limiter : forall ls s, (forall l, In l ls -> exists t k, l = KThrottle t k) ->
  exists s' evs, krun kstep_atomic s ls = Some (s', evs) /\ length evs = length ls.
Proof.
  induction ls as [|lb ls IH]; intros s H; [exists s, []; split; reflexivity|].
  destruct (H lb (or_introl eq_refl)) as (t & k & ->).
  assert (H' : forall l, In l ls -> exists t k, l = KThrottle t k) by (intros l Hl; apply H; right; exact Hl).
  cbn [krun kstep_atomic]. destruct (klookup k (kmap s)) as [lim|].
  - destruct (IH s H') as (s' & evs & R & Hl). rewrite R. eexists. eexists. split; [reflexivity|]. cbn [length]. lia.
  - destruct (IH (KSt ((k, knext s) :: kmap s) (S (knext s)) (kpend s)) H') as (s' & evs & R & Hl).
    rewrite R. eexists. eexists. split; [reflexivity|]. cbn [length]. lia.
Qed.

(** the split variant: two callers that both miss each create a limiter of their own *)
Theorem split_lookup_insert_two_limiters_refuted :
  exists ls s evs k l1 l2, krun kstep_split kinit ls = Some (s, evs) /\
    In (k, l1) evs /\ In (k, l2) evs /\ l1 <> l2.
Proof.
  exists [KLookup 1 [97%N]; KLookup 2 [97%N]; KInsert 1; KInsert 2]. eexists. eexists. exists [97%N], 0%nat, 1%nat.
  split; [vm_compute; reflexivity|]. split; [left; reflexivity|]. split; [right; left; reflexivity|discriminate].
Qed.

(** what replacing a registered limiter would allow: two throttles of one key, the package
    limits changed in between (limiter 0 is "stale" for the second call), end up on two
    limiters — the second one knows nothing of the first one's admissions *)
Theorem refresh_on_changed_limits_two_limiters_refuted :
  exists ls s evs k l1 l2, krun (kstep_refresh (Nat.eqb 0)) kinit ls = Some (s, evs) /\
    In (k, l1) evs /\ In (k, l2) evs /\ l1 <> l2.
Proof.
  exists [KThrottle 1 [107%N]; KThrottle 2 [107%N]]. eexists. eexists. exists [107%N], 0%nat, 1%nat.
  split; [vm_compute; reflexivity|]. split; [left; reflexivity|]. split; [right; left; reflexivity|discriminate].
Qed.
