(** C17 — model of RingBufferRateLimiter (ratelimiter.go), executable definitions only.

    Times are [Z] nanoseconds on one monotone clock; the zero [time.Time] of an empty ring slot
    is the number 0 (the harness puts its clock origin far enough in the past that every real
    stamp is positive and [0 + window] lies in the past, as Go's year-1 zero time does).

    The limiter is a labelled transition system.  The scheduling goroutine [loop]/[permit] is
    the phase component; the mutex-protected fields are [ring], [cursor], [window].  Every
    label carries the instant at which the step happens; a step is enabled only if that
    instant is not before the current clock ([now]). *)
From Coq Require Import List ZArith Bool Lia.
Import ListNotations.
Open Scope Z_scope.

Inductive phase :=
| Computing                 (* top of [loop]: about to read ring[cursor] + window under the mutex *)
| Sleeping (until : Z)      (* waiting on the timer for the instant [until] *)
| Offering                  (* in [permit], blocked on [r.ticket <- struct{}{}] *)
| Recording (th : Z)        (* a waiter took the ticket at [th]; about to lock and store time.Now() *)
| Dead                      (* loop panicked: maxEvents = 0 and window <> 0 *)
| Stopped.

Record state := St {
  ring : list Z;
  cursor : nat;
  window : Z;
  ph : phase;
  now : Z
}.

Inductive label :=
| Compute (t : Z)
| TimerFire (t : Z)
| Handover (t : Z)             (* one admission: Wait returns nil / Allow returns true *)
| Rec (t : Z)                  (* permit: r.ring[r.cursor] = time.Now(); r.advance() *)
| SetMaxEvents (t : Z) (n : nat)
| SetWindow (t : Z) (w : Z)
| WaiterCancel (t : Z)         (* Wait returns context.Canceled *)
| AllowFail (t : Z)            (* Allow returns false *)
| Stop (t : Z).

Definition time_of (l : label) : Z :=
  match l with
  | Compute t | TimerFire t | Handover t | Rec t | SetMaxEvents t _ | SetWindow t _
  | WaiterCancel t | AllowFail t | Stop t => t
  end.

(** [r.advance()]: cursor++; if cursor >= len(ring) { cursor = 0 } *)
Definition advance (len c : nat) : nat := if (S c <? len)%nat then S c else 0%nat.

Fixpoint iter {A} (n : nat) (f : A -> A) (x : A) : A :=
  match n with O => x | S k => iter k f (f x) end.

Fixpoint set_nth (i : nat) (v : Z) (l : list Z) : list Z :=
  match l, i with
  | [], _ => []
  | _ :: r, O => v :: r
  | x :: r, S k => x :: set_nth k v r
  end.

(** the copy loop of SetMaxEvents:
    for i := 0; i < len(newRing); i++ { newRing[i] = ring[cursor]; advance(); if cursor == start { break } }
    returns the copied values in order and whether the loop left through the [break] *)
Fixpoint copy_loop (k : nat) (old : list Z) (start c : nat) : list Z * bool :=
  match k with
  | O => ([], false)
  | S k' =>
      let v := nth c old 0 in
      let c' := advance (length old) c in
      if (c' =? start)%nat then ([v], true)
      else let (vs, b) := copy_loop k' old start c' in (v :: vs, b)
  end.

(** body of SetMaxEvents after the two early exits; [fixed] selects the repaired cursor
    assignment (cursor = number of copied stamps after coming full circle, i.e. the first
    empty slot) or the original one (cursor = 0) *)
Definition resize_gen (fixed : bool) (n : nat) (rg : list Z) (c : nat) : list Z * nat :=
  let c1 := iter (length rg - n) (advance (length rg)) c in
  match rg with
  | [] => (repeat 0 n, 0%nat)
  | _ =>
      let (vs, full) := copy_loop n rg c1 c1 in
      (vs ++ repeat 0 (n - length vs), if fixed && full then length vs else 0%nat)
  end.

Definition set_max_events_gen (fixed : bool) (n : nat) (s : state) : state :=
  if (negb (window s =? 0)) && (n =? 0)%nat then s            (* panics, nothing changed *)
  else if (n =? length (ring s))%nat then s
  else let (r', c') := resize_gen fixed n (ring s) (cursor s) in
       St r' c' (window s) (ph s) (now s).

Definition set_window (w : Z) (s : state) : state :=
  if (negb (w =? 0)) && (length (ring s) =? 0)%nat then s     (* panics, nothing changed *)
  else St (ring s) (cursor s) w (ph s) (now s).

Definition with_ph (s : state) (p : phase) (t : Z) : state :=
  St (ring s) (cursor s) (window s) p t.

Definition record (t : Z) (s : state) : state :=
  match ring s with
  | [] => with_ph s Computing t
  | _ => St (set_nth (cursor s) t (ring s)) (advance (length (ring s)) (cursor s)) (window s) Computing t
  end.

Definition step_gen (fixed : bool) (s : state) (l : label) : option state :=
  if time_of l <? now s then None else
  match l, ph s with
  | Compute t, Computing =>
      match ring s with
      | [] => Some (with_ph s (if window s =? 0 then Offering else Dead) t)
      | _ => Some (with_ph s (Sleeping (nth (cursor s) (ring s) 0 + window s)) t)
      end
  | TimerFire t, Sleeping u => if u <=? t then Some (with_ph s Offering t) else None
  | Handover t, Offering => Some (with_ph s (Recording t) t)
  | Rec t, Recording _ => Some (record t s)
  | SetMaxEvents t n, _ => let s' := set_max_events_gen fixed n s in Some (with_ph s' (ph s') t)
  | SetWindow t w, _ => let s' := set_window w s in Some (with_ph s' (ph s') t)
  | WaiterCancel t, _ => Some (with_ph s (ph s) t)
  | AllowFail t, Offering => None
  | AllowFail t, _ => Some (with_ph s (ph s) t)
  | Stop t, Recording _ => None
  | Stop t, _ => Some (with_ph s Stopped t)
  | _, _ => None
  end.

(** the code as it is (with the fix) and as it was *)
Definition step := step_gen true.
Definition step_orig := step_gen false.

Fixpoint run_gen (fixed : bool) (s : state) (ls : list label) : option state :=
  match ls with
  | [] => Some s
  | l :: r => match step_gen fixed s l with Some s' => run_gen fixed s' r | None => None end
  end.
Definition run := run_gen true.
Definition run_orig := run_gen false.

(** NewRateLimiter(n, w) at instant t0 *)
Definition init (n : nat) (w t0 : Z) : state := St (repeat 0 n) 0%nat w Computing t0.

(** the ring read from the cursor round: oldest slot first *)
Definition view (s : state) : list Z := skipn (cursor s) (ring s) ++ firstn (cursor s) (ring s).

(** the admissions of a run and the stamps it stored *)
Fixpoint handovers (ls : list label) : list Z :=
  match ls with
  | [] => []
  | Handover t :: r => t :: handovers r
  | _ :: r => handovers r
  end.
Fixpoint records (ls : list label) : list Z :=
  match ls with
  | [] => []
  | Rec t :: r => t :: records r
  | _ :: r => records r
  end.

Definition is_config (l : label) : bool :=
  match l with SetMaxEvents _ _ | SetWindow _ _ => true | _ => false end.
(** no reconfiguration in this part of the run *)
Definition stable (ls : list label) : bool := forallb (fun l => negb (is_config l)) ls.

(** what the limiter remembers when the next offer is computed: the view, minus the slot a
    pending [Rec] is about to overwrite *)
Definition mem (s : state) : list Z :=
  match ph s with Recording _ => tl (view s) | _ => view s end.
(** number of coming admissions whose offer was computed before this state *)
Definition inflight (s : state) : nat :=
  match ph s with Sleeping _ | Offering => 1%nat | _ => 0%nat end.

(** keep the newest [n] entries of a view, padding with empty slots in front *)
Definition keep_newest (n : nat) (v : list Z) : list Z :=
  repeat 0 (n - length v) ++ skipn (length v - n) v.

(** well-formedness: the cursor is inside the ring (or the ring is empty) *)
Definition wf (s : state) : Prop :=
  (cursor s < length (ring s))%nat \/ (ring s = [] /\ cursor s = 0%nat).
Definition wfb (s : state) : bool :=
  (cursor s <? length (ring s))%nat || ((length (ring s) =? 0)%nat && (cursor s =? 0)%nat).

(** * The keyed limiter map of acmeClient.throttle (acmeclient.go)

    [rateLimiters] maps "directory,email" to a limiter.  In the code the look-up and the
    insertion of a new limiter are one critical section of rateLimitersMu: label [KThrottle].
    The variant in which they are two sections (look up under one lock, insert under another
    without looking again) is [kstep_split] with labels [KLookup] / [KInsert]; it is here only
    to say what goes wrong when the section is split.  Limiters are numbered in the order of
    their creation; every step that hands a caller its limiter emits (key, limiter). *)
From CM Require Import Lib.Str.

Record kstate := KSt {
  kmap : list (str * nat);          (* newest entry first: a later insert shadows an older one *)
  knext : nat;
  kpend : list (nat * str)          (* split variant: callers that looked up and missed *)
}.
Definition kinit : kstate := KSt [] 0 [].

Inductive klabel :=
| KThrottle (tid : nat) (key : str)
| KLookup (tid : nat) (key : str)
| KInsert (tid : nat).

Fixpoint klookup (key : str) (m : list (str * nat)) : option nat :=
  match m with
  | [] => None
  | (k, l) :: r => if str_eqb key k then Some l else klookup key r
  end.

Definition kstep_atomic (s : kstate) (l : klabel) : option (kstate * option (str * nat)) :=
  match l with
  | KThrottle _ key =>
      match klookup key (kmap s) with
      | Some lim => Some (s, Some (key, lim))
      | None => Some (KSt ((key, knext s) :: kmap s) (S (knext s)) (kpend s), Some (key, knext s))
      end
  | _ => None
  end.

(** variant (not the code): a throttle that finds the key's limiter "stale" — created under other
    values of the package variables RateLimitEvents / RateLimitEventsWindow — registers a fresh
    one under the same key.  Only to state what goes wrong: the key's admission history is lost. *)
Definition kstep_refresh (stale : nat -> bool) (s : kstate) (l : klabel) : option (kstate * option (str * nat)) :=
  match l with
  | KThrottle _ key =>
      match klookup key (kmap s) with
      | Some lim =>
          if stale lim then Some (KSt ((key, knext s) :: kmap s) (S (knext s)) (kpend s), Some (key, knext s))
          else Some (s, Some (key, lim))
      | None => Some (KSt ((key, knext s) :: kmap s) (S (knext s)) (kpend s), Some (key, knext s))
      end
  | _ => None
  end.

Fixpoint take_pend (tid : nat) (p : list (nat * str)) : option (str * list (nat * str)) :=
  match p with
  | [] => None
  | (t, k) :: r => if (t =? tid)%nat then Some (k, r)
                   else match take_pend tid r with Some (k', r') => Some (k', (t, k) :: r') | None => None end
  end.

Definition kstep_split (s : kstate) (l : klabel) : option (kstate * option (str * nat)) :=
  match l with
  | KLookup tid key =>
      match klookup key (kmap s) with
      | Some lim => Some (s, Some (key, lim))
      | None => Some (KSt (kmap s) (knext s) ((tid, key) :: kpend s), None)
      end
  | KInsert tid =>
      match take_pend tid (kpend s) with
      | Some (key, p) => Some (KSt ((key, knext s) :: kmap s) (S (knext s)) p, Some (key, knext s))
      | None => None
      end
  | KThrottle _ _ => None
  end.

Fixpoint krun (step : kstate -> klabel -> option (kstate * option (str * nat)))
         (s : kstate) (ls : list klabel) : option (kstate * list (str * nat)) :=
  match ls with
  | [] => Some (s, [])
  | l :: r =>
      match step s l with
      | None => None
      | Some (s', ev) =>
          match krun step s' r with
          | None => None
          | Some (s'', evs) => Some (s'', match ev with Some e => e :: evs | None => evs end)
          end
      end
  end.

(** the limiters handed out for [key], without repetition *)
Fixpoint limiters_of (key : str) (evs : list (str * nat)) : list nat :=
  match evs with
  | [] => []
  | (k, l) :: r =>
      let rest := limiters_of key r in
      if str_eqb key k && negb (existsb (Nat.eqb l) rest) then l :: rest else rest
  end.
